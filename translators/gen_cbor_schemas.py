#!/usr/bin/env python3
"""T4 (C17 part): #[derive(CborSerialize, CborDeserialize)] types  ->  coq/Gen/CborSchemas.v

usage: gen_cbor_schemas.py [REPO_DIR] [OUT_FILE]

Reads rust-src/concordium_base/src/protocol_level_tokens/*.rs and common/cbor/composites.rs (test modules cut
off), finds every struct/enum deriving CborSerialize + CborDeserialize and translates its declaration with the
attributes cbor(key = .., tag = .., peek_tag = .., map, tagged, transparent, other) into a `schema` term of
coq/Cbor/CborSchema.v, exactly as concordium_base_derive/src/cbor.rs interprets them:

  struct with named fields  -> SStruct [(key, schema of the field type); ...] (catch-all kind of the cbor(other) field)
                               key = cbor(key) literal/constant (integer -> KPos, string -> KText) or camelCase name
  tuple struct              -> STuple [...]          transparent -> the schema of the single field
  cbor(tag = T) on the item -> STag T (...)
  enum + cbor(map)          -> SEnumMap [(camelCase variant name, payload); ...] (has cbor(other) variant)
  enum + cbor(tagged)       -> SEnumTagged [(tag, true | false for peek_tag, payload); ...] (untagged variant) (other)

Field types: u8..u64/usize, i8..i64, bool, String, Bytes, Memo, AccountAddress, Hash, value::Value, Option<T>,
Vec<T>, CborUpward<T>/CborMaybeKnown<T>, HashMap<String|MapKey, Value> (only on a cbor(other) field), other derived
types by name, and the two hand-written impls (TokenAmount, CoinInfo) whose checks live in `refinement`.
Anything else raises TranslateError: a broken tie is reported loudly by the check, never defaulted.

The generated file defines `g_<Type>` per type and `gen_schemas : list (string * schema)`;
Props/C17.v proves that these equal the hand-written terms of Cbor/TokenSchemas.v."""
import glob
import os
import re
import sys


class TranslateError(Exception):
    pass


PRIM = {"u8": "(SUInt 8)", "u16": "(SUInt 16)", "u32": "(SUInt 32)", "u64": "(SUInt 64)", "usize": "(SUInt 64)",
        "i8": "(SInt 8)", "i16": "(SInt 16)", "i32": "(SInt 32)", "i64": "(SInt 64)", "isize": "(SInt 64)",
        "bool": "SBool", "String": "SText", "Bytes": "SBytes", "Memo": "SBytes",
        "AccountAddress": "(SBytesN 32)", "Hash": "(SBytesN 32)", "Value": "SValue"}
# hand-written CborSerialize/CborDeserialize impls that the schema language covers by a refinement
MANUAL = {"TokenAmount": ("(SRefine RDecimals g_UnsignedDecimalFraction)", ["UnsignedDecimalFraction"]),
          "CoinInfo": ("(SRefine RCoinInfo g_CoinInfoCbor)", ["CoinInfoCbor"])}
# manual impls that are primitives of the language (their code is modelled in CborSchema.v / diffed)
MANUAL_PRIM = {"Memo", "AccountAddress", "Hash", "CborUpward", "CborMaybeKnown"}
HELPERS = {"CoinInfoCbor"}          # private carrier types, not in the table


def strip_comments(src):
    out, i, n = [], 0, len(src)
    while i < n:
        c = src[i]
        if c == '"':
            j = i + 1
            while j < n and src[j] != '"':
                j += 2 if src[j] == "\\" else 1
            out.append(src[i:j + 1]); i = j + 1
        elif src.startswith("//", i):
            while i < n and src[i] != "\n":
                i += 1
        elif src.startswith("/*", i):
            j = src.find("*/", i + 2)
            i = n if j < 0 else j + 2
        else:
            out.append(c); i += 1
    return "".join(out)


def balanced(src, i, open_c, close_c):
    """src[i] == open_c; returns index just after the matching close_c (strings respected)"""
    assert src[i] == open_c, (src[i:i + 20], open_c)
    depth, n = 0, len(src)
    while i < n:
        c = src[i]
        if c == '"':
            i += 1
            while i < n and src[i] != '"':
                i += 2 if src[i] == "\\" else 1
        elif c == open_c:
            depth += 1
        elif c == close_c:
            depth -= 1
            if depth == 0:
                return i + 1
        i += 1
    raise TranslateError("unbalanced %s" % open_c)


def split_top(s, sep=","):
    parts, depth, cur, i, n = [], 0, [], 0, len(s)
    while i < n:
        c = s[i]
        if c == '"':
            j = i + 1
            while j < n and s[j] != '"':
                j += 2 if s[j] == "\\" else 1
            cur.append(s[i:j + 1]); i = j + 1; continue
        if c in "([{<":
            depth += 1
        elif c in ")]}>":
            depth -= 1
        if c == sep and depth == 0:
            parts.append("".join(cur)); cur = []
        else:
            cur.append(c)
        i += 1
    if "".join(cur).strip():
        parts.append("".join(cur))
    return [p.strip() for p in parts]


def leading_attrs(s):
    """split `#[..] #[..] rest` into ([attr bodies], rest)"""
    attrs = []
    s = s.lstrip()
    while s.startswith("#["):
        j = balanced(s, 1, "[", "]")
        attrs.append(s[2:j - 1].strip())
        s = s[j:].lstrip()
    return attrs, s


def cbor_opts(attrs, where):
    """the cbor(...) options among attributes -> dict"""
    opts = {}
    for a in attrs:
        if re.match(r"cfg_attr\b", a) and re.search(r"\bcbor\s*\(", a):
            raise TranslateError("%s: conditional cbor attribute is not supported: %s" % (where, a))
        m = re.fullmatch(r"cbor\s*\((.*)\)", a, flags=re.S)
        if not m:
            continue
        for item in split_top(m.group(1)):
            kv = re.fullmatch(r"(\w+)\s*(?:=\s*(.+))?", item, flags=re.S)
            if not kv:
                raise TranslateError("%s: cannot parse cbor option %r" % (where, item))
            k, v = kv.group(1), kv.group(2)
            if k not in ("key", "tag", "peek_tag", "map", "tagged", "transparent", "other"):
                raise TranslateError("%s: unknown cbor option %r" % (where, k))
            if k in opts:
                raise TranslateError("%s: duplicate cbor option %r" % (where, k))
            opts[k] = v.strip() if v is not None else True
    return opts


def derives(attrs):
    names = set()
    for a in attrs:
        m = re.fullmatch(r"derive\s*\((.*)\)", a, flags=re.S)
        if m:
            names |= {x.split("::")[-1].strip() for x in m.group(1).split(",") if x.strip()}
    return names


def camel_field(name):
    parts = [p for p in name.split("_") if p]
    if not parts or not all(re.fullmatch(r"[a-z0-9]+", p) for p in parts):
        raise TranslateError("field name %r is not plain snake_case" % name)
    return parts[0] + "".join(p[0].upper() + p[1:] for p in parts[1:])


def camel_variant(name):
    if not re.fullmatch(r"(?:[A-Z][a-z0-9]+)+", name):
        raise TranslateError("variant name %r is not plain PascalCase (convert_case would split it differently)" % name)
    return name[0].lower() + name[1:]


class Translator:
    def __init__(self, repo):
        base = os.path.join(repo, "rust-src", "concordium_base", "src")
        files = sorted(glob.glob(os.path.join(base, "protocol_level_tokens", "*.rs")))
        files.append(os.path.join(base, "common", "cbor", "composites.rs"))
        if len(files) < 5:
            raise TranslateError("source files not found under %s" % base)
        self.consts = {}
        self.items = {}        # name -> (kind, attrs, body, file)
        self.manual_impls = set()
        self.sources = {}
        for f in files:
            src = strip_comments(open(f).read())
            cut = src.find("#[cfg(test)]")
            if cut >= 0:
                src = src[:cut]
            self.sources[os.path.basename(f)] = src
            for m in re.finditer(r"\bconst\s+([A-Z][A-Z0-9_]*)\s*:\s*(u64|usize|u32|u8)\s*=\s*([0-9][0-9_]*)\s*;", src):
                if m.group(1) in self.consts and self.consts[m.group(1)] != int(m.group(3).replace("_", "")):
                    raise TranslateError("constant %s defined twice with different values" % m.group(1))
                self.consts[m.group(1)] = int(m.group(3).replace("_", ""))
            for m in re.finditer(r"\bimpl\s*(?:<[^>]*>)?\s*CborDeserialize\s+for\s+([A-Za-z_][A-Za-z0-9_]*)", src):
                self.manual_impls.add(m.group(1))
            self.scan_items(src, os.path.basename(f))
        self.done = {}
        self.order = []

    def scan_items(self, src, fname):
        i = 0
        while True:
            m = re.compile(r"#\[").search(src, i)
            if not m:
                break
            attrs, rest = leading_attrs(src[m.start():])
            consumed = len(src) - m.start() - len(rest)
            pos = m.start() + consumed
            hm = re.match(r"(?:pub(?:\s*\([^)]*\))?\s+)?(struct|enum)\s+([A-Za-z_]\w*)\s*(<[^>{(;]*>)?\s*([({;])", src[pos:])
            if not hm:
                i = m.start() + 2
                continue
            kind, name, generics, opener = hm.group(1), hm.group(2), hm.group(3), hm.group(4)
            ds = derives(attrs)
            start = pos + hm.end() - 1
            if opener == ";":
                body, end = "", start + 1
            else:
                end = balanced(src, start, opener, {"(": ")", "{": "}"}[opener])
                body = src[start + 1:end - 1]
            i = end
            has = {"CborSerialize", "CborDeserialize"} & ds
            if not has:
                continue
            if len(has) != 2:
                raise TranslateError("%s: %s derives only %s" % (fname, name, sorted(has)))
            if generics:
                raise TranslateError("%s: generic type %s is not supported" % (fname, name))
            if name in self.items:
                raise TranslateError("type %s declared twice" % name)
            self.items[name] = (kind, attrs, body, opener, fname)

    # ------------------------------------------------------------------ values of attribute expressions
    def number(self, e, where):
        e = e.strip()
        if re.fullmatch(r"[0-9][0-9_]*(u64)?", e):
            return int(e.replace("_", "").replace("u64", ""))
        if e in self.consts:
            return self.consts[e]
        raise TranslateError("%s: cannot evaluate %r (not a literal or a known constant)" % (where, e))

    def key(self, e, where):
        e = e.strip()
        m = re.fullmatch(r'"([A-Za-z0-9_\-]*)"', e)
        if m:
            return '(KText "%s")' % m.group(1)
        return "(KPos %d)" % self.number(e, where)

    # ------------------------------------------------------------------ types
    def ty(self, t, where):
        t = re.sub(r"\s+", "", t)
        m = re.fullmatch(r"((?:\w+::)*)(\w+)(?:<(.*)>)?", t)
        if not m:
            raise TranslateError("%s: cannot parse type %r" % (where, t))
        name, args = m.group(2), split_top(m.group(3)) if m.group(3) else []
        if name == "Option" and len(args) == 1:
            return "(SOption %s)" % self.ty(args[0], where)
        if name == "Vec" and len(args) == 1:
            return "(SVec %s)" % self.ty(args[0], where)
        if name in ("CborUpward", "CborMaybeKnown") and len(args) == 1:
            return "(SMaybeKnown %s)" % self.ty(args[0], where)
        if args:
            raise TranslateError("%s: unsupported generic type %r" % (where, t))
        if name in PRIM:
            return PRIM[name]
        if name in MANUAL:
            for dep in MANUAL[name][1]:
                self.item(dep)
            self.manual_used.add(name)
            return MANUAL[name][0]
        if name in self.items:
            self.item(name)
            return "g_" + name
        raise TranslateError("%s: unknown type %r" % (where, t))

    def other_kind(self, t, where):
        t = re.sub(r"\s+", "", t)
        m = re.fullmatch(r"(?:\w+::)*HashMap<(?:\w+::)*(String|MapKey),(?:\w+::)*Value>", t)
        if not m:
            raise TranslateError("%s: a cbor(other) field must be HashMap<String|MapKey, Value>, found %r" % (where, t))
        return "(Some OString)" if m.group(1) == "String" else "(Some OMapKey)"

    # ------------------------------------------------------------------ items
    def item(self, name):
        if name in self.done:
            return
        if name in self.visiting:
            raise TranslateError("recursive type %s" % name)
        if name not in self.items:
            raise TranslateError("type %s is not a derived type" % name)
        self.visiting.add(name)
        kind, attrs, body, opener, fname = self.items[name]
        where = "%s:%s" % (fname, name)
        opts = cbor_opts(attrs, where)
        term = self.struct(body, opener, opts, where) if kind == "struct" else self.enum(body, opts, where)
        if "tag" in opts:
            if kind == "enum":
                # derive: `deserialize` of an enum does not consume an item-level tag (only deserialize_maybe_known does)
                raise TranslateError("%s: cbor(tag) on an enum is not supported by the model" % where)
            term = "(STag %d %s)" % (self.number(opts["tag"], where), term)
        self.visiting.discard(name)
        self.done[name] = term
        self.order.append(name)

    def struct(self, body, opener, opts, where):
        for bad in ("map", "tagged", "key", "other", "peek_tag"):
            if bad in opts:
                raise TranslateError("%s: cbor(%s) is not valid on a struct" % (where, bad))
        fields = []
        for part in split_top(body):
            fattrs, rest = leading_attrs(part)
            fo = cbor_opts(fattrs, where)
            rest = re.sub(r"^pub(?:\s*\([^)]*\))?\s+", "", rest.strip())
            if opener == "{":
                m = re.fullmatch(r"(\w+)\s*:\s*(.+)", rest, flags=re.S)
                if not m:
                    raise TranslateError("%s: cannot parse field %r" % (where, part))
                fields.append((m.group(1), m.group(2), fo))
            else:
                fields.append((None, rest, fo))
        for _, _, fo in fields:
            for bad in ("tag", "peek_tag", "map", "tagged", "transparent"):
                if bad in fo:
                    raise TranslateError("%s: cbor(%s) is not valid on a field" % (where, bad))
        normal = [f for f in fields if "other" not in f[2]]
        others = [f for f in fields if "other" in f[2]]
        if len(others) > 1:
            raise TranslateError("%s: more than one cbor(other) field" % where)
        if "transparent" in opts:
            if len(normal) != 1 or others:
                raise TranslateError("%s: cbor(transparent) needs exactly one field" % where)
            return self.ty(normal[0][1], where)
        if opener == "(":
            if others or any("key" in f[2] for f in fields):
                raise TranslateError("%s: cbor(key)/cbor(other) on a tuple struct" % where)
            return "(STuple [%s])" % "; ".join(self.ty(f[1], where) for f in normal)
        entries = []
        for fname, fty, fo in normal:
            k = self.key(fo["key"], where) if "key" in fo else '(KText "%s")' % camel_field(fname)
            entries.append("(%s, %s)" % (k, self.ty(fty, where)))
        other = self.other_kind(others[0][1], where) if others else "None"
        return "(SStruct [%s] %s)" % ("; ".join(entries), other)

    def enum(self, body, opts, where):
        if "transparent" in opts:
            raise TranslateError("%s: cbor(transparent) on an enum" % where)
        if ("map" in opts) == ("tagged" in opts):
            raise TranslateError("%s: exactly one of cbor(map) / cbor(tagged) is needed on an enum" % where)
        variants = []
        for part in split_top(body):
            vattrs, rest = leading_attrs(part)
            vo = cbor_opts(vattrs, where)
            m = re.fullmatch(r"(\w+)\s*\((.*)\)", rest.strip(), flags=re.S)
            if not m:
                raise TranslateError("%s: variant %r is not a tuple variant" % (where, rest.strip()[:40]))
            variants.append((m.group(1), split_top(m.group(2)), vo))
        n_other = sum(1 for v in variants if "other" in v[2])
        if n_other > 1:
            raise TranslateError("%s: more than one cbor(other) variant" % where)
        has_other = "true" if n_other else "false"
        if "map" in opts:
            vs = []
            for vname, vtys, vo in variants:
                if "other" in vo:
                    continue
                if "tag" in vo or "peek_tag" in vo or "key" in vo:
                    raise TranslateError("%s: cbor(tag/key) on a variant of a map enum" % where)
                if len(vtys) != 1:
                    raise TranslateError("%s: variant %s must have exactly one field" % (where, vname))
                vs.append('("%s", %s)' % (camel_variant(vname), self.ty(vtys[0], where)))
            return "(SEnumMap [%s] %s)" % ("; ".join(vs), has_other)
        tagged, untagged = [], []
        for vname, vtys, vo in variants:
            if "other" in vo:
                if "tag" in vo or "peek_tag" in vo:
                    raise TranslateError("%s: cbor(tag) together with cbor(other)" % where)
                continue
            if len(vtys) != 1:
                raise TranslateError("%s: variant %s must have exactly one field" % (where, vname))
            if "tag" in vo and "peek_tag" in vo:
                raise TranslateError("%s: both cbor(tag) and cbor(peek_tag) on %s" % (where, vname))
            s = self.ty(vtys[0], where)
            if "tag" in vo:
                tagged.append("(%d, true, %s)" % (self.number(vo["tag"], where), s))
            elif "peek_tag" in vo:
                tagged.append("(%d, false, %s)" % (self.number(vo["peek_tag"], where), s))
            else:
                untagged.append(s)
        if len(untagged) > 1:
            raise TranslateError("%s: more than one untagged variant" % where)
        return "(SEnumTagged [%s] %s %s)" % ("; ".join(tagged), "(Some %s)" % untagged[0] if untagged else "None", has_other)

    # ------------------------------------------------------------------ checks on the hand-written impls
    def check_manual(self):
        unknown = self.manual_impls - set(MANUAL) - MANUAL_PRIM
        if unknown:
            raise TranslateError("hand-written CborDeserialize impls without a model: %s" % sorted(unknown))
        if self.consts.get("CONCORDIUM_SLIP_0044_CODE") != 919:
            raise TranslateError("CONCORDIUM_SLIP_0044_CODE is not 919 (refinement RCoinInfo of CborSchema.v)")
        th = self.sources["token_holder.rs"]
        if not re.search(r"CoinInfoCbor\s*::\s*deserialize", th) or not re.search(r"CONCORDIUM_SLIP_0044_CODE\s*=>\s*CoinInfo::CCD", th):
            raise TranslateError("CoinInfo's hand-written impl no longer has the modelled shape")
        ta = self.sources["token_amount.rs"]
        need = [r"UnsignedDecimalFraction\s*::\s*deserialize", r"\.exponent\(\)\s*\.checked_neg\(\)\s*\.and_then\(\|val\|\s*u8::try_from\(val\)\.ok\(\)\)",
                r"UnsignedDecimalFraction\s*::\s*new\(\s*i64::from\(self\.decimals\)\s*\.checked_neg\(\)", r"decimal_fraction\.mantissa\(\)"]
        for pat in need:
            if not re.search(pat, ta):
                raise TranslateError("TokenAmount's hand-written impl no longer has the modelled shape (missing /%s/)" % pat)

    def run(self):
        self.visiting = set()
        self.manual_used = set()
        for name in sorted(self.items):
            self.item(name)
        for name in MANUAL:
            for dep in MANUAL[name][1]:
                self.item(dep)
        self.check_manual()
        return self


def render(tr):
    lines = ["(** GENERATED by translators/gen_cbor_schemas.py from the Rust declarations - do not edit.",
             "    One schema term per #[derive(CborSerialize, CborDeserialize)] type of protocol_level_tokens/*.rs and",
             "    common/cbor/composites.rs; Props/C17.v proves they equal the hand-written Cbor/TokenSchemas.v. *)",
             "From Coq Require Import NArith List String.", "From CB Require Import Cbor.CborCore Cbor.CborSchema.",
             "Import ListNotations.", "Local Open Scope N_scope.", "Local Open Scope string_scope.", ""]
    for name in tr.order:
        lines.append("Definition g_%s : schema := %s." % (name, tr.done[name]))
    table = [(n, "g_" + n) for n in tr.order if n not in HELPERS] + [(n, MANUAL[n][0]) for n in sorted(MANUAL)]
    table.sort()
    lines.append("")
    lines.append("Definition gen_schemas : list (string * schema) :=\n  [%s]." % ";\n   ".join('("%s", %s)' % (n, t) for n, t in table))
    return "\n".join(lines) + "\n"


def generate(repo, out):
    tr = Translator(repo).run()
    text = render(tr)
    os.makedirs(os.path.dirname(out), exist_ok=True)
    if not os.path.exists(out) or open(out).read() != text:
        open(out, "w").write(text)
    return {"types": len(tr.order), "constants": {k: v for k, v in tr.consts.items() if k.endswith("_TAG") or k.endswith("_CODE")},
            "manual_impls_seen": sorted(tr.manual_impls)}


if __name__ == "__main__":
    repo = sys.argv[1] if len(sys.argv) > 1 else os.environ.get("VERIF_REPO", "/repo")
    out = sys.argv[2] if len(sys.argv) > 2 else os.path.join(os.path.dirname(os.path.dirname(os.path.abspath(__file__))), "coq", "Gen", "CborSchemas.v")
    print(generate(repo, out))
