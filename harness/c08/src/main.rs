//! C08 harness: the real identity pipeline (generate_pio -> validate_request -> sign -> create_credential ->
//! verify_cdi), anonymity revocation over revoker subsets, the single-field perturbation stream, and the
//! data for the sharing / counter-boundary correspondence with the Coq model.
//!
//! Configuration choices derive from the seed; the provers inside the library draw from `thread_rng`
//! (generate_pio, create_credential), which cannot be seeded from outside.
#![allow(deprecated)]
#![allow(clippy::too_many_arguments)]
use concordium_base::{
    bulletproofs::range_proof::{self, prove_less_than_or_equal, verify_less_than_or_equal, RangeProof},
    common::{
        from_bytes, to_bytes,
        types::{KeyIndex, KeyPair, TransactionTime},
        Deserial,
    },
    curve_arithmetic::{Curve, Field, Value},
    elgamal::{self, BabyStepGiantStep, ChunkSize, Cipher, Message, PublicKey as ElgPublicKey, SecretKey as ElgSecretKey},
    id::{
        account_holder::*,
        anonymity_revoker::*,
        chain::*,
        constants::{ArCurve, AttributeKind, BaseField, IpPairing},
        id_proof_types::ProofVersion,
        identity_provider::*,
        secret_sharing::{self, Threshold},
        test::{test_create_id_use_data, test_create_ip_info},
        types::*,
    },
    pedersen_commitment::{Commitment, Randomness as PedRandomness},
    random_oracle::RandomOracle,
    sigma_protocols::{com_enc_eq, com_eq_sig, com_mult},
};
use either::Either::{self, Left, Right};
use hlib::{guarded, hex, quiet_panics, unhex, Rng};
use rand::{rngs::StdRng, SeedableRng};
use serde_json::{json, Value as J};
use std::collections::BTreeMap;
use std::sync::Arc;

type Fr = <ArCurve as Curve>::Scalar;
type Cdi = CredentialDeploymentInfo<IpPairing, ArCurve, AttributeKind>;
type AList = AttributeList<BaseField, AttributeKind>;
type ArMap = BTreeMap<ArIdentity, ArInfo<ArCurve>>;
type NoE = Either<TransactionTime, AccountAddress>;

const EXPIRY: TransactionTime = TransactionTime { seconds: 111111111111111111 };

fn sc_hex(x: &Fr) -> String { hex(&to_bytes(x)) }
fn pt_hex(x: &ArCurve) -> String { hex(&to_bytes(x)) }
fn de<T: Deserial>(b: &[u8]) -> Option<T> {
    let mut c = std::io::Cursor::new(b);
    let v: T = from_bytes(&mut c).ok()?;
    if c.position() as usize != b.len() { return None; }
    Some(v)
}
fn out(v: J) { println!("{}", v); }

// ---------------------------------------------------------------------------------------------
// configurations

#[derive(Clone, Debug)]
struct Cfg {
    idx: usize,
    n: u8,
    t: u8,
    v1: bool,
    ids: Vec<u32>,
    max_accounts: u8,
    attrs: Vec<(u8, u64)>,
    revealed: Vec<u8>,
    pert: u8,      // 0 none, 1 reduced, 2 full
    prf: bool,     // decrypt the PRF key shares (slow: discrete logs)
    extra_ar: bool, // the chain knows one more revoker than the credential uses
    holder_superset: bool, // the credential-creation context knows MORE revokers than were chosen at issuance
    provider_superset: bool, // the identity provider supports MORE revokers than the holder chose
    extra_ids: Vec<u32>, // supported-but-not-chosen revokers; placed so that the chosen set is NOT a prefix in id order
    nkeys: u8,
    bad_threshold: bool, // threshold = n + 1: the provider must refuse
}

fn gen_ids(r: &mut Rng, n: u8, contiguous: bool) -> Vec<u32> {
    if contiguous { return (1..=n as u32).collect(); }
    let mut ids = std::collections::BTreeSet::new();
    while ids.len() < n as usize {
        let x = match r.below(5) {
            0 => r.range(1, 40) as u32,
            1 => u32::MAX - r.below(3) as u32,
            2 => (1u32 << r.below(32)) as u32,
            3 => r.range(1, 300) as u32,
            _ => (r.next() as u32).max(1),
        };
        if x != 0 { ids.insert(x); }
    }
    ids.into_iter().collect()
}

fn configs(seed: u64, thorough: bool) -> Vec<Cfg> {
    let mut r = Rng::new(seed ^ 0xC08);
    let mut v = Vec::new();
    let maxes: [u8; 8] = [0, 1, 2, 3, 200, 254, 255, 237];
    let push = |r: &mut Rng, n: u8, t: u8, v1: bool, pert: u8, prf: bool, bad: bool, v: &mut Vec<Cfg>| {
        let idx = v.len();
        let contiguous = r.below(4) == 0;
        // n chosen + 2 other identities; the others are never exactly the two largest, so the chosen set is
        // not a prefix (in id order) of the union: first omitted / gaps / only the largest ids chosen
        let all = gen_ids(r, n + 2, contiguous);
        let tot = all.len();
        let ex: (usize, usize) = match idx % 3 {
            0 => (0, 1),                                              // chosen = the largest ids
            1 => (if tot > 2 { 1 } else { 0 }, tot - 1),               // a gap after the first id
            _ => loop { let a = r.below(tot as u64) as usize; let b = r.below(tot as u64) as usize;
                        if a < b && !(a == tot - 2 && b == tot - 1) { break (a, b); } },
        };
        let extra_ids = vec![all[ex.0], all[ex.1]];
        let ids: Vec<u32> = all.iter().enumerate().filter(|(i, _)| *i != ex.0 && *i != ex.1).map(|(_, x)| *x).collect();
        let nattr = r.below(5) as usize;
        let mut tags = std::collections::BTreeSet::new();
        while tags.len() < nattr { tags.insert(r.below(14) as u8); }
        let attrs: Vec<(u8, u64)> = tags.iter().map(|&t| (t, r.u64_edge())).collect();
        let revealed: Vec<u8> = match r.below(4) {
            0 => vec![],
            1 => attrs.iter().map(|x| x.0).collect(),
            _ => attrs.iter().filter(|_| r.chance(1, 2)).map(|x| x.0).collect(),
        };
        let max_accounts = maxes[(idx + seed as usize) % maxes.len()];
        v.push(Cfg { idx, n, t, v1, ids, max_accounts, attrs, revealed, pert, prf, extra_ar: r.chance(1, 2), holder_superset: (idx / 2) % 2 == 0 || r.chance(1, 4), provider_superset: (idx / 2) % 3 != 2, extra_ids,
                     nkeys: 1 + r.below(3) as u8, bad_threshold: bad });
    };
    // sampled large configurations first (so that shards get them evenly)
    let big: Vec<u8> = if thorough { vec![20, 20, 17, 13, 12, 11, 9, 8, 7, 7, 6, 6] } else { vec![20, 12, 7] };
    for (i, &n) in big.iter().enumerate() {
        let t = match i % 4 { 0 => n, 1 => 1, 2 => n / 2 + 1, _ => r.range(1, n as u64) as u8 };
        push(&mut r, n, t, i % 2 == 0, 1, i == 2, false, &mut v);
    }
    let nmax = if thorough { 5 } else { 4 };
    let reps = if thorough { 3 } else { 1 };
    for rep in 0..reps {
        for n in 1..=nmax {
            for t in 1..=n {
                for v1 in [false, true] {
                    // PRF decryption on half of the configurations (alternating versions over (n,t))
                    let prf = rep == 0 && ((n + t) % 2 == 0) == v1;
                    push(&mut r, n, t, v1, 2, prf, false, &mut v);
                }
            }
        }
    }
    // malformed: threshold above the number of revokers
    for (n, v1) in [(1u8, false), (3, true)] { push(&mut r, n, n + 1, v1, 0, false, true, &mut v); }
    v
}

// ---------------------------------------------------------------------------------------------
// environment

struct Env {
    global: GlobalContext<ArCurve>,
    csprng: StdRng,
    r: Rng,
    table: Option<Arc<BabyStepGiantStep<ArCurve>>>,
    thorough: bool,
}

fn make_ars(env: &mut Env, ids: &[u32]) -> (ArMap, BTreeMap<ArIdentity, ElgSecretKey<ArCurve>>) {
    let mut infos = BTreeMap::new();
    let mut keys = BTreeMap::new();
    for &i in ids {
        let id = ArIdentity::new(i);
        let sk = ElgSecretKey::generate(&env.global.on_chain_commitment_key.g, &mut env.csprng);
        let pk = ElgPublicKey::from(&sk);
        infos.insert(id, ArInfo::<ArCurve> {
            ar_identity: id,
            ar_description: Description { name: format!("AR{}", i), url: format!("ar{}.example", i), description: format!("AR{}", i) },
            ar_public_key: pk,
        });
        keys.insert(id, sk);
    }
    (infos, keys)
}

fn make_alist(cfg: &Cfg) -> AList {
    let mut alist = BTreeMap::new();
    for &(t, v) in &cfg.attrs { alist.insert(AttributeTag(t), AttributeKind::from(v)); }
    AList { valid_to: YearMonth::new(2032, 5).unwrap(), created_at: YearMonth::new(2020, 5).unwrap(),
            max_accounts: cfg.max_accounts, alist, _phantom: Default::default() }
}

fn make_policy(cfg: &Cfg, alist: &AList) -> Policy<ArCurve, AttributeKind> {
    let mut pv = BTreeMap::new();
    for t in &cfg.revealed { pv.insert(AttributeTag(*t), alist.alist[&AttributeTag(*t)].clone()); }
    Policy { valid_to: alist.valid_to, created_at: alist.created_at, policy_vec: pv, _phantom: Default::default() }
}

fn make_keys(env: &mut Env, n: u8) -> BTreeMap<KeyIndex, KeyPair> {
    (0..n).map(|i| (KeyIndex(i), KeyPair::generate(&mut env.csprng))).collect()
}

fn subsets(env: &mut Env, n: usize, t: usize, exhaustive: bool) -> Vec<Vec<usize>> {
    let mut res = Vec::new();
    if exhaustive {
        for m in 1u32..(1u32 << n) {
            let mut s: Vec<usize> = (0..n).filter(|i| m & (1 << i) != 0).collect();
            // present some subsets in a shuffled order: reconstruction must not depend on it
            if env.r.chance(1, 3) { for i in (1..s.len()).rev() { let j = env.r.below(i as u64 + 1) as usize; s.swap(i, j); } }
            res.push(s);
        }
    } else {
        let pick = |env: &mut Env, k: usize| -> Vec<usize> {
            let mut all: Vec<usize> = (0..n).collect();
            for i in (1..n).rev() { let j = env.r.below(i as u64 + 1) as usize; all.swap(i, j); }
            all.truncate(k);
            all
        };
        res.push((0..n).collect());
        for _ in 0..(if t == n { 1 } else { 3 }) { res.push(pick(env, t)); }
        if t < n { res.push(pick(env, t + 1)); }
        if t >= 2 { for _ in 0..2 { res.push(pick(env, t - 1)); } }
        if t >= 3 { res.push(pick(env, 1)); }
    }
    res
}

/// Run `f` on a helper thread; None when it does not finish in time (the thread is abandoned).
fn with_timeout<T: Send + 'static>(secs: u64, f: impl FnOnce() -> T + Send + 'static) -> Option<T> {
    let (tx, rx) = std::sync::mpsc::channel();
    std::thread::spawn(move || { let _ = tx.send(guarded(f)); });
    match rx.recv_timeout(std::time::Duration::from_secs(secs)) { Ok(Ok(v)) => Some(v), _ => None }
}

// ---------------------------------------------------------------------------------------------
// the pipeline for one configuration

fn verr(r: &Result<Result<(), CdiVerificationError>, String>) -> String {
    match r { Ok(Ok(())) => "OK".into(), Ok(Err(e)) => format!("{:?}", e), Err(_) => "PANIC".into() }
}

fn resign(cdi: &Cdi, keys: &CredentialData, noe: &NoE) -> Cdi {
    let unsigned = UnsignedCredentialDeploymentInfo { values: cdi.values.clone(), proofs: cdi.proofs.id_proofs.clone() };
    let sigs = keys.sign(noe, &unsigned);
    let mut c = cdi.clone();
    c.proofs.proof_acc_sk = AccountOwnershipProof { sigs };
    c
}

fn noe_json(noe: &NoE) -> J {
    match noe { Left(t) => json!({"new": t.seconds.to_string()}), Right(a) => json!({"existing": hex(&a.0)}) }
}

fn dump_ctx(global: &GlobalContext<ArCurve>, ip: &IpInfo<IpPairing>, ars: &ArMap, cdi: &Cdi, noe: &NoE) -> J {
    json!({"cdi": hex(&to_bytes(cdi)), "ip_info": hex(&to_bytes(ip)),
           "ars": ars.values().map(|a| hex(&to_bytes(a))).collect::<Vec<_>>(),
           "global": hex(&to_bytes(global)), "noe": noe_json(noe)})
}

struct Pert<'a> {
    cfgidx: usize,
    global: &'a GlobalContext<ArCurve>,
    ip: &'a IpInfo<IpPairing>,
    ars: &'a ArMap,
    noe: &'a NoE,
    keys: &'a CredentialData,
    count: usize,
}

impl<'a> Pert<'a> {
    /// `cdi2` must be rejected both as it is and after the account keys signed it again.
    fn check(&mut self, name: &str, cdi2: &Cdi, do_resign: bool) {
        self.check_in(name, cdi2, do_resign, self.global, self.ip, self.ars, self.noe, self.keys)
    }
    fn check_in(&mut self, name: &str, cdi2: &Cdi, do_resign: bool, global: &GlobalContext<ArCurve>, ip: &IpInfo<IpPairing>,
                ars: &ArMap, noe: &NoE, keys: &CredentialData) {
        self.count += 1;
        let raw = verr(&guarded(|| verify_cdi(global, ip, ars, cdi2, noe)));
        let mut rec = json!({"k":"pert","cfg":self.cfgidx,"name":name,"raw":raw});
        if raw == "OK" { rec["dump"] = dump_ctx(global, ip, ars, cdi2, noe); }
        if do_resign {
            let c3 = guarded(|| resign(cdi2, keys, noe));
            match c3 {
                Ok(c3) => {
                    let rs = verr(&guarded(|| verify_cdi(global, ip, ars, &c3, noe)));
                    if rs == "OK" { rec["dump_rs"] = dump_ctx(global, ip, ars, &c3, noe); }
                    rec["rs"] = json!(rs);
                }
                Err(_) => { rec["rs"] = json!("PANIC-SIGN"); }
            }
        }
        out(rec);
    }
}

#[derive(Clone, Copy)]
enum Tok { S, P, L }

fn tokens_len(toks: &[Tok]) -> usize { toks.iter().map(|t| match t { Tok::S => 32, Tok::P => 48, Tok::L => 4 }).sum() }

/// Replace token `i` (a scalar or a G1 point) of a serialised proof by a different valid value.
fn bump_token(bytes: &[u8], toks: &[Tok], i: usize, g: &ArCurve) -> Option<Vec<u8>> {
    let off = tokens_len(&toks[..i]);
    let mut b = bytes.to_vec();
    match toks[i] {
        Tok::S => { let mut s: Fr = de(&bytes[off..off + 32])?; s.add_assign(&Fr::one()); b[off..off + 32].copy_from_slice(&to_bytes(&s)); }
        Tok::P => { let p: ArCurve = de(&bytes[off..off + 48])?; let q = p.plus_point(g); b[off..off + 48].copy_from_slice(&to_bytes(&q)); }
        Tok::L => return None,
    }
    Some(b)
}

fn perturb(env: &mut Env, cfg: &Cfg, p: &mut Pert, cdi: &Cdi, extra: &ArInfo<ArCurve>) {
    let g = p.global.on_chain_commitment_key.g;
    let h = p.global.on_chain_commitment_key.h;
    let full = cfg.pert >= 2;
    let bumpc = |c: &Commitment<ArCurve>| Commitment(c.0.plus_point(&g));
    // ---- values
    { let mut c = cdi.clone(); c.values.cred_id = c.values.cred_id.plus_point(&g); p.check("values.cred_id", &c, true); }
    { let mut c = cdi.clone(); c.values.ip_identity = IpIdentity(c.values.ip_identity.0.wrapping_add(1)); p.check("values.ip_identity", &c, true); }
    if let Ok(t) = Threshold::try_new(cfg.t.wrapping_add(1)) { let mut c = cdi.clone(); c.values.threshold = t; p.check("values.threshold+1", &c, true); }
    if let Ok(t) = Threshold::try_new(cfg.t.wrapping_sub(1)) { let mut c = cdi.clone(); c.values.threshold = t; p.check("values.threshold-1", &c, true); }
    let ar_ids: Vec<ArIdentity> = cdi.values.ar_data.keys().copied().collect();
    let ar_sel: Vec<ArIdentity> = if full { ar_ids.clone() } else { vec![*env.r.pick(&ar_ids)] };
    for id in &ar_sel {
        { let mut c = cdi.clone(); let e = c.values.ar_data.get_mut(id).unwrap(); e.enc_id_cred_pub_share = Cipher(e.enc_id_cred_pub_share.0.plus_point(&g), e.enc_id_cred_pub_share.1); p.check("values.ar_data.cipher0", &c, true); }
        { let mut c = cdi.clone(); let e = c.values.ar_data.get_mut(id).unwrap(); e.enc_id_cred_pub_share = Cipher(e.enc_id_cred_pub_share.0, e.enc_id_cred_pub_share.1.plus_point(&g)); p.check("values.ar_data.cipher1", &c, true); }
    }
    if ar_ids.len() >= 2 {
        let (a, b) = (ar_ids[0], ar_ids[ar_ids.len() - 1]);
        { let mut c = cdi.clone(); let xa = c.values.ar_data[&a].clone(); let xb = c.values.ar_data[&b].clone();
          c.values.ar_data.insert(a, xb); c.values.ar_data.insert(b, xa); p.check("values.ar_data.swap", &c, true); }
        { let mut c = cdi.clone(); c.values.ar_data.remove(&b); p.check("values.ar_data.remove", &c, true); }
        { let mut c = cdi.clone(); c.values.ar_data.remove(&b); c.proofs.id_proofs.proof_id_cred_pub.remove(&b); p.check("values.ar_data.remove+proof", &c, true); }
    }
    { // ADD a revoker entry (with and without a proof for it), in the chain's own context and in one
      // where the chain knows the added revoker
        let x = extra;
        let mut ars_plus = p.ars.clone(); ars_plus.insert(x.ar_identity, x.clone());
        let some = cdi.values.ar_data[&ar_ids[0]].clone();
        let (gl, ip, noe, keys) = (p.global, p.ip, p.noe, p.keys);
        { let mut c = cdi.clone(); c.values.ar_data.insert(x.ar_identity, some.clone());
          p.check("values.ar_data.add", &c, true); p.check_in("values.ar_data.add@known", &c, true, gl, ip, &ars_plus, noe, keys); }
        { let mut c = cdi.clone(); c.values.ar_data.insert(x.ar_identity, some.clone());
          let pr = c.proofs.id_proofs.proof_id_cred_pub[&ar_ids[0]].clone(); c.proofs.id_proofs.proof_id_cred_pub.insert(x.ar_identity, pr);
          p.check("values.ar_data.add+proof", &c, true); p.check_in("values.ar_data.add+proof@known", &c, true, gl, ip, &ars_plus, noe, keys); }
        { let mut c = cdi.clone();
          let pr = c.proofs.id_proofs.proof_id_cred_pub[&ar_ids[0]].clone(); c.proofs.id_proofs.proof_id_cred_pub.insert(x.ar_identity, pr);
          p.check("proofs.proof_id_cred_pub.add", &c, true); p.check_in("proofs.proof_id_cred_pub.add@known", &c, true, gl, ip, &ars_plus, noe, keys); }
        { let mut c = cdi.clone(); let e = c.values.ar_data.remove(&ar_ids[0]).unwrap(); c.values.ar_data.insert(x.ar_identity, e);
          let pr = c.proofs.id_proofs.proof_id_cred_pub.remove(&ar_ids[0]).unwrap(); c.proofs.id_proofs.proof_id_cred_pub.insert(x.ar_identity, pr);
          p.check("values.ar_data.rename", &c, true); p.check_in("values.ar_data.rename@known", &c, true, gl, ip, &ars_plus, noe, keys); }
    }
    // policy
    { let mut c = cdi.clone(); c.values.policy.valid_to = YearMonth::new(2032, 6).unwrap(); p.check("values.policy.valid_to", &c, true); }
    { let mut c = cdi.clone(); c.values.policy.created_at = YearMonth::new(2020, 4).unwrap(); p.check("values.policy.created_at", &c, true); }
    for (tag, _) in cdi.values.policy.policy_vec.iter() {
        { let mut c = cdi.clone(); c.values.policy.policy_vec.insert(*tag, AttributeKind::from(123456789u64)); p.check("values.policy.revealed_value", &c, true); }
        { let mut c = cdi.clone(); c.values.policy.policy_vec.remove(tag); p.check("values.policy.unreveal", &c, true); }
        if !full { break; }
    }
    for (tag, _) in cdi.proofs.id_proofs.commitments.cmm_attributes.iter() {
        let val = AttributeKind::from(cfg.attrs.iter().find(|x| x.0 == tag.0).unwrap().1);
        { let mut c = cdi.clone(); c.values.policy.policy_vec.insert(*tag, val.clone()); p.check("values.policy.reveal_hidden", &c, true); }
        { let mut c = cdi.clone(); c.values.policy.policy_vec.insert(*tag, val.clone()); c.proofs.id_proofs.commitments.cmm_attributes.remove(tag);
          p.check("values.policy.reveal_hidden-commitment", &c, true); }
        if !full { break; }
    }
    { // a revealed attribute that is not in the attribute list at all
        let free = (0u8..20).find(|t| !cfg.attrs.iter().any(|x| x.0 == *t)).unwrap();
        let mut c = cdi.clone(); c.values.policy.policy_vec.insert(AttributeTag(free), AttributeKind::from(7u64)); p.check("values.policy.add_unknown", &c, true);
    }
    // credential keys
    { let mut c = cdi.clone(); let k0 = *c.values.cred_key_info.keys.keys().next().unwrap();
      c.values.cred_key_info.keys.insert(k0, VerifyKey::from(KeyPair::generate(&mut env.csprng).public())); p.check("values.cred_key_info.replace_key", &c, false); }
    { let mut c = cdi.clone(); c.values.cred_key_info.keys.insert(KeyIndex(200), VerifyKey::from(KeyPair::generate(&mut env.csprng).public())); p.check("values.cred_key_info.add_key", &c, false); }
    { // ADD a key whose owner signs too: number of signatures == number of keys, only the transcript protects
        let mut ks: BTreeMap<KeyIndex, KeyPair> = p.keys.keys.iter().map(|(k, v)| (*k, v.clone())).collect();
        let free = (0u8..=255).find(|i| !ks.contains_key(&KeyIndex(*i))).unwrap();
        ks.insert(KeyIndex(free), KeyPair::generate(&mut env.csprng));
        let nk = CredentialData { keys: ks, threshold: p.keys.threshold };
        let mut c = cdi.clone(); c.values.cred_key_info = nk.get_cred_key_info();
        let (gl, ip, ars, noe) = (p.global, p.ip, p.ars, p.noe);
        p.check_in("values.cred_key_info.add_key+signed", &c, true, gl, ip, ars, noe, &nk);
    }
    if cfg.nkeys >= 2 { let mut c = cdi.clone(); c.values.cred_key_info.threshold = SignatureThreshold::TWO;
        if cdi.values.cred_key_info.threshold != SignatureThreshold::TWO { p.check("values.cred_key_info.threshold", &c, true); } }
    { // a completely new key set that signs the credential itself: only the proof transcript protects this
        let nk = CredentialData { keys: make_keys(env, cfg.nkeys), threshold: SignatureThreshold::ONE };
        let mut c = cdi.clone(); c.values.cred_key_info = nk.get_cred_key_info();
        let (gl, ip, ars, noe) = (p.global, p.ip, p.ars, p.noe);
        p.check_in("values.cred_key_info.new_keys+resigned", &c, true, gl, ip, ars, noe, &nk);
    }
    // ---- commitments
    { let mut c = cdi.clone(); c.proofs.id_proofs.commitments.cmm_prf = bumpc(&c.proofs.id_proofs.commitments.cmm_prf); p.check("commitments.cmm_prf", &c, true); }
    { let mut c = cdi.clone(); c.proofs.id_proofs.commitments.cmm_cred_counter = bumpc(&c.proofs.id_proofs.commitments.cmm_cred_counter); p.check("commitments.cmm_cred_counter", &c, true); }
    { let mut c = cdi.clone(); c.proofs.id_proofs.commitments.cmm_cred_counter = Commitment(c.proofs.id_proofs.commitments.cmm_cred_counter.0.plus_point(&h)); p.check("commitments.cmm_cred_counter+h", &c, true); }
    { let mut c = cdi.clone(); c.proofs.id_proofs.commitments.cmm_max_accounts = bumpc(&c.proofs.id_proofs.commitments.cmm_max_accounts); p.check("commitments.cmm_max_accounts", &c, true); }
    { let mut c = cdi.clone(); let cm = &mut c.proofs.id_proofs.commitments; cm.cmm_max_accounts = bumpc(&cm.cmm_max_accounts); cm.cmm_cred_counter = bumpc(&cm.cmm_cred_counter); p.check("commitments.counter+max_same_shift", &c, true); }
    { let mut c = cdi.clone(); let cm = &mut c.proofs.id_proofs.commitments; cm.cmm_prf = bumpc(&cm.cmm_prf); cm.cmm_cred_counter = Commitment(cm.cmm_cred_counter.0.minus_point(&g)); p.check("commitments.prf+counter_sum_preserved", &c, true); }
    { let mut c = cdi.clone(); let cm = &mut c.proofs.id_proofs.commitments; std::mem::swap(&mut cm.cmm_cred_counter, &mut cm.cmm_max_accounts); p.check("commitments.swap_counter_max", &c, true); }
    for (tag, _) in cdi.proofs.id_proofs.commitments.cmm_attributes.iter() {
        { let mut c = cdi.clone(); let e = c.proofs.id_proofs.commitments.cmm_attributes.get_mut(tag).unwrap(); *e = bumpc(e); p.check("commitments.cmm_attributes", &c, true); }
        { let mut c = cdi.clone(); c.proofs.id_proofs.commitments.cmm_attributes.remove(tag); p.check("commitments.cmm_attributes.remove", &c, true); }
        if !full { break; }
    }
    { // ADD a commitment: at a tag that is not in the attribute list, and at a tag that the policy reveals
        let free = (0u8..20).find(|t| !cfg.attrs.iter().any(|x| x.0 == *t)).unwrap();
        let some = cdi.proofs.id_proofs.commitments.cmm_prf;
        let mut c = cdi.clone(); c.proofs.id_proofs.commitments.cmm_attributes.insert(AttributeTag(free), some); p.check("commitments.cmm_attributes.add_unknown_tag", &c, true);
        if let Some((tag, _)) = cdi.values.policy.policy_vec.iter().next() {
            let mut c = cdi.clone(); c.proofs.id_proofs.commitments.cmm_attributes.insert(*tag, some); p.check("commitments.cmm_attributes.add_revealed_tag", &c, true);
        }
    }
    let ncoef = cdi.proofs.id_proofs.commitments.cmm_id_cred_sec_sharing_coeff.len();
    for j in 0..ncoef {
        if !full && j != 0 && j != ncoef - 1 { continue; }
        let mut c = cdi.clone(); let e = &mut c.proofs.id_proofs.commitments.cmm_id_cred_sec_sharing_coeff[j]; *e = bumpc(e); p.check("commitments.sharing_coeff", &c, true);
    }
    if ncoef >= 2 { let mut c = cdi.clone(); c.proofs.id_proofs.commitments.cmm_id_cred_sec_sharing_coeff.pop(); p.check("commitments.sharing_coeff.drop", &c, true); }
    { let mut c = cdi.clone(); c.proofs.id_proofs.commitments.cmm_id_cred_sec_sharing_coeff.push(Commitment(ArCurve::zero_point())); p.check("commitments.sharing_coeff.append_zero", &c, true); }
    // ---- proofs
    { let mut c = cdi.clone(); c.proofs.id_proofs.sig.sig.0 = c.proofs.id_proofs.sig.sig.0.plus_point(&g); p.check("proofs.sig.0", &c, true); }
    { let mut c = cdi.clone(); c.proofs.id_proofs.sig.sig.1 = c.proofs.id_proofs.sig.sig.1.plus_point(&g); p.check("proofs.sig.1", &c, true); }
    { let mut b = to_bytes(&cdi.proofs.id_proofs.challenge); let i = env.r.below(32) as usize; b[i] ^= 1 << env.r.below(8);
      if let Some(ch) = de(&b) { let mut c = cdi.clone(); c.proofs.id_proofs.challenge = ch; p.check("proofs.challenge", &c, true); } }
    { // com_mult response: 5 scalars
        let b = to_bytes(&cdi.proofs.id_proofs.proof_reg_id); let toks = [Tok::S; 5];
        assert_eq!(b.len(), tokens_len(&toks));
        for i in 0..5 { if let Some(nb) = bump_token(&b, &toks, i, &g) { if let Some(r) = de::<com_mult::Response<ArCurve>>(&nb) {
            let mut c = cdi.clone(); c.proofs.id_proofs.proof_reg_id = r; p.check("proofs.proof_reg_id", &c, true); } } }
    }
    { // com_eq_sig response: rho, len, pairs
        let b = to_bytes(&cdi.proofs.id_proofs.proof_ip_sig); let m = (b.len() - 36) / 64;
        let mut toks = vec![Tok::S, Tok::L]; for _ in 0..2 * m { toks.push(Tok::S); }
        assert_eq!(b.len(), tokens_len(&toks));
        for i in 0..toks.len() {
            if !full && i > 4 && i + 2 < toks.len() { continue; }
            if let Some(nb) = bump_token(&b, &toks, i, &g) { if let Some(r) = de::<com_eq_sig::Response<IpPairing, ArCurve>>(&nb) {
            let mut c = cdi.clone(); c.proofs.id_proofs.proof_ip_sig = r; p.check("proofs.proof_ip_sig", &c, true); } } }
        // ADD a response pair (copy of the last one)
        if m >= 1 { let mut nb = b.clone(); nb.extend_from_slice(&b[b.len() - 64..]); nb[32..36].copy_from_slice(&((m + 1) as u32).to_be_bytes());
            if let Some(r) = de::<com_eq_sig::Response<IpPairing, ArCurve>>(&nb) { let mut c = cdi.clone(); c.proofs.id_proofs.proof_ip_sig = r; p.check("proofs.proof_ip_sig.extend", &c, true); } }
        // drop the last response pair
        if m >= 1 { let mut nb = b[..b.len() - 64].to_vec(); nb[32..36].copy_from_slice(&((m - 1) as u32).to_be_bytes());
            if let Some(r) = de::<com_eq_sig::Response<IpPairing, ArCurve>>(&nb) { let mut c = cdi.clone(); c.proofs.id_proofs.proof_ip_sig = r; p.check("proofs.proof_ip_sig.truncate", &c, true); } }
    }
    for id in &ar_sel {
        let b = to_bytes(&cdi.proofs.id_proofs.proof_id_cred_pub[id]); let toks = [Tok::S; 3];
        assert_eq!(b.len(), tokens_len(&toks));
        for i in 0..3 { if let Some(nb) = bump_token(&b, &toks, i, &g) { if let Some(r) = de::<com_enc_eq::Response<ArCurve>>(&nb) {
            let mut c = cdi.clone(); c.proofs.id_proofs.proof_id_cred_pub.insert(*id, r); p.check("proofs.proof_id_cred_pub", &c, true); } } }
    }
    if ar_ids.len() >= 2 {
        let (a, b) = (ar_ids[0], ar_ids[1]);
        let mut c = cdi.clone(); let xa = c.proofs.id_proofs.proof_id_cred_pub[&a].clone(); let xb = c.proofs.id_proofs.proof_id_cred_pub[&b].clone();
        c.proofs.id_proofs.proof_id_cred_pub.insert(a, xb); c.proofs.id_proofs.proof_id_cred_pub.insert(b, xa); p.check("proofs.proof_id_cred_pub.swap", &c, true);
        let mut c = cdi.clone(); c.proofs.id_proofs.proof_id_cred_pub.remove(&b); p.check("proofs.proof_id_cred_pub.remove", &c, true);
    }
    { // range proof: A S T1 T2 tx tx~ e~ len (L,R)* a b
        let b = to_bytes(&cdi.proofs.id_proofs.cred_counter_less_than_max_accounts);
        let k = (b.len() - (4 * 48 + 3 * 32 + 4 + 64)) / 96;
        let mut toks = vec![Tok::P, Tok::P, Tok::P, Tok::P, Tok::S, Tok::S, Tok::S, Tok::L];
        for _ in 0..2 * k { toks.push(Tok::P); }
        toks.push(Tok::S); toks.push(Tok::S);
        assert_eq!(b.len(), tokens_len(&toks));
        for i in 0..toks.len() {
            if !full && i >= 8 && i + 2 < toks.len() { continue; }
            if let Some(nb) = bump_token(&b, &toks, i, &g) { if let Some(r) = de::<RangeProof<ArCurve>>(&nb) {
            let mut c = cdi.clone(); c.proofs.id_proofs.cred_counter_less_than_max_accounts = r; p.check("proofs.range_proof", &c, true); } } }
    }
    // account ownership signatures
    { let mut c = cdi.clone(); let k0 = *c.proofs.proof_acc_sk.sigs.keys().next().unwrap();
      let mut sb = to_bytes(&c.proofs.proof_acc_sk.sigs[&k0]); let i = env.r.below(sb.len() as u64) as usize; sb[i] ^= 1 << env.r.below(8);
      if let Some(s) = de::<AccountOwnershipSignature>(&sb) { c.proofs.proof_acc_sk.sigs.insert(k0, s); p.check("proofs.proof_acc_sk.flip", &c, false); } }
    { let mut c = cdi.clone(); let k0 = *c.proofs.proof_acc_sk.sigs.keys().next().unwrap(); c.proofs.proof_acc_sk.sigs.remove(&k0); p.check("proofs.proof_acc_sk.remove", &c, false); }
    { // ADD a signature at a key index that has no key: a copy of an existing signature, and a fresh valid
      // signature (by an unrelated key) on the right message
        let used: Vec<KeyIndex> = cdi.proofs.proof_acc_sk.sigs.keys().copied().collect();
        for free in [(0u8..=255).find(|i| !used.contains(&KeyIndex(*i))).unwrap(), 255u8, 7u8] {
            if used.contains(&KeyIndex(free)) { continue; }
            let mut c = cdi.clone(); let s0 = c.proofs.proof_acc_sk.sigs[&used[0]].clone();
            c.proofs.proof_acc_sk.sigs.insert(KeyIndex(free), s0); p.check("proofs.proof_acc_sk.add_copy_at_unused_index", &c, false);
            let stranger = CredentialData { keys: { let mut m = BTreeMap::new(); m.insert(KeyIndex(free), KeyPair::generate(&mut env.csprng)); m }, threshold: SignatureThreshold::ONE };
            let unsigned = UnsignedCredentialDeploymentInfo { values: cdi.values.clone(), proofs: cdi.proofs.id_proofs.clone() };
            let extra_sig = stranger.sign(p.noe, &unsigned);
            let mut c = cdi.clone(); for (k, v) in extra_sig { c.proofs.proof_acc_sk.sigs.insert(k, v); }
            p.check("proofs.proof_acc_sk.add_valid_at_unused_index", &c, false);
        }
    }
    if cfg.nkeys >= 2 { let mut c = cdi.clone(); let ks: Vec<KeyIndex> = c.proofs.proof_acc_sk.sigs.keys().copied().collect();
        let a = c.proofs.proof_acc_sk.sigs[&ks[0]].clone(); let b = c.proofs.proof_acc_sk.sigs[&ks[1]].clone();
        c.proofs.proof_acc_sk.sigs.insert(ks[0], b); c.proofs.proof_acc_sk.sigs.insert(ks[1], a); p.check("proofs.proof_acc_sk.swap", &c, false); }
    // ---- byte flips
    let nflip = if full { if env.thorough { 24 } else { 10 } } else { 4 };
    let idb = to_bytes(&cdi.proofs.id_proofs);
    for _ in 0..nflip {
        let mut nb = idb.clone(); let i = env.r.below(nb.len() as u64) as usize; nb[i] ^= 1 << env.r.below(8);
        match de::<IdOwnershipProofs<IpPairing, ArCurve>>(&nb) {
            None => { p.count += 1; out(json!({"k":"pert","cfg":p.cfgidx,"name":"bytes.id_proofs","raw":"parse","rs":"parse"})); }
            Some(ip) => { if to_bytes(&ip) == idb { out(json!({"k":"pert","cfg":p.cfgidx,"name":"bytes.id_proofs","raw":"same-object","rs":"same-object","pos":i})); continue; }
                let mut c = cdi.clone(); c.proofs.id_proofs = ip; p.check("bytes.id_proofs", &c, true); }
        }
    }
    let allb = to_bytes(cdi);
    for _ in 0..nflip {
        let mut nb = allb.clone(); let i = env.r.below(nb.len() as u64) as usize; nb[i] ^= 1 << env.r.below(8);
        match de::<Cdi>(&nb) {
            None => { p.count += 1; out(json!({"k":"pert","cfg":p.cfgidx,"name":"bytes.cdi","raw":"parse"})); }
            Some(c) => { if to_bytes(&c) == allb { out(json!({"k":"pert","cfg":p.cfgidx,"name":"bytes.cdi","raw":"same-object","pos":i})); continue; }
                p.check("bytes.cdi", &c, false); }
        }
    }
    // ---- context
    { let other = test_create_ip_info(&mut env.csprng, cfg.n, 10).public_ip_info;
      let (gl, ars, noe, keys) = (p.global, p.ars, p.noe, p.keys);
      p.check_in("context.ip_public_key", cdi, true, gl, &other, ars, noe, keys); }
    for id in &ar_sel {
        let mut ars2 = p.ars.clone();
        let sk = ElgSecretKey::generate(&g, &mut env.csprng);
        ars2.get_mut(id).unwrap().ar_public_key = ElgPublicKey::from(&sk);
        let (gl, ip, noe, keys) = (p.global, p.ip, p.noe, p.keys);
        p.check_in("context.ar_public_key", cdi, true, gl, ip, &ars2, noe, keys);
    }
    { let mut ars2 = p.ars.clone(); ars2.remove(&ar_ids[0]);
      let (gl, ip, noe, keys) = (p.global, p.ip, p.noe, p.keys);
      p.check_in("context.ar_unknown", cdi, true, gl, ip, &ars2, noe, keys); }
    { let mut g2 = p.global.clone(); g2.genesis_string = format!("{}x", g2.genesis_string);
      let (ip, ars, noe, keys) = (p.ip, p.ars, p.noe, p.keys);
      p.check_in("context.global.genesis_string", cdi, true, &g2, ip, ars, noe, keys); }
    { let mut g2 = p.global.clone(); g2.on_chain_commitment_key.h = g2.on_chain_commitment_key.h.plus_point(&g);
      let (ip, ars, noe, keys) = (p.ip, p.ars, p.noe, p.keys);
      p.check_in("context.global.commitment_key_h", cdi, true, &g2, ip, ars, noe, keys); }
    { let mut g2 = p.global.clone(); g2.bulletproof_generators.G_H.swap(0, 1);
      let (ip, ars, noe, keys) = (p.ip, p.ars, p.noe, p.keys);
      p.check_in("context.global.bulletproof_generators", cdi, true, &g2, ip, ars, noe, keys); }
    match p.noe {
        Right(a) => {
            let mut b = a.0; b[env.r.below(32) as usize] ^= 1 << env.r.below(8);
            let other: NoE = Right(AccountAddress(b));
            let (gl, ip, ars, keys) = (p.global, p.ip, p.ars, p.keys);
            p.check_in("context.address_other", cdi, true, gl, ip, ars, &other, keys);
            let asnew: NoE = Left(EXPIRY);
            p.check_in("context.address_as_new", cdi, true, gl, ip, ars, &asnew, keys);
        }
        Left(t) => {
            let other: NoE = Left(TransactionTime { seconds: t.seconds + 1 });
            let (gl, ip, ars, keys) = (p.global, p.ip, p.ars, p.keys);
            // the expiry is covered by the account signatures only: no re-signing here
            p.check_in("context.expiry_other", cdi, false, gl, ip, ars, &other, keys);
            let asex: NoE = Right(AccountAddress([7u8; 32]));
            p.check_in("context.new_as_existing", cdi, true, gl, ip, ars, &asex, keys);
        }
    }
}

fn counters_for(max: u8) -> Vec<u8> {
    let mut v: Vec<u16> = vec![0, 1, max as u16, max as u16 + 1];
    if max >= 1 { v.push(max as u16 - 1); }
    v.retain(|x| *x <= 255);
    v.sort(); v.dedup();
    v.into_iter().map(|x| x as u8).collect()
}

fn after_issue<I: HasIdentityObjectFields<IpPairing, ArCurve, AttributeKind>>(
    env: &mut Env, cfg: &Cfg, id_object: &I, forged: &I, id_use_data: &IdObjectUseData<IpPairing, ArCurve>,
    ip_info: &IpInfo<IpPairing>, ars_infos: &ArMap, ars_keys: &BTreeMap<ArIdentity, ElgSecretKey<ArCurve>>, alist: &AList,
    extra_info: &ArMap,
) {
    let global = env.global.clone();
    let g = global.on_chain_commitment_key.g;
    let exhaustive = cfg.n <= 5;
    let ids: Vec<ArIdentity> = ars_infos.keys().copied().collect();
    // ---- PRF key revocation from the pre-identity object
    if cfg.prf {
        if env.table.is_none() { env.table = Some(Arc::new(BabyStepGiantStep::new(global.encryption_in_exponent_generator(), 1 << 18))); }
        let table = env.table.clone().unwrap();
        let fields = id_object.get_common_pio_fields();
        let mut shares: Vec<(ArIdentity, Value<ArCurve>)> = Vec::new();
        let mut hang = false;
        for id in &ids {
            let sk = ars_keys[id].clone();
            let ciphers = fields.ip_ar_data[id].enc_prf_key_share;
            let tb = table.clone();
            let skb = to_bytes(&sk);
            match with_timeout(60, move || { let sk: ElgSecretKey<ArCurve> = de(&skb).unwrap();
                    let v: Fr = *elgamal::decrypt_from_chunks_given_table(&sk, &ciphers, &tb, ChunkSize::ThirtyTwo); v }) {
                Some(v) => shares.push((*id, Value::new(v))),
                None => { hang = true; break; }
            }
        }
        if hang {
            out(json!({"k":"prf","cfg":cfg.idx,"n":cfg.n,"t":cfg.t,"error":"a revoker could not decrypt its PRF key share (no 32-bit chunk found / panic)"}));
        } else {
            let subs = subsets(env, cfg.n as usize, cfg.t as usize, exhaustive);
            let mut sj = Vec::new();
            for s in subs {
                let sel: Vec<(ArIdentity, Value<ArCurve>)> = s.iter().map(|&i| shares[i].clone()).collect();
                let got = guarded(|| reveal_prf_key(&sel));
                sj.push(json!({"ix": s, "got": match got { Ok(v) => sc_hex(&v), Err(_) => "PANIC".into() }}));
            }
            let secret: Fr = *id_use_data.aci.prf_key.to_value::<ArCurve>();
            out(json!({"k":"prf","cfg":cfg.idx,"n":cfg.n,"t":cfg.t,"secret":sc_hex(&secret),"pts":cfg.ids,
                       "shares":shares.iter().map(|x| sc_hex(&x.1)).collect::<Vec<_>>(),"subsets":sj}));
        }
    }
    // ---- credentials
    let policy = make_policy(cfg, alist);
    // two revokers that were NOT chosen at issuance (cfg.extra_ids: smaller than / between / above the chosen ones)
    let extra = extra_info.values().next().unwrap().clone();
    let mut known = ars_infos.clone();
    if cfg.extra_ar { for (k, v) in extra_info.iter() { known.insert(*k, v.clone()); } }
    // the context the account holder creates credentials in: exactly the chosen revokers, or a strict superset
    let mut holder_ars = ars_infos.clone();
    if cfg.holder_superset { for (k, v) in extra_info.iter() { holder_ars.insert(*k, v.clone()); } known.insert(extra.ar_identity, extra.clone()); }
    let context = IpContext::new(ip_info, &holder_ars, &global);
    let mut counters = counters_for(cfg.max_accounts);
    if cfg.n > 5 { counters.retain(|&x| x == 0 || x >= cfg.max_accounts); }
    // a counter above the limit, made "producible" by an identity object that claims max_accounts = 255
    // (the provider signed the smaller limit): verify_cdi must refuse it
    if cfg.max_accounts < 255 {
        for existing in [false, true] {
            let counter = cfg.max_accounts + 1;
            let noe: NoE = if existing { Right(AccountAddress([9u8; 32])) } else { Left(EXPIRY) };
            let cred_data = CredentialData { keys: make_keys(env, cfg.nkeys), threshold: SignatureThreshold::ONE };
            let pol = policy.clone();
            let made = guarded(|| create_credential(context, forged, id_use_data, counter, pol, &cred_data, &SystemAttributeRandomness {}, &noe));
            let mut rec = json!({"k":"forged","cfg":cfg.idx,"n":cfg.n,"t":cfg.t,"v1":cfg.v1,"acct": if existing {"existing"} else {"new"},"counter":counter,"max":cfg.max_accounts});
            match made {
                Ok(Ok((cdi, _))) => { rec["created"] = json!("Ok");
                    let ver = verr(&guarded(|| verify_cdi(&global, ip_info, &known, &cdi, &noe)));
                    if ver == "OK" { rec["dump"] = dump_ctx(&global, ip_info, &known, &cdi, &noe); }
                    rec["verified"] = json!(ver); }
                Ok(Err(_)) => { rec["created"] = json!("Err"); }
                Err(_) => { rec["created"] = json!("PANIC"); }
            }
            out(rec);
            if !env.thorough { break; }
        }
    }
    let mut pert_done = false;
    let mut icp_done = 0;
    let addr = AccountAddress({ let mut b = [0u8; 32]; for x in b.iter_mut() { *x = env.r.next() as u8; } b });
    for (ci, &counter) in counters.iter().enumerate() {
        for existing in [false, true] {
            // existing accounts: every second counter (all of them in the thorough tier)
            if existing && !env.thorough && (ci + cfg.idx) % 2 == 1 && counter <= cfg.max_accounts { continue; }
            let noe: NoE = if existing { Right(addr) } else { Left(EXPIRY) };
            let cred_data = CredentialData { keys: make_keys(env, cfg.nkeys),
                threshold: if cfg.nkeys >= 2 && env.r.chance(1, 2) { SignatureThreshold::TWO } else { SignatureThreshold::ONE } };
            let pol = policy.clone();
            let made = guarded(|| create_credential(context, id_object, id_use_data, counter, pol, &cred_data, &SystemAttributeRandomness {}, &noe));
            let mut rec = json!({"k":"cred","cfg":cfg.idx,"n":cfg.n,"t":cfg.t,"v1":cfg.v1,"acct": if existing {"existing"} else {"new"},
                                 "counter":counter,"max":cfg.max_accounts,"revealed":cfg.revealed.len(),"attrs":cfg.attrs.len()});
            let cdi = match made {
                Err(e) => { rec["created"] = json!("PANIC"); rec["why"] = json!(e.chars().take(120).collect::<String>()); out(rec); continue; }
                Ok(Err(e)) => { rec["created"] = json!("Err"); rec["why"] = json!(format!("{}", e).chars().take(120).collect::<String>()); out(rec); continue; }
                Ok(Ok((cdi, _))) => cdi,
            };
            rec["created"] = json!("Ok");
            rec["holder_superset"] = json!(cfg.holder_superset);
            let ar_keys: Vec<ArIdentity> = cdi.values.ar_data.keys().copied().collect();
            rec["ar_keys_ok"] = json!(ar_keys == ids);
            rec["ar_keys"] = json!(ar_keys.iter().map(|x| u32::from(*x)).collect::<Vec<_>>());
            rec["chosen"] = json!(cfg.ids);
            let ver = verr(&guarded(|| verify_cdi(&global, ip_info, &known, &cdi, &noe)));
            rec["verified"] = json!(ver);
            if ver == "OK" && counter > cfg.max_accounts { rec["dump"] = dump_ctx(&global, ip_info, &known, &cdi, &noe); }
            // serialisation round trip keeps the verdict
            let rt = de::<Cdi>(&to_bytes(&cdi)).map(|c| verr(&guarded(|| verify_cdi(&global, ip_info, &known, &c, &noe))));
            rec["roundtrip"] = json!(rt);
            out(rec);
            if ver != "OK" { continue; }
            // ---- anonymity revocation of idCredPub from this credential
            if icp_done < 2 || (env.thorough && cfg.n <= 5) {
                icp_done += 1;
                let dec: Vec<(ArIdentity, Message<ArCurve>)> = ids.iter().map(|id| (*id, ars_keys[id].decrypt(&cdi.values.ar_data[id].enc_id_cred_pub_share))).collect();
                let want = g.mul_by_scalar(&id_use_data.aci.cred_holder_info.id_cred.id_cred_sec);
                let subs = subsets(env, cfg.n as usize, cfg.t as usize, exhaustive);
                let mut sj = Vec::new();
                for s in subs {
                    let sel: Vec<(ArIdentity, Message<ArCurve>)> = s.iter().map(|&i| (dec[i].0, Message { value: dec[i].1.value })).collect();
                    let got = guarded(|| reveal_id_cred_pub(&sel));
                    sj.push(json!({"ix": s, "got": match got { Ok(v) => pt_hex(&v), Err(_) => "PANIC".into() }}));
                }
                out(json!({"k":"icp","cfg":cfg.idx,"n":cfg.n,"t":cfg.t,"want":pt_hex(&want),"pts":cfg.ids,
                           "D":dec.iter().map(|x| pt_hex(&x.1.value)).collect::<Vec<_>>(),"subsets":sj}));
            }
            // ---- perturbation stream (one credential per configuration; new/existing alternate)
            if cfg.pert > 0 && !pert_done && existing == (cfg.idx % 2 == 1) {
                pert_done = true;
                let mut p = Pert { cfgidx: cfg.idx, global: &global, ip: ip_info, ars: &known, noe: &noe, keys: &cred_data, count: 0 };
                perturb(env, cfg, &mut p, &cdi, &extra);
                out(json!({"k":"pertdone","cfg":cfg.idx,"count":p.count,"acct": if existing {"existing"} else {"new"}}));
            }
        }
    }
}

fn run_config(env: &mut Env, cfg: &Cfg) {
    let t0 = std::time::Instant::now();
    let ipd = test_create_ip_info(&mut env.csprng, cfg.n, 10);
    let ip_info = ipd.public_ip_info.clone();
    let (ars_infos, ars_keys) = make_ars(env, &cfg.ids);
    let id_use_data = test_create_id_use_data(&mut env.csprng);
    let alist = make_alist(cfg);
    let global = env.global.clone();
    let context = IpContext::new(&ip_info, &ars_infos, &global);
    // the provider's context: the revokers it supports (the chosen ones, or a strict superset in which the
    // chosen set is not a prefix)
    let (extra_info, _) = make_ars(env, &cfg.extra_ids);
    let mut provider_ars = ars_infos.clone();
    if cfg.provider_superset { for (k, v) in extra_info.iter() { provider_ars.insert(*k, v.clone()); } }
    let pcontext = IpContext::new(&ip_info, &provider_ars, &global);
    let threshold = Threshold::try_new(cfg.t).unwrap();
    let mut rec = json!({"k":"issue","cfg":cfg.idx,"n":cfg.n,"t":cfg.t,"v1":cfg.v1,"ids":cfg.ids,"bad_threshold":cfg.bad_threshold,
                         "provider_superset":cfg.provider_superset,"supported":provider_ars.keys().map(|x| u32::from(*x)).collect::<Vec<_>>(),
                         "max":cfg.max_accounts,"attrs":cfg.attrs.len(),"revealed":cfg.revealed.len()});
    if !cfg.v1 {
        let acc = InitialAccountData { keys: make_keys(env, cfg.nkeys), threshold: SignatureThreshold::ONE };
        let pio = match guarded(|| generate_pio(&context, threshold, &id_use_data, &acc)) {
            Ok(Some((pio, _))) => pio,
            Ok(None) => { rec["pio"] = json!("None"); out(rec); return; }
            Err(_) => { rec["pio"] = json!("PANIC"); out(rec); return; }
        };
        rec["pio"] = json!("Ok");
        let val = guarded(|| validate_request(&pio, pcontext));
        rec["validate"] = json!(match &val { Ok(Ok(())) => "OK".to_string(), Ok(Err(e)) => format!("{:?}", e), Err(_) => "PANIC".into() });
        let vc = guarded(|| verify_credentials(&pio, pcontext, &alist, EXPIRY, &ipd.ip_secret_key, &ipd.ip_cdi_secret_key));
        let (sig, icdi) = match vc {
            Ok(Ok(x)) => x,
            Ok(Err(e)) => { rec["issue"] = json!(format!("{:?}", e)); out(rec); return; }
            Err(_) => { rec["issue"] = json!("PANIC"); out(rec); return; }
        };
        rec["issue"] = json!("OK");
        rec["initial_cdi"] = json!(verr(&guarded(|| verify_initial_cdi(&ip_info, &icdi, EXPIRY))));
        rec["ms"] = json!(t0.elapsed().as_millis() as u64);
        out(rec);
        if cfg.bad_threshold { return; }
        let mut al2 = alist.clone(); al2.max_accounts = 255;
        let forged = IdentityObject { pre_identity_object: de(&to_bytes(&pio)).unwrap(), alist: al2, signature: sig.clone() };
        let ido = IdentityObject { pre_identity_object: pio, alist: alist.clone(), signature: sig };
        after_issue(env, cfg, &ido, &forged, &id_use_data, &ip_info, &ars_infos, &ars_keys, &alist, &extra_info);
    } else {
        let pio = match guarded(|| generate_pio_v1_with_rng(&context, threshold, &id_use_data, &mut env.csprng)) {
            Ok(Some((pio, _))) => pio,
            Ok(None) => { rec["pio"] = json!("None"); out(rec); return; }
            Err(_) => { rec["pio"] = json!("PANIC"); out(rec); return; }
        };
        rec["pio"] = json!("Ok");
        let val = guarded(|| validate_request_v1(&pio, pcontext));
        rec["validate"] = json!(match &val { Ok(Ok(())) => "OK".to_string(), Ok(Err(e)) => format!("{:?}", e), Err(_) => "PANIC".into() });
        let vc = guarded(|| verify_credentials_v1(&pio, pcontext, &alist, &ipd.ip_secret_key));
        let sig = match vc {
            Ok(Ok(x)) => x,
            Ok(Err(e)) => { rec["issue"] = json!(format!("{:?}", e)); out(rec); return; }
            Err(_) => { rec["issue"] = json!("PANIC"); out(rec); return; }
        };
        rec["issue"] = json!("OK");
        rec["ms"] = json!(t0.elapsed().as_millis() as u64);
        out(rec);
        if cfg.bad_threshold { return; }
        let mut al2 = alist.clone(); al2.max_accounts = 255;
        let forged = IdentityObjectV1 { pre_identity_object: de(&to_bytes(&pio)).unwrap(), alist: al2, signature: sig.clone() };
        let ido = IdentityObjectV1 { pre_identity_object: pio, alist: alist.clone(), signature: sig };
        after_issue(env, cfg, &ido, &forged, &id_use_data, &ip_info, &ars_infos, &ars_keys, &alist, &extra_info);
    }
    out(json!({"k":"cfgdone","cfg":cfg.idx,"ms":t0.elapsed().as_millis() as u64}));
}

fn new_env(seed: u64, salt: u64, thorough: bool) -> Env {
    Env { global: GlobalContext::<ArCurve>::generate(String::from("verif-c08")),
          csprng: StdRng::seed_from_u64(seed.wrapping_mul(1000003) ^ salt), r: Rng::new(seed ^ (salt << 20) ^ 0x8c08), table: None, thorough }
}

fn pipeline(seed: u64, thorough: bool, shard: usize, nshards: usize, only: Option<usize>) {
    let cfgs = configs(seed, thorough);
    for cfg in cfgs.iter() {
        if let Some(o) = only { if cfg.idx != o { continue; } } else if cfg.idx % nshards != shard { continue; }
        // every configuration has its own generator state: a single configuration can be replayed alone
        let mut env = new_env(seed, cfg.idx as u64 + 1, thorough);
        run_config(&mut env, cfg);
    }
    out(json!({"k":"sharddone","shard":shard,"configs":cfgs.len()}));
}

// ---------------------------------------------------------------------------------------------
// direct sharing cases (secret_sharing::share / reveal / reveal_in_group)

fn sharegen(seed: u64, n: u64) {
    let mut env = new_env(seed, 0x5a5a, false);
    let g = env.global.on_chain_commitment_key.g;
    for i in 0..n {
        let nn = match i % 5 { 0 => 1 + env.r.below(3) as u8, 1 => 1 + env.r.below(6) as u8, 2 => 1 + env.r.below(10) as u8, 3 => 5, _ => if i % 25 == 24 { 1 + env.r.below(25) as u8 } else { 1 + env.r.below(8) as u8 } };
        let t = match env.r.below(4) { 0 => nn, 1 => 1, _ => 1 + env.r.below(nn as u64) as u8 };
        let contiguous = env.r.chance(1, 4);
        let pts = gen_ids(&mut env.r, nn, contiguous);
        let secret: Fr = match env.r.below(6) { 0 => Fr::zero(), 1 => Fr::one(), 2 => { let mut m = Fr::zero(); m.sub_assign(&Fr::one()); m }, _ => *Value::<ArCurve>::generate(&mut env.csprng) };
        let sd = guarded(|| secret_sharing::share::<ArCurve, _, _, _>(&secret, pts.iter().copied(), Threshold::try_new(t).unwrap(), &mut env.csprng));
        let sd = match sd { Ok(x) => x, Err(_) => { out(json!({"k":"share","n":nn,"t":t,"error":"PANIC"})); continue; } };
        let subs = subsets(&mut env, nn as usize, t as usize, nn <= 4);
        let mut sj = Vec::new();
        for s in subs.iter().take(12) {
            let sel: Vec<(u32, Value<ArCurve>)> = s.iter().map(|&j| (pts[j], sd.shares[j].clone())).collect();
            let got = guarded(|| secret_sharing::reveal::<u32, ArCurve>(&sel));
            let selg: Vec<(u32, ArCurve)> = s.iter().map(|&j| (pts[j], g.mul_by_scalar(&sd.shares[j]))).collect();
            let gotg = guarded(|| secret_sharing::reveal_in_group::<u32, ArCurve>(&selg));
            sj.push(json!({"ix": s, "got": match got { Ok(v) => sc_hex(&v), Err(_) => "PANIC".into() },
                           "gotg": match gotg { Ok(v) => pt_hex(&v), Err(_) => "PANIC".into() }}));
        }
        out(json!({"k":"share","n":nn,"t":t,"secret":sc_hex(&secret),"pts":pts,
                   "coeffs":sd.coefficients.iter().map(|c| sc_hex(c)).collect::<Vec<_>>(),
                   "shares":sd.shares.iter().map(|c| sc_hex(c)).collect::<Vec<_>>(),"subsets":sj,
                   "g": pt_hex(&g), "secret_g": pt_hex(&g.mul_by_scalar(&secret))}));
    }
}

// ---------------------------------------------------------------------------------------------
// counter <= max_accounts range statement, directly on prove/verify_less_than_or_equal

fn leq(seed: u64, n: u64) {
    let mut env = new_env(seed, 0x1e9, false);
    let key = env.global.on_chain_commitment_key;
    let gens = env.global.bulletproof_generators().clone();
    let mut pairs: Vec<(u8, u8)> = vec![(0, 0), (0, 1), (1, 0), (1, 1), (255, 255), (255, 254), (254, 255), (0, 255), (255, 0), (128, 127), (127, 128), (2, 1), (1, 2)];
    while (pairs.len() as u64) < n {
        let b = env.r.u64_edge() as u8;
        let a = match env.r.below(4) { 0 => b, 1 => b.wrapping_add(1), 2 => b.wrapping_sub(1), _ => env.r.next() as u8 };
        pairs.push((a, b));
    }
    for (a, b) in pairs.into_iter().take(n as usize) {
        let ra = PedRandomness::<ArCurve>::generate(&mut env.csprng);
        let rb = PedRandomness::<ArCurve>::generate(&mut env.csprng);
        let ca = key.hide_worker(&ArCurve::scalar_from_u64(a as u64), &ra);
        let cb = key.hide_worker(&ArCurve::scalar_from_u64(b as u64), &rb);
        let honest = guarded(|| { let mut ro = RandomOracle::domain("leq"); let mut rng = rand::thread_rng();
            prove_less_than_or_equal(&mut ro, &mut rng, 8, a as u64, b as u64, &gens, &key, &ra, &rb) });
        let hv = match honest {
            Err(_) => "unproducible-panic".to_string(),
            Ok(None) => "unproducible-none".to_string(),
            Ok(Some(p)) => { let mut ro = RandomOracle::domain("leq");
                match guarded(|| verify_less_than_or_equal(&mut ro, 8, &ca, &cb, &p, &gens, &key)) { Ok(true) => "accept".into(), Ok(false) => "reject".into(), Err(_) => "PANIC".into() } }
        };
        // forced proofs for the same commitments: wrapped difference (64 bit and 8 bit), must never verify when a > b
        let mut forced = Vec::new();
        let mut rdiff: Fr = *rb; rdiff.sub_assign(&ra);
        for (nm, d) in [("wrap64", (b as u64).wrapping_sub(a as u64)), ("wrap8", b.wrapping_sub(a) as u64)] {
            let pr = guarded(|| { let mut ro = RandomOracle::domain("leq"); let mut rng = rand::thread_rng();
                range_proof::prove(ProofVersion::Version1, &mut ro, &mut rng, 8, 2, &[d, a as u64], &gens, &key, &[PedRandomness::new(rdiff), ra.clone()]) });
            let v = match pr { Ok(Some(p)) => { let mut ro = RandomOracle::domain("leq");
                    match guarded(|| verify_less_than_or_equal(&mut ro, 8, &ca, &cb, &p, &gens, &key)) { Ok(true) => "accept", Ok(false) => "reject", Err(_) => "PANIC" } }
                _ => "unproducible" };
            forced.push(json!([nm, v]));
        }
        out(json!({"k":"leq","a":a,"b":b,"honest":hv,"forced":forced}));
    }
}

// ---------------------------------------------------------------------------------------------
// length of the provider's PS key at its boundary: n attributes + m revoker scalars + 5 fixed slots

fn keylen(seed: u64) {
    let mut env = new_env(seed, 0x4b1, false);
    let global = env.global.clone();
    for (nars, nattr) in [(1u8, 0usize), (1, 2), (3, 4), (7, 1), (8, 2)] {
        let m = (nars as usize + 6) / 7; // encode_ars: 7 identities per scalar
        for delta in [-1i64, 0, 1, 2] {
            let len = (nattr + m + 5) as i64 + delta;
            let mut ipd = test_create_ip_info(&mut env.csprng, nars, 10);
            let sk = concordium_base::ps_sig::SecretKey::<IpPairing>::generate(len as usize, &mut env.csprng);
            ipd.public_ip_info.ip_verify_key = concordium_base::ps_sig::PublicKey::from(&sk);
            ipd.ip_secret_key = sk;
            let ip_info = ipd.public_ip_info.clone();
            let ids: Vec<u32> = (1..=nars as u32).collect();
            let (ars_infos, _) = make_ars(&mut env, &ids);
            let id_use_data = test_create_id_use_data(&mut env.csprng);
            let mut al = BTreeMap::new();
            for t in 0..nattr { al.insert(AttributeTag(t as u8), AttributeKind::from(t as u64 + 5)); }
            let alist = AList { valid_to: YearMonth::new(2032, 5).unwrap(), created_at: YearMonth::new(2020, 5).unwrap(), max_accounts: 10, alist: al, _phantom: Default::default() };
            let context = IpContext::new(&ip_info, &ars_infos, &global);
            let mut rec = json!({"k":"keylen","n":nars,"m":m,"attrs":nattr,"len":len,"delta":delta});
            let pio = match guarded(|| generate_pio_v1_with_rng(&context, Threshold::try_new(1).unwrap(), &id_use_data, &mut env.csprng)) {
                Ok(Some((p, _))) => p, _ => { rec["issue"] = json!("no-pio"); out(rec); continue; } };
            let sig = match guarded(|| verify_credentials_v1(&pio, context, &alist, &ipd.ip_secret_key)) {
                Ok(Ok(s)) => s,
                Ok(Err(e)) => { rec["issue"] = json!(format!("{:?}", e)); out(rec); continue; }
                Err(_) => { rec["issue"] = json!("PANIC"); out(rec); continue; } };
            rec["issue"] = json!("OK");
            let ido = IdentityObjectV1 { pre_identity_object: pio, alist: alist.clone(), signature: sig };
            let policy = Policy { valid_to: alist.valid_to, created_at: alist.created_at, policy_vec: BTreeMap::new(), _phantom: Default::default() };
            let cred_data = CredentialData { keys: make_keys(&mut env, 1), threshold: SignatureThreshold::ONE };
            let noe: NoE = Left(EXPIRY);
            match guarded(|| create_credential(context, &ido, &id_use_data, 0, policy, &cred_data, &SystemAttributeRandomness {}, &noe)) {
                Ok(Ok((cdi, _))) => { rec["created"] = json!("Ok"); rec["verified"] = json!(verr(&guarded(|| verify_cdi(&global, &ip_info, &ars_infos, &cdi, &noe)))); }
                Ok(Err(e)) => { rec["created"] = json!("Err"); rec["why"] = json!(format!("{}", e).chars().take(160).collect::<String>()); }
                Err(e) => { rec["created"] = json!("PANIC"); rec["why"] = json!(e.chars().take(160).collect::<String>()); }
            }
            out(rec);
        }
    }
}

// ---------------------------------------------------------------------------------------------
// lincheck: sum coef_i * pts_i == want, with the real curve arithmetic

fn lincheck() {
    use std::io::BufRead;
    for line in std::io::stdin().lock().lines() {
        let line = line.unwrap();
        if line.trim().is_empty() { continue; }
        let v: J = serde_json::from_str(&line).unwrap();
        let res = guarded(|| {
            let want: ArCurve = de(&unhex(v["want"].as_str().unwrap())).unwrap();
            let mut acc = ArCurve::zero_point();
            for (p, c) in v["pts"].as_array().unwrap().iter().zip(v["coef"].as_array().unwrap().iter()) {
                let p: ArCurve = de(&unhex(p.as_str().unwrap())).unwrap();
                let c: Fr = de(&unhex(c.as_str().unwrap())).unwrap();
                acc = acc.plus_point(&p.mul_by_scalar(&c));
            }
            acc == want
        });
        println!("{}", match res { Ok(true) => "ok", Ok(false) => "MISMATCH", Err(_) => "ERROR" });
    }
}

/// Replay of a dumped verification: {"cdi","ip_info","ars","global","noe"} on stdin -> verdict of verify_cdi.
fn replay() {
    let mut s = String::new();
    std::io::Read::read_to_string(&mut std::io::stdin(), &mut s).unwrap();
    let v: J = serde_json::from_str(&s).unwrap();
    let v = if v.get("replay").is_some() { v["replay"].clone() } else { v };
    let v = if v.get("case").is_some() { v["case"].clone() } else { v };
    let d = if v.get("dump").is_some() { v["dump"].clone() } else if v.get("dump_rs").is_some() { v["dump_rs"].clone() } else { v };
    let cdi: Cdi = de(&unhex(d["cdi"].as_str().unwrap())).expect("cdi");
    let ip: IpInfo<IpPairing> = de(&unhex(d["ip_info"].as_str().unwrap())).expect("ip_info");
    let global: GlobalContext<ArCurve> = de(&unhex(d["global"].as_str().unwrap())).expect("global");
    let mut ars: ArMap = BTreeMap::new();
    for a in d["ars"].as_array().unwrap() { let x: ArInfo<ArCurve> = de(&unhex(a.as_str().unwrap())).expect("ar"); ars.insert(x.ar_identity, x); }
    let noe: NoE = if let Some(t) = d["noe"].get("new") { Left(TransactionTime { seconds: t.as_str().unwrap().parse().unwrap() }) }
                   else { let b = unhex(d["noe"]["existing"].as_str().unwrap()); let mut a = [0u8; 32]; a.copy_from_slice(&b); Right(AccountAddress(a)) };
    println!("{}", json!({"verify_cdi": verr(&guarded(|| verify_cdi(&global, &ip, &ars, &cdi, &noe)))}));
}

fn main() {
    quiet_panics();
    let a: Vec<String> = std::env::args().collect();
    match a[1].as_str() {
        "lincheck" => lincheck(),
        "replay" => { if guarded(replay).is_err() { println!("{}", json!({"error": "replay input could not be decoded"})); } }
        "pipeline" => { let seed: u64 = a[2].parse().unwrap(); pipeline(seed, a[3] == "thorough", a[4].parse().unwrap(), a[5].parse().unwrap(), None) }
        "one" => { let seed: u64 = a[2].parse().unwrap(); pipeline(seed, a[3] == "thorough", 0, 1, Some(a[4].parse().unwrap())) }
        "configs" => { let seed: u64 = a[2].parse().unwrap(); for c in configs(seed, a[3] == "thorough") { println!("{:?}", c); } }
        "sharegen" => sharegen(a[2].parse().unwrap(), a[3].parse().unwrap()),
        "leq" => leq(a[2].parse().unwrap(), a[3].parse().unwrap()),
        "keylen" => keylen(a[2].parse().unwrap()),
        _ => panic!("mode"),
    }
    // abandoned helper threads (a hanging discrete log) must not keep the process alive
    std::process::exit(0);
}
