//! C10 harness: schema-directed JSON <-> binary conversion.
//!
//! Modes (every random choice derives from the seed; one JSON object per line):
//!   rt <seed> <n> <depth>     conforming JSON (with the accepted spelling variations) and near-miss JSON
//!   bytes <seed> <n> <depth>  arbitrary (Type, bytes) pairs incl. hostile lengths
//!   schema <seed> <n> <depth> binary codec of Type / Function / Contract / Module schemas, all versions,
//!                             with and without version prefix, base64, testdata files
//!   contract <seed> <n>       from_json bytes are the contract-side encoding (from_bytes::<T>)
//!   leaf <seed> <n>           text forms of the opaque leaves parse back
//!   obs                       observations O1 / O2 (outside the claim)
//!   leb <seed> <n>            ULeb128/ILeb128: shortest / padded / near-miss encodings at the constraint's boundaries
//!   new <seed> <n> <depth>    VersionedModuleSchema::new on (un)versioned / damaged bytes with every kind of hint
//!   b64 <seed> <n>            base64 STANDARD_NO_PAD: canonical, trailing bits, padding, bad symbols / lengths
use base64::{engine::general_purpose, Engine};
use concordium_contracts_common::{
    from_bytes, schema::*, to_bytes, AccountAddress, Amount, ContractAddress, Cursor, Deserial, Duration,
    OwnedContractName, OwnedReceiveName, Serial, Timestamp,
};
use hlib::{guarded, hex, quiet_panics, Rng};
use serde_json::{json, Map, Value};
use std::collections::{BTreeMap, BTreeSet};
use std::str::FromStr;

// ------------------------------------------------------------------------------------------ types
const SIZES: [SizeLength; 4] = [SizeLength::U8, SizeLength::U16, SizeLength::U32, SizeLength::U64];

fn sl_num(s: &SizeLength) -> u64 {
    match s { SizeLength::U8 => 8, SizeLength::U16 => 16, SizeLength::U32 => 32, SizeLength::U64 => 64 }
}

struct Gen {
    r: Rng,
    /// allow duplicate field / variant names (dedicated small stream)
    dup: bool,
    /// bytes stream: collections of zero-width elements only get U8/U16 lengths and arrays <= 2^16
    hostile: bool,
    /// remaining type nodes / value nodes for the current case (keeps deep cases small)
    tbudget: i64,
    vbudget: i64,
}

fn gen_name(g: &mut Gen) -> String {
    let r = &mut g.r;
    match r.below(12) {
        0 => String::new(),
        1 => "index".into(),
        2 => "contract".into(),
        3 => "Some".into(),
        4 => "None".into(),
        5 => { let c = *r.pick(&['é', 'ß', '€', '𝄞', 'a', 'Z', '_', ' ', '"', '\\']); let mut s = String::from("f"); s.push(c); s }
        _ => { let n = r.range(1, 6); (0..n).map(|_| *r.pick(&['a', 'b', 'c', 'x', 'y', 'A', 'B', '0', '1', '_'])).collect() }
    }
}

fn distinct_names(g: &mut Gen, n: usize) -> Vec<String> {
    let mut out: Vec<String> = Vec::new();
    while out.len() < n {
        let mut s = gen_name(g);
        if !g.dup || !g.r.chance(1, 3) {
            while out.contains(&s) { s.push(*g.r.pick(&['a', 'b', 'q', '1'])); }
        }
        out.push(s);
    }
    out
}

/// Minimal number of bytes a value of the type occupies (0 = "zero-width").
fn min_width(t: &Type) -> u64 {
    fn fw(f: &Fields) -> u64 {
        match f {
            Fields::Named(l) => l.iter().map(|(_, t)| min_width(t)).fold(0u64, |a, b| a.saturating_add(b)),
            Fields::Unnamed(l) => l.iter().map(min_width).fold(0u64, |a, b| a.saturating_add(b)),
            Fields::None => 0,
        }
    }
    match t {
        Type::Unit => 0,
        Type::Bool | Type::U8 | Type::I8 => 1,
        Type::U16 | Type::I16 => 2,
        Type::U32 | Type::I32 => 4,
        Type::U64 | Type::I64 | Type::Amount | Type::Timestamp | Type::Duration => 8,
        Type::U128 | Type::I128 | Type::ContractAddress => 16,
        Type::AccountAddress => 32,
        Type::Pair(a, b) => min_width(a).saturating_add(min_width(b)),
        Type::List(s, _) | Type::Set(s, _) | Type::Map(s, _, _) | Type::String(s) | Type::ContractName(s)
        | Type::ReceiveName(s) | Type::ByteList(s) => sl_num(s) / 8,
        Type::Array(n, t) => (*n as u64).saturating_mul(min_width(t)),
        Type::Struct(f) => fw(f),
        Type::Enum(_) | Type::TaggedEnum(_) => 1,
        Type::ULeb128(_) | Type::ILeb128(_) => 1,
        Type::ByteArray(n) => *n as u64,
    }
}

fn gen_fields(g: &mut Gen, depth: u32) -> Fields {
    match g.r.below(5) {
        0 => Fields::None,
        1 | 2 => {
            let n = g.r.below(4) as usize;
            let names = distinct_names(g, n);
            Fields::Named(names.into_iter().map(|nm| { let t = gen_type(g, depth); (nm, t) }).collect())
        }
        _ => { let n = g.r.below(4) as usize; Fields::Unnamed((0..n).map(|_| gen_type(g, depth)).collect()) }
    }
}

fn gen_constraint(r: &mut Rng) -> u32 {
    match r.below(10) { 0 => 0, 1 => 1, 2 => 2, 3 => 5, 4 => 10, 5 => 19, 6 => 37, 7 => u32::MAX, _ => r.range(1, 12) as u32 }
}

fn gen_leaf(g: &mut Gen) -> Type {
    let r = &mut g.r;
    match r.below(27) {
        0 => Type::Unit, 1 => Type::Bool, 2 => Type::U8, 3 => Type::U16, 4 => Type::U32, 5 => Type::U64, 6 => Type::U128,
        7 => Type::I8, 8 => Type::I16, 9 => Type::I32, 10 => Type::I64, 11 => Type::I128, 12 => Type::Amount,
        13 => Type::AccountAddress, 14 => Type::ContractAddress, 15 => Type::Timestamp, 16 => Type::Duration,
        17 => Type::String(*r.pick(&SIZES)), 18 => Type::ContractName(*r.pick(&SIZES)), 19 => Type::ReceiveName(*r.pick(&SIZES)),
        20 | 21 => Type::ULeb128(gen_constraint(r)), 22 | 23 => Type::ILeb128(gen_constraint(r)),
        24 => Type::ByteList(*r.pick(&SIZES)),
        _ => Type::ByteArray(match r.below(6) { 0 => 0, 1 => 1, 2 => 32, 3 => 64, _ => r.below(9) as u32 }),
    }
}

/// `depth` = remaining nesting budget; the result nests at most `depth` constructors deep.
fn gen_type(g: &mut Gen, depth: u32) -> Type {
    g.tbudget -= 1;
    if depth <= 1 || g.tbudget <= 0 || g.r.chance(2, 7) { return gen_leaf(g); }
    let d = depth - 1;
    let pick_size = |g: &mut Gen, elem_zero: bool| -> SizeLength {
        if g.hostile && elem_zero { *g.r.pick(&[SizeLength::U8, SizeLength::U16]) } else { *g.r.pick(&SIZES) }
    };
    match g.r.below(12) {
        0 => Type::Pair(Box::new(gen_type(g, d)), Box::new(gen_type(g, d))),
        1 | 2 => { let e = gen_type(g, d); let s = pick_size(g, min_width(&e) == 0); Type::List(s, Box::new(e)) }
        3 => { let e = gen_type(g, d); let s = pick_size(g, min_width(&e) == 0); Type::Set(s, Box::new(e)) }
        4 => {
            let k = gen_type(g, d); let v = gen_type(g, d);
            let s = pick_size(g, min_width(&k) == 0 && min_width(&v) == 0);
            Type::Map(s, Box::new(k), Box::new(v))
        }
        5 => {
            let e = gen_type(g, d);
            let n = match g.r.below(8) { 0 => 0, 1 => 1, 2 => 2, 3 => 3,
                4 => if g.hostile && min_width(&e) > 0 { *g.r.pick(&[u32::MAX, 1 << 31, 65536, 100000]) } else { 4 },
                _ => g.r.below(5) as u32 };
            Type::Array(n, Box::new(e))
        }
        6 | 7 => Type::Struct(gen_fields(g, d)),
        8 | 9 => {
            if g.r.chance(1, 20) {
                // around the u8 / u16 boundary of the variant index
                let n = *g.r.pick(&[255usize, 256, 257, 300]);
                return Type::Enum((0..n).map(|i| (format!("v{}", i), if i % 64 == 63 || i + 1 == n { Fields::Unnamed(vec![Type::U8]) } else { Fields::None })).collect());
            }
            let n = g.r.range(1, 4) as usize;
            let names = distinct_names(g, n);
            Type::Enum(names.into_iter().map(|nm| { let f = gen_fields(g, d); (nm, f) }).collect())
        }
        _ => {
            let n = g.r.range(1, 4) as usize;
            let names = distinct_names(g, n);
            let mut m = BTreeMap::new();
            for nm in names {
                let tag = match g.r.below(4) { 0 => 0u8, 1 => 255, _ => g.r.below(256) as u8 };
                let f = gen_fields(g, d);
                m.insert(tag, (nm, f));
            }
            Type::TaggedEnum(m)
        }
    }
}

/// Chain of single-child constructors of exactly the given depth (used for the depth axis).
fn gen_deep(g: &mut Gen, depth: u32) -> Type {
    let mut t = gen_leaf(g);
    for _ in 1..depth {
        t = match g.r.below(7) {
            0 => Type::Pair(Box::new(t), Box::new(Type::U8)),
            1 => Type::List(SizeLength::U8, Box::new(t)),
            2 => Type::Array(1, Box::new(t)),
            3 => Type::Struct(Fields::Unnamed(vec![t])),
            4 => Type::Struct(Fields::Named(vec![("f".into(), t)])),
            5 => Type::Enum(vec![("None".into(), Fields::None), ("Some".into(), Fields::Unnamed(vec![t]))]),
            _ => { let mut m = BTreeMap::new(); m.insert(7u8, ("V".to_string(), Fields::Unnamed(vec![t]))); Type::TaggedEnum(m) }
        };
    }
    t
}

fn type_depth(t: &Type) -> u32 {
    fn fd(f: &Fields) -> u32 {
        match f {
            Fields::Named(l) => l.iter().map(|(_, t)| type_depth(t)).max().unwrap_or(0),
            Fields::Unnamed(l) => l.iter().map(type_depth).max().unwrap_or(0),
            Fields::None => 0,
        }
    }
    1 + match t {
        Type::Pair(a, b) => type_depth(a).max(type_depth(b)),
        Type::List(_, e) | Type::Set(_, e) | Type::Array(_, e) => type_depth(e),
        Type::Map(_, k, v) => type_depth(k).max(type_depth(v)),
        Type::Struct(f) => fd(f),
        Type::Enum(vs) => vs.iter().map(|(_, f)| fd(f)).max().unwrap_or(0),
        Type::TaggedEnum(vs) => vs.values().map(|(_, f)| fd(f)).max().unwrap_or(0),
        _ => 0,
    }
}

fn fields_desc(f: &Fields) -> Value {
    match f {
        Fields::Named(l) => json!({"k":"N","l": l.iter().map(|(n, t)| json!([n, type_desc(t)])).collect::<Vec<_>>()}),
        Fields::Unnamed(l) => json!({"k":"U","l": l.iter().map(type_desc).collect::<Vec<_>>()}),
        Fields::None => json!({"k":"0"}),
    }
}

fn type_desc(t: &Type) -> Value {
    let simple = |s: &str| json!({ "t": s });
    match t {
        Type::Unit => simple("Unit"), Type::Bool => simple("Bool"),
        Type::U8 => simple("U8"), Type::U16 => simple("U16"), Type::U32 => simple("U32"), Type::U64 => simple("U64"), Type::U128 => simple("U128"),
        Type::I8 => simple("I8"), Type::I16 => simple("I16"), Type::I32 => simple("I32"), Type::I64 => simple("I64"), Type::I128 => simple("I128"),
        Type::Amount => simple("Amount"), Type::AccountAddress => simple("AccountAddress"), Type::ContractAddress => simple("ContractAddress"),
        Type::Timestamp => simple("Timestamp"), Type::Duration => simple("Duration"),
        Type::Pair(a, b) => json!({"t":"Pair","a":type_desc(a),"b":type_desc(b)}),
        Type::List(s, e) => json!({"t":"List","s":sl_num(s),"e":type_desc(e)}),
        Type::Set(s, e) => json!({"t":"Set","s":sl_num(s),"e":type_desc(e)}),
        Type::Map(s, k, v) => json!({"t":"Map","s":sl_num(s),"a":type_desc(k),"b":type_desc(v)}),
        Type::Array(n, e) => json!({"t":"Array","n":n,"e":type_desc(e)}),
        Type::Struct(f) => json!({"t":"Struct","f":fields_desc(f)}),
        Type::Enum(vs) => json!({"t":"Enum","v": vs.iter().map(|(n, f)| json!([n, fields_desc(f)])).collect::<Vec<_>>()}),
        Type::String(s) => json!({"t":"String","s":sl_num(s)}),
        Type::ContractName(s) => json!({"t":"ContractName","s":sl_num(s)}),
        Type::ReceiveName(s) => json!({"t":"ReceiveName","s":sl_num(s)}),
        Type::ULeb128(c) => json!({"t":"ULeb128","n":c}),
        Type::ILeb128(c) => json!({"t":"ILeb128","n":c}),
        Type::ByteList(s) => json!({"t":"ByteList","s":sl_num(s)}),
        Type::ByteArray(n) => json!({"t":"ByteArray","n":n}),
        Type::TaggedEnum(vs) => json!({"t":"TaggedEnum","v": vs.iter().map(|(tag, (n, f))| json!([tag, n, fields_desc(f)])).collect::<Vec<_>>()}),
    }
}

fn top_kind(t: &Type) -> &'static str {
    match t {
        Type::Unit => "Unit", Type::Bool => "Bool", Type::U8 | Type::U16 | Type::U32 | Type::U64 => "UInt", Type::U128 => "U128",
        Type::I8 | Type::I16 | Type::I32 | Type::I64 => "SInt", Type::I128 => "I128", Type::Amount => "Amount",
        Type::AccountAddress => "AccountAddress", Type::ContractAddress => "ContractAddress", Type::Timestamp => "Timestamp",
        Type::Duration => "Duration", Type::Pair(..) => "Pair", Type::List(..) => "List", Type::Set(..) => "Set", Type::Map(..) => "Map",
        Type::Array(..) => "Array", Type::Struct(..) => "Struct", Type::Enum(..) => "Enum", Type::String(..) => "String",
        Type::ContractName(..) => "ContractName", Type::ReceiveName(..) => "ReceiveName", Type::ULeb128(..) => "ULeb128",
        Type::ILeb128(..) => "ILeb128", Type::ByteList(..) => "ByteList", Type::ByteArray(..) => "ByteArray", Type::TaggedEnum(..) => "TaggedEnum",
    }
}

// ------------------------------------------------------------------------------------------ values
fn dec_variant(r: &mut Rng, digits: String, allow_us: bool) -> String {
    // spellings the parsers accept besides the canonical one
    match r.below(8) {
        0 => format!("+{}", digits),
        1 => format!("00{}", digits),
        2 => format!("+0{}", digits),
        3 if allow_us && digits.len() > 1 => { let mut s = digits.clone(); s.insert(1, '_'); s.push('_'); s }
        _ => digits,
    }
}

fn big_pow2(k: u32) -> Vec<u8> { // little-endian bytes of 2^k
    let mut v = vec![0u8; (k / 8 + 1) as usize];
    v[(k / 8) as usize] = 1 << (k % 8);
    v
}
fn le_to_dec(mut v: Vec<u8>) -> String { // decimal of a little-endian magnitude
    let mut digits = Vec::new();
    while v.iter().any(|&b| b != 0) {
        let mut rem = 0u32;
        for b in v.iter_mut().rev() { let cur = (rem << 8) | *b as u32; *b = (cur / 10) as u8; rem = cur % 10; }
        digits.push((b'0' + rem as u8) as char);
    }
    if digits.is_empty() { "0".into() } else { digits.iter().rev().collect() }
}
fn le_sub1(mut v: Vec<u8>) -> Vec<u8> { for b in v.iter_mut() { if *b == 0 { *b = 255 } else { *b -= 1; break } } v }
fn le_add1(mut v: Vec<u8>) -> Vec<u8> { for b in v.iter_mut() { if *b == 255 { *b = 0 } else { *b += 1; return v } } v.push(1); v }

fn gen_uleb_text(r: &mut Rng, c: u32) -> String {
    // values around the 7*c-bit boundary of the constraint
    let bits = 7u64 * (c.min(40) as u64);
    let mag = match r.below(8) {
        0 => vec![0u8],
        1 if bits > 0 => le_sub1(big_pow2(bits as u32)),              // largest that fits
        2 => big_pow2(bits as u32),                                   // smallest that does not fit
        3 if bits >= 7 => big_pow2(bits as u32 - 7),                  // needs exactly c bytes
        4 if bits >= 7 => le_sub1(big_pow2(bits as u32 - 7)),         // needs c-1 bytes
        5 => r.u64_edge().to_le_bytes().to_vec(),
        _ => { let n = r.range(1, (bits / 8 + 2).min(40)) as usize; r.bytes(n) }
    };
    dec_variant(r, le_to_dec(mag), true)
}
fn gen_ileb_text(r: &mut Rng, c: u32) -> String {
    let bits = 7u64 * (c.min(40) as u64);
    let (neg, mag) = match r.below(10) {
        0 => (false, vec![0u8]),
        1 => (true, vec![0u8]),                                                   // "-0"
        2 if bits > 0 => (false, le_sub1(big_pow2(bits as u32 - 1))),             // max that fits
        3 if bits > 0 => (false, big_pow2(bits as u32 - 1)),                      // does not fit
        4 if bits > 0 => (true, big_pow2(bits as u32 - 1)),                       // min that fits
        5 if bits > 0 => (true, le_add1(big_pow2(bits as u32 - 1))),              // does not fit
        6 => (r.chance(1, 2), vec![*r.pick(&[63u8, 64, 65, 127, 128, 129, 1, 2])]),
        7 => (r.chance(1, 2), r.u64_edge().to_le_bytes().to_vec()),
        _ => { let n = r.range(1, (bits / 8 + 2).min(40)) as usize; (r.chance(1, 2), r.bytes(n)) }
    };
    let d = le_to_dec(mag);
    if neg { let mut s = String::from("-"); s.push_str(&match r.below(4) { 0 => format!("00{}", d), _ => d }); s } else { dec_variant(r, d, true) }
}

fn gen_u_edge(r: &mut Rng, bits: u32) -> u64 {
    let max = if bits == 64 { u64::MAX } else { (1u64 << bits) - 1 };
    match r.below(6) { 0 => 0, 1 => max, 2 => max - 1, 3 => 1, 4 => max / 2 + 1, _ => r.u64_edge() & max }
}
fn gen_i_edge(r: &mut Rng, bits: u32) -> i64 {
    let min = if bits == 64 { i64::MIN } else { -(1i64 << (bits - 1)) };
    let max = if bits == 64 { i64::MAX } else { (1i64 << (bits - 1)) - 1 };
    match r.below(8) { 0 => 0, 1 => max, 2 => min, 3 => -1, 4 => 1, 5 => min + 1, _ => { let x = r.u64_edge() as i64; if bits == 64 { x } else { (x << (64 - bits)) >> (64 - bits) } } }
}

fn gen_string(r: &mut Rng) -> String {
    match r.below(40) {
        0 => "a".repeat(*r.pick(&[255usize, 256, 4095, 4096, 4097, 4100, 4160, 5000])),
        1 => "é".repeat(*r.pick(&[128usize, 2049, 2100])),
        _ => {
            let n = r.below(7);
            (0..n).map(|_| *r.pick(&['a', 'b', 'Z', '0', ' ', '"', '\\', '\n', '\u{0}', 'é', 'ß', '€', '한', '𝄞', '\u{7f}', '\u{80}', '\u{7ff}', '\u{800}', '\u{ffff}', '\u{10000}', '\u{10ffff}', '@'])).collect()
        }
    }
}

fn gen_ident(r: &mut Rng, max: usize) -> String {
    let n = r.below(max as u64 + 1) as usize;
    (0..n).map(|_| *r.pick(&['a', 'b', 'c', 'X', 'Y', '0', '9', '_', '-', '!', '~', '#'])).collect()
}

fn count_for(g: &mut Gen, s: &SizeLength, small_elems: bool) -> usize {
    if g.vbudget <= 0 { return g.r.below(2) as usize; }
    let r = &mut g.r;
    match r.below(30) {
        0 if small_elems => match s { SizeLength::U8 => *r.pick(&[255usize, 256]), _ => *r.pick(&[256usize, 300]) },
        _ => r.below(4) as usize,
    }
}

fn gen_fields_value(g: &mut Gen, f: &Fields) -> Value {
    match f {
        Fields::Named(l) => {
            let mut m = Map::new();
            for (n, t) in l.iter() {
                // with duplicate names the first value generated is kept only if the later type accepts it
                if !m.contains_key(n) || g.r.chance(1, 2) { let v = gen_value(g, t); m.insert(n.clone(), v); }
            }
            Value::Object(m)
        }
        Fields::Unnamed(l) => Value::Array(l.iter().map(|t| gen_value(g, t)).collect()),
        Fields::None => match g.r.below(4) { 0 => Value::Null, 1 => json!({}), 2 => json!(7), _ => json!([]) },
    }
}

/// A JSON value the schema accepts (using the whole accepted grammar, not only the printed form).
fn gen_value(g: &mut Gen, t: &Type) -> Value {
    g.vbudget -= 1;
    match t {
        Type::Unit => match g.r.below(5) { 0 => Value::Null, 1 => json!([]), 2 => json!({}), 3 => json!("unit"), _ => json!(0) },
        Type::Bool => Value::Bool(g.r.chance(1, 2)),
        Type::U8 => json!(gen_u_edge(&mut g.r, 8)), Type::U16 => json!(gen_u_edge(&mut g.r, 16)),
        Type::U32 => json!(gen_u_edge(&mut g.r, 32)), Type::U64 => json!(gen_u_edge(&mut g.r, 64)),
        Type::I8 => json!(gen_i_edge(&mut g.r, 8)), Type::I16 => json!(gen_i_edge(&mut g.r, 16)),
        Type::I32 => json!(gen_i_edge(&mut g.r, 32)), Type::I64 => json!(gen_i_edge(&mut g.r, 64)),
        Type::U128 => {
            let v: u128 = match g.r.below(6) { 0 => 0, 1 => u128::MAX, 2 => 1u128 << 64, 3 => (1u128 << 127) + 1, 4 => g.r.u64_edge() as u128,
                _ => ((g.r.next() as u128) << 64) | g.r.next() as u128 };
            Value::String(dec_variant(&mut g.r, v.to_string(), false))
        }
        Type::I128 => {
            let v: i128 = match g.r.below(8) { 0 => 0, 1 => i128::MAX, 2 => i128::MIN, 3 => -1, 4 => i128::MIN + 1, 5 => -(g.r.u64_edge() as i128),
                _ => (((g.r.next() as u128) << 64) | g.r.next() as u128) as i128 };
            let s = if v < 0 { v.to_string() } else if g.r.chance(1, 8) { "-0".to_string() } else { dec_variant(&mut g.r, v.to_string(), false) };
            Value::String(if v == 0 && g.r.chance(1, 3) { "-0".into() } else { s })
        }
        Type::Amount => { let v = g.r.u64_edge(); Value::String(dec_variant(&mut g.r, v.to_string(), false)) }
        Type::AccountAddress => {
            let mut b = [0u8; 32];
            match g.r.below(4) { 0 => {}, 1 => b = [255u8; 32], _ => b.copy_from_slice(&g.r.bytes(32)) }
            if g.r.chance(1, 6) { b[0] = 0; b[1] = 0; }
            Value::String(AccountAddress(b).to_string())
        }
        Type::ContractAddress => {
            let i = g.r.u64_edge(); let s = g.r.u64_edge();
            match g.r.below(7) {
                0 => json!({"index": i}),
                1 => json!({"index": i, "zzz": 1}),
                2 => json!({"index": i, "subindex": "7"}),
                3 => json!({"index": i, "subindex": -1}),
                4 => json!({"index": i, "subindex": 1.5}),
                _ => json!({"index": i, "subindex": s}),
            }
        }
        Type::Timestamp => {
            let m = match g.r.below(6) { 0 => g.r.u64_edge(), 1 => g.r.below(4102444800000), 2 => 253402300799999, 3 => 253402300800000, 4 => u64::MAX, _ => g.r.below(1 << 44) };
            match g.r.below(5) {
                0 => Value::String(m.to_string()),
                1 => Value::String(format!("+{}", m)),
                2 if m < 253402300800000 => {
                    // the same instant written with an offset and without fraction digits when possible
                    let s = Timestamp::from_timestamp_millis(m - m % 1000).to_string();
                    Value::String(s.replace("+00:00", "Z"))
                }
                _ => Value::String(Timestamp::from_timestamp_millis(m).to_string()),
            }
        }
        Type::Duration => {
            let parts: Vec<String> = (0..g.r.below(5)).map(|_| {
                let unit = *g.r.pick(&["ms", "s", "m", "h", "d"]);
                format!("{}{}", g.r.below(100000), unit)
            }).collect();
            Value::String(match g.r.below(4) { 0 => parts.join("  "), 1 => format!(" {} ", parts.join(" ")), _ => parts.join(" ") })
        }
        Type::Pair(a, b) => Value::Array(vec![gen_value(g, a), gen_value(g, b)]),
        Type::List(s, e) | Type::Set(s, e) => {
            let n = count_for(g, s, min_width(e) <= 2 && type_depth(e) <= 2);
            Value::Array((0..n).map(|_| gen_value(g, e)).collect())
        }
        Type::Map(s, k, v) => {
            let n = count_for(g, s, min_width(k) + min_width(v) <= 2 && type_depth(k) + type_depth(v) <= 3);
            Value::Array((0..n).map(|_| Value::Array(vec![gen_value(g, k), gen_value(g, v)])).collect())
        }
        Type::Array(n, e) => {
            // arrays declared longer than 64 elements get a (rejected) short value
            let n = if g.vbudget <= 0 { (*n).min(4) as usize } else { (*n).min(64) as usize };
            Value::Array((0..n).map(|_| gen_value(g, e)).collect())
        }
        Type::Struct(f) => gen_fields_value(g, f),
        Type::Enum(vs) => {
            let idx = if vs.len() > 200 && g.r.chance(1, 2) { *g.r.pick(&[0usize, 254, vs.len() - 2, vs.len() - 1]) } else { g.r.below(vs.len() as u64) as usize };
            let (n, f) = &vs[idx];
            let mut m = Map::new(); m.insert(n.clone(), gen_fields_value(g, f)); Value::Object(m)
        }
        Type::TaggedEnum(vs) => {
            let idx = g.r.below(vs.len() as u64) as usize;
            let (n, f) = vs.values().nth(idx).unwrap();
            let mut m = Map::new(); m.insert(n.clone(), gen_fields_value(g, f)); Value::Object(m)
        }
        Type::String(_) => Value::String(gen_string(&mut g.r)),
        Type::ContractName(_) => {
            // the contract part may itself start with / contain / be "init_" (exactly one prefix is stripped), or be empty
            let name = match g.r.below(18) { 0 => "a".repeat(95), 1 => "a".repeat(96), 2 => "a.b".into(), 3 => "é".into(), 4 => "a b".into(),
                5 => "init_token".into(), 6 => "init_init_token".into(), 7 => "a_init_b".into(), 8 => "init_".into(), 9 => String::new(),
                10 => "init_init_".into(), 11 => "xinit_".into(), _ => gen_ident(&mut g.r, 8) };
            json!({ "contract": name })
        }
        Type::ReceiveName(_) => {
            let c = match g.r.below(16) { 0 => "a".repeat(50), 1 => "a.b".into(), 2 => "ß".into(), 3 => "init_x".into(), 4 => "init_init_x".into(),
                5 => "init_".into(), 6 => String::new(), 7 => "a_init_".into(), _ => gen_ident(&mut g.r, 6) };
            let f = match g.r.below(18) { 0 => "b".repeat(49), 1 => "b".repeat(50), 2 => "x.y".into(), 3 => "x y".into(), 4 => "init_y".into(),
                5 => "init_init_y".into(), 6 => "..".into(), 7 => ".".into(), 8 => "a..b.".into(), 9 => String::new(), 10 => ".init_".into(), _ => gen_ident(&mut g.r, 6) };
            json!({ "contract": c, "func": f })
        }
        Type::ULeb128(c) => Value::String(gen_uleb_text(&mut g.r, *c)),
        Type::ILeb128(c) => Value::String(gen_ileb_text(&mut g.r, *c)),
        Type::ByteList(s) => {
            let n = match g.r.below(25) { 0 => match s { SizeLength::U8 => *g.r.pick(&[255usize, 256]), _ => 300 }, _ => g.r.below(6) as usize };
            Value::String(hex_case(&mut g.r, &g_bytes(n)))
        }
        Type::ByteArray(n) => { let n = (*n).min(200) as usize; let b = g.r.bytes(n); Value::String(hex_case(&mut g.r, &b)) }
    }
}
fn g_bytes(n: usize) -> Vec<u8> { (0..n).map(|i| (i * 37 + 11) as u8).collect() }
fn hex_case(r: &mut Rng, b: &[u8]) -> String {
    let s = hex(b);
    match r.below(4) { 0 => s.to_uppercase(), 1 => s.chars().enumerate().map(|(i, c)| if i % 3 == 0 { c.to_ascii_uppercase() } else { c }).collect(), _ => s }
}

// ------------------------------------------------------------------------------------------ near misses
fn count_nodes(v: &Value) -> u64 {
    1 + match v { Value::Array(a) => a.iter().map(count_nodes).sum(), Value::Object(m) => m.values().map(count_nodes).sum(), _ => 0 }
}
fn mutate_here(r: &mut Rng, v: &mut Value) -> &'static str {
    match v {
        Value::Null => { *v = json!(0); "null->0" }
        Value::Bool(_) => { *v = match r.below(3) { 0 => json!(1), 1 => json!("true"), _ => Value::Null }; "bool->other" }
        Value::Number(n) => {
            let kind = r.below(9);
            let nv = match kind {
                0 => json!(1.5), 1 => json!(-1), 2 => json!(n.to_string()), 3 => json!(256), 4 => json!(65536), 5 => json!(4294967296u64),
                6 => json!(-129), 7 => serde_json::from_str("18446744073709551616").unwrap(), _ => json!(n.as_i64().map(|x| x.wrapping_neg()).unwrap_or(-7)),
            };
            *v = nv; "number->near"
        }
        Value::String(s) => {
            let kind = r.below(10);
            match kind {
                0 => { *v = json!(12); "string->number" }
                1 => { s.push('g'); "string+g" }
                2 => { s.pop(); "string-last" }
                3 => { s.insert(0, '-'); "string+minus" }
                4 => { s.insert(0, ' '); "string+space" }
                5 => { *s = String::new(); "string->empty" }
                6 => { s.insert(0, '+'); "string+plus" }
                7 => { s.push('_'); "string+underscore" }
                8 => { *s = s.to_uppercase(); "string->upper" }
                _ => { s.push('0'); "string+0" }
            }
        }
        Value::Array(a) => {
            match r.below(5) {
                0 => { a.pop(); "array-pop" }
                1 => { let x = a.first().cloned().unwrap_or(json!(0)); a.push(x); "array-push" }
                2 => { *v = json!({}); "array->object" }
                3 => { a.reverse(); "array-reverse" }
                _ => { a.insert(0, Value::Null); "array+null" }
            }
        }
        Value::Object(m) => {
            match r.below(6) {
                0 => { if let Some(k) = m.keys().next().cloned() { m.remove(&k); } "object-key" }
                1 => { m.insert("extra".into(), json!(1)); "object+key" }
                2 => { if let Some(k) = m.keys().next().cloned() { let x = m.remove(&k).unwrap(); m.insert(format!("{}x", k), x); } "object-rename" }
                3 => { *v = json!([]); "object->array" }
                4 => { if let Some(k) = m.keys().next().cloned() { let x = m.remove(&k).unwrap(); m.insert(k.to_uppercase(), x); } "object-upper" }
                _ => { m.insert("subindex".into(), json!(3)); "object+subindex" }
            }
        }
    }
}
fn mutate_at(r: &mut Rng, v: &mut Value, idx: &mut u64) -> Option<&'static str> {
    if *idx == 0 { return Some(mutate_here(r, v)); }
    *idx -= 1;
    match v {
        Value::Array(a) => { for x in a.iter_mut() { if let Some(k) = mutate_at(r, x, idx) { return Some(k); } } None }
        Value::Object(m) => { for (_, x) in m.iter_mut() { if let Some(k) = mutate_at(r, x, idx) { return Some(k); } } None }
        _ => None,
    }
}

// ------------------------------------------------------------------------------------------ leaf translation
/// Rewrites the opaque leaf strings of `v` (as far as `v` has the shape `t` asks for) into the model's
/// stub forms by running the implementation's own parser: "@<hex>" for account addresses, "@<millis>"
/// for timestamps and durations.  A string the parser rejects is left as it is.
/// Returns Err when a leaf parser panics (observation O4: overflowing duration text).
fn export(t: &Type, v: &Value) -> Result<Value, String> {
    fn ef(f: &Fields, v: &Value) -> Result<Value, String> {
        match (f, v) {
            (Fields::Named(l), Value::Object(m)) => {
                let mut out = m.clone();
                for (n, t) in l.iter() { if let Some(x) = m.get(n) { out.insert(n.clone(), export(t, x)?); } }
                Ok(Value::Object(out))
            }
            (Fields::Unnamed(l), Value::Array(a)) if l.len() == a.len() => Ok(Value::Array(l.iter().zip(a.iter()).map(|(t, x)| export(t, x)).collect::<Result<_, _>>()?)),
            _ => Ok(v.clone()),
        }
    }
    Ok(match (t, v) {
        (Type::AccountAddress, Value::String(s)) => match AccountAddress::from_str(s) { Ok(a) => Value::String(format!("@{}", hex(&a.0))), Err(_) => v.clone() },
        (Type::Timestamp, Value::String(s)) => match guarded(|| Timestamp::from_str(s)) { Ok(Ok(t)) => Value::String(format!("@{}", t.timestamp_millis())), Ok(Err(_)) => v.clone(), Err(e) => return Err(e) },
        (Type::Duration, Value::String(s)) => match guarded(|| Duration::from_str(s)) { Ok(Ok(d)) => Value::String(format!("@{}", d.millis())), Ok(Err(_)) => v.clone(), Err(e) => return Err(e) },
        (Type::Pair(a, b), Value::Array(xs)) if xs.len() == 2 => Value::Array(vec![export(a, &xs[0])?, export(b, &xs[1])?]),
        (Type::List(_, e), Value::Array(xs)) | (Type::Set(_, e), Value::Array(xs)) | (Type::Array(_, e), Value::Array(xs)) =>
            Value::Array(xs.iter().map(|x| export(e, x)).collect::<Result<_, _>>()?),
        (Type::Map(_, k, w), Value::Array(xs)) => Value::Array(xs.iter().map(|x| match x {
            Value::Array(p) if p.len() == 2 => Ok(Value::Array(vec![export(k, &p[0])?, export(w, &p[1])?])),
            _ => Ok(x.clone()) }).collect::<Result<_, String>>()?),
        (Type::Struct(f), _) => ef(f, v)?,
        (Type::Enum(vs), Value::Object(m)) if m.len() == 1 => {
            let (n, x) = m.iter().next().unwrap();
            match vs.iter().find(|(vn, _)| vn == n) { Some((_, f)) => { let mut o = Map::new(); o.insert(n.clone(), ef(f, x)?); Value::Object(o) } None => v.clone() }
        }
        (Type::TaggedEnum(vs), Value::Object(m)) if m.len() == 1 => {
            let (n, x) = m.iter().next().unwrap();
            match vs.values().find(|(vn, _)| vn == n) { Some((_, f)) => { let mut o = Map::new(); o.insert(n.clone(), ef(f, x)?); Value::Object(o) } None => v.clone() }
        }
        _ => v.clone(),
    })
}

/// Whether a struct in the type repeats a field name (the converse direction is only claimed without).
fn has_dup_names(t: &Type) -> bool {
    fn fd(f: &Fields) -> bool {
        match f {
            Fields::Named(l) => { let s: BTreeSet<&String> = l.iter().map(|x| &x.0).collect(); s.len() != l.len() || l.iter().any(|(_, t)| has_dup_names(t)) }
            Fields::Unnamed(l) => l.iter().any(has_dup_names),
            Fields::None => false,
        }
    }
    match t {
        Type::Pair(a, b) | Type::Map(_, a, b) => has_dup_names(a) || has_dup_names(b),
        Type::List(_, e) | Type::Set(_, e) | Type::Array(_, e) => has_dup_names(e),
        Type::Struct(f) => fd(f),
        Type::Enum(vs) => vs.iter().any(|(_, f)| fd(f)),
        Type::TaggedEnum(vs) => vs.values().any(|(_, f)| fd(f)),
        _ => false,
    }
}

fn to_json_full(t: &Type, bytes: &[u8]) -> Result<Result<(Value, usize), String>, String> {
    guarded(|| {
        let mut c = Cursor::new(bytes);
        match t.to_json(&mut c) { Ok(v) => Ok((v, c.offset)), Err(e) => Err(short(&e.display(false))) }
    })
}
fn short(s: &str) -> String { s.chars().take(160).collect() }

// ------------------------------------------------------------------------------------------ mode rt
fn mode_rt(seed: u64, n: u64, depth: u32) {
    let mut g = Gen { r: Rng::new(seed ^ 0x10), dup: false, hostile: false, tbudget: 0, vbudget: 0 };
    for i in 0..n {
        g.dup = i % 23 == 22;
        g.tbudget = 40; g.vbudget = 400;
        let t = match i % 10 { 0 => gen_deep(&mut g, depth), 1 => gen_leaf(&mut g), _ => { let d = g.r.range(1, depth as u64) as u32; gen_type(&mut g, d) } };
        let mut j = gen_value(&mut g, &t);
        let mut mutation = "none";
        if i % 3 == 2 {
            let mut idx = g.r.below(count_nodes(&j));
            mutation = mutate_at(&mut g.r, &mut j, &mut idx).unwrap_or("none");
        }
        let mut line = json!({"k":"rt","ty":type_desc(&t),"kind":top_kind(&t),"depth":type_depth(&t),"mut":mutation,"dup":has_dup_names(&t)});
        let jx = match export(&t, &j) { Ok(x) => x, Err(e) => { line["skip"] = json!(format!("leaf parser panicked (O4): {}", short(&e))); line["raw"] = j.clone(); println!("{}", line); continue; } };
        line["j"] = jx;
        if j.to_string().len() < 300 { line["raw"] = j.clone(); }
        match guarded(|| t.serial_value(&j)) {
            Err(p) => { line["bytes"] = json!("PANIC"); line["panic"] = json!(short(&p)); }
            Ok(Err(e)) => { line["bytes"] = json!("ERR"); line["err"] = json!(short(&e.display(false))); }
            Ok(Ok(bs)) => {
                line["bytes"] = json!(hex(&bs));
                match to_json_full(&t, &bs) {
                    Err(p) => { line["out"] = json!("PANIC"); line["panic"] = json!(short(&p)); }
                    Ok(Err(e)) => { line["out"] = json!("ERR"); line["err"] = json!(e); }
                    Ok(Ok((v, used))) => {
                        line["rest"] = json!(bs.len() - used);
                        match export(&t, &v) { Ok(x) => line["out"] = json!({ "v": x }), Err(e) => { line["out"] = json!("LEAFPANIC"); line["panic"] = json!(short(&e)); } }
                        // direct oracle on the implementation alone: the printed JSON is accepted, denotes the same
                        // bytes and prints as itself (second round trip is the identity)
                        let second = guarded(|| t.serial_value(&v));
                        let idem = match second {
                            Ok(Ok(bs2)) => {
                                let same_bytes = bs2 == bs;
                                let again = to_json_full(&t, &bs2);
                                let same_json = matches!(&again, Ok(Ok((v2, u2))) if *v2 == v && *u2 == bs2.len());
                                json!({"accepted": true, "same_bytes": same_bytes, "same_json": same_json})
                            }
                            Ok(Err(e)) => json!({"accepted": false, "err": short(&e.display(false))}),
                            Err(p) => json!({"accepted": false, "panic": short(&p)}),
                        };
                        line["idem"] = idem;
                    }
                }
            }
        }
        println!("{}", line);
    }
}

// ------------------------------------------------------------------------------------------ mode bytes
fn mode_bytes(seed: u64, n: u64, depth: u32) {
    let mut g = Gen { r: Rng::new(seed ^ 0x20), dup: false, hostile: true, tbudget: 0, vbudget: 0 };
    for i in 0..n {
        g.tbudget = 40; g.vbudget = 400;
        let t = match i % 10 { 0 => gen_deep(&mut g, depth), 1 | 2 => gen_leaf(&mut g), _ => { let d = g.r.range(1, depth as u64) as u32; gen_type(&mut g, d) } };
        // start from a valid encoding when one can be produced
        let valid = { let j = gen_value(&mut g, &t); guarded(|| t.serial_value(&j)).ok().and_then(|x| x.ok()) };
        let (src, bytes): (&str, Vec<u8>) = match (g.r.below(10), valid) {
            (0, _) | (_, None) => { let k = g.r.below(40) as usize; ("random", g.r.bytes(k)) }
            (1, Some(mut b)) => { let k = g.r.below(6) as usize; b.extend(g.r.bytes(k)); ("valid+tail", b) }
            (2, Some(mut b)) => { let k = g.r.below(b.len() as u64 + 1) as usize; b.truncate(k); ("truncated", b) }
            (3, Some(mut b)) | (4, Some(mut b)) => {
                if !b.is_empty() { let p = g.r.below(b.len() as u64) as usize; b[p] = match g.r.below(4) { 0 => 255, 1 => 0, 2 => b[p].wrapping_add(1), _ => g.r.next() as u8 }; }
                ("byte-changed", b)
            }
            (5, Some(mut b)) => {
                // hostile length: overwrite the first bytes with 0xff (length prefixes sit in front)
                let k = (g.r.range(1, 8) as usize).min(b.len());
                for x in b.iter_mut().take(k) { *x = 255; }
                ("hostile-prefix", b)
            }
            (6, Some(mut b)) => { if !b.is_empty() { let p = g.r.below(b.len() as u64) as usize; let k = g.r.range(1, 8) as usize; for x in b.iter_mut().skip(p).take(k) { *x = 255; } } ("hostile-inner", b) }
            (_, Some(b)) => ("valid", b),
        };
        let mut line = json!({"k":"by","ty":type_desc(&t),"kind":top_kind(&t),"depth":type_depth(&t),"src":src,"bytes":hex(&bytes),"dup":has_dup_names(&t)});
        match to_json_full(&t, &bytes) {
            Err(p) => { line["out"] = json!("PANIC"); line["panic"] = json!(short(&p)); }
            Ok(Err(e)) => { line["out"] = json!("ERR"); line["err"] = json!(e); }
            Ok(Ok((v, used))) => {
                line["rest"] = json!(bytes.len() - used);
                match export(&t, &v) { Ok(x) => line["out"] = json!({ "v": x }), Err(e) => { line["out"] = json!("LEAFPANIC"); line["panic"] = json!(short(&e)); } }
                // converse oracle: what to_json prints is accepted by serial_value and prints as itself
                let conv = match guarded(|| t.serial_value(&v)) {
                    Ok(Ok(bs2)) => {
                        let again = to_json_full(&t, &bs2);
                        json!({"accepted": true, "same_json": matches!(&again, Ok(Ok((v2, u2))) if *v2 == v && *u2 == bs2.len()),
                               "same_bytes": bs2[..] == bytes[..used]})
                    }
                    Ok(Err(e)) => json!({"accepted": false, "err": short(&e.display(false))}),
                    Err(p) => json!({"accepted": false, "panic": short(&p)}),
                };
                line["conv"] = conv;
            }
        }
        println!("{}", line);
    }
}

// ------------------------------------------------------------------------------------------ mode schema
fn opt_desc(t: &Option<Type>) -> Value { match t { Some(t) => type_desc(t), None => Value::Null } }
fn f1_desc(f: &FunctionV1) -> Value {
    match f {
        FunctionV1::Parameter(p) => json!({"k":"P","p":type_desc(p)}),
        FunctionV1::ReturnValue(r) => json!({"k":"R","r":type_desc(r)}),
        FunctionV1::Both { parameter, return_value } => json!({"k":"B","p":type_desc(parameter),"r":type_desc(return_value)}),
    }
}
fn f2_desc(f: &FunctionV2) -> Value { json!({"p":opt_desc(&f.parameter),"r":opt_desc(&f.return_value),"e":opt_desc(&f.error)}) }

fn gen_opt_type(g: &mut Gen, depth: u32) -> Option<Type> { if g.r.chance(1, 3) { None } else { Some(gen_type(g, depth)) } }
fn gen_f1(g: &mut Gen, d: u32) -> FunctionV1 {
    match g.r.below(3) { 0 => FunctionV1::Parameter(gen_type(g, d)), 1 => FunctionV1::ReturnValue(gen_type(g, d)),
        _ => FunctionV1::Both { parameter: gen_type(g, d), return_value: gen_type(g, d) } }
}
fn gen_f2(g: &mut Gen, d: u32) -> FunctionV2 { FunctionV2 { parameter: gen_opt_type(g, d), return_value: gen_opt_type(g, d), error: gen_opt_type(g, d) } }
fn gen_map<T>(g: &mut Gen, mut f: impl FnMut(&mut Gen) -> T) -> BTreeMap<String, T> {
    let n = g.r.below(4) as usize;
    let names = distinct_names(g, n);
    let mut m = BTreeMap::new();
    for nm in names { let x = f(g); m.insert(nm, x); }
    m
}
fn map_desc<T>(m: &BTreeMap<String, T>, f: impl Fn(&T) -> Value) -> Value { Value::Array(m.iter().map(|(k, v)| json!([k, f(v)])).collect()) }

fn module_desc(m: &VersionedModuleSchema) -> Value {
    match m {
        VersionedModuleSchema::V0(m) => json!({"v":0,"c":map_desc(&m.contracts, |c| json!({"state":opt_desc(&c.state),"init":opt_desc(&c.init),"receive":map_desc(&c.receive, type_desc)}))}),
        VersionedModuleSchema::V1(m) => json!({"v":1,"c":map_desc(&m.contracts, |c| json!({"init":c.init.as_ref().map(f1_desc),"receive":map_desc(&c.receive, f1_desc)}))}),
        VersionedModuleSchema::V2(m) => json!({"v":2,"c":map_desc(&m.contracts, |c| json!({"init":c.init.as_ref().map(f2_desc),"receive":map_desc(&c.receive, f2_desc)}))}),
        VersionedModuleSchema::V3(m) => json!({"v":3,"c":map_desc(&m.contracts, |c| json!({"init":c.init.as_ref().map(f2_desc),"receive":map_desc(&c.receive, f2_desc),"event":opt_desc(&c.event)}))}),
    }
}
fn gen_module(g: &mut Gen, version: u8, d: u32) -> VersionedModuleSchema {
    match version {
        0 => VersionedModuleSchema::V0(ModuleV0 { contracts: gen_map(g, |g| ContractV0 { state: gen_opt_type(g, d), init: gen_opt_type(g, d), receive: gen_map(g, |g| gen_type(g, d)) }) }),
        1 => VersionedModuleSchema::V1(ModuleV1 { contracts: gen_map(g, |g| ContractV1 { init: if g.r.chance(1, 3) { None } else { Some(gen_f1(g, d)) }, receive: gen_map(g, |g| gen_f1(g, d)) }) }),
        2 => VersionedModuleSchema::V2(ModuleV2 { contracts: gen_map(g, |g| ContractV2 { init: if g.r.chance(1, 3) { None } else { Some(gen_f2(g, d)) }, receive: gen_map(g, |g| gen_f2(g, d)) }) }),
        _ => VersionedModuleSchema::V3(ModuleV3 { contracts: gen_map(g, |g| ContractV3 { init: if g.r.chance(1, 3) { None } else { Some(gen_f2(g, d)) }, receive: gen_map(g, |g| gen_f2(g, d)), event: gen_opt_type(g, d) }) }),
    }
}
fn module_eq(a: &VersionedModuleSchema, b: &VersionedModuleSchema) -> bool {
    match (a, b) {
        (VersionedModuleSchema::V0(x), VersionedModuleSchema::V0(y)) => x == y,
        (VersionedModuleSchema::V1(x), VersionedModuleSchema::V1(y)) => x == y,
        (VersionedModuleSchema::V2(x), VersionedModuleSchema::V2(y)) => x == y,
        (VersionedModuleSchema::V3(x), VersionedModuleSchema::V3(y)) => x == y,
        _ => false,
    }
}
fn unversioned_bytes(m: &VersionedModuleSchema) -> Vec<u8> {
    match m { VersionedModuleSchema::V0(x) => to_bytes(x), VersionedModuleSchema::V1(x) => to_bytes(x), VersionedModuleSchema::V2(x) => to_bytes(x), VersionedModuleSchema::V3(x) => to_bytes(x) }
}
fn version_of(m: &VersionedModuleSchema) -> u8 { match m { VersionedModuleSchema::V0(_) => 0, VersionedModuleSchema::V1(_) => 1, VersionedModuleSchema::V2(_) => 2, VersionedModuleSchema::V3(_) => 3 } }

fn rt_codec<T: Serial + Deserial + PartialEq>(x: &T) -> (Vec<u8>, bool) {
    let b = to_bytes(x);
    let ok = matches!(guarded(|| { let mut c = Cursor::new(&b[..]); let r = T::deserial(&mut c); (r, c.offset) }), Ok((Ok(y), used)) if y == *x && used == b.len());
    (b, ok)
}

fn module_checks(m: &VersionedModuleSchema, line: &mut Value) {
    let vb = to_bytes(m);
    let ub = unversioned_bytes(m);
    let ver = version_of(m);
    line["bytes"] = json!(hex(&vb));
    line["ubytes"] = json!(hex(&ub));
    // with version prefix: from_bytes, new(.., None), new(.., Some(other)) all read the prefix
    let a = guarded(|| from_bytes::<VersionedModuleSchema>(&vb));
    line["rt_versioned"] = json!(matches!(&a, Ok(Ok(x)) if module_eq(x, m)));
    let b = guarded(|| VersionedModuleSchema::new(&vb, &None));
    line["rt_new_none"] = json!(matches!(&b, Ok(Ok(x)) if module_eq(x, m)));
    let c = guarded(|| VersionedModuleSchema::new(&vb, &Some((ver + 1) % 4)));
    line["rt_new_other"] = json!(matches!(&c, Ok(Ok(x)) if module_eq(x, m)));
    // without prefix: needs the version; the prefix test must not misfire (0xffff would be a contract count >= 65535)
    let d = guarded(|| VersionedModuleSchema::new(&ub, &Some(ver)));
    line["rt_unversioned"] = json!(matches!(&d, Ok(Ok(x)) if module_eq(x, m)));
    let e = guarded(|| VersionedModuleSchema::new(&ub, &None));
    line["unversioned_needs_version"] = json!(matches!(&e, Ok(Err(_))));
    // base64 (standard alphabet, no padding)
    let s = general_purpose::STANDARD_NO_PAD.encode(&vb);
    let f = guarded(|| VersionedModuleSchema::from_base64_str(&s));
    line["rt_base64"] = json!(matches!(&f, Ok(Ok(x)) if module_eq(x, m)));
    // re-encoding what was decoded gives the same bytes
    line["reencode"] = json!(matches!(&a, Ok(Ok(x)) if to_bytes(x) == vb));
}

fn mode_schema(seed: u64, n: u64, depth: u32) {
    let mut g = Gen { r: Rng::new(seed ^ 0x30), dup: false, hostile: false, tbudget: 0, vbudget: 0 };
    // testdata files
    let dir = std::path::PathBuf::from(std::env::var("VERIF_REPO").unwrap_or_else(|_| "/repo".to_string())).join("smart-contracts/testdata/schemas");
    let mut files: Vec<_> = std::fs::read_dir(&dir).map(|d| d.filter_map(|e| e.ok()).map(|e| e.path()).collect()).unwrap_or_default();
    files.retain(|p| p.extension().map(|e| e == "bin").unwrap_or(false));
    files.sort();
    for p in files {
        let name = p.file_name().unwrap().to_string_lossy().to_string();
        let data = std::fs::read(&p).unwrap();
        let hint: Option<u8> = if name.contains("-v0-") { Some(0) } else if name.contains("-v1-") { Some(1) } else if name.contains("-v2-") { Some(2) } else if name.contains("-v3-") { Some(3) } else { None };
        let mut line = json!({"k":"file","name":name,"len":data.len()});
        match guarded(|| VersionedModuleSchema::new(&data, &hint)) {
            Ok(Ok(m)) => {
                line["parsed"] = json!(true);
                line["desc"] = module_desc(&m);
                module_checks(&m, &mut line);
                let expect = if name.contains("unversioned") { unversioned_bytes(&m) } else { to_bytes(&m) };
                line["file_is_canonical"] = json!(expect == data);
            }
            Ok(Err(e)) => { line["parsed"] = json!(false); line["err"] = json!(format!("{:?}", e)); }
            Err(p) => { line["parsed"] = json!(false); line["panic"] = json!(short(&p)); }
        }
        println!("{}", line);
    }
    for i in 0..n {
        g.dup = i % 11 == 10;
        g.tbudget = 60; g.vbudget = 400;
        match i % 4 {
            0 => {
                let t = if i % 8 == 0 { gen_deep(&mut g, depth) } else { let d = g.r.range(1, depth as u64) as u32; gen_type(&mut g, d) };
                let (b, ok) = rt_codec(&t);
                println!("{}", json!({"k":"type","ty":type_desc(&t),"depth":type_depth(&t),"bytes":hex(&b),"rt":ok}));
            }
            1 => {
                let d = g.r.range(1, depth.min(5) as u64) as u32;
                if g.r.chance(1, 2) { let f = gen_f1(&mut g, d); let (b, ok) = rt_codec(&f); println!("{}", json!({"k":"f1","f":f1_desc(&f),"bytes":hex(&b),"rt":ok})); }
                else { let f = gen_f2(&mut g, d); let (b, ok) = rt_codec(&f); println!("{}", json!({"k":"f2","f":f2_desc(&f),"bytes":hex(&b),"rt":ok})); }
            }
            2 => {
                let d = g.r.range(1, depth.min(4) as u64) as u32;
                let m = gen_module(&mut g, (i / 4 % 4) as u8, d);
                let mut line = json!({"k":"module","desc":module_desc(&m)});
                module_checks(&m, &mut line);
                println!("{}", line);
            }
            _ => {
                // arbitrary bytes as a schema: must return a value or an error, and a value re-decodes from its own encoding
                let t = { let d = g.r.range(1, 4) as u32; gen_type(&mut g, d) };
                let mut b = to_bytes(&t);
                match g.r.below(4) {
                    0 => { let k = g.r.below(30) as usize; b = g.r.bytes(k); }
                    1 => { if !b.is_empty() { let p = g.r.below(b.len() as u64) as usize; b[p] = g.r.next() as u8; } }
                    2 => { let k = g.r.below(b.len() as u64 + 1) as usize; b.truncate(k); }
                    _ => { if b.len() > 2 { let p = g.r.below(b.len() as u64 - 1) as usize; for x in b.iter_mut().skip(p).take(4) { *x = 255; } } }
                }
                let r = guarded(|| { let mut c = Cursor::new(&b[..]); let r = Type::deserial(&mut c); (r, c.offset) });
                let mut line = json!({"k":"typebytes","bytes":hex(&b)});
                match r {
                    Err(p) => { line["out"] = json!("PANIC"); line["panic"] = json!(short(&p)); }
                    Ok((Err(_), _)) => { line["out"] = json!("ERR"); }
                    Ok((Ok(t2), used)) => {
                        line["out"] = json!({"ty": type_desc(&t2), "used": used});
                        let (b2, ok) = rt_codec(&t2);
                        line["redecode"] = json!(ok);
                        line["canonical"] = json!(b2[..] == b[..used]);
                    }
                }
                println!("{}", line);
            }
        }
    }
}

// ------------------------------------------------------------------------------------------ mode contract
fn check_ct<T: SchemaType + Serial + Deserial + PartialEq + std::fmt::Debug>(name: &str, v: &T, j: Value) {
    let t = T::get_type();
    let expected = to_bytes(v);
    let got = guarded(|| t.serial_value(&j));
    let (bytes_ok, decoded_ok, got_hex) = match &got {
        Ok(Ok(b)) => (b == &expected, matches!(guarded(|| from_bytes::<T>(b)), Ok(Ok(x)) if x == *v), hex(b)),
        _ => (false, false, "ERR".to_string()),
    };
    let back = guarded(|| { let mut c = Cursor::new(&expected[..]); t.to_json(&mut c).ok() });
    let back_ok = match back { Ok(Some(j2)) => matches!(guarded(|| t.serial_value(&j2)), Ok(Ok(b)) if b == expected), _ => false };
    println!("{}", json!({"k":"ct","type":name,"j":if j.to_string().len() < 200 { j } else { json!("(long)") },"bytes":got_hex,"expected":hex(&expected),
        "bytes_ok":bytes_ok,"decoded_ok":decoded_ok,"to_json_denotes_value":back_ok}));
}

fn mode_contract(seed: u64, n: u64) {
    let mut r = Rng::new(seed ^ 0x40);
    for i in 0..n {
        match i % 24 {
            0 => { let v = r.u64_edge() as u8; check_ct("u8", &v, json!(v)); }
            1 => { let v = r.u64_edge() as u16; check_ct("u16", &v, json!(v)); }
            2 => { let v = r.u32_edge(); check_ct("u32", &v, json!(v)); }
            3 => { let v = r.u64_edge(); check_ct("u64", &v, json!(v)); }
            4 => { let v = ((r.u64_edge() as u128) << 64) | r.u64_edge() as u128; check_ct("u128", &v, json!(v.to_string())); }
            5 => { let v = gen_i_edge(&mut r, 8) as i8; check_ct("i8", &v, json!(v)); }
            6 => { let v = gen_i_edge(&mut r, 16) as i16; check_ct("i16", &v, json!(v)); }
            7 => { let v = gen_i_edge(&mut r, 32) as i32; check_ct("i32", &v, json!(v)); }
            8 => { let v = gen_i_edge(&mut r, 64); check_ct("i64", &v, json!(v)); }
            9 => { let v = (((r.u64_edge() as u128) << 64) | r.u64_edge() as u128) as i128; check_ct("i128", &v, json!(v.to_string())); }
            10 => { let v = r.chance(1, 2); check_ct("bool", &v, json!(v)); }
            11 => { let v = gen_string(&mut r); check_ct("String", &v, json!(v)); }
            12 => { let v: Vec<u16> = (0..r.below(5)).map(|_| r.u64_edge() as u16).collect(); check_ct("Vec<u16>", &v, json!(v)); }
            13 => {
                let mut m: BTreeMap<u8, i32> = BTreeMap::new();
                for _ in 0..r.below(5) { m.insert(r.next() as u8, r.u32_edge() as i32); }
                let j = Value::Array(m.iter().map(|(k, v)| json!([k, v])).collect());
                check_ct("BTreeMap<u8,i32>", &m, j);
            }
            14 => {
                let v: Option<u64> = if r.chance(1, 3) { None } else { Some(r.u64_edge()) };
                let j = match v { None => json!({"None": []}), Some(x) => json!({"Some": [x]}) };
                check_ct("Option<u64>", &v, j);
            }
            15 => { let v = (r.u64_edge() as u8, (r.chance(1, 2), r.u64_edge())); check_ct("(u8,(bool,u64))", &v, json!([v.0, [v.1 .0, v.1 .1]])); }
            16 => { let v = Amount::from_micro_ccd(r.u64_edge()); check_ct("Amount", &v, json!(v.micro_ccd().to_string())); }
            17 => { let mut b = [0u8; 32]; b.copy_from_slice(&r.bytes(32)); let v = AccountAddress(b); check_ct("AccountAddress", &v, json!(v.to_string())); }
            18 => { let v = ContractAddress::new(r.u64_edge(), r.u64_edge()); check_ct("ContractAddress", &v, json!({"index": v.index, "subindex": v.subindex})); }
            19 => { let v = Timestamp::from_timestamp_millis(r.u64_edge()); check_ct("Timestamp", &v, json!(v.timestamp_millis().to_string())); }
            20 => { let v = Duration::from_millis(r.u64_edge()); check_ct("Duration", &v, json!(format!("{}ms", v.millis()))); }
            21 => {
                let mut s: BTreeSet<u32> = BTreeSet::new();
                for _ in 0..r.below(5) { s.insert(r.u32_edge()); }
                check_ct("BTreeSet<u32>", &s, json!(s.iter().collect::<Vec<_>>()));
            }
            22 => {
                let name = format!("init_{}", gen_ident(&mut r, 8));
                if let Ok(v) = OwnedContractName::new(name.clone()) { check_ct("OwnedContractName", &v, json!({"contract": &name[5..]})); }
            }
            _ => {
                let c = gen_ident(&mut r, 6); let f = gen_ident(&mut r, 6);
                if let Ok(v) = OwnedReceiveName::new(format!("{}.{}", c, f)) { check_ct("OwnedReceiveName", &v, json!({"contract": c, "func": f})); }
            }
        }
    }
    // [u8; 4], Vec<Option<..>>
    let v: [u8; 4] = [1, 2, 254, 255];
    check_ct("[u8;4]", &v, json!([1, 2, 254, 255]));
    let v: Vec<Option<i8>> = vec![None, Some(-128), Some(127)];
    check_ct("Vec<Option<i8>>", &v, json!([{"None": []}, {"Some": [-128]}, {"Some": [127]}]));
}

// ------------------------------------------------------------------------------------------ mode leaf
fn mode_leaf(seed: u64, n: u64) {
    let mut r = Rng::new(seed ^ 0x50);
    for i in 0..n {
        match i % 3 {
            0 => {
                let mut b = [0u8; 32];
                match r.below(5) { 0 => {}, 1 => b = [255; 32], 2 => { b[31] = 1; } _ => b.copy_from_slice(&r.bytes(32)) }
                let s = AccountAddress(b).to_string();
                let back = guarded(|| AccountAddress::from_str(&s));
                let ok = matches!(&back, Ok(Ok(a)) if a.0 == b);
                println!("{}", json!({"k":"leaf","type":"AccountAddress","v":hex(&b),"text":s,"ok":ok}));
            }
            1 => {
                let m = match r.below(6) { 0 => r.u64_edge(), 1 => 253402300799999, 2 => 253402300800000, 3 => 8210266876799999, 4 => (1u64 << 63) + r.below(1000), _ => r.next() };
                let s = guarded(|| Timestamp::from_timestamp_millis(m).to_string());
                let ok = match &s { Ok(s) => matches!(guarded(|| Timestamp::from_str(s)), Ok(Ok(t)) if t.timestamp_millis() == m), Err(_) => false };
                println!("{}", json!({"k":"leaf","type":"Timestamp","v":m.to_string(),"text":s.unwrap_or_else(|e| format!("PANIC {}", e)),"ok":ok}));
            }
            _ => {
                let m = r.u64_edge();
                let s = guarded(|| Duration::from_millis(m).to_string());
                let ok = match &s { Ok(s) => matches!(guarded(|| Duration::from_str(s)), Ok(Ok(d)) if d.millis() == m), Err(_) => false };
                println!("{}", json!({"k":"leaf","type":"Duration","v":m.to_string(),"text":s.unwrap_or_else(|e| format!("PANIC {}", e)),"ok":ok}));
            }
        }
    }
}

// ------------------------------------------------------------------------------------------ mode obs
fn mode_obs(max_log2: u64) {
    // O1: nesting deeper than 32 (recursion without a depth limit)
    for depth in [33u32, 64, 256, 2000] {
        let mut g = Gen { r: Rng::new(depth as u64), dup: false, hostile: false, tbudget: 1 << 40, vbudget: 1 << 40 };
        let t = gen_deep(&mut g, depth);
        let j = gen_value(&mut g, &t);
        let t0 = std::time::Instant::now();
        // JSON -> bytes -> JSON -> bytes -> JSON: the second round must be the identity
        let r = guarded(|| t.serial_value(&j).ok().and_then(|b| { let mut c = Cursor::new(&b[..]); t.to_json(&mut c).ok() })
            .and_then(|v| t.serial_value(&v).ok().and_then(|b2| { let mut c = Cursor::new(&b2[..]); t.to_json(&mut c).ok().map(|v2| v2 == v) })));
        let sb = to_bytes(&t);
        let r2 = guarded(|| from_bytes::<Type>(&sb).map(|x| x == t).unwrap_or(false));
        println!("{}", json!({"k":"obs","id":"O1","depth":depth,"json_roundtrip":format!("{:?}", r),"schema_roundtrip":format!("{:?}", r2),"ms":t0.elapsed().as_millis() as u64}));
    }
    // O4: duration text whose components overflow u64 (checked build: panic; release: wraps)
    for text in ["213503982335d", "18446744073709551615ms 1ms"] {
        let r = guarded(|| Type::Duration.serial_value(&json!(text)).map(|b| hex(&b)).map_err(|e| short(&e.display(false))));
        println!("{}", json!({"k":"obs","id":"O4","text":text,"result":format!("{:?}", r)}));
    }
    // O2: zero-width elements: work proportional to the declared count
    for count in [65536u64, 1 << 17, 1 << 20, 1 << 24] {
        if count > (1u64 << max_log2) { continue; }
        let t = Type::List(SizeLength::U64, Box::new(Type::Unit));
        let b = count.to_le_bytes();
        let t0 = std::time::Instant::now();
        let r = guarded(|| { let mut c = Cursor::new(&b[..]); t.to_json(&mut c).map(|v| v.as_array().map(|a| a.len())).ok() });
        println!("{}", json!({"k":"obs","id":"O2","declared":count,"input_bytes":8,"result":format!("{:?}", r),"ms":t0.elapsed().as_millis() as u64}));
    }
}

// ------------------------------------------------------------------------------------------ mode leb
/// LEB128 schema types: accepted / padded / near-miss encodings at the boundaries of the constraint.
fn mode_leb(seed: u64, n: u64) {
    let mut r = Rng::new(seed ^ 0x1eb);
    for i in 0..n {
        let signed = r.chance(1, 2);
        let c: u32 = match r.below(8) { 0 => 0, 1 => 1, 2 => 2, 3 | 4 => 5, 5 => 10, 6 => 37, _ => r.range(1, 12) as u32 };
        let t = if signed { Type::ILeb128(c) } else { Type::ULeb128(c) };
        let big = if signed { Type::ILeb128(64) } else { Type::ULeb128(64) };
        let (kind, mut bytes): (&str, Vec<u8>) = if r.chance(4, 5) {
            // a boundary value in its shortest form (written under a wide constraint), then padded
            let cc = if r.chance(1, 4) { r.range(1, 38) as u32 } else { c.max(1) };
            let text = if signed { gen_ileb_text(&mut r, cc) } else { gen_uleb_text(&mut r, cc) };
            let canon = guarded(|| big.serial_value(&Value::String(text.clone()))).ok().and_then(|x| x.ok());
            match canon {
                None => ("random", { let k = r.range(0, 6) as usize; r.bytes(k) }),
                Some(mut b) => {
                    let neg = signed && (b[b.len() - 1] & 0x40) != 0;
                    let extra = match r.below(6) { 0 | 1 => 0, 2 => 1, 3 => (c as i64 - b.len() as i64).max(0) as usize, 4 => (c as i64 + 1 - b.len() as i64).max(0) as usize, _ => r.range(1, 4) as usize };
                    if extra == 0 { ("shortest", b) } else {
                        let l = b.len();
                        b[l - 1] |= 0x80;
                        for _ in 1..extra { b.push(if neg { 0xff } else { 0x80 }); }
                        b.push(if neg { 0x7f } else { 0x00 });
                        match r.below(6) {
                            0 => { let k = r.below(b.len() as u64) as usize; b[k] ^= 1 << r.below(8); ("padded_bitflip", b) }
                            1 => { let l2 = b.len(); b[l2 - 1] = if neg { 0x00 } else { 0x7f }; ("padded_wrong_sign", b) }
                            _ => ("padded", b),
                        }
                    }
                }
            }
        } else { ("random", { let k = r.range(0, 12) as usize; r.bytes(k) }) };
        if r.chance(1, 3) { let k = r.range(1, 3) as usize; bytes.extend(r.bytes(k)); }
        let mut line = json!({"i": i, "s": signed, "c": c, "kind": kind, "bytes": hex(&bytes)});
        match to_json_full(&t, &bytes) {
            Err(p) => { line["out"] = json!("PANIC"); line["panic"] = json!(short(&p)); }
            Ok(Err(e)) => { line["out"] = json!("ERR"); line["err"] = json!(e); }
            Ok(Ok((v, used))) => {
                line["out"] = json!({"v": v, "used": used});
                line["back"] = match guarded(|| t.serial_value(&v)) { Ok(Ok(b)) => json!(hex(&b)), Ok(Err(_)) => json!("ERR"), Err(_) => json!("PANIC") };
            }
        }
        println!("{}", line);
    }
}

// ------------------------------------------------------------------------------------------ mode new
fn new_result_desc(x: Result<Result<VersionedModuleSchema, VersionedSchemaError>, String>) -> Value {
    match x {
        Err(p) => json!({"k": "PANIC", "panic": short(&p)}),
        Ok(Ok(m)) => json!({"k": "ok", "bytes": hex(&to_bytes(&m))}),
        Ok(Err(VersionedSchemaError::ParseError)) => json!({"k": "parse"}),
        Ok(Err(VersionedSchemaError::MissingSchemaVersion)) => json!({"k": "missing"}),
        Ok(Err(VersionedSchemaError::InvalidSchemaVersion)) => json!({"k": "invalid"}),
        Ok(Err(e)) => json!({"k": format!("other:{:?}", e)}),
    }
}
/// VersionedModuleSchema::new on versioned / unversioned / damaged bytes with every kind of hint.
fn mode_new(seed: u64, n: u64, depth: u32) {
    let mut g = Gen { r: Rng::new(seed ^ 0x4e57), dup: false, hostile: false, tbudget: 0, vbudget: 0 };
    for i in 0..n {
        g.tbudget = 12;
        let ver = g.r.below(4) as u8;
        let m = gen_module(&mut g, ver, depth.min(2));
        let (form, mut bytes) = if g.r.chance(1, 2) { ("unversioned", unversioned_bytes(&m)) } else { ("versioned", to_bytes(&m)) };
        let dmg = match g.r.below(8) {
            0 => { let k = g.r.range(1, 3) as usize; let t = g.r.bytes(k); bytes.extend(t); "tail" }
            1 if !bytes.is_empty() => { let k = g.r.below(bytes.len() as u64) as usize; bytes.truncate(k); "truncated" }
            2 if !bytes.is_empty() => { let k = g.r.below(bytes.len().min(8) as u64) as usize; bytes[k] = *g.r.pick(&[0u8, 1, 2, 3, 4, 255]); "byte" }
            3 => { let mut p = vec![255u8, 255, *g.r.pick(&[0u8, 1, 2, 3, 4, 255])]; p.extend(bytes.iter()); bytes = p; "prefixed" }
            _ => "none",
        };
        if bytes.len() > 1500 { continue; }
        let hints: Vec<Option<u8>> = vec![None, Some(0), Some(1), Some(2), Some(3), Some(4), Some(*g.r.pick(&[5u8, 17, 254, 255]))];
        let res: Vec<Value> = hints.iter().map(|h| json!({"hint": h, "r": new_result_desc(guarded(|| VersionedModuleSchema::new(&bytes, h)))})).collect();
        println!("{}", json!({"i": i, "form": form, "dmg": dmg, "ver": ver, "bytes": hex(&bytes), "vbytes": hex(&to_bytes(&m)), "res": res}));
    }
}

// ------------------------------------------------------------------------------------------ mode b64
/// base64 as used by from_base64_str (STANDARD_NO_PAD): canonical strings, trailing bits, padding, bad symbols, bad lengths.
fn mode_b64(seed: u64, n: u64) {
    let mut r = Rng::new(seed ^ 0xb64);
    const ALPHA: &[u8] = b"ABCDEFGHIJKLMNOPQRSTUVWXYZabcdefghijklmnopqrstuvwxyz0123456789+/";
    for i in 0..n {
        let len = match r.below(6) { 0 => r.range(0, 3), 1 => r.range(0, 9), _ => r.range(0, 40) } as usize;
        let data = match r.below(4) { 0 => vec![255u8; len], 1 => vec![0u8; len], _ => r.bytes(len) };
        let enc = general_purpose::STANDARD_NO_PAD.encode(&data);
        let mut s: Vec<u8> = enc.clone().into_bytes();
        let kind = match r.below(10) {
            0 | 1 | 2 => "canonical",
            3 if !s.is_empty() && s.len() % 4 != 0 => { let l = s.len(); let v = ALPHA.iter().position(|&x| x == s[l - 1]).unwrap(); let bits = if l % 4 == 2 { 4 } else { 2 }; let nv = v | (1 + r.below((1 << bits) - 1) as usize); s[l - 1] = ALPHA[nv]; "trailing_bits" }
            4 => { let pads = if s.len() % 4 == 0 { r.range(1, 2) as usize } else { 4 - s.len() % 4 }; for _ in 0..pads { s.push(b'='); } "padded" }
            5 => { s.push(*r.pick(ALPHA)); "one_more_symbol" }
            6 if !s.is_empty() => { let k = r.below(s.len() as u64) as usize; s[k] = *r.pick(&[b'=', b'-', b'_', b' ', b'\n', b'@', b'[', b'`', b'{', b'.', 0u8, 200u8 & 0x7f, b':']); "bad_symbol" }
            7 => { let k = r.range(0, 6) as usize; s = (0..k).map(|_| *r.pick(ALPHA)).collect(); "random_symbols" }
            8 => { let k = r.range(0, 6) as usize; s = (0..k).map(|_| (r.below(128)) as u8).collect(); "random_ascii" }
            _ => "canonical",
        };
        let dec = match guarded(|| general_purpose::STANDARD_NO_PAD.decode(&s)) { Ok(Ok(b)) => json!(hex(&b)), Ok(Err(_)) => json!("ERR"), Err(_) => json!("PANIC") };
        println!("{}", json!({"i": i, "kind": kind, "data": hex(&data), "enc": hex(enc.as_bytes()), "s": hex(&s), "dec": dec}));
    }
}

// ------------------------------------------------------------------------------------------ mode lenb
/// Length-prefix boundary: every size length x every length-prefixed type, element counts around the largest
/// representable length.  Direct oracle: count <= max => accepted, prefix == count, all bytes read back to the same JSON;
/// count > max => error (never bytes).
fn mode_lenb() {
    let sizes: [(SizeLength, u64, Vec<usize>); 4] = [
        (SizeLength::U8, 255, vec![0, 1, 254, 255, 256, 257, 511, 512, 65536]),
        (SizeLength::U16, 65535, vec![0, 255, 256, 65534, 65535, 65536, 65537, 65539, 131072]),
        (SizeLength::U32, u32::MAX as u64, vec![0, 255, 256, 65535, 65536, 65537]),
        (SizeLength::U64, u64::MAX, vec![0, 255, 256, 65535, 65536, 65537]),
    ];
    for (sl, max, counts) in sizes.iter() {
        let w = (sl_num(sl) / 8) as usize;
        for kind in ["String", "ByteList", "List", "Set", "Map"] {
            for &n in counts.iter() {
                let (t, j): (Type, Value) = match kind {
                    "String" => (Type::String(*sl), Value::String("a".repeat(n))),
                    "ByteList" => (Type::ByteList(*sl), Value::String((0..n).map(|i| format!("{:02x}", (i % 251) as u8)).collect())),
                    "List" => (Type::List(*sl, Box::new(Type::U8)), Value::Array((0..n).map(|i| json!((i % 251) as u8)).collect())),
                    "Set" => (Type::Set(*sl, Box::new(Type::U32)), Value::Array((0..n).map(|i| json!(i as u32)).collect())),
                    _ => (Type::Map(*sl, Box::new(Type::U32), Box::new(Type::U8)), Value::Array((0..n).map(|i| json!([i as u32, (i % 251) as u8])).collect())),
                };
                let fits = (n as u64) <= *max;
                let mut line = json!({"k": "lenb", "type": kind, "s": sl_num(sl), "n": n, "fits": fits});
                match guarded(|| t.serial_value(&j)) {
                    Err(p) => { line["out"] = json!("PANIC"); line["detail"] = json!(short(&p)); }
                    Ok(Err(e)) => { line["out"] = json!("ERR"); line["detail"] = json!(short(&e.display(false))); }
                    Ok(Ok(b)) => {
                        line["out"] = json!("ok");
                        line["bytes_len"] = json!(b.len());
                        let mut pre = [0u8; 8];
                        if b.len() >= w { pre[..w].copy_from_slice(&b[..w]); line["prefix"] = json!(u64::from_le_bytes(pre).to_string()); line["prefix_hex"] = json!(hex(&b[..w])); }
                        match to_json_full(&t, &b) {
                            Err(p) => { line["back"] = json!("PANIC"); line["back_detail"] = json!(short(&p)); }
                            Ok(Err(e)) => { line["back"] = json!("ERR"); line["back_detail"] = json!(e); }
                            Ok(Ok((v, used))) => { line["back"] = json!("ok"); line["used"] = json!(used); line["same_json"] = json!(v == j); }
                        }
                    }
                }
                println!("{}", line);
            }
        }
    }
}

fn main() {
    quiet_panics();
    let a: Vec<String> = std::env::args().collect();
    let num = |i: usize| -> u64 { a.get(i).map(|s| s.parse().unwrap()).unwrap_or(0) };
    match a[1].as_str() {
        "rt" => mode_rt(num(2), num(3), num(4) as u32),
        "bytes" => mode_bytes(num(2), num(3), num(4) as u32),
        "schema" => mode_schema(num(2), num(3), num(4) as u32),
        "contract" => mode_contract(num(2), num(3)),
        "leaf" => mode_leaf(num(2), num(3)),
        "obs" => mode_obs(num(2)),
        "leb" => mode_leb(num(2), num(3)),
        "new" => mode_new(num(2), num(3), num(4) as u32),
        "b64" => mode_b64(num(2), num(3)),
        "lenb" => mode_lenb(),
        _ => panic!("mode"),
    }
}
