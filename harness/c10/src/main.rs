use concordium_contracts_common::{schema::*, Cursor};
use hlib::{guarded, quiet_panics};
use serde_json::json;
fn main() {
    quiet_panics();
    // 1. long string followed by another field
    let ty = Type::Pair(Box::new(Type::String(SizeLength::U16)), Box::new(Type::U8));
    for n in [4096usize, 4097, 4160, 5000] {
        let j = json!(["a".repeat(n), 7]);
        let bs = ty.serial_value(&j).unwrap();
        let r = guarded(|| ty.to_json(&mut Cursor::new(&bs[..])));
        println!("len {} -> {:?}", n, r.map(|x| x.map(|v| v == j).map_err(|e| e.display(false).chars().take(150).collect::<String>())));
    }
    // 2. ByteList hostile length
    let ty = Type::ByteList(SizeLength::U32);
    for len in [1u32 << 20, 1 << 24, 1 << 26] {
        let bs = len.to_le_bytes();
        let t = std::time::Instant::now();
        let r = guarded(|| ty.to_json(&mut Cursor::new(&bs[..])).is_ok());
        println!("bytelist declared {} -> {:?} in {:?}", len, r, t.elapsed());
    }
    // 3. names
    let ty = Type::ContractName(SizeLength::U16);
    let bs = ty.serial_value(&json!({"contract":"a.b"})).unwrap();
    println!("contractname a.b -> {:?}", ty.to_json(&mut Cursor::new(&bs[..])).map_err(|e| e.display(false).chars().take(120).collect::<String>()));
    let ty = Type::ReceiveName(SizeLength::U16);
    let bs = ty.serial_value(&json!({"contract":"a.b","func":"c"})).unwrap();
    println!("receivename a.b/c -> {:?}", ty.to_json(&mut Cursor::new(&bs[..])).map_err(|e| e.display(false).chars().take(120).collect::<String>()));
    let n: serde_json::Value = serde_json::from_str("18446744073709551616").unwrap();
    println!("{:?} {:?}", n, serde_json::from_str::<serde_json::Value>("1.0").unwrap().as_u64());
}
