//! C09 harness: parsing / validation / compilation are total and admit only safe modules.
//!
//! usage:
//!   c09 struct <seed> <n>            structured cases (valid modules + instruction/module level mutants):
//!                                    one JSON line per case with the line format read by the model driver,
//!                                    the verdicts of utils::instantiate (V0, V1), the per-function result of
//!                                    validate::validate (max stack height) and the execution outcome
//!   c09 bytes <seed> <n> [files..]   byte/LEB128/section-level mutants of generated modules, random bytes,
//!                                    the .wasm corpus and its mutants: implementation only, all validators;
//!                                    prints violations and a statistics object
//!   c09 leb <seed> <n>               LEB128 readers of parse.rs on crafted byte strings
//!   c09 imports                      allowed import / export tables of the v0 and v1 validators
//!   c09 replay                       module bytes (hex) from stdin, one per line: verdicts + execution
//!   c09 memsweep                     loads/stores of every width at effective addresses around the end of memory
mod ast;
mod gen;
mod mutate;
mod optable;
use ast::*;
use concordium_smart_contract_engine::{v0 as e0, v1 as e1};
use concordium_wasm::{
    artifact::{Artifact, ArtifactNamedImport, CompiledFunction, TryFromImport},
    machine::{ExecutionOutcome, Host, NoInterrupt, RunResult, RuntimeStack, Value},
    parse::{GetParseable, Parseable},
    types::{BlockType, FunctionType, MemArg, Name, OpCode, ValueType},
    utils,
    validate::{self, HasValidationContext, PureWasmModuleHandler, ValidateImportExport, ValidationConfig},
    CostConfigurationV1,
};
use hlib::{guarded, hex, quiet_panics, unhex, Rng};
use serde_json::{json, Value as J};
use std::collections::BTreeMap;
use std::rc::Rc;
use std::sync::atomic::{AtomicU64, Ordering};

struct AllowAll;
impl ValidateImportExport for AllowAll {
    fn validate_import_function(&self, _d: bool, _m: &Name, _i: &Name, _t: &FunctionType) -> bool { true }
    fn validate_export_function(&self, _i: &Name, _t: &FunctionType) -> bool { true }
}

/// Trivial host with an energy budget and a call-depth limit.
struct TH { energy: u64, depth: u32, calls: u64 }
impl Host<ArtifactNamedImport> for TH {
    type Interrupt = NoInterrupt;
    fn tick_initial_memory(&mut self, _n: u32) -> RunResult<()> { Ok(()) }
    fn call(&mut self, f: &ArtifactNamedImport, _memory: &mut [u8], stack: &mut RuntimeStack) -> RunResult<Option<NoInterrupt>> {
        self.calls += 1;
        self.tick_energy(10)?;
        if f.matches("concordium_metering", "account_memory") {
            // the metering import inserted before memory.grow: identity on the number of pages
            return Ok(None);
        }
        let ty = f.ty().clone();
        for _ in 0..ty.parameters.len() { let _ = stack.pop(); }
        match ty.result {
            None => {}
            Some(ValueType::I32) => stack.push_value(0i32),
            Some(ValueType::I64) => stack.push_value(0i64),
        }
        Ok(None)
    }
    fn tick_energy(&mut self, e: u64) -> RunResult<()> {
        if self.energy < e { self.energy = 0; anyhow::bail!("out of energy") }
        self.energy -= e;
        Ok(())
    }
    fn track_call(&mut self) -> RunResult<()> { self.depth += 1; if self.depth > 300 { anyhow::bail!("call depth") } Ok(()) }
    fn track_return(&mut self) { self.depth = self.depth.saturating_sub(1); }
}

type Art = Artifact<ArtifactNamedImport, CompiledFunction>;
static PROGRESS: AtomicU64 = AtomicU64::new(0);

#[derive(Clone, Copy, PartialEq, Debug)]
enum Imp { All, V0, V1 }

fn instantiate(vc: ValidationConfig, imp: Imp, metered: bool, bytes: &[u8]) -> Result<Result<Art, String>, String> {
    PROGRESS.fetch_add(1, Ordering::SeqCst);
    guarded(|| {
        let r = match (imp, metered) {
            (Imp::All, false) => utils::instantiate::<ArtifactNamedImport, _>(vc, &AllowAll, bytes),
            (Imp::All, true) => utils::instantiate_with_metering::<ArtifactNamedImport>(vc, CostConfigurationV1, &AllowAll, bytes),
            (Imp::V0, false) => utils::instantiate::<ArtifactNamedImport, _>(vc, &e0::ConcordiumAllowedImports, bytes),
            (Imp::V0, true) => utils::instantiate_with_metering::<ArtifactNamedImport>(vc, CostConfigurationV1, &e0::ConcordiumAllowedImports, bytes),
            (Imp::V1, false) => utils::instantiate::<ArtifactNamedImport, _>(vc, &e1::ConcordiumAllowedImports { support_upgrade: true, enable_debug: false }, bytes),
            (Imp::V1, true) => utils::instantiate_with_metering::<ArtifactNamedImport>(vc, CostConfigurationV1, &e1::ConcordiumAllowedImports { support_upgrade: true, enable_debug: false }, bytes),
        };
        r.map(|m| m.artifact).map_err(|e| format!("{:#}", e))
    })
}

/// Map an error message to a small class.
fn err_class(msg: &str) -> &'static str {
    const T: &[(&str, &str)] = &[
        ("magic", "magic"), ("Unsupported version", "version"), ("Section out of place", "section-order"), ("Leftover", "leftover"),
        ("Unknown section", "section-id"), ("Malformed byte array", "byte-array"), ("Not all of the contents", "section-size"),
        ("read too many bytes", "code-size"), ("beyond the end", "code-size"),
        ("Unsupported instruction", "opcode"), ("Unknown value type", "valtype"), ("Unsupported block type", "blocktype"),
        ("Unsupported import", "import-kind"), ("single return", "multi-return"), ("ASCII", "name"), ("Names are limited", "name"),
        ("Names of functions", "name"), ("utf-8", "name"), ("Start functions", "start"), ("limits tag", "limits"), ("Lower limit", "limits"),
        ("Initial table size", "table-size"), ("Initial memory", "memory-size"), ("range 2^16", "memory-size"),
        ("Only table", "multi-table"), ("Only memory", "multi-memory"), ("mutability", "global"), ("constant", "const-expr"),
        ("Constant instruction", "const-expr"), ("Unexpected byte", "expect-byte"), ("option tag", "option-tag"), ("export tag", "export-kind"),
        ("failed to fill", "eof"), ("overflow", "leb-overflow"), ("out of range integral", "leb-range"),
        ("Control", "control-stack"), ("Operand stack exhausted", "stack-underflow"), ("Stack exhausted", "stack-underflow"),
        ("different from expected", "type-mismatch"), ("not exhausted", "stack-leftover"), ("without an else", "if-no-else"),
        ("Else can only", "else-without-if"), ("non-existent label", "label"), ("switch statement", "switch-size"),
        ("different label types", "br_table-types"), ("Local index", "local-index"), ("Global index", "global-index"),
        ("Function index", "func-index"), ("Type index", "type-index"), ("const global", "immutable-global"),
        ("Memory should exist", "no-memory"), ("Table with index 0", "no-table"), ("alignment", "alignment"), ("Alignment", "alignment"),
        ("Improperly terminated", "unterminated"), ("Too many locals", "locals"), ("number of locals", "locals"),
        ("Stack height", "stack-height"), ("number of globals", "globals-count"), ("Disallowed import", "import-disallowed"),
        ("non-existent type", "type-index"), ("does not exist", "index"), ("must match", "func-code-count"),
        ("maximum number of exports", "exports-count"), ("Duplicate exports", "export-dup"), ("Export function not valid", "export-disallowed"),
        ("no table", "no-table"), ("no memory", "no-memory"), ("no declared memory", "no-memory"), ("initial elements", "segment-size"),
        ("exceeds table size", "elem-bounds"), ("exceeds initial memory", "data-bounds"), ("u32 max bound", "segment-overflow"),
        ("non-existent function", "func-index"),
    ];
    for (k, c) in T { if msg.contains(k) { return c; } }
    "other"
}

fn small_args(ty: &[ValueType], k: u64) -> Vec<Value> {
    ty.iter().enumerate().map(|(i, t)| {
        let v = match k { 0 => 0i64, 1 => 1 + i as i64, 2 => -1, _ => 65535 + i as i64 };
        match t { ValueType::I32 => Value::I32(v as i32), ValueType::I64 => Value::I64(v) }
    }).collect()
}

/// Run every exported function of an accepted (metered) artifact.  Returns (runs, outcome counts, panics).
fn exec_all(art: &Art, rounds: u64) -> (u64, BTreeMap<&'static str, u64>, Vec<String>) {
    use concordium_wasm::artifact::RunnableCode;
    let mut dist = BTreeMap::new();
    let mut panics = vec![];
    let mut runs = 0;
    let names: Vec<(String, u32)> = art.export.iter().map(|(n, i)| (n.name.clone(), *i)).collect();
    for (name, idx) in names {
        if (idx as usize) < art.imports.len() { continue; }
        let f = match art.code.get(idx as usize - art.imports.len()) { Some(f) => f, None => { panics.push(format!("export {} refers to missing code {}", name, idx)); continue } };
        let params: Vec<ValueType> = f.params().to_vec();
        for k in 0..rounds {
            PROGRESS.fetch_add(1, Ordering::SeqCst);
            let args = small_args(&params, k);
            let mut host = TH { energy: 200_000, depth: 0, calls: 0 };
            runs += 1;
            let r = guarded(|| art.run(&mut host, name.as_str(), &args));
            let c = match r {
                Err(p) => { panics.push(format!("{}({:?}): {}", name, args, p)); "PANIC" }
                Ok(Err(e)) => { let m = format!("{}", e); if m.contains("energy") { "out-of-energy" } else if m.contains("depth") { "call-depth" } else { "trap" } }
                Ok(Ok(ExecutionOutcome::Interrupted { .. })) => "interrupt",
                Ok(Ok(ExecutionOutcome::Success { memory, .. })) => {
                    if memory.len() > 512 * 65536 || memory.len() % 65536 != 0 {
                        panics.push(format!("{}({:?}): final memory of {} bytes exceeds MAX_NUM_PAGES pages or is not page aligned", name, args, memory.len()));
                    }
                    "success"
                }
            };
            *dist.entry(c).or_insert(0) += 1;
            if params.is_empty() { break; }
        }
    }
    (runs, dist, panics)
}

// ------------------------------------------------------------------ direct function-level validation
struct FCtx { ret: BlockType, globals: Vec<(ValueType, bool)>, funcs: Vec<u32>, types: Vec<Rc<FunctionType>>, locals: Vec<(u64, u64, ValueType)>, memory: bool, table: bool }
impl HasValidationContext for FCtx {
    fn get_local(&self, idx: u32) -> anyhow::Result<ValueType> {
        for (s, e, t) in &self.locals { if (idx as u64) >= *s && (idx as u64) < *e { return Ok(*t); } }
        anyhow::bail!("Local index out of range.")
    }
    fn get_global(&self, idx: u32) -> anyhow::Result<(ValueType, bool)> { self.globals.get(idx as usize).copied().ok_or_else(|| anyhow::anyhow!("Global index out of range.")) }
    fn memory_exists(&self) -> bool { self.memory }
    fn table_exists(&self) -> bool { self.table }
    fn get_func(&self, idx: u32) -> anyhow::Result<&Rc<FunctionType>> {
        match self.funcs.get(idx as usize) { Some(t) => self.get_type(*t), None => anyhow::bail!("Function index out of range.") }
    }
    fn get_type(&self, idx: u32) -> anyhow::Result<&Rc<FunctionType>> { self.types.get(idx as usize).ok_or_else(|| anyhow::anyhow!("Type index out of range.")) }
    fn return_type(&self) -> BlockType { self.ret }
}
fn vt(t: VT) -> ValueType { match t { VT::I32 => ValueType::I32, VT::I64 => ValueType::I64 } }
fn bt(b: BT) -> BlockType { match b { None => BlockType::EmptyType, Some(t) => BlockType::ValueType(vt(t)) } }
fn to_opcode(o: &Op) -> Option<OpCode> {
    Some(match o {
        Op::Block(b) => OpCode::Block(bt(*b)), Op::Loop(b) => OpCode::Loop(bt(*b)), Op::If(b) => OpCode::If { ty: bt(*b) },
        Op::Else => OpCode::Else, Op::End => OpCode::End, Op::Br(l) => OpCode::Br(*l), Op::BrIf(l) => OpCode::BrIf(*l),
        Op::BrTable(ls, d) => OpCode::BrTable { labels: ls.clone(), default: *d },
        Op::Call(f) => OpCode::Call(*f), Op::CallIndirect(t) => OpCode::CallIndirect(*t),
        Op::LocalGet(i) => OpCode::LocalGet(*i), Op::LocalSet(i) => OpCode::LocalSet(*i), Op::LocalTee(i) => OpCode::LocalTee(*i),
        Op::GlobalGet(i) => OpCode::GlobalGet(*i), Op::GlobalSet(i) => OpCode::GlobalSet(*i),
        Op::Mem(b, o, a) => optable::mem_opcode(*b, MemArg { offset: *o, align: *a })?,
        Op::I32Const(c) => OpCode::I32Const(*c), Op::I64Const(c) => OpCode::I64Const(*c),
        Op::Plain(b) => optable::plain_opcode(*b)?,
        Op::Tick(_) => return None,
    })
}
/// validate::validate on function `fi` of the structured module (bypasses the parser).
fn direct_validate(m: &Module, fi: usize) -> String {
    let f = &m.funcs[fi];
    let sig = match m.types.get(f.ty as usize) { Some(s) => s, None => return "notype".into() };
    let mut locals = vec![];
    let mut start = 0u64;
    for p in &sig.params { locals.push((start, start + 1, vt(*p))); start += 1; }
    for (n, t) in f.groups() { locals.push((start, start + n as u64, vt(t))); start += n as u64; }
    let mut funcs: Vec<u32> = m.imports.iter().map(|i| i.2).collect();
    funcs.extend(m.funcs.iter().map(|f| f.ty));
    let ctx = FCtx {
        ret: bt(sig.result),
        globals: m.globals.iter().map(|(mu, t, _)| (vt(*t), *mu)).collect(),
        funcs,
        types: m.types.iter().map(|s| Rc::new(FunctionType { parameters: s.params.iter().map(|p| vt(*p)).collect(), result: s.result.map(vt) })).collect(),
        locals, memory: m.mem.is_some(), table: m.table.is_some(),
    };
    let ops: Option<Vec<OpCode>> = f.body.iter().map(to_opcode).collect();
    let ops = match ops { Some(o) => o, None => return "unrepresentable".into() };
    PROGRESS.fetch_add(1, Ordering::SeqCst);
    match guarded(|| validate::validate(&ctx, ops.into_iter().map(Ok), PureWasmModuleHandler::default()).map(|(_, h)| h).map_err(|e| format!("{}", e))) {
        Err(p) => format!("PANIC:{}", p),
        Ok(Ok(h)) => format!("ok:{}", h),
        Ok(Err(e)) => format!("err:{}", err_class(&e)),
    }
}

fn add_imports(r: &mut Rng, m: &mut Module, st: &mut gen::Stats) {
    // v1 host functions with their types; the module's own functions are shifted behind them
    const HOST: &[(&str, &[VT], Option<VT>)] = &[
        ("get_parameter_size", &[VT::I32], Some(VT::I32)), ("get_slot_time", &[], Some(VT::I64)),
        ("get_receive_self_balance", &[], Some(VT::I64)), ("log_event", &[VT::I32, VT::I32], Some(VT::I32)),
        ("get_init_origin", &[VT::I32], None), ("state_iterator_next", &[VT::I64], Some(VT::I64)),
    ];
    let k = r.range(1, 3) as usize;
    let mut chosen: Vec<usize> = vec![];
    while chosen.len() < k { let c = r.below(HOST.len() as u64) as usize; if !chosen.contains(&c) { chosen.push(c); } }
    for f in m.funcs.iter_mut() { for o in f.body.iter_mut() { if let Op::Call(j) = o { *j += k as u32; } } }
    for e in m.elems.iter_mut() { for f in e.1.iter_mut() { *f += k as u32; } }
    for c in &chosen {
        let (name, params, res) = HOST[*c];
        let sig = Sig { params: params.to_vec(), result: res };
        let ty = gen::intern(&mut m.types, &sig, r);
        m.imports.push(("concordium".into(), name.into(), ty));
    }
    // a function that calls every import
    let mut body = vec![];
    for (i, c) in chosen.iter().enumerate() {
        let (_, params, res) = HOST[*c];
        for p in params.iter() { body.push(if *p == VT::I32 { Op::I32Const(8) } else { Op::I64Const(8) }); }
        body.push(Op::Call(i as u32));
        if res.is_some() { body.push(Op::Plain(0x1a)); }
    }
    body.push(Op::End);
    let ty = gen::intern(&mut m.types, &Sig { params: vec![], result: None }, r);
    m.funcs.push(Func { ty, locals: vec![], body, rle: None });
    st.hit("with-imports");
}

fn verdict(r: &Result<Result<Art, String>, String>) -> String {
    match r { Err(p) => format!("PANIC:{}", p), Ok(Ok(_)) => "ok".into(), Ok(Err(e)) => format!("err:{}", err_class(e)) }
}

fn struct_case(id: String, mutn: &str, m: &Module) {
    let case = Case { module: m.clone(), entries: vec![], args: vec![] };
    let line = case.to_line();
    let bytes = m.encode();
    let r0 = instantiate(ValidationConfig::V0, Imp::All, false, &bytes);
    let r1 = instantiate(ValidationConfig::V1, Imp::All, false, &bytes);
    let fns: Vec<String> = (0..m.funcs.len()).map(|i| direct_validate(m, i)).collect();
    let mut exec = json!(null);
    // execute the accepted module (metered so that it terminates)
    let rm = instantiate(ValidationConfig::V1, Imp::All, true, &bytes);
    let vm = verdict(&rm);
    if let Ok(Ok(art)) = &rm {
        let (runs, dist, panics) = exec_all(art, 2);
        exec = json!({"runs": runs, "dist": dist, "panics": panics});
    }
    let msg = |r: &Result<Result<Art, String>, String>| match r { Ok(Err(e)) => e.chars().take(120).collect::<String>(), _ => String::new() };
    let artmem = match &r1 { Ok(Ok(a)) => match &a.memory { Some(m) => format!("{}:{}", m.init_size, m.max_size), None => "none".into() }, _ => "-".into() };
    println!("{}", json!({"id": id, "mut": mutn, "line": line, "v0": verdict(&r0), "v1": verdict(&r1), "v1m": vm, "artmem": artmem,
        "msg": msg(&r1), "fn": fns, "exec": exec, "hex": if bytes.len() <= 600 { hex(&bytes) } else { String::new() }}));
}

fn gen_module(r: &mut Rng, st: &mut gen::Stats) -> Module {
    let (case, _k) = gen::gen_case(r, st);
    let mut m = case.module;
    if r.chance(1, 4) { add_imports(r, &mut m, st); }
    m
}

/// A module whose only function grows the memory up to and past MAX_NUM_PAGES (512) pages and then
/// touches the last page; returns memory.size.
fn mem_grow_module(min: u32, max: Option<u32>, variant: u64) -> Module {
    use Op::*;
    let mut body = vec![];
    let steps: Vec<i32> = match variant % 4 {
        0 => vec![510 - (min as i32 - 1), 1, 1],
        1 => vec![512 - min as i32, 1],
        2 => vec![511 - min as i32, 2, 1, 600],
        _ => vec![300, 300, 511 - min as i32, 1, 1, 65535],
    };
    for s in steps { body.push(I32Const(s)); body.push(Plain(0x40)); body.push(Plain(0x1a)); }
    // touch the last 4 bytes of the memory as reported by memory.size
    body.extend(vec![Plain(0x3f), I32Const(65536), Plain(0x6c), I32Const(4), Plain(0x6b), I32Const(0x5a5a5a5a), Mem(0x36, 0, 2)]);
    body.extend(vec![Plain(0x3f), I32Const(65536), Plain(0x6c), I32Const(8), Plain(0x6b), Mem(0x29, 0, 3), Plain(0x1a)]);
    body.push(Plain(0x3f));
    body.push(End);
    Module {
        types: vec![Sig { params: vec![], result: Some(VT::I32) }],
        funcs: vec![Func { ty: 0, locals: vec![], body, rle: None }],
        mem: Some((min, max)),
        ..Default::default()
    }
}

fn mode_struct(seed: u64, n: u64) {
    let mut st = gen::Stats::default();
    // memory.grow up to / past MAX_NUM_PAGES under every kind of declared maximum
    let maxes: [Option<u32>; 8] = [Some(511), Some(512), Some(513), Some(1000), Some(65536), None, Some(600), Some(32)];
    for (j, mx) in maxes.iter().enumerate() {
        for (k, min) in [1u32, 32, 2].iter().enumerate() {
            if mx.map(|x| x < *min).unwrap_or(false) { continue; }
            let m = mem_grow_module(*min, *mx, (j + k) as u64 + seed);
            struct_case(format!("s{}-mem{}-{}", seed, j, k), "memory.grow-to-MAX_NUM_PAGES", &m);
        }
    }
    // natural alignment: every memory instruction x alignment immediates; accepted iff 2^align <= access width
    for (b, w, store, is64) in MEMOPS {
        for al in [0u32, 1, 2, 3, 4, 31] {
            let mut body = vec![Op::I32Const(16)];
            if *store { body.push(if *is64 { Op::I64Const(1) } else { Op::I32Const(1) }); }
            body.push(Op::Mem(*b, 0, al));
            if !*store { body.push(Op::Plain(0x1a)); }
            body.push(Op::End);
            let m = Module { types: vec![Sig { params: vec![], result: None }], funcs: vec![Func { ty: 0, locals: vec![], body, rle: None }],
                             mem: Some((1, None)), ..Default::default() };
            let ok = al < 32 && (1u64 << al) <= *w;
            struct_case(format!("s{}-al{:02x}-{}", seed, b, al), &format!("alignment:op{:#04x}-width{}-align{}#{}", b, w, al, if ok { "ok" } else { "bad" }), &m);
        }
    }
    for i in 0..n {
        let mut r = Rng::new(seed.wrapping_mul(7_000_003).wrapping_add(i));
        let base = gen_module(&mut r, &mut st);
        struct_case(format!("s{}-{}", seed, i), "valid", &base);
        // every typed snippet once, at the start of a function, for the first few modules
        if i < 3 {
            for k in 0..mutate::N_SNIPPETS {
                let mut m = base.clone();
                let fi = r.below(m.funcs.len() as u64) as usize;
                let (snip, name) = mutate::snippet_at(&mut r, k);
                for (q, o) in snip.into_iter().enumerate() { m.funcs[fi].body.insert(q, o); }
                struct_case(format!("s{}-{}k{}", seed, i, k), name, &m);
            }
        }
        // instruction-level mutants
        for j in 0..5 {
            let mut m = base.clone();
            let fi = r.below(m.funcs.len() as u64) as usize;
            let name = mutate::mutate_instr(&mut r, &mut m, fi);
            if name == "none" { continue; }
            struct_case(format!("s{}-{}i{}", seed, i, j), &name, &m);
        }
        // module-level mutants
        for j in 0..2 {
            let mut m = base.clone();
            let name = mutate::mutate_module(&mut r, &mut m);
            if name == "none" { continue; }
            struct_case(format!("s{}-{}m{}", seed, i, j), &name, &m);
        }
        // stack-height boundary: pad the locals of one function so that locals + max height is 1024 / 1025
        let fi = r.below(base.funcs.len() as u64) as usize;
        if let Some(h) = direct_validate(&base, fi).strip_prefix("ok:").and_then(|s| s.parse::<u32>().ok()) {
            let np = base.types[base.funcs[fi].ty as usize].params.len() as u32;
            let have = np + base.funcs[fi].locals.len() as u32;
            for (j, target) in [1024u32, 1025].iter().enumerate() {
                if target - h < have { continue; }
                let mut m = base.clone();
                let mut g = m.funcs[fi].groups();
                if target - h > have { g.push((target - h - have, VT::I32)); }
                m.funcs[fi].rle = Some(g);
                struct_case(format!("s{}-{}h{}", seed, i, j), if *target == 1024 { "stack-height-at-limit" } else { "stack-height-over-limit" }, &m);
            }
        }
    }
    println!("{}", json!({"stats": st.0}));
}

// ------------------------------------------------------------------ bytes mode
struct ByteStats { dist: BTreeMap<String, BTreeMap<String, u64>>, classes: BTreeMap<String, u64>, exec: BTreeMap<&'static str, u64>, runs: u64, insts: u64, accepted_mutants: u64, violations: u64 }

/// Digest of the skeleton as parse_skeleton sees it: "id:len" of the non-custom sections (by id) and of the
/// custom sections (input order), read from the Debug rendering (the fields are crate-private).
fn skel_digest(bytes: &[u8]) -> String {
    use concordium_wasm::parse::parse_skeleton;
    match guarded(|| parse_skeleton(bytes).map(|s| format!("{:?}", s)).map_err(|e| format!("{:#}", e))) {
        Err(p) => format!("PANIC:{}", p),
        Ok(Err(e)) => format!("err:{}", err_class(&e)),
        Ok(Ok(d)) => {
            let mut out: Vec<String> = vec![];
            let mut rest = d.as_str();
            while let Some(p) = rest.find("section_id: ") {
                rest = &rest[p + 12..];
                let name: String = rest.chars().take_while(|c| c.is_alphanumeric()).collect();
                let q = match rest.find("], len: ") { Some(q) => q, None => break };
                rest = &rest[q + 8..];
                let len: String = rest.chars().take_while(|c| c.is_ascii_digit()).collect();
                let id = match name.as_str() { "Custom" => 0, "Type" => 1, "Import" => 2, "Function" => 3, "Table" => 4, "Memory" => 5, "Global" => 6, "Export" => 7, "Start" => 8, "Element" => 9, "Code" => 10, "Data" => 11, _ => 99 };
                out.push(format!("{}:{}", id, len));
            }
            format!("ok:{}", out.join(","))
        }
    }
}

fn byte_case(stats: &mut ByteStats, id: &str, kind: &str, bytes: &[u8], expect: Option<bool>, full: bool) {
    if bytes.len() <= 65536 {
        // per-case line for the parser model (Wasm/Parse.v): verdicts with the permissive import validator + skeleton
        let r0 = instantiate(ValidationConfig::V0, Imp::All, false, bytes);
        let r1 = instantiate(ValidationConfig::V1, Imp::All, false, bytes);
        println!("{}", json!({"pc": id, "kind": kind, "b": hex(bytes), "v0": verdict(&r0), "v1": verdict(&r1), "skel": skel_digest(bytes)}));
    }
    let mut any_ok = false;
    let cfgs: &[(ValidationConfig, &str)] = &[(ValidationConfig::V0, "V0"), (ValidationConfig::V1, "V1")];
    let imps: &[Imp] = if full { &[Imp::All, Imp::V0, Imp::V1] } else { &[Imp::All] };
    for (vc, vn) in cfgs {
        for imp in imps {
            let r = instantiate(*vc, *imp, false, bytes);
            stats.insts += 1;
            let v = verdict(&r);
            if *imp == Imp::All {
                let e = stats.dist.entry(kind.to_string()).or_default();
                *e.entry(if v == "ok" { "accepted".into() } else if v.starts_with("PANIC") { "PANIC".into() } else { "rejected".to_string() }).or_insert(0) += 1;
                if let Some(c) = v.strip_prefix("err:") { *stats.classes.entry(c.to_string()).or_insert(0) += 1; }
            }
            if v.starts_with("PANIC") {
                stats.violations += 1;
                println!("{}", json!({"violation": "panic in instantiate", "id": id, "kind": kind, "cfg": vn, "imp": format!("{:?}", imp), "msg": v, "hex": hex(bytes)}));
            }
            if v == "ok" { any_ok = true; }
            if *imp == Imp::All {
                if let Some(e) = expect {
                    if e != (v == "ok") && !(e && *vn == "V0" && v == "err:opcode") {
                        stats.violations += 1;
                        println!("{}", json!({"violation": if e { "valid encoding rejected" } else { "malformed module accepted" }, "id": id, "kind": kind, "cfg": vn, "verdict": v, "hex": hex(bytes)}));
                    }
                }
            }
            // metered instantiation must agree with the plain one on accept/reject, and never panic
            let rm = instantiate(*vc, *imp, true, bytes);
            stats.insts += 1;
            let vm = verdict(&rm);
            if vm.starts_with("PANIC") || (vm == "ok") != (v == "ok") {
                stats.violations += 1;
                println!("{}", json!({"violation": "metered instantiation disagrees or panics", "id": id, "kind": kind, "cfg": vn, "plain": v, "metered": vm, "hex": hex(bytes)}));
            }
            if let (Ok(Ok(art)), true) = (&rm, *imp == Imp::All && *vn == "V1" || (*imp != Imp::All && v == "ok")) {
                let (runs, dist, panics) = exec_all(art, 2);
                stats.runs += runs;
                for (k, c) in dist { *stats.exec.entry(k).or_insert(0) += c; }
                for p in panics {
                    stats.violations += 1;
                    println!("{}", json!({"violation": "panic while executing an accepted module", "id": id, "kind": kind, "cfg": vn, "msg": p, "hex": hex(bytes)}));
                }
            }
        }
    }
    if any_ok && kind != "valid" && kind != "corpus" { stats.accepted_mutants += 1; }
}

fn mode_bytes(seed: u64, n: u64, files: &[String]) {
    let mut stats = ByteStats { dist: BTreeMap::new(), classes: BTreeMap::new(), exec: BTreeMap::new(), runs: 0, insts: 0, accepted_mutants: 0, violations: 0 };
    let mut st = gen::Stats::default();
    let mut r = Rng::new(seed ^ 0xC09);
    // corpus
    let mut corpus: Vec<(String, Vec<u8>)> = vec![];
    for f in files { if let Ok(b) = std::fs::read(f) { corpus.push((f.clone(), b)); } }
    for (name, b) in &corpus {
        byte_case(&mut stats, name, "corpus", b, None, true);
    }
    // element / data segments against table / memory limits {min, max}: the size is the MINIMUM
    {
        let f0 = Func { ty: 0, locals: vec![], body: vec![Op::End], rle: None };
        let mut k = 0;
        for tmin in [1u32, 3] {
            for tmax in [None, Some(tmin), Some(tmin + 1), Some(tmin + 9), Some(100_000)] {
                let top = tmax.unwrap_or(tmin);
                for off in [0u32, tmin - 1, tmin, tmin + 1, (tmin + top) / 2, top.saturating_sub(1), top, top + 1] {
                    for len in [1u32, 2, tmin] {
                        if off > 1000 { continue; }
                        let m = Module { types: vec![Sig { params: vec![], result: None }], funcs: vec![f0.clone()], table: Some(tmin), table_max: tmax,
                                         elems: vec![(off, vec![0; len as usize])], ..Default::default() };
                        let ok = off as u64 + len as u64 <= tmin as u64;
                        byte_case(&mut stats, &format!("seg-t{}", k), if ok { "segment:elem-within-table-min" } else { "segment:elem-beyond-table-min" }, &m.encode(), Some(ok), false);
                        k += 1;
                    }
                }
            }
        }
        for mmin in [1u32, 2] {
            for mmax in [None, Some(mmin), Some(mmin + 1), Some(mmin + 9), Some(65536)] {
                let top = mmax.unwrap_or(mmin).min(mmin + 9) as u64 * 65536;
                let lim = mmin as u64 * 65536;
                for len in [1u64, 8] {
                    for off in [0u64, lim - len, lim - len + 1, lim, lim + 1, (lim + top) / 2, top.saturating_sub(len), top] {
                        let m = Module { types: vec![Sig { params: vec![], result: None }], funcs: vec![f0.clone()], mem: Some((mmin, mmax)),
                                         data: vec![(off as u32, vec![0xAB; len as usize])], ..Default::default() };
                        let ok = off + len <= lim;
                        byte_case(&mut stats, &format!("seg-m{}", k), if ok { "segment:data-within-memory-min" } else { "segment:data-beyond-memory-min" }, &m.encode(), Some(ok), false);
                        k += 1;
                    }
                }
            }
        }
    }
    let per = (n / corpus.len().max(1) as u64).max(1);
    for (name, b) in &corpus {
        if b.len() > 400_000 { continue; }
        for j in 0..per {
            let mut m = b.clone();
            let k = r.range(1, 3);
            let mut kind = "byte:none";
            for _ in 0..k { kind = mutate::mutate_bytes(&mut r, &mut m); }
            byte_case(&mut stats, &format!("{}#{}", name, j), &format!("corpus-{}", kind), &m, None, j % 4 == 0);
        }
    }
    for i in 0..n {
        let mut rr = Rng::new(seed.wrapping_mul(9_000_011).wrapping_add(i));
        let m = gen_module(&mut rr, &mut st);
        let base = m.encode();
        byte_case(&mut stats, &format!("b{}-{}", seed, i), "valid", &base, Some(true), false);
        // LEB128-level: re-encode with one LEB altered
        LEB_COUNT.with(|c| c.set(0));
        let _ = m.encode();
        let total = LEB_COUNT.with(|c| c.get());
        for j in 0..8 {
            let target = rr.below(total as u64) as i64;
            let mode = if j < 4 { 1 + ((j + rr.below(4)) % 4) as u8 } else { 5 + rr.below(6) as u8 };
            LEB_HACK.with(|h| h.set((target, mode)));
            LEB_COUNT.with(|c| c.set(0));
            LEB_APPLIED.with(|a| a.set(None));
            let b = m.encode();
            LEB_HACK.with(|h| h.set((-1, 0)));
            let exp = LEB_APPLIED.with(|a| a.get());
            let kind = match (mode, exp) { (1, _) => "leb:pad-to-max", (2, _) => "leb:too-long", (3, _) => "leb:unused-bits", (4, Some(true)) => "leb:overlong+1", (4, _) => "leb:overlong+1-too-long", _ => "leb:value(count/size/index)" };
            byte_case(&mut stats, &format!("b{}-{}l{}", seed, i, j), kind, &b, exp, false);
        }
        // tag / reserved / type bytes fixed by the grammar, and plain opcode bytes: replace one of them
        FIXED_COUNT.with(|c| c.set(0));
        OPC_COUNT.with(|c| c.set(0));
        let _ = m.encode();
        let nfixed = FIXED_COUNT.with(|c| c.get());
        let nopc = OPC_COUNT.with(|c| c.get());
        const REPL: [u8; 36] = [0x00, 0x01, 0x02, 0x03, 0x04, 0x05, 0x06, 0x0b, 0x12, 0x1c, 0x25, 0x2a, 0x38, 0x40, 0x41, 0x43, 0x44, 0x5b, 0x60, 0x6f, 0x70,
                                0x7c, 0x7d, 0x7e, 0x7f, 0x80, 0x8b, 0x99, 0xa8, 0xb2, 0xbf, 0xc0, 0xc4, 0xc5, 0xfc, 0xff];
        for j in 0..6 {
            let nb = *rr.pick(&REPL);
            let tag = j < 4 || nopc == 0;
            if tag { FIXED_HACK.with(|h| h.set((rr.below(nfixed as u64) as i64, nb))); } else { OPC_HACK.with(|h| h.set((rr.below(nopc as u64) as i64, nb))); }
            FIXED_COUNT.with(|c| c.set(0));
            OPC_COUNT.with(|c| c.set(0));
            let b = m.encode();
            FIXED_HACK.with(|h| h.set((-1, 0)));
            OPC_HACK.with(|h| h.set((-1, 0)));
            byte_case(&mut stats, &format!("b{}-{}t{}", seed, i, j), if tag { "tag:fixed-byte" } else { "tag:opcode-byte" }, &b, None, false);
        }
        // constant expressions: global.get as segment offset / global initialiser (allowed only under V0, immutable, right type)
        if !m.globals.is_empty() {
            for j in 0..3 {
                let mut m2 = m.clone();
                let g = rr.below(m2.globals.len() as u64 + 1) as u32;
                let kind = match (j, m2.data.len(), m2.elems.len()) {
                    (0, d, _) if d > 0 => { m2.offset_global = Some((true, rr.below(d as u64) as usize, g)); "constexpr:data-offset-global.get" }
                    (1, _, e) if e > 0 => { m2.offset_global = Some((false, rr.below(e as u64) as usize, g)); "constexpr:elem-offset-global.get" }
                    _ => { m2.init_global = Some((rr.below(m2.globals.len() as u64) as usize, g)); "constexpr:global-init-global.get" }
                };
                // make the referenced global immutable i32 with a small value half of the time so that V0 can accept
                if rr.chance(1, 2) && (g as usize) < m2.globals.len() { m2.globals[g as usize] = (false, VT::I32, rr.below(4) as i64); }
                byte_case(&mut stats, &format!("b{}-{}c{}", seed, i, j), kind, &m2.encode(), None, false);
            }
        }
        // names: lengths at the limits, non-ASCII bytes
        {
            let mut m2 = m.clone();
            let n = *rr.pick(&[99usize, 100, 101, 512, 513]);
            let mut ex = m2.export_list();
            let kindsel = rr.below(3);
            let kind = match kindsel {
                0 => { ex[0].0 = "e".repeat(n); m2.exports = Some(ex); "name:function-export-length" }
                1 => { ex.push(("g".repeat(n), 3, 0)); if m2.globals.is_empty() { m2.globals.push((false, VT::I32, 0)); } m2.exports = Some(ex); "name:global-export-length" }
                _ => { let mut nm = vec![b'n'; n]; if rr.chance(1, 3) { nm[0] = *rr.pick(&[0x80u8, 0xc3, 0xff, 0x7f, 0x00]); } m2.customs.push((nm, rr.bytes(3))); "name:custom-section-name" }
            };
            byte_case(&mut stats, &format!("b{}-{}n", seed, i), kind, &m2.encode(), None, false);
        }
        // section-level
        let secs = m.sections();
        for j in 0..3 {
            let (name, b, exp) = mutate::mutate_sections(&mut rr, &secs);
            byte_case(&mut stats, &format!("b{}-{}s{}", seed, i, j), name, &b, exp, false);
        }
        // byte-level
        for j in 0..4 {
            let mut b = base.clone();
            let k = rr.range(1, 2);
            let mut kind = "byte:none";
            for _ in 0..k { kind = mutate::mutate_bytes(&mut rr, &mut b); }
            byte_case(&mut stats, &format!("b{}-{}b{}", seed, i, j), kind, &b, None, false);
        }
        // random bytes
        let len = rr.below(64) as usize;
        let mut b = if rr.chance(2, 3) { vec![0x00, 0x61, 0x73, 0x6d, 0x01, 0x00, 0x00, 0x00] } else { vec![] };
        if rr.chance(1, 2) { b.push(rr.below(12) as u8); b.push(len as u8); }
        b.extend(rr.bytes(len));
        byte_case(&mut stats, &format!("b{}-{}r", seed, i), "random", &b, None, false);
    }
    println!("{}", json!({"stats": {"dist": stats.dist, "error_classes": stats.classes, "exec": stats.exec, "runs": stats.runs,
        "instantiations": stats.insts, "accepted_mutants": stats.accepted_mutants, "violations": stats.violations, "corpus_files": corpus.len(), "gen": st.0}}));
}

// ------------------------------------------------------------------ LEB128 readers
fn leb_case<T: for<'a> Parseable<'a, ()> + std::fmt::Display>(kind: &str, bytes: &[u8]) {
    let r = guarded(|| {
        let mut cur = std::io::Cursor::new(bytes);
        let v: anyhow::Result<T> = (&mut cur).next(());
        v.map(|x| (x.to_string(), cur.position())).map_err(|e| e.to_string())
    });
    let res = match r { Err(p) => format!("PANIC:{}", p), Ok(Ok((v, pos))) => format!("ok {} {}", v, pos), Ok(Err(_)) => "err".into() };
    println!("{}", json!({"k": kind, "b": hex(bytes), "r": res}));
}
fn mode_leb(seed: u64, n: u64) {
    let mut r = Rng::new(seed ^ 0x1EB);
    for i in 0..n {
        let kind = ["u32", "u64", "i32", "i64"][(i % 4) as usize];
        let signed = kind.starts_with('i');
        let bits = if kind.ends_with("32") { 32 } else { 64 };
        let mut b = vec![];
        match r.below(8) {
            0..=2 => {
                // canonical encoding of an edge value (possibly of the wider type: out of range for the narrow one)
                if signed { let v = if bits == 32 && r.chance(3, 4) { r.u32_edge() as i32 as i64 } else { r.u64_edge() as i64 }; sleb(&mut b, v) }
                else { let v = if bits == 32 && r.chance(3, 4) { r.u32_edge() as u64 } else { r.u64_edge() }; uleb_plain(&mut b, v) }
            }
            3 | 4 => {
                // over-long: canonical + padding up to / beyond the maximum length
                let v = r.u64_edge() >> r.below(64);
                let neg = signed && r.chance(1, 2);
                if signed { sleb(&mut b, if neg { -(v as i64 >> 1) - 1 } else { v as i64 >> 1 }) } else { uleb_plain(&mut b, if bits == 32 { v & 0xffff_ffff } else { v }) }
                let extra = r.below(4) as usize;
                let fill = if neg { 0x7fu8 } else { 0 };
                if extra > 0 { let l = b.len() - 1; b[l] |= 0x80; for _ in 0..extra - 1 { b.push(fill | 0x80); } b.push(fill); }
            }
            5 => {
                // maximal length with every possible last byte pattern
                let maxlen = (bits + 6) / 7;
                for _ in 0..maxlen - 1 { b.push(0x80 | r.next() as u8); }
                b.push((r.next() as u8) & 0x7f);
            }
            6 => { let l = r.below(12) as usize; b = r.bytes(l); }
            _ => { let l = r.range(1, 11) as usize; for _ in 0..l { b.push(0x80 | r.next() as u8); } if r.chance(1, 2) { b.push(r.below(128) as u8); } }
        }
        if r.chance(1, 3) { b.extend(r.bytes(2)); }
        match kind { "u32" => leb_case::<u32>(kind, &b), "u64" => leb_case::<u64>(kind, &b), "i32" => leb_case::<i32>(kind, &b), _ => leb_case::<i64>(kind, &b) }
    }
}

// ------------------------------------------------------------------ import / export tables
fn mode_imports() {
    use VT::*;
    // the host functions of the protocol (expected tables, written from the host-function documentation)
    let v0: Vec<(&str, Vec<VT>, Option<VT>)> = vec![
        ("accept", vec![], Some(I32)), ("simple_transfer", vec![I32, I64], Some(I32)), ("send", vec![I64, I64, I32, I32, I64, I32, I32], Some(I32)),
        ("combine_and", vec![I32, I32], Some(I32)), ("combine_or", vec![I32, I32], Some(I32)), ("get_parameter_size", vec![], Some(I32)),
        ("get_parameter_section", vec![I32, I32, I32], Some(I32)), ("get_policy_section", vec![I32, I32, I32], Some(I32)), ("log_event", vec![I32, I32], Some(I32)),
        ("load_state", vec![I32, I32, I32], Some(I32)), ("write_state", vec![I32, I32, I32], Some(I32)), ("resize_state", vec![I32], Some(I32)), ("state_size", vec![], Some(I32)),
        ("get_init_origin", vec![I32], None), ("get_receive_invoker", vec![I32], None), ("get_receive_self_address", vec![I32], None),
        ("get_receive_self_balance", vec![], Some(I64)), ("get_receive_sender", vec![I32], None), ("get_receive_owner", vec![I32], None), ("get_slot_time", vec![], Some(I64)),
    ];
    let v1: Vec<(&str, Vec<VT>, Option<VT>)> = vec![
        ("invoke", vec![I32, I32, I32], Some(I64)), ("write_output", vec![I32, I32, I32], Some(I32)), ("get_parameter_size", vec![I32], Some(I32)),
        ("get_parameter_section", vec![I32, I32, I32, I32], Some(I32)), ("get_policy_section", vec![I32, I32, I32], Some(I32)), ("log_event", vec![I32, I32], Some(I32)),
        ("get_init_origin", vec![I32], None), ("get_receive_invoker", vec![I32], None), ("get_receive_self_address", vec![I32], None),
        ("get_receive_self_balance", vec![], Some(I64)), ("get_receive_sender", vec![I32], None), ("get_receive_owner", vec![I32], None),
        ("get_receive_entrypoint_size", vec![], Some(I32)), ("get_receive_entrypoint", vec![I32], None), ("get_slot_time", vec![], Some(I64)),
        ("state_lookup_entry", vec![I32, I32], Some(I64)), ("state_create_entry", vec![I32, I32], Some(I64)), ("state_delete_entry", vec![I32, I32], Some(I32)),
        ("state_delete_prefix", vec![I32, I32], Some(I32)), ("state_iterate_prefix", vec![I32, I32], Some(I64)), ("state_iterator_next", vec![I64], Some(I64)),
        ("state_iterator_delete", vec![I64], Some(I32)), ("state_iterator_key_size", vec![I64], Some(I32)), ("state_iterator_key_read", vec![I64, I32, I32, I32], Some(I32)),
        ("state_entry_read", vec![I64, I32, I32, I32], Some(I32)), ("state_entry_write", vec![I64, I32, I32, I32], Some(I32)), ("state_entry_size", vec![I64], Some(I32)),
        ("state_entry_resize", vec![I64, I32], Some(I32)), ("verify_ed25519_signature", vec![I32, I32, I32, I32], Some(I32)),
        ("verify_ecdsa_secp256k1_signature", vec![I32, I32, I32], Some(I32)), ("hash_sha2_256", vec![I32, I32, I32], None), ("hash_sha3_256", vec![I32, I32, I32], None),
        ("hash_keccak_256", vec![I32, I32, I32], None), ("upgrade", vec![I32], Some(I64)),
    ];
    let ft = |p: &Vec<VT>, r: &Option<VT>| FunctionType { parameters: p.iter().map(|x| vt(*x)).collect(), result: r.map(vt) };
    let nm = |s: &str| Name { name: s.to_string() };
    let mut fails: Vec<String> = vec![];
    let mut checks = 0u64;
    let v1i = e1::ConcordiumAllowedImports { support_upgrade: true, enable_debug: false };
    let v1n = e1::ConcordiumAllowedImports { support_upgrade: false, enable_debug: false };
    let v0i = e0::ConcordiumAllowedImports;
    let show_ft = |t: &FunctionType| -> (Vec<String>, String) {
        let tok = |v: &ValueType| match v { ValueType::I32 => "7f".to_string(), ValueType::I64 => "7e".to_string() };
        (t.parameters.iter().map(tok).collect(), t.result.as_ref().map(tok).unwrap_or_default())
    };
    let mut run = |label: &str, imp0: &dyn Fn(bool, &Name, &Name, &FunctionType) -> bool, table: &Vec<(&str, Vec<VT>, Option<VT>)>, other: &Vec<(&str, Vec<VT>, Option<VT>)>| {
        // every query is also printed so that the Coq table (Wasm/Imports.v) answers the same questions
        let imp = |d: bool, m: &Name, i: &Name, t: &FunctionType| -> bool {
            let r = imp0(d, m, i, t);
            let (p, rs) = show_ft(t);
            println!("{}", json!({"q": "imp", "v": label, "dup": d, "mod": hex(m.name.as_bytes()), "name": hex(i.name.as_bytes()), "p": p, "r": rs, "res": r}));
            r
        };
        for (n, p, r) in table {
            let t = ft(p, r);
            checks += 6;
            if !imp(false, &nm("concordium"), &nm(n), &t) { fails.push(format!("{}: {} with its type rejected", label, n)); }
            if imp(true, &nm("concordium"), &nm(n), &t) { fails.push(format!("{}: duplicate {} accepted", label, n)); }
            if imp(false, &nm("env"), &nm(n), &t) { fails.push(format!("{}: {} from module env accepted", label, n)); }
            // perturbed types
            let mut p2 = p.clone(); p2.push(I32);
            if imp(false, &nm("concordium"), &nm(n), &ft(&p2, r)) { fails.push(format!("{}: {} with an extra parameter accepted", label, n)); }
            let r2 = match r { None => Some(I32), Some(I32) => Some(I64), Some(I64) => None };
            if imp(false, &nm("concordium"), &nm(n), &ft(p, &r2)) { fails.push(format!("{}: {} with result {:?} accepted", label, n, r2)); }
            if !p.is_empty() { let mut p3 = p.clone(); p3[0] = if p3[0] == I32 { I64 } else { I32 }; if imp(false, &nm("concordium"), &nm(n), &ft(&p3, r)) { fails.push(format!("{}: {} with first parameter retyped accepted", label, n)); } }
        }
        for (n, p, r) in other {
            if table.iter().any(|x| x.0 == *n) { continue; }
            checks += 1;
            if imp(false, &nm("concordium"), &nm(n), &ft(p, r)) { fails.push(format!("{}: foreign host function {} accepted", label, n)); }
        }
        for n in ["", "Invoke", "invoke ", "memcpy", "debug_print"] {
            checks += 1;
            if imp(false, &nm("concordium"), &nm(n), &ft(&vec![I32, I32, I32, I32, I32, I32], &None)) { fails.push(format!("{}: unknown import {:?} accepted", label, n)); }
        }
    };
    run("v0", &|d, m, i, t| v0i.validate_import_function(d, m, i, t), &v0, &v1);
    run("v1", &|d, m, i, t| v1i.validate_import_function(d, m, i, t), &v1, &v0);
    {
        let t = ft(&vec![I32], &Some(I64));
        let r = v1n.validate_import_function(false, &nm("concordium"), &nm("upgrade"), &t);
        println!("{}", json!({"q": "imp", "v": "v1n", "dup": false, "mod": hex(b"concordium"), "name": hex(b"upgrade"), "p": ["7f"], "r": "7e", "res": r}));
        if r { fails.push("v1 without upgrade support accepts upgrade".into()); }
    }
    let exq = |v: &str, n: &str, t: &FunctionType, r: bool| -> bool {
        let tok = |v: &ValueType| match v { ValueType::I32 => "7f".to_string(), ValueType::I64 => "7e".to_string() };
        let p: Vec<String> = t.parameters.iter().map(tok).collect();
        println!("{}", json!({"q": "exp", "v": v, "name": hex(n.as_bytes()), "p": p, "r": t.result.as_ref().map(tok).unwrap_or_default(), "res": r}));
        r
    };
    // exports
    let good = ft(&vec![I64], &Some(I32));
    let bad = ft(&vec![I32], &Some(I32));
    let ex: Vec<(&str, bool, bool, bool, bool)> = vec![
        // name, v0 good type, v0 bad type, v1 good type, v1 bad type
        ("init_c", true, false, true, false), ("c.recv", true, false, true, false), ("init_a.b", false, false, true, true),
        ("helper", false, false, true, true), ("init_", true, false, true, false), (".", true, false, true, false),
        ("na me.x", false, false, false, false), ("c.\u{7f}", false, false, false, false),
    ];
    for (n, a, b, c, d) in ex {
        checks += 4;
        if exq("v0", n, &good, v0i.validate_export_function(&nm(n), &good)) != a { fails.push(format!("v0 export {:?} good type: expected {}", n, a)); }
        if exq("v0", n, &bad, v0i.validate_export_function(&nm(n), &bad)) != b { fails.push(format!("v0 export {:?} bad type: expected {}", n, b)); }
        if exq("v1", n, &good, v1i.validate_export_function(&nm(n), &good)) != c { fails.push(format!("v1 export {:?} good type: expected {}", n, c)); }
        if exq("v1", n, &bad, v1i.validate_export_function(&nm(n), &bad)) != d { fails.push(format!("v1 export {:?} bad type: expected {}", n, d)); }
    }
    let long = "a.".to_string() + &"x".repeat(99);
    checks += 2;
    if exq("v1", &long, &good, v1i.validate_export_function(&nm(&long), &good)) { fails.push("v1 export name of 101 bytes accepted".into()); }
    if !exq("v1", &long[..100], &good, v1i.validate_export_function(&nm(&long[..100]), &good)) { fails.push("v1 export name of 100 bytes rejected".into()); }
    for n in ["init_x", "x.y", "plain", "in it.x", "\u{1}.x", "a.b~", "{.}"] {
        for t in [&good, &bad] {
            exq("v0", n, t, v0i.validate_export_function(&nm(n), t));
            exq("v1", n, t, v1i.validate_export_function(&nm(n), t));
        }
    }
    println!("{}", json!({"imports": {"checks": checks, "fails": fails}}));
}

// ------------------------------------------------------------------ memory access sweep
/// Every load / store opcode: (byte, width in bytes, is_store, value type is i64)
const MEMOPS: &[(u8, u64, bool, bool)] = &[
    (0x28, 4, false, false), (0x29, 8, false, true), (0x2c, 1, false, false), (0x2d, 1, false, false), (0x2e, 2, false, false), (0x2f, 2, false, false),
    (0x30, 1, false, true), (0x31, 1, false, true), (0x32, 2, false, true), (0x33, 2, false, true), (0x34, 4, false, true), (0x35, 4, false, true),
    (0x36, 4, true, false), (0x37, 8, true, true), (0x3a, 1, true, false), (0x3b, 2, true, false), (0x3c, 1, true, true), (0x3d, 2, true, true), (0x3e, 4, true, true),
];
/// Accesses of every width at effective addresses len-9 .. len+1 (constant address, offset immediate, both),
/// before and after memory.grow (also up to the full MAX_NUM_PAGES): an access traps iff ea + width > len
/// (independent bounds computation); in-bounds stores must be visible in the final memory.
fn mode_memsweep() {
    let mut runs = 0u64; let mut traps = 0u64; let mut oks = 0u64; let mut bad: Vec<String> = vec![];
    // (initial pages, declared max, pages to grow before the access)
    for (min, max, grow) in [(1u32, Some(3u32), 0u32), (1, Some(3), 1), (2, None, 0), (32, Some(512), 480), (32, Some(1000), 480), (1, None, 511)] {
        let len = (min + grow) as u64 * 65536;
        for off in [0u32, 5, 65000] {
            // one function per opcode: (param i32) [grow;] access
            let mut types = vec![];
            let mut funcs = vec![];
            for (b, _w, store, is64) in MEMOPS {
                let sig = if *store { Sig { params: vec![VT::I32], result: None } } else { Sig { params: vec![VT::I32], result: Some(if *is64 { VT::I64 } else { VT::I32 }) } };
                let ty = match types.iter().position(|t| *t == sig) { Some(i) => i, None => { types.push(sig); types.len() - 1 } } as u32;
                let mut body = vec![];
                if grow > 0 { body.extend(vec![Op::I32Const(grow as i32), Op::Plain(0x40), Op::Plain(0x1a)]); }
                body.push(Op::LocalGet(0));
                if *store { body.push(if *is64 { Op::I64Const(0x1122334455667788) } else { Op::I32Const(0x55667788) }); }
                body.push(Op::Mem(*b, off, 0));
                body.push(Op::End);
                funcs.push(Func { ty, locals: vec![], body, rle: None });
            }
            let m = Module { types, funcs, mem: Some((min, max)), ..Default::default() };
            let bytes = m.encode();
            for metered in [false, true] {
                let art = match instantiate(ValidationConfig::V1, Imp::All, metered, &bytes) {
                    Ok(Ok(a)) => a,
                    other => { bad.push(format!("sweep module rejected: {}", verdict(&other))); continue; }
                };
                for (fi, (b, w, store, _)) in MEMOPS.iter().enumerate() {
                    for k in 0..=10u64 {
                        let ea = len - 9 + k;
                        if ea < off as u64 { continue; }
                        let addr = ea - off as u64;
                        if addr > u32::MAX as u64 { continue; }
                        if (min + grow >= 512) && !(k % 2 == 0 || *w == 8) { continue; }
                        PROGRESS.fetch_add(1, Ordering::SeqCst);
                        let mut host = TH { energy: 10_000_000, depth: 0, calls: 0 };
                        let name = format!("f{}", fi);
                        let r = guarded(|| art.run(&mut host, name.as_str(), &[Value::I32(addr as u32 as i32)]));
                        runs += 1;
                        let must_trap = ea + w > len;
                        let desc = || format!("op {:#04x} width {} {} min {} max {:?} grow {} offset {} addr {} (ea {} = len{:+}) metered {}",
                                              b, w, if *store { "store" } else { "load" }, min, max, grow, off, addr, ea, ea as i64 - len as i64, metered);
                        match r {
                            Err(p) => bad.push(format!("PANIC {}: {}", desc(), p)),
                            Ok(Err(_)) => { traps += 1; if !must_trap { bad.push(format!("in-bounds access trapped: {}", desc())); } }
                            Ok(Ok(ExecutionOutcome::Interrupted { .. })) => bad.push(format!("interrupt: {}", desc())),
                            Ok(Ok(ExecutionOutcome::Success { result, memory })) => {
                                oks += 1;
                                if must_trap { bad.push(format!("OUT-OF-BOUNDS access did not trap (result {:?}): {}", result, desc())); continue; }
                                if memory.len() as u64 != len { bad.push(format!("memory length {} instead of {}: {}", memory.len(), len, desc())); continue; }
                                if *store {
                                    let want = 0x1122334455667788u64.to_le_bytes();
                                    if memory[ea as usize..(ea + w) as usize] != want[..*w as usize] { bad.push(format!("store not visible: {}", desc())); }
                                } else {
                                    match result { Some(Value::I32(0)) | Some(Value::I64(0)) => {}, other => bad.push(format!("load of zero memory returned {:?}: {}", other, desc())) }
                                }
                            }
                        }
                    }
                }
            }
        }
    }
    bad.truncate(20);
    println!("{}", json!({"memsweep": {"runs": runs, "traps": traps, "ok": oks, "bad": bad}}));
}

fn mode_replay() {
    use std::io::BufRead;
    for l in std::io::stdin().lock().lines() {
        let l = l.unwrap();
        let l = l.trim();
        if l.is_empty() { continue; }
        let b = unhex(l);
        let r0 = instantiate(ValidationConfig::V0, Imp::All, false, &b);
        let r1 = instantiate(ValidationConfig::V1, Imp::All, false, &b);
        let rm = instantiate(ValidationConfig::V1, Imp::All, true, &b);
        let mut exec = json!(null);
        if let Ok(Ok(art)) = &rm { let (runs, dist, panics) = exec_all(art, 2); exec = json!({"runs": runs, "dist": dist, "panics": panics}); }
        let msg = match &r1 { Ok(Err(e)) => e.clone(), _ => String::new() };
        println!("{}", json!({"hex": l, "v0": verdict(&r0), "v1": verdict(&r1), "v1m": verdict(&rm), "msg": msg, "exec": exec}));
    }
}

fn watchdog() {
    std::thread::spawn(|| {
        let mut last = u64::MAX;
        let mut stale = 0;
        loop {
            std::thread::sleep(std::time::Duration::from_millis(500));
            let p = PROGRESS.load(Ordering::SeqCst);
            if p == last { stale += 1 } else { stale = 0; last = p }
            if stale >= 40 {
                println!("{}", json!({"violation": "HANG: no progress for 20 s in parse/validate/compile/run"}));
                std::process::exit(3);
            }
        }
    });
}

fn main() {
    quiet_panics();
    let a: Vec<String> = std::env::args().collect();
    let mode = a.get(1).map(|s| s.as_str()).unwrap_or("");
    let num = |i: usize| -> u64 { a.get(i).and_then(|s| s.parse().ok()).unwrap_or(1) };
    watchdog();
    match mode {
        "struct" => mode_struct(num(2), num(3)),
        "bytes" => mode_bytes(num(2), num(3), &a[4.min(a.len())..]),
        "leb" => mode_leb(num(2), num(3)),
        "imports" => mode_imports(),
        "replay" => mode_replay(),
        "memsweep" => mode_memsweep(),
        _ => { eprintln!("unknown mode"); std::process::exit(2) }
    }
    let _: J = json!(null);
}
