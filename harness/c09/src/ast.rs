//! Program representation shared by the generator, the Wasm binary encoder and the
//! line format read by the OCaml model runner.
//!
//! Line format (whitespace separated tokens):
//!   T n {np t*np nr t*nr}*n   M has min hasmax max   G n {mut t val}*n   B has size
//!   E n {off k f*k}*n   D n {off k byte*k}*n   F n {tyidx nl t*nl nops op*nops}*n
//!   X k fidx*k nargs {t val}*nargs
//! Types are `7f` (i32) / `7e` (i64) / `40` (empty block type).  An op is one token: the Wasm
//! opcode byte in hex followed by `:`-separated immediates (decimal), e.g. `6a`, `41:-5`,
//! `02:7f`, `0e:2:0:1:0` (br_table: count, labels, default), `28:OFFSET:ALIGN`.
//! `fe:N` is the metering pseudo-instruction TickEnergy (never in generated programs).

#[derive(Clone, Copy, PartialEq, Eq, Debug, Hash)]
pub enum VT {
    I32,
    I64,
}
impl VT {
    pub fn byte(self) -> u8 {
        match self {
            VT::I32 => 0x7f,
            VT::I64 => 0x7e,
        }
    }
    pub fn tok(self) -> &'static str {
        match self {
            VT::I32 => "7f",
            VT::I64 => "7e",
        }
    }
    pub fn from_tok(s: &str) -> Option<VT> {
        match s {
            "7f" => Some(VT::I32),
            "7e" => Some(VT::I64),
            _ => None,
        }
    }
}
pub type BT = Option<VT>;
pub fn bt_tok(b: BT) -> &'static str {
    match b {
        None => "40",
        Some(t) => t.tok(),
    }
}
fn bt_from(s: &str) -> Option<BT> {
    if s == "40" {
        Some(None)
    } else {
        VT::from_tok(s).map(Some)
    }
}

#[derive(Clone, PartialEq, Eq, Debug)]
pub enum Op {
    Block(BT),
    Loop(BT),
    If(BT),
    Else,
    End,
    Br(u32),
    BrIf(u32),
    BrTable(Vec<u32>, u32),
    Call(u32),
    CallIndirect(u32),
    LocalGet(u32),
    LocalSet(u32),
    LocalTee(u32),
    GlobalGet(u32),
    GlobalSet(u32),
    /// load/store: opcode byte, offset, align
    Mem(u8, u32, u32),
    I32Const(i32),
    I64Const(i64),
    /// any opcode without immediates (memory.size/grow included: 0x3f, 0x40)
    Plain(u8),
    Tick(u32),
}

impl Op {
    pub fn tok(&self) -> String {
        match self {
            Op::Block(b) => format!("02:{}", bt_tok(*b)),
            Op::Loop(b) => format!("03:{}", bt_tok(*b)),
            Op::If(b) => format!("04:{}", bt_tok(*b)),
            Op::Else => "05".into(),
            Op::End => "0b".into(),
            Op::Br(l) => format!("0c:{}", l),
            Op::BrIf(l) => format!("0d:{}", l),
            Op::BrTable(ls, d) => {
                let mut s = format!("0e:{}", ls.len());
                for l in ls {
                    s += &format!(":{}", l);
                }
                s + &format!(":{}", d)
            }
            Op::Call(f) => format!("10:{}", f),
            Op::CallIndirect(t) => format!("11:{}", t),
            Op::LocalGet(i) => format!("20:{}", i),
            Op::LocalSet(i) => format!("21:{}", i),
            Op::LocalTee(i) => format!("22:{}", i),
            Op::GlobalGet(i) => format!("23:{}", i),
            Op::GlobalSet(i) => format!("24:{}", i),
            Op::Mem(b, o, a) => format!("{:02x}:{}:{}", b, o, a),
            Op::I32Const(c) => format!("41:{}", c),
            Op::I64Const(c) => format!("42:{}", c),
            Op::Plain(b) => format!("{:02x}", b),
            Op::Tick(n) => format!("fe:{}", n),
        }
    }
    pub fn from_tok(s: &str) -> Option<Op> {
        let mut it = s.split(':');
        let b = u8::from_str_radix(it.next()?, 16).ok()?;
        let rest: Vec<&str> = it.collect();
        let n = |i: usize| -> Option<u32> { rest.get(i)?.parse().ok() };
        Some(match b {
            0x02 => Op::Block(bt_from(rest.first()?)?),
            0x03 => Op::Loop(bt_from(rest.first()?)?),
            0x04 => Op::If(bt_from(rest.first()?)?),
            0x05 => Op::Else,
            0x0b => Op::End,
            0x0c => Op::Br(n(0)?),
            0x0d => Op::BrIf(n(0)?),
            0x0e => {
                let k = n(0)? as usize;
                let mut ls = vec![];
                for i in 0..k {
                    ls.push(n(1 + i)?);
                }
                Op::BrTable(ls, n(1 + k)?)
            }
            0x10 => Op::Call(n(0)?),
            0x11 => Op::CallIndirect(n(0)?),
            0x20 => Op::LocalGet(n(0)?),
            0x21 => Op::LocalSet(n(0)?),
            0x22 => Op::LocalTee(n(0)?),
            0x23 => Op::GlobalGet(n(0)?),
            0x24 => Op::GlobalSet(n(0)?),
            0x28..=0x3e => Op::Mem(b, n(0)?, n(1)?),
            0x41 => Op::I32Const(rest.first()?.parse().ok()?),
            0x42 => Op::I64Const(rest.first()?.parse().ok()?),
            0xfe => Op::Tick(n(0)?),
            _ => Op::Plain(b),
        })
    }
}

#[derive(Clone, PartialEq, Eq, Debug, Hash)]
pub struct Sig {
    pub params: Vec<VT>,
    pub result: Option<VT>,
}
#[derive(Clone, Debug)]
pub struct Func {
    pub ty: u32,
    pub locals: Vec<VT>,
    /// explicit (multiplicity, type) groups overriding the run-length grouping of `locals`
    pub rle: Option<Vec<(u32, VT)>>,
    pub body: Vec<Op>, // including the final End
}
#[derive(Clone, Debug, Default)]
pub struct Module {
    pub types: Vec<Sig>,
    pub funcs: Vec<Func>,
    pub table: Option<u32>,
    pub elems: Vec<(u32, Vec<u32>)>,
    pub mem: Option<(u32, Option<u32>)>,
    pub data: Vec<(u32, Vec<u8>)>,
    pub globals: Vec<(bool, VT, i64)>,
    /// imported functions: module name, item name, type index
    pub imports: Vec<(String, String, u32)>,
    /// explicit export list (name, kind 0..3, index); None = every function i as "f<i>"
    pub exports: Option<Vec<(String, u8, u32)>>,
    /// encode the offset of data (true) / element (false) segment number .1 as `global.get .2` (binary only)
    pub offset_global: Option<(bool, usize, u32)>,
    /// encode the initialiser of global number .0 as `global.get .1` (binary only)
    pub init_global: Option<(usize, u32)>,
    /// explicit maximum of the table limits (binary only; tables cannot grow: the size is the minimum)
    pub table_max: Option<u32>,
    /// custom sections (name bytes, contents) appended at the end (binary only)
    pub customs: Vec<(Vec<u8>, Vec<u8>)>,
}
#[derive(Clone, Debug)]
pub struct Case {
    pub module: Module,
    pub entries: Vec<u32>,
    pub args: Vec<(VT, i64)>,
}

impl Func {
    pub fn groups(&self) -> Vec<(u32, VT)> {
        if let Some(g) = &self.rle { return g.clone(); }
        let mut groups: Vec<(u32, VT)> = vec![];
        for l in &self.locals {
            match groups.last_mut() {
                Some((n, t)) if *t == *l => *n += 1,
                _ => groups.push((1, *l)),
            }
        }
        groups
    }
}
impl Module {
    pub fn export_list(&self) -> Vec<(String, u8, u32)> {
        match &self.exports {
            Some(e) => e.clone(),
            None => (0..self.funcs.len()).map(|i| (format!("f{}", i), 0u8, (self.imports.len() + i) as u32)).collect(),
        }
    }
}
impl Case {
    pub fn to_line(&self) -> String {
        let m = &self.module;
        let mut t: Vec<String> = vec![];
        t.push("T".into());
        t.push(m.types.len().to_string());
        for s in &m.types {
            t.push(s.params.len().to_string());
            for p in &s.params {
                t.push(p.tok().into());
            }
            match s.result {
                None => t.push("0".into()),
                Some(r) => {
                    t.push("1".into());
                    t.push(r.tok().into())
                }
            }
        }
        t.push("I".into());
        t.push(m.imports.len().to_string());
        for (_, _, ty) in &m.imports {
            t.push(ty.to_string());
        }
        t.push("M".into());
        match m.mem {
            None => t.extend(["0", "0", "0", "0"].iter().map(|s| s.to_string())),
            Some((min, max)) => {
                t.push("1".into());
                t.push(min.to_string());
                match max {
                    None => t.extend(["0", "0"].iter().map(|s| s.to_string())),
                    Some(x) => {
                        t.push("1".into());
                        t.push(x.to_string())
                    }
                }
            }
        }
        t.push("G".into());
        t.push(m.globals.len().to_string());
        for (mu, ty, v) in &m.globals {
            t.push((*mu as u8).to_string());
            t.push(ty.tok().into());
            t.push(v.to_string());
        }
        t.push("B".into());
        match m.table {
            None => t.extend(["0", "0"].iter().map(|s| s.to_string())),
            Some(n) => {
                t.push("1".into());
                t.push(n.to_string())
            }
        }
        t.push("E".into());
        t.push(m.elems.len().to_string());
        for (off, fs) in &m.elems {
            t.push(off.to_string());
            t.push(fs.len().to_string());
            for f in fs {
                t.push(f.to_string());
            }
        }
        t.push("D".into());
        t.push(m.data.len().to_string());
        for (off, bs) in &m.data {
            t.push(off.to_string());
            t.push(bs.len().to_string());
        }
        t.push("F".into());
        t.push(m.funcs.len().to_string());
        for f in &m.funcs {
            t.push(f.ty.to_string());
            let g = f.groups();
            t.push(g.len().to_string());
            for (n, l) in &g {
                t.push(n.to_string());
                t.push(l.tok().into());
            }
            t.push(f.body.len().to_string());
            for o in &f.body {
                t.push(o.tok());
            }
        }
        t.push("P".into());
        let ex = m.export_list();
        t.push(ex.len().to_string());
        for (n, k, i) in &ex {
            t.push(n.replace(' ', "_"));
            t.push(k.to_string());
            t.push(i.to_string());
        }
        t.push("X".into());
        t.push(self.entries.len().to_string());
        for e in &self.entries {
            t.push(e.to_string());
        }
        t.push(self.args.len().to_string());
        for (ty, v) in &self.args {
            t.push(ty.tok().into());
            t.push(v.to_string());
        }
        t.join(" ")
    }

}

// ---------------------------------------------------------------- binary encoder
thread_local! {
    /// LEB128-level mutation: (index of the LEB to alter among all LEBs written, mode); counter.
    /// modes (unsigned u32 fields): 1 pad to 5 bytes (valid), 2 pad to 6 bytes (invalid),
    /// 3 five bytes with an unused bit set (invalid), 4 one extra byte (valid unless it becomes 6);
    /// (signed N-bit constants): 1 pad to ceil(N/7) bytes (valid), 2 one byte more than that (invalid),
    /// 3 maximal length with a wrong unused/sign-extension bit (invalid), 4 one extra byte (valid unless too long)
    pub static LEB_HACK: std::cell::Cell<(i64, u8)> = const { std::cell::Cell::new((-1, 0)) };
    pub static LEB_COUNT: std::cell::Cell<i64> = const { std::cell::Cell::new(0) };
    /// Some(valid?) once the hack has been applied
    pub static LEB_APPLIED: std::cell::Cell<Option<bool>> = const { std::cell::Cell::new(None) };
}
thread_local! {
    /// fixed-byte mutation: (index of the tag / reserved / opcode byte to replace among all such bytes written, new value)
    pub static FIXED_HACK: std::cell::Cell<(i64, u8)> = const { std::cell::Cell::new((-1, 0)) };
    pub static FIXED_COUNT: std::cell::Cell<i64> = const { std::cell::Cell::new(0) };
}
thread_local! {
    pub static OPC_HACK: std::cell::Cell<(i64, u8)> = const { std::cell::Cell::new((-1, 0)) };
    pub static OPC_COUNT: std::cell::Cell<i64> = const { std::cell::Cell::new(0) };
}
/// push the byte of an instruction without immediates (separate counter: there are many of them)
pub fn fixed_op(out: &mut Vec<u8>, b: u8) {
    let c = OPC_COUNT.with(|c| { let v = c.get(); c.set(v + 1); v });
    let (t, nb) = OPC_HACK.with(|h| h.get());
    out.push(if c == t { nb } else { b });
}
/// push a byte whose value is fixed by the grammar (tags, reserved zero bytes, type bytes, plain opcodes)
pub fn fixed(out: &mut Vec<u8>, b: u8) {
    let c = FIXED_COUNT.with(|c| { let v = c.get(); c.set(v + 1); v });
    let (t, nb) = FIXED_HACK.with(|h| h.get());
    out.push(if c == t { nb } else { b });
}
fn leb_turn() -> u8 {
    let c = LEB_COUNT.with(|c| { let v = c.get(); c.set(v + 1); v });
    let (t, m) = LEB_HACK.with(|h| h.get());
    if c == t { m } else { 0 }
}
pub fn uleb(out: &mut Vec<u8>, x: u64) {
    let mode = leb_turn();
    let start = out.len();
    if mode >= 5 {
        // value-level mutation of a count / size / index / offset
        let y = match mode { 5 => x + 1, 6 => x.saturating_sub(1), 7 => 0xffff_ffff, 8 => x + 2, 9 => 0x1_0000_0000, _ => x.wrapping_mul(3) & 0xffff_ffff };
        uleb_plain(out, y);
        LEB_APPLIED.with(|a| a.set(None));
        return;
    }
    uleb_plain(out, x);
    if mode == 0 { return; }
    let len = out.len() - start;
    let pad_to = |out: &mut Vec<u8>, n: usize| {
        let l = out.len() - start;
        if n > l {
            let last = out.len() - 1;
            out[last] |= 0x80;
            for _ in l..n - 1 { out.push(0x80); }
            out.push(0x00);
        }
    };
    let valid = match mode {
        1 => { pad_to(out, 5); true }
        2 => { pad_to(out, 6); false }
        3 => { pad_to(out, 5); let last = out.len() - 1; out[last] |= 0x10; false }
        _ => { pad_to(out, len + 1); len + 1 <= 5 }
    };
    LEB_APPLIED.with(|a| a.set(Some(valid)));
}
pub fn sleb_n(out: &mut Vec<u8>, x: i64, bits: u32) {
    let mode = leb_turn();
    let start = out.len();
    sleb(out, x);
    if mode == 0 { return; }
    let maxlen = ((bits + 6) / 7) as usize;
    let len = out.len() - start;
    let fill: u8 = if x < 0 { 0x7f } else { 0x00 };
    let pad_to = |out: &mut Vec<u8>, n: usize| {
        let l = out.len() - start;
        if n > l {
            let last = out.len() - 1;
            out[last] |= 0x80;
            for _ in l..n - 1 { out.push(fill | 0x80); }
            out.push(fill);
        }
    };
    let valid = match mode {
        1 => { pad_to(out, maxlen); true }
        2 => { pad_to(out, maxlen + 1); false }
        3 => {
            pad_to(out, maxlen);
            // flip an unused bit of the last byte (bits above the value width must equal the sign)
            let last = out.len() - 1;
            let used = bits as usize - 7 * (maxlen - 1); // value bits in the last byte
            out[last] ^= 1 << used.min(6);
            if used >= 7 { true } else { false }
        }
        _ => { pad_to(out, len + 1); len + 1 <= maxlen }
    };
    LEB_APPLIED.with(|a| a.set(Some(valid)));
}
pub fn uleb_plain(out: &mut Vec<u8>, mut x: u64) {
    loop {
        let b = (x & 0x7f) as u8;
        x >>= 7;
        if x == 0 {
            out.push(b);
            return;
        }
        out.push(b | 0x80);
    }
}
pub fn sleb(out: &mut Vec<u8>, mut x: i64) {
    loop {
        let b = (x & 0x7f) as u8;
        x >>= 7;
        let done = (x == 0 && b & 0x40 == 0) || (x == -1 && b & 0x40 != 0);
        if done {
            out.push(b);
            return;
        }
        out.push(b | 0x80);
    }
}
fn sec_push(out: &mut Vec<(u8, Vec<u8>)>, id: u8, body: Vec<u8>) {
    out.push((id, body));
}
pub fn section(out: &mut Vec<u8>, id: u8, body: Vec<u8>) {
    out.push(id);
    uleb(out, body.len() as u64);
    out.extend(body);
}
fn bt_byte(b: BT) -> u8 {
    match b {
        None => 0x40,
        Some(t) => t.byte(),
    }
}
pub fn encode_op(out: &mut Vec<u8>, op: &Op) {
    match op {
        Op::Block(b) => {
            out.push(0x02);
            fixed(out, bt_byte(*b))
        }
        Op::Loop(b) => {
            out.push(0x03);
            fixed(out, bt_byte(*b))
        }
        Op::If(b) => {
            out.push(0x04);
            fixed(out, bt_byte(*b))
        }
        Op::Else => out.push(0x05),
        Op::End => out.push(0x0b),
        Op::Br(l) => {
            out.push(0x0c);
            uleb(out, *l as u64)
        }
        Op::BrIf(l) => {
            out.push(0x0d);
            uleb(out, *l as u64)
        }
        Op::BrTable(ls, d) => {
            out.push(0x0e);
            uleb(out, ls.len() as u64);
            for l in ls {
                uleb(out, *l as u64);
            }
            uleb(out, *d as u64)
        }
        Op::Call(f) => {
            out.push(0x10);
            uleb(out, *f as u64)
        }
        Op::CallIndirect(t) => {
            out.push(0x11);
            uleb(out, *t as u64);
            fixed(out, 0x00)
        }
        Op::LocalGet(i) => {
            out.push(0x20);
            uleb(out, *i as u64)
        }
        Op::LocalSet(i) => {
            out.push(0x21);
            uleb(out, *i as u64)
        }
        Op::LocalTee(i) => {
            out.push(0x22);
            uleb(out, *i as u64)
        }
        Op::GlobalGet(i) => {
            out.push(0x23);
            uleb(out, *i as u64)
        }
        Op::GlobalSet(i) => {
            out.push(0x24);
            uleb(out, *i as u64)
        }
        Op::Mem(b, o, a) => {
            out.push(*b);
            uleb(out, *a as u64);
            uleb(out, *o as u64)
        }
        Op::I32Const(c) => {
            out.push(0x41);
            sleb_n(out, *c as i64, 32)
        }
        Op::I64Const(c) => {
            out.push(0x42);
            sleb_n(out, *c, 64)
        }
        Op::Plain(b) => {
            fixed_op(out, *b);
            if *b == 0x3f || *b == 0x40 {
                fixed(out, 0x00)
            }
        }
        Op::Tick(_) => out.push(0xfe), // not encodable: makes the module unparseable on purpose
    }
}

impl Module {
    pub fn encode(&self) -> Vec<u8> {
        let mut out = vec![0x00, 0x61, 0x73, 0x6d, 0x01, 0x00, 0x00, 0x00];
        for (id, body) in self.sections() {
            section(&mut out, id, body);
        }
        out
    }
    /// the sections (id, contents) in order
    pub fn sections(&self) -> Vec<(u8, Vec<u8>)> {
        let mut secs: Vec<(u8, Vec<u8>)> = vec![];
        let out = &mut secs;
        // type
        let mut b = vec![];
        uleb(&mut b, self.types.len() as u64);
        for s in &self.types {
            fixed(&mut b, 0x60);
            uleb(&mut b, s.params.len() as u64);
            for p in &s.params {
                fixed(&mut b, p.byte());
            }
            match s.result {
                None => fixed(&mut b, 0),
                Some(r) => {
                    fixed(&mut b, 1);
                    fixed(&mut b, r.byte())
                }
            }
        }
        sec_push(out, 1, b);
        if !self.imports.is_empty() {
            let mut b = vec![];
            uleb(&mut b, self.imports.len() as u64);
            for (m, n, ty) in &self.imports {
                uleb(&mut b, m.len() as u64);
                b.extend(m.as_bytes());
                uleb(&mut b, n.len() as u64);
                b.extend(n.as_bytes());
                fixed(&mut b, 0x00);
                uleb(&mut b, *ty as u64);
            }
            sec_push(out, 2, b);
        }
        // function
        let mut b = vec![];
        uleb(&mut b, self.funcs.len() as u64);
        for f in &self.funcs {
            uleb(&mut b, f.ty as u64);
        }
        sec_push(out, 3, b);
        if let Some(n) = self.table {
            let mut b = vec![];
            uleb(&mut b, 1);
            fixed(&mut b, 0x70);
            match self.table_max {
                None => { fixed(&mut b, 0x00); uleb(&mut b, n as u64); }
                Some(mx) => { fixed(&mut b, 0x01); uleb(&mut b, n as u64); uleb(&mut b, mx as u64); }
            }
            sec_push(out, 4, b);
        }
        if let Some((min, max)) = self.mem {
            let mut b = vec![];
            uleb(&mut b, 1);
            match max {
                None => {
                    fixed(&mut b, 0x00);
                    uleb(&mut b, min as u64)
                }
                Some(x) => {
                    fixed(&mut b, 0x01);
                    uleb(&mut b, min as u64);
                    uleb(&mut b, x as u64)
                }
            }
            sec_push(out, 5, b);
        }
        if !self.globals.is_empty() {
            let mut b = vec![];
            uleb(&mut b, self.globals.len() as u64);
            for (gi, (mu, ty, v)) in self.globals.iter().enumerate() {
                fixed(&mut b, ty.byte());
                fixed(&mut b, *mu as u8);
                if let Some((g, k)) = self.init_global { if g == gi { fixed(&mut b, 0x23); uleb(&mut b, k as u64); fixed(&mut b, 0x0b); continue; } }
                match ty {
                    VT::I32 => {
                        fixed(&mut b, 0x41);
                        sleb(&mut b, *v as i32 as i64)
                    }
                    VT::I64 => {
                        fixed(&mut b, 0x42);
                        sleb(&mut b, *v)
                    }
                }
                fixed(&mut b, 0x0b);
            }
            sec_push(out, 6, b);
        }
        let mut b = vec![];
        let ex = self.export_list();
        uleb(&mut b, ex.len() as u64);
        for (name, kind, idx) in &ex {
            uleb(&mut b, name.len() as u64);
            b.extend(name.as_bytes());
            fixed(&mut b, *kind);
            uleb(&mut b, *idx as u64);
        }
        sec_push(out, 7, b);
        if !self.elems.is_empty() {
            let mut b = vec![];
            uleb(&mut b, self.elems.len() as u64);
            for (ei, (off, fs)) in self.elems.iter().enumerate() {
                uleb(&mut b, 0);
                match self.offset_global {
                    Some((false, k, g)) if k == ei => { fixed(&mut b, 0x23); uleb(&mut b, g as u64); }
                    _ => { fixed(&mut b, 0x41); sleb(&mut b, *off as i32 as i64); }
                }
                fixed(&mut b, 0x0b);
                uleb(&mut b, fs.len() as u64);
                for f in fs {
                    uleb(&mut b, *f as u64);
                }
            }
            sec_push(out, 9, b);
        }
        // code
        let mut b = vec![];
        uleb(&mut b, self.funcs.len() as u64);
        for f in &self.funcs {
            let mut c = vec![];
            // locals, run-length grouped
            let groups = f.groups();
            uleb(&mut c, groups.len() as u64);
            for (n, t) in groups {
                uleb(&mut c, n as u64);
                fixed(&mut c, t.byte());
            }
            for o in &f.body {
                encode_op(&mut c, o);
            }
            uleb(&mut b, c.len() as u64);
            b.extend(c);
        }
        sec_push(out, 10, b);
        if !self.data.is_empty() {
            let mut b = vec![];
            uleb(&mut b, self.data.len() as u64);
            for (di, (off, bs)) in self.data.iter().enumerate() {
                uleb(&mut b, 0);
                match self.offset_global {
                    Some((true, k, g)) if k == di => { fixed(&mut b, 0x23); uleb(&mut b, g as u64); }
                    _ => { fixed(&mut b, 0x41); sleb(&mut b, *off as i32 as i64); }
                }
                fixed(&mut b, 0x0b);
                uleb(&mut b, bs.len() as u64);
                b.extend(bs);
            }
            sec_push(out, 11, b);
        }
        for (name, contents) in &self.customs {
            let mut b = vec![];
            uleb(&mut b, name.len() as u64);
            b.extend(name);
            b.extend(contents);
            sec_push(out, 0, b);
        }
        secs
    }
}
