//! Instruction-, module- and byte/section-level mutations (C09).
use crate::ast::*;
use hlib::Rng;

fn other(t: VT) -> VT { if t == VT::I32 { VT::I64 } else { VT::I32 } }

/// numeric opcode of the other integer type, when there is a direct counterpart
fn swap_plain(b: u8) -> Option<u8> {
    Some(match b {
        0x45 => 0x50, 0x50 => 0x45,
        0x46..=0x4f => b + 0x0b, 0x51..=0x5a => b - 0x0b,
        0x67..=0x78 => b + 0x12, 0x79..=0x8a => b - 0x12,
        0xa7 => 0xac, 0xac => 0xa7, 0xad => 0xa7,
        0xc0 => 0xc2, 0xc1 => 0xc3, 0xc2 => 0xc0, 0xc3 => 0xc1, 0xc4 => 0xc1,
        _ => return None,
    })
}

fn positions(body: &[Op], p: impl Fn(&Op) -> bool) -> Vec<usize> {
    (0..body.len()).filter(|&i| p(&body[i])).collect()
}

/// A self-contained snippet that is stack-neutral when valid.
fn snippet(r: &mut Rng, kind: u64) -> (Vec<Op>, &'static str) {
    use Op::*;
    match kind {
        0 => (vec![I32Const(1), I32Const(2), I32Const(0), Plain(0x1b), Plain(0x1a)], "snip:select-ok"),
        1 => (vec![I32Const(1), I64Const(2), I32Const(0), Plain(0x1b), Plain(0x1a)], "snip:select-mismatch"),
        2 => (vec![I64Const(1), I64Const(2), I64Const(0), Plain(0x1b), Plain(0x1a)], "snip:select-cond-i64"),
        3 => (vec![Block(None), Plain(0x00), Plain(0x45), Plain(0x1a), End], "snip:dead-ok"),
        4 => (vec![Block(None), Plain(0x00), I64Const(0), Plain(0x45), Plain(0x1a), End], "snip:dead-bad-known-type"),
        5 => (vec![Block(None), Br(0), Plain(0x6a), Plain(0x50), Plain(0x1a), End], "snip:dead-bad-result-type"),
        6 => (vec![Block(None), Br(0), Plain(0x1b), Plain(0x1b), Plain(0x1a), End], "snip:dead-select-unknown-ok"),
        7 => (vec![I32Const(1), Block(None), Plain(0x1a), End], "snip:pop-below-frame"),
        8 => (vec![I32Const(1), If(Some(VT::I32)), I32Const(2), End, Plain(0x1a)], "snip:if-result-no-else"),
        9 => (vec![I32Const(1), If(Some(VT::I32)), I32Const(2), Else, I32Const(3), End, Plain(0x1a)], "snip:if-result-else-ok"),
        10 => (vec![I32Const(1), If(Some(VT::I32)), I32Const(2), Else, I64Const(3), End, Plain(0x1a)], "snip:if-else-type-mismatch"),
        11 => (vec![Block(Some(VT::I32)), Block(None), I32Const(0), BrTable(vec![0, 1], 0), End, I32Const(5), End, Plain(0x1a)], "snip:br_table-arm-type-mismatch"),
        12 => (vec![Block(None), Block(None), I32Const(0), BrTable(vec![0, 1], 1), End, End], "snip:br_table-ok"),
        13 => (vec![Block(Some(VT::I32)), Block(Some(VT::I32)), I32Const(7), I32Const(0), BrTable(vec![0, 1, 0], 1), End, End, Plain(0x1a)], "snip:br_table-value-ok"),
        14 => (vec![Block(Some(VT::I64)), I32Const(7), Br(0), End, Plain(0x1a)], "snip:br-value-type-mismatch"),
        15 => (vec![Loop(Some(VT::I32)), I32Const(1), Br(0), End, Plain(0x1a)], "snip:loop-br-with-value(label type is empty)"),
        16 => (vec![Block(Some(VT::I32)), I32Const(1), I32Const(2), End, Plain(0x1a)], "snip:block-leaves-extra-operand"),
        17 => (vec![Block(None), I32Const(1), I32Const(0), BrIf(0), Plain(0x1a), End], "snip:br_if-novalue-ok"),
        18 => (vec![Block(Some(VT::I32)), I64Const(1), I32Const(0), BrIf(0), Plain(0x1a), I32Const(3), End, Plain(0x1a)], "snip:br_if-value-type-mismatch"),
        19 => {
            let n = *r.pick(&[4095u32, 4096, 4097, 5000]);
            (vec![Block(None), I32Const(0), BrTable(vec![0; n as usize], 0), End],
             if n <= 4096 { "snip:br_table-big-ok" } else { "snip:br_table-over-MAX_SWITCH_SIZE" })
        }
        20 => (vec![Block(None), Plain(0x0f), End], "snip:return-maybe-missing-value"),
        21 => (vec![I32Const(0), I32Const(0), Mem(0x36, 0, 3)], "snip:store-align-too-big-or-no-memory"),
        22 => (vec![I32Const(0), Mem(0x31, 0, 0), Plain(0x1a)], "snip:i64.load8_u-ok-if-memory"),
        23 => (vec![I32Const(0), Mem(0x31, 0, 1), Plain(0x1a)], "snip:i64.load8_u-align1"),
        24 => (vec![Plain(0x00), Else, End], "snip:else-without-if"),
        // ---- branches that target a LOOP WITH A RESULT TYPE: its label type is [] (its end type is not)
        25 => (vec![Block(None), Loop(Some(VT::I32)), I32Const(0), BrTable(vec![0], 1), End, Plain(0x1a), End], "snip:br_table-loop(result)+empty-block-ok"),
        26 => (vec![Block(Some(VT::I32)), Loop(Some(VT::I32)), I32Const(7), I32Const(0), BrTable(vec![0], 1), End, End, Plain(0x1a)], "snip:br_table-loop(result)-vs-block(result)-mismatch"),
        27 => (vec![Block(Some(VT::I32)), Loop(Some(VT::I32)), I32Const(7), I32Const(0), BrTable(vec![1], 0), End, End, Plain(0x1a)], "snip:br_table-default-loop(result)-arm-block(result)-mismatch"),
        28 => (vec![Loop(Some(VT::I32)), Loop(Some(VT::I64)), I32Const(1), BrTable(vec![0, 1, 0], 1), End, Plain(0x1a), I32Const(1), End, Plain(0x1a)], "snip:br_table-two-loops-different-results-ok"),
        29 => (vec![Block(None), Loop(Some(VT::I64)), I32Const(1), BrIf(1), I32Const(0), BrIf(0), I64Const(5), End, Plain(0x1a), End], "snip:br_if-loop(result)-ok"),
        30 => (vec![Block(Some(VT::I32)), Loop(Some(VT::I32)), I32Const(9), I32Const(0), BrIf(1), End, End, Plain(0x1a)], "snip:br_if-block(result)-inside-loop(result)-ok"),
        31 => (vec![Block(Some(VT::I32)), Loop(Some(VT::I32)), I32Const(0), BrIf(1), I32Const(5), End, End, Plain(0x1a)], "snip:br_if-block(result)-missing-value-in-loop"),
        32 => (vec![Loop(Some(VT::I64)), I32Const(1), End, Plain(0x1a)], "snip:loop(result)-fallthrough-type-mismatch"),
        33 => (vec![Block(None), Loop(Some(VT::I32)), I32Const(1), BrIf(1), Br(1), End, Plain(0x1a), End], "snip:br-out-of-loop(result)-ok"),
        34 => (vec![Block(Some(VT::I64)), Loop(Some(VT::I32)), I32Const(1), Br(1), End, Plain(0x1a), I64Const(0), End, Plain(0x1a)], "snip:br-block(i64)-from-loop-with-i32"),
        35 => (vec![Block(None), Block(Some(VT::I32)), Loop(Some(VT::I32)), I32Const(3), I32Const(2), BrTable(vec![0, 2], 2), End, End, Plain(0x1a), End], "snip:br_table-loop(result)+outer-empty-block-ok(value discarded)"),
        _ => (vec![Block(Some(VT::I32)), Loop(None), I32Const(3), I32Const(2), BrTable(vec![0], 1), End, I32Const(4), End, Plain(0x1a)], "snip:br_table-loop(empty)-vs-block(result)-mismatch"),
    }
}
pub const N_SNIPPETS: u64 = 37;
pub fn snippet_at(r: &mut Rng, k: u64) -> (Vec<Op>, &'static str) { snippet(r, k) }

/// Apply one instruction-level mutation to function `fi`. Returns the mutation name.
pub fn mutate_instr(r: &mut Rng, m: &mut Module, fi: usize) -> String {
    let ntypes = m.types.len() as u32;
    let nfuncs = (m.imports.len() + m.funcs.len()) as u32;
    let nglobals = m.globals.len() as u32;
    let nparams = m.types[m.funcs[fi].ty as usize].params.len() as u32;
    let nlocals = nparams + m.funcs[fi].locals.len() as u32;
    let imm: Vec<u32> = (0..nglobals).filter(|&g| !m.globals[g as usize].0).collect();
    let body = &mut m.funcs[fi].body;
    let len = body.len();
    for _attempt in 0..12 {
        let k = r.below(26);
        match k {
            0 | 1 => {
                let ps = positions(body, |o| match o { Op::Plain(b) => swap_plain(*b).is_some(), Op::I32Const(_) | Op::I64Const(_) => true, _ => false });
                if ps.is_empty() { continue; }
                let p = *r.pick(&ps);
                body[p] = match &body[p] {
                    Op::Plain(b) => Op::Plain(swap_plain(*b).unwrap()),
                    Op::I32Const(c) => Op::I64Const(*c as i64),
                    Op::I64Const(c) => Op::I32Const(*c as i32),
                    o => o.clone(),
                };
                return "type-swap".into();
            }
            2 => {
                let ps = positions(body, |o| matches!(o, Op::Br(_) | Op::BrIf(_) | Op::BrTable(..)));
                if ps.is_empty() { continue; }
                let p = *r.pick(&ps);
                let nl = *r.pick(&[0u32, 1, 2, 3, 4, 6, 9, 100, u32::MAX]);
                match &mut body[p] {
                    Op::Br(l) | Op::BrIf(l) => *l = nl,
                    Op::BrTable(ls, d) => { if ls.is_empty() || r.chance(1, 2) { *d = nl } else { let i = r.below(ls.len() as u64) as usize; ls[i] = nl } }
                    _ => {}
                }
                return "label".into();
            }
            3 => {
                let ps = positions(body, |o| matches!(o, Op::LocalGet(_) | Op::LocalSet(_) | Op::LocalTee(_)));
                if ps.is_empty() { continue; }
                let p = *r.pick(&ps);
                let ni = match r.below(5) { 0 => nlocals, 1 => nlocals.saturating_sub(1), 2 => r.below(nlocals as u64 + 2) as u32, 3 => u32::MAX, _ => nlocals + 1 };
                match &mut body[p] { Op::LocalGet(i) | Op::LocalSet(i) | Op::LocalTee(i) => *i = ni, _ => {} }
                return "local-index".into();
            }
            4 => {
                let ps = positions(body, |o| matches!(o, Op::GlobalGet(_) | Op::GlobalSet(_)));
                if ps.is_empty() { continue; }
                let p = *r.pick(&ps);
                if let Op::GlobalSet(i) = &mut body[p] {
                    if !imm.is_empty() && r.chance(1, 2) { *i = *r.pick(&imm); return "global.set-immutable".into(); }
                }
                let ni = match r.below(3) { 0 => nglobals, 1 => r.below(nglobals as u64 + 1) as u32, _ => u32::MAX };
                match &mut body[p] { Op::GlobalGet(i) | Op::GlobalSet(i) => *i = ni, _ => {} }
                return "global-index".into();
            }
            5 => {
                let ps = positions(body, |o| matches!(o, Op::Call(_)));
                if ps.is_empty() { continue; }
                let p = *r.pick(&ps);
                let ni = match r.below(3) { 0 => nfuncs, 1 => r.below(nfuncs as u64) as u32, _ => u32::MAX };
                body[p] = Op::Call(ni);
                return "func-index".into();
            }
            6 => {
                let ps = positions(body, |o| matches!(o, Op::CallIndirect(_)));
                if ps.is_empty() { continue; }
                let p = *r.pick(&ps);
                let ni = match r.below(3) { 0 => ntypes, 1 => r.below(ntypes as u64) as u32, _ => u32::MAX };
                body[p] = Op::CallIndirect(ni);
                return "type-index".into();
            }
            7 => {
                let ps = positions(body, |o| matches!(o, Op::End));
                let p = *r.pick(&ps);
                body.remove(p);
                return "missing-end".into();
            }
            8 => { let p = r.below(len as u64 + 1) as usize; body.insert(p, Op::End); return "extra-end".into(); }
            9 => { let p = r.below(len as u64) as usize; body.insert(p, Op::Else); return "extra-else".into(); }
            10 => {
                let ps = positions(body, |o| matches!(o, Op::Else));
                if ps.is_empty() { continue; }
                let p = *r.pick(&ps);
                body.remove(p);
                return "delete-else".into();
            }
            11 => {
                if len < 2 { continue; }
                let p = r.below(len as u64 - 1) as usize;
                body.remove(p);
                return "delete-op".into();
            }
            12 => {
                let p = r.below(len as u64) as usize;
                let op = match r.below(12) {
                    0 => Op::Plain(0x1a), 1 => Op::Plain(0x1b), 2 => Op::I32Const(3), 3 => Op::I64Const(3),
                    4 => Op::Plain(0x6a), 5 => Op::Plain(0x7c), 6 => Op::Plain(0x00), 7 => Op::Plain(0x0f),
                    8 => Op::LocalGet(r.below(nlocals as u64 + 1) as u32), 9 => Op::Br(r.below(3) as u32),
                    10 => Op::Plain(0x45), _ => Op::Plain(0x01),
                };
                body.insert(p, op);
                return "insert-op".into();
            }
            13 => {
                if len < 3 { continue; }
                let p = r.below(len as u64 - 2) as usize;
                body.swap(p, p + 1);
                return "swap-adjacent".into();
            }
            14 => {
                let ps = positions(body, |o| matches!(o, Op::Block(_) | Op::Loop(_) | Op::If(_)));
                if ps.is_empty() { continue; }
                let p = *r.pick(&ps);
                let nb = |b: BT, r: &mut Rng| match b { None => Some(if r.chance(1, 2) { VT::I32 } else { VT::I64 }), Some(t) => if r.chance(1, 2) { None } else { Some(other(t)) } };
                body[p] = match body[p].clone() { Op::Block(b) => Op::Block(nb(b, r)), Op::Loop(b) => Op::Loop(nb(b, r)), Op::If(b) => Op::If(nb(b, r)), o => o };
                return "blocktype".into();
            }
            15 => {
                // if (result) .. else .. end  ->  drop the else branch
                let ps = positions(body, |o| matches!(o, Op::If(Some(_))));
                if ps.is_empty() { continue; }
                let p = *r.pick(&ps);
                let mut depth = 0i32; let mut e = None; let mut q = None;
                for i in p + 1..len {
                    match &body[i] {
                        Op::Block(_) | Op::Loop(_) | Op::If(_) => depth += 1,
                        Op::Else if depth == 0 => e = Some(i),
                        Op::End => { if depth == 0 { q = Some(i); break; } depth -= 1 }
                        _ => {}
                    }
                }
                if let (Some(e), Some(q)) = (e, q) { body.drain(e..q); return "if-result-without-else".into(); }
                continue;
            }
            16 => {
                let ps = positions(body, |o| matches!(o, Op::Mem(..)));
                if ps.is_empty() { continue; }
                let p = *r.pick(&ps);
                if let Op::Mem(b, _, a) = &mut body[p] {
                    let nat = match *b { 0x28 | 0x34 | 0x35 | 0x36 | 0x3e => 2, 0x29 | 0x37 => 3, 0x2e | 0x2f | 0x32 | 0x33 | 0x3b | 0x3d => 1, _ => 0 };
                    *a = match r.below(4) { 0 => nat + 1, 1 => nat, 2 => 32, _ => u32::MAX };
                }
                return "align".into();
            }
            17 => {
                // trailing code after the function's final end
                let tail: Vec<Op> = match r.below(4) {
                    0 => vec![Op::Plain(0x01)],
                    1 => vec![Op::Block(None), Op::I32Const(7), Op::Plain(0x1a), Op::End],
                    2 => vec![Op::I32Const(1)],
                    _ => vec![Op::Plain(0x1a)],
                };
                body.extend(tail);
                return "trailing-code-after-end".into();
            }
            18 => {
                let p = r.below(len as u64) as usize;
                let d = body[p].clone();
                body.insert(p, d);
                return "dup-op".into();
            }
            _ => {
                // snippet at a random position that is not inside an immediate
                let (snip, name) = snippet(r, r.clone().below(N_SNIPPETS));
                let _ = r.next();
                let p = if r.chance(1, 3) { 0 } else { r.below(len as u64) as usize };
                for (i, o) in snip.into_iter().enumerate() { body.insert(p + i, o); }
                return name.into();
            }
        }
    }
    "none".into()
}

/// Module-level structured mutations (still expressible in the line format).
pub fn mutate_module(r: &mut Rng, m: &mut Module) -> String {
    for _ in 0..10 {
        match r.below(16) {
            0 => {
                if let Some((min, _)) = m.mem {
                    let len = min as u64 * 65536;
                    let n = r.range(1, 9);
                    let off = match r.below(4) { 0 => len - n.min(len), 1 => (len + 1).saturating_sub(n), 2 => len, _ => u32::MAX as u64 - r.below(3) };
                    m.data.push((off as u32, vec![0xAB; n as usize]));
                    return "data-bounds".into();
                }
            }
            1 => { if m.mem.is_none() { m.data.push((0, vec![1])); return "data-without-memory".into(); } }
            2 => {
                if let Some(sz) = m.table {
                    let nf = (m.imports.len() + m.funcs.len()) as u32;
                    let n = r.range(1, 3) as u32;
                    let off = match r.below(3) { 0 => sz.saturating_sub(n), 1 => (sz + 1).saturating_sub(n), _ => u32::MAX - 1 };
                    m.elems.push((off, vec![r.below(nf as u64) as u32; n as usize]));
                    return "elem-bounds".into();
                }
            }
            3 => {
                if m.table.is_some() {
                    let nf = (m.imports.len() + m.funcs.len()) as u32;
                    m.elems.push((0, vec![if r.chance(1, 2) { nf } else { u32::MAX }]));
                    return "elem-func-index".into();
                } else { m.elems.push((0, vec![0])); return "elem-without-table".into(); }
            }
            4 => { let min = *r.pick(&[32u32, 33, 64, 65536, 65537]); m.mem = Some((min, if r.chance(1, 2) { None } else { Some(min.max(1)) })); m.data.clear(); return "memory-min".into(); }
            5 => { if let Some((min, _)) = m.mem { let max = *r.pick(&[0u32, 65536, 65537, u32::MAX]); m.mem = Some((min, Some(max))); return "memory-max".into(); } }
            6 => { let sz = *r.pick(&[1000u32, 1001, 5000]); if m.table.map(|t| t < sz).unwrap_or(true) { m.table = Some(sz); } return "table-size".into(); }
            7 => {
                let n = *r.pick(&[1024usize, 1025]);
                while m.globals.len() < n { m.globals.push((true, VT::I32, 0)); }
                return "globals-count".into();
            }
            8 => {
                let mut ex = m.export_list();
                if ex.is_empty() { continue; }
                let d = ex[r.below(ex.len() as u64) as usize].clone();
                ex.push(d);
                m.exports = Some(ex);
                return "export-duplicate-name".into();
            }
            9 => {
                let mut ex = m.export_list();
                let nf = (m.imports.len() + m.funcs.len()) as u32;
                let (k, i) = match r.below(6) { 0 => (0u8, nf), 1 => (0, 0), 2 => (1, 0), 3 => (2, 0), 4 => (3, m.globals.len() as u32), _ => (3, 0) };
                ex.push((format!("x{}", ex.len()), k, i));
                m.exports = Some(ex);
                return "export-extra".into();
            }
            10 => {
                let mut ex = m.export_list();
                let n = *r.pick(&[100usize, 101]);
                let mut j = 0;
                while ex.len() < n { ex.push((format!("pad{}", j), 0, m.imports.len() as u32)); j += 1; }
                m.exports = Some(ex);
                return "exports-count".into();
            }
            11 => {
                let fi = r.below(m.funcs.len() as u64) as usize;
                m.funcs[fi].ty = if r.chance(1, 2) { m.types.len() as u32 } else { r.below(m.types.len() as u64) as u32 };
                return "function-type-index".into();
            }
            12 => {
                let fi = r.below(m.funcs.len() as u64) as usize;
                let np = m.types[m.funcs[fi].ty as usize].params.len() as u32;
                let mut g = m.funcs[fi].groups();
                let have: u32 = g.iter().map(|x| x.0).sum::<u32>() + np;
                let target = *r.pick(&[1023u32, 1024, 1025, 2000]);
                if target > have { g.push((target - have, VT::I64)); }
                m.funcs[fi].rle = Some(g);
                return "locals-count".into();
            }
            13 => {
                let fi = r.below(m.funcs.len() as u64) as usize;
                let mut g = m.funcs[fi].groups();
                g.push((u32::MAX, VT::I32));
                if r.chance(1, 2) { g.push((2, VT::I32)); }
                m.funcs[fi].rle = Some(g);
                return "locals-u32-overflow".into();
            }
            14 => {
                if m.imports.is_empty() { continue; }
                let i = r.below(m.imports.len() as u64) as usize;
                m.imports[i].2 = m.types.len() as u32;
                return "import-type-index".into();
            }
            _ => {
                if let Some((min, _)) = m.mem { if min > 0 {
                    // data segment exactly filling / overflowing the initial memory
                    let len = min as usize * 65536;
                    let n = if r.chance(1, 2) { len } else { len + 1 };
                    m.data.push((0, vec![7; n]));
                    return "data-length".into();
                } }
            }
        }
    }
    "none".into()
}

// ------------------------------------------------------------------ byte level
pub fn mutate_bytes(r: &mut Rng, b: &mut Vec<u8>) -> &'static str {
    if b.is_empty() { b.push(0); return "byte:insert"; }
    let n = b.len() as u64;
    match r.below(9) {
        0 => { let p = r.below(n) as usize; b[p] ^= 1 << r.below(8); "byte:bitflip" }
        1 => { let p = r.below(n) as usize; b[p] = r.next() as u8; "byte:replace" }
        2 => { let p = r.below(n) as usize; b[p] = *r.pick(&[0x80u8, 0xff, 0x7f, 0x00, 0x0b, 0x40, 0x7e, 0x05]); "byte:leb-ish" }
        3 => { let p = r.below(n + 1) as usize; b.insert(p, r.next() as u8); "byte:insert" }
        4 => { let p = r.below(n) as usize; b.remove(p); "byte:delete" }
        5 => { let p = r.below(n) as usize; b.truncate(p); "byte:truncate" }
        6 => { let k = r.range(1, 6); for _ in 0..k { let p = r.below(b.len() as u64) as usize; b[p] = r.next() as u8; } "byte:multi" }
        7 => { let p = r.below(n) as usize; let q = r.below(n) as usize; b.swap(p, q); "byte:swap" }
        _ => { let p = r.below(n) as usize; let e = (p + r.range(1, 8) as usize).min(b.len()); let c: Vec<u8> = b[p..e].to_vec(); let q = r.below(b.len() as u64) as usize; for (i, x) in c.into_iter().enumerate() { b.insert(q + i, x); } "byte:copy-chunk" }
    }
}

/// Section-level mutation of a list of (id, contents).  Returns (name, bytes, expectation):
/// expectation Some(false) = must be rejected, None = no expectation.
pub fn mutate_sections(r: &mut Rng, secs: &[(u8, Vec<u8>)]) -> (&'static str, Vec<u8>, Option<bool>) {
    let mut out = vec![0x00, 0x61, 0x73, 0x6d, 0x01, 0x00, 0x00, 0x00];
    let mut secs: Vec<(u8, Vec<u8>)> = secs.to_vec();
    let n = secs.len();
    let k = r.below(13);
    let mut expect = None;
    let mut name = "sec:none";
    let mut bad_size: Option<(usize, i64)> = None;
    match k {
        0 if n >= 2 => { let i = r.below(n as u64 - 1) as usize; secs.swap(i, i + 1); name = "sec:reorder"; expect = Some(false); }
        1 => { let i = r.below(n as u64) as usize; let s = secs[i].clone(); secs.insert(i, s); name = "sec:duplicate"; expect = Some(false); }
        2 => { let i = r.below(n as u64) as usize; secs.remove(i); name = "sec:drop"; }
        3 => { let i = r.below(n as u64) as usize; bad_size = Some((i, *r.pick(&[-1i64, 1, 2, 100, 1 << 20, u32::MAX as i64]))); name = "sec:wrong-declared-size"; expect = Some(false); }
        4 => { let i = r.below(n as u64) as usize; let l = secs[i].1.len(); if l > 0 { let p = r.below(l as u64) as usize; secs[i].1.truncate(p); } name = "sec:truncated-contents"; }
        5 => { let i = r.below(n as u64) as usize; let extra = r.bytes(r.clone().range(1, 4) as usize); secs[i].1.extend(extra); name = "sec:oversize-contents"; expect = Some(false); }
        6 => { let pos = secs.iter().position(|s| s.0 > 8).unwrap_or(n); let mut b = vec![]; uleb(&mut b, 0); secs.insert(pos, (8, b)); name = "sec:start-section"; expect = Some(false); }
        7 => { let i = r.below(n as u64 + 1) as usize; let mut b = vec![]; uleb(&mut b, 4); b.extend(b"name"); b.extend(r.bytes(5)); secs.insert(i, (0, b)); name = "sec:custom-valid"; }
        8 => { let i = r.below(n as u64 + 1) as usize; let mut b = vec![]; uleb(&mut b, 9); b.extend(b"nam"); secs.insert(i, (0, b)); name = "sec:custom-bad-name-length"; expect = Some(false); }
        9 => { let i = r.below(n as u64 + 1) as usize; secs.insert(i, (0, vec![2, 0xc3, 0x28])); name = "sec:custom-invalid-utf8"; expect = Some(false); }
        10 => { if let Some(s) = secs.iter_mut().find(|s| s.0 == 5) { s.1 = vec![2, 0, 1, 0, 1]; name = "sec:two-memories"; expect = Some(false); } }
        11 => { let i = r.below(n as u64 + 1) as usize; secs.insert(i, (*r.pick(&[12u8, 13, 0x7f, 0xff]), vec![0])); name = "sec:unknown-id"; expect = Some(false); }
        _ => { if let Some(s) = secs.iter_mut().find(|s| s.0 == 4) { s.1 = vec![2, 0x70, 0, 1, 0x70, 0, 1]; name = "sec:two-tables"; expect = Some(false); } }
    }
    for (i, (id, body)) in secs.iter().enumerate() {
        out.push(*id);
        let mut l = body.len() as i64;
        if let Some((j, d)) = bad_size { if i == j { l = if d.abs() > 1000 { d } else { (l + d).max(0) }; } }
        uleb(&mut out, l as u64);
        out.extend(body);
    }
    (name, out, expect)
}
