//! C16 harness: contract-side binary encodings (decode arbitrary bytes: accept/reject, consumed,
//! re-encoding, allocation), textual forms (print, parse, parse(print)), checked arithmetic.
//! One JSON object per line; every implementation call under `guarded`.
use concordium_contracts_common::{schema::SizeLength, *};
use hlib::{guarded, hex, quiet_panics, Rng};
use serde_json::{json, Value};
use std::alloc::{GlobalAlloc, Layout, System};
use std::collections::{BTreeMap, BTreeSet};
use std::str::FromStr;
use std::sync::atomic::{AtomicBool, AtomicUsize, Ordering};

// ------------------------------------------------------------------ counting allocator
// Records the largest single request and the total requested while enabled.  Requests above
// HUGE are recorded and then served from a block of HUGE bytes (the decoders under test never
// write more elements than the input has bytes, and inputs are far smaller than HUGE), so an
// unbounded `with_capacity(len)` becomes a measured value instead of an abort.
struct Counting;
static ON: AtomicBool = AtomicBool::new(false);
static MAXREQ: AtomicUsize = AtomicUsize::new(0);
static TOTAL: AtomicUsize = AtomicUsize::new(0);
const HUGE: usize = 1 << 26;
static CLAMPED: [AtomicUsize; 8] = [
    AtomicUsize::new(0), AtomicUsize::new(0), AtomicUsize::new(0), AtomicUsize::new(0),
    AtomicUsize::new(0), AtomicUsize::new(0), AtomicUsize::new(0), AtomicUsize::new(0)];
unsafe impl GlobalAlloc for Counting {
    unsafe fn alloc(&self, l: Layout) -> *mut u8 {
        if ON.load(Ordering::Relaxed) {
            MAXREQ.fetch_max(l.size(), Ordering::Relaxed);
            TOTAL.fetch_add(l.size(), Ordering::Relaxed);
            if l.size() > HUGE {
                let p = System.alloc(Layout::from_size_align_unchecked(HUGE, 64));
                for c in CLAMPED.iter() {
                    if c.compare_exchange(0, p as usize, Ordering::Relaxed, Ordering::Relaxed).is_ok() { break; }
                }
                return p;
            }
        }
        System.alloc(l)
    }
    unsafe fn dealloc(&self, p: *mut u8, l: Layout) {
        if l.size() > HUGE {
            for c in CLAMPED.iter() {
                if c.compare_exchange(p as usize, 0, Ordering::Relaxed, Ordering::Relaxed).is_ok() {
                    System.dealloc(p, Layout::from_size_align_unchecked(HUGE, 64));
                    return;
                }
            }
        }
        System.dealloc(p, l)
    }
    unsafe fn realloc(&self, p: *mut u8, l: Layout, new_size: usize) -> *mut u8 {
        if ON.load(Ordering::Relaxed) {
            MAXREQ.fetch_max(new_size, Ordering::Relaxed);
            TOTAL.fetch_add(new_size.saturating_sub(l.size()), Ordering::Relaxed);
        }
        if l.size() > HUGE || new_size > HUGE {
            // route through alloc/dealloc so that clamped blocks are handled
            let nl = Layout::from_size_align_unchecked(new_size, l.align());
            let np = self.alloc(nl);
            if !np.is_null() {
                std::ptr::copy_nonoverlapping(p, np, l.size().min(new_size).min(HUGE));
                self.dealloc(p, l);
            }
            return np;
        }
        System.realloc(p, l, new_size)
    }
}
#[global_allocator]
static A: Counting = Counting;

fn measured<T>(f: impl FnOnce() -> T) -> (T, usize, usize) {
    MAXREQ.store(0, Ordering::Relaxed);
    TOTAL.store(0, Ordering::Relaxed);
    ON.store(true, Ordering::Relaxed);
    let r = f();
    ON.store(false, Ordering::Relaxed);
    (r, MAXREQ.load(Ordering::Relaxed), TOTAL.load(Ordering::Relaxed))
}

// ------------------------------------------------------------------ wrappers for deserial_ctx
macro_rules! ctx_wrapper {
    ($name:ident, $inner:ty, $sl:expr, $ord:expr) => {
        #[derive(PartialEq, Debug)]
        struct $name($inner);
        impl Serial for $name {
            fn serial<W: Write>(&self, out: &mut W) -> Result<(), W::Err> { self.0.serial_ctx($sl, out) }
        }
        impl Deserial for $name {
            fn deserial<R: Read>(source: &mut R) -> ParseResult<Self> {
                Ok($name(<$inner as DeserialCtx>::deserial_ctx($sl, $ord, source)?))
            }
        }
        impl Gen for $name { fn gen(r: &mut Rng) -> Self { $name(<$inner as Gen>::gen(r)) } }
    };
}
ctx_wrapper!(OrdSet32U32, BTreeSet<u32>, SizeLength::U32, true);
ctx_wrapper!(OrdSet8U8, BTreeSet<u8>, SizeLength::U8, true);
ctx_wrapper!(OrdMap8U8U16, BTreeMap<u8, u16>, SizeLength::U8, true);
ctx_wrapper!(OrdMap16U64Bool, BTreeMap<u64, bool>, SizeLength::U16, true);
ctx_wrapper!(UnordSet16U16, BTreeSet<u16>, SizeLength::U16, false);
ctx_wrapper!(UnordMap8U8U8, BTreeMap<u8, u8>, SizeLength::U8, false);
ctx_wrapper!(Vec8U16, Vec<u16>, SizeLength::U8, false);
ctx_wrapper!(Vec64U8, Vec<u8>, SizeLength::U64, false);
ctx_wrapper!(Str16, String, SizeLength::U16, false);

/// direct use of the `*_no_length` functions with an externally given length (one byte)
#[derive(PartialEq, Debug)]
struct NoLenSetU16(BTreeSet<u16>);
impl Serial for NoLenSetU16 {
    fn serial<W: Write>(&self, out: &mut W) -> Result<(), W::Err> {
        (self.0.len() as u8).serial(out)?;
        serial_set_no_length(&self.0, out)
    }
}
impl Deserial for NoLenSetU16 {
    fn deserial<R: Read>(source: &mut R) -> ParseResult<Self> {
        let len: u8 = source.get()?;
        Ok(NoLenSetU16(deserial_set_no_length(source, len as usize)?))
    }
}
impl Gen for NoLenSetU16 { fn gen(r: &mut Rng) -> Self { let n = r.below(6); NoLenSetU16((0..n).map(|_| r.u32_edge() as u16).collect()) } }
#[derive(PartialEq, Debug)]
struct NoLenMapU32U8(BTreeMap<u32, u8>);
impl Serial for NoLenMapU32U8 {
    fn serial<W: Write>(&self, out: &mut W) -> Result<(), W::Err> {
        (self.0.len() as u8).serial(out)?;
        serial_map_no_length(&self.0, out)
    }
}
impl Deserial for NoLenMapU32U8 {
    fn deserial<R: Read>(source: &mut R) -> ParseResult<Self> {
        let len: u8 = source.get()?;
        Ok(NoLenMapU32U8(deserial_map_no_length(source, len as usize)?))
    }
}
impl Gen for NoLenMapU32U8 { fn gen(r: &mut Rng) -> Self { let n = r.below(6); NoLenMapU32U8((0..n).map(|_| (r.u32_edge(), r.next() as u8)).collect()) } }

/// HashSet / HashMap: compared through their sorted contents
#[derive(PartialEq, Debug)]
struct HSetU16(HashSet<u16>);
impl Serial for HSetU16 {
    fn serial<W: Write>(&self, out: &mut W) -> Result<(), W::Err> {
        self.0.iter().copied().collect::<BTreeSet<u16>>().serial(out)
    }
}
impl Deserial for HSetU16 { fn deserial<R: Read>(s: &mut R) -> ParseResult<Self> { Ok(HSetU16(s.get()?)) } }
impl Gen for HSetU16 { fn gen(r: &mut Rng) -> Self { let n = r.below(6); HSetU16((0..n).map(|_| r.u32_edge() as u16).collect()) } }
#[derive(PartialEq, Debug)]
struct HMapU8U8(HashMap<u8, u8>);
impl Serial for HMapU8U8 {
    fn serial<W: Write>(&self, out: &mut W) -> Result<(), W::Err> {
        self.0.iter().map(|(a, b)| (*a, *b)).collect::<BTreeMap<u8, u8>>().serial(out)
    }
}
impl Deserial for HMapU8U8 { fn deserial<R: Read>(s: &mut R) -> ParseResult<Self> { Ok(HMapU8U8(s.get()?)) } }
impl Gen for HMapU8U8 { fn gen(r: &mut Rng) -> Self { let n = r.below(6); HMapU8U8((0..n).map(|_| (r.next() as u8, r.next() as u8)).collect()) } }

/// OwnedPolicy has no PartialEq
struct Pol(OwnedPolicy);
impl PartialEq for Pol {
    fn eq(&self, o: &Self) -> bool {
        self.0.identity_provider == o.0.identity_provider && self.0.created_at == o.0.created_at
            && self.0.valid_to == o.0.valid_to && self.0.items == o.0.items
    }
}
impl Serial for Pol { fn serial<W: Write>(&self, out: &mut W) -> Result<(), W::Err> { self.0.serial(out) } }
impl Deserial for Pol { fn deserial<R: Read>(s: &mut R) -> ParseResult<Self> { Ok(Pol(s.get()?)) } }
impl Gen for Pol {
    fn gen(r: &mut Rng) -> Self {
        let n = r.below(5);
        Pol(OwnedPolicy {
            identity_provider: r.u32_edge(),
            created_at: Timestamp::from_timestamp_millis(r.u64_edge()),
            valid_to: Timestamp::from_timestamp_millis(r.u64_edge()),
            items: (0..n).map(|_| { let l = *r.pick(&[0usize, 1, 2, 30, 31]); (AttributeTag(r.next() as u8), AttributeValue::new(&r.bytes(l)).unwrap()) }).collect(),
        })
    }
}
struct ChainMd(ChainMetadata);
impl PartialEq for ChainMd { fn eq(&self, o: &Self) -> bool { self.0.slot_time == o.0.slot_time } }
impl Serial for ChainMd { fn serial<W: Write>(&self, out: &mut W) -> Result<(), W::Err> { self.0.serial(out) } }
impl Deserial for ChainMd { fn deserial<R: Read>(s: &mut R) -> ParseResult<Self> { Ok(ChainMd(s.get()?)) } }
impl Gen for ChainMd { fn gen(r: &mut Rng) -> Self { ChainMd(ChainMetadata { slot_time: Timestamp::from_timestamp_millis(r.u64_edge()) }) } }

// ------------------------------------------------------------------ value generators
trait Gen { fn gen(r: &mut Rng) -> Self; }
impl Gen for u8 { fn gen(r: &mut Rng) -> Self { let x = r.next() as u8; *r.pick(&[0u8, 1, 2, 127, 128, 254, 255, x]) } }
impl Gen for u16 { fn gen(r: &mut Rng) -> Self { let x = r.next() as u16; let y = r.next() as u16; *r.pick(&[0u16, 1, 255, 256, 0x7fff, 0x8000, 0xfffe, 0xffff, x, y]) } }
impl Gen for u32 { fn gen(r: &mut Rng) -> Self { r.u32_edge() } }
impl Gen for u64 { fn gen(r: &mut Rng) -> Self { r.u64_edge() } }
impl Gen for u128 {
    fn gen(r: &mut Rng) -> Self {
        match r.below(6) {
            0 => *r.pick(&[0u128, 1, u128::MAX, u128::MAX - 1, 1 << 127, (1 << 127) - 1, 1 << 64, (1 << 64) - 1, 0x0102030405060708090a0b0c0d0e0f10]),
            1 => 1u128 << r.below(128),
            2 => (1u128 << r.below(128)).wrapping_sub(1),
            _ => ((r.next() as u128) << 64) | r.next() as u128,
        }
    }
}
impl Gen for i8 { fn gen(r: &mut Rng) -> Self { u8::gen(r) as i8 } }
impl Gen for i16 { fn gen(r: &mut Rng) -> Self { u16::gen(r) as i16 } }
impl Gen for i32 { fn gen(r: &mut Rng) -> Self { u32::gen(r) as i32 } }
impl Gen for i64 { fn gen(r: &mut Rng) -> Self { u64::gen(r) as i64 } }
impl Gen for i128 { fn gen(r: &mut Rng) -> Self { u128::gen(r) as i128 } }
impl Gen for bool { fn gen(r: &mut Rng) -> Self { r.chance(1, 2) } }
impl<A: Gen, B: Gen> Gen for (A, B) { fn gen(r: &mut Rng) -> Self { (A::gen(r), B::gen(r)) } }
impl<A: Gen, B: Gen, C: Gen> Gen for (A, B, C) { fn gen(r: &mut Rng) -> Self { (A::gen(r), B::gen(r), C::gen(r)) } }
impl<A: Gen> Gen for Option<A> { fn gen(r: &mut Rng) -> Self { if r.chance(1, 3) { None } else { Some(A::gen(r)) } } }
impl<A: Gen> Gen for Vec<A> { fn gen(r: &mut Rng) -> Self { let n = *r.pick(&[0u64, 1, 2, 3, 5, 9]); (0..n).map(|_| A::gen(r)).collect() } }
impl<A: Gen + Ord> Gen for BTreeSet<A> { fn gen(r: &mut Rng) -> Self { let n = r.below(7); (0..n).map(|_| A::gen(r)).collect() } }
impl<A: Gen + Ord, B: Gen> Gen for BTreeMap<A, B> { fn gen(r: &mut Rng) -> Self { let n = r.below(7); (0..n).map(|_| (A::gen(r), B::gen(r))).collect() } }
impl Gen for String {
    fn gen(r: &mut Rng) -> Self {
        let n = r.below(8);
        (0..n).map(|_| *r.pick(&['a', 'Z', '0', ' ', '\u{7f}', '\u{80}', '\u{e9}', '\u{7ff}', '\u{800}', '\u{d7ff}', '\u{e000}', '\u{ffff}', '\u{10000}', '\u{10ffff}', '\u{20ac}'])).collect()
    }
}
impl Gen for [u8; 32] { fn gen(r: &mut Rng) -> Self { let mut a = [0u8; 32]; for x in a.iter_mut() { *x = r.next() as u8; } if r.chance(1, 8) { a = [0u8; 32]; } if r.chance(1, 8) { a = [255u8; 32]; } a } }
impl Gen for Amount { fn gen(r: &mut Rng) -> Self { Amount::from_micro_ccd(r.u64_edge()) } }
impl Gen for Timestamp { fn gen(r: &mut Rng) -> Self { Timestamp::from_timestamp_millis(r.u64_edge()) } }
impl Gen for Duration { fn gen(r: &mut Rng) -> Self { Duration::from_millis(r.u64_edge()) } }
impl Gen for AccountAddress { fn gen(r: &mut Rng) -> Self { AccountAddress(<[u8; 32]>::gen(r)) } }
impl Gen for ContractAddress { fn gen(r: &mut Rng) -> Self { ContractAddress::new(r.u64_edge(), r.u64_edge()) } }
impl Gen for Address { fn gen(r: &mut Rng) -> Self { if r.chance(1, 2) { Address::Account(AccountAddress::gen(r)) } else { Address::Contract(ContractAddress::gen(r)) } } }
impl Gen for hashes::Hash { fn gen(r: &mut Rng) -> Self { hashes::Hash::new(<[u8; 32]>::gen(r)) } }
impl Gen for AccountBalance {
    fn gen(r: &mut Rng) -> Self {
        let t = r.u64_edge();
        let s = match r.below(3) { 0 => t, 1 => 0, _ => r.below(t.wrapping_add(1).max(1)) };
        let l = match r.below(3) { 0 => t, 1 => 0, _ => r.below(t.wrapping_add(1).max(1)) };
        AccountBalance::new(Amount::from_micro_ccd(t), Amount::from_micro_ccd(s.min(t)), Amount::from_micro_ccd(l.min(t))).unwrap()
    }
}
impl Gen for ExchangeRate { fn gen(r: &mut Rng) -> Self { ExchangeRate::new_unchecked(r.u64_edge().max(1), r.u64_edge().max(1)) } }
impl Gen for ExchangeRates { fn gen(r: &mut Rng) -> Self { ExchangeRates { euro_per_energy: ExchangeRate::gen(r), micro_ccd_per_euro: ExchangeRate::gen(r) } } }
impl Gen for AccountThreshold { fn gen(r: &mut Rng) -> Self { AccountThreshold::try_from(u8::gen(r).max(1)).unwrap() } }
fn name_chars(r: &mut Rng, n: usize, dot: bool) -> String {
    (0..n).map(|_| loop { let c = (33 + r.below(94)) as u8 as char; if dot || c != '.' { break c; } }).collect()
}
impl Gen for OwnedContractName {
    fn gen(r: &mut Rng) -> Self { let n = *r.pick(&[0usize, 1, 7, 94, 95]); OwnedContractName::new(format!("init_{}", name_chars(r, n, false))).unwrap() }
}
impl Gen for OwnedReceiveName {
    fn gen(r: &mut Rng) -> Self {
        let a = *r.pick(&[0usize, 1, 5, 49]); let b = *r.pick(&[0usize, 1, 5, 50]);
        OwnedReceiveName::new(format!("{}.{}", name_chars(r, a, true), name_chars(r, b, true))).unwrap()
    }
}
impl Gen for OwnedEntrypointName { fn gen(r: &mut Rng) -> Self { let n = *r.pick(&[0usize, 1, 8, 98, 99]); OwnedEntrypointName::new(name_chars(r, n, true)).unwrap() } }
impl Gen for OwnedParameter { fn gen(r: &mut Rng) -> Self { let n = *r.pick(&[0usize, 1, 3, 17, 300]); OwnedParameter::new_unchecked(r.bytes(n)) } }
impl Gen for AttributeTag { fn gen(r: &mut Rng) -> Self { AttributeTag(u8::gen(r)) } }
impl Gen for AttributeValue { fn gen(r: &mut Rng) -> Self { let l = *r.pick(&[0usize, 1, 2, 16, 30, 31]); AttributeValue::new(&r.bytes(l)).unwrap() } }

// ------------------------------------------------------------------ byte side
fn probe<T: Serial + Deserial>(bs: &[u8]) -> Value {
    let (res, maxreq, total) = measured(|| guarded(|| {
        let mut cur = Cursor::new(bs);
        let v: ParseResult<T> = cur.get();
        v.map(|v| (cur.offset, to_bytes(&v)))
    }));
    match res {
        Err(_) => json!({"r": "PANIC", "amax": maxreq, "atot": total}),
        Ok(Err(_)) => json!({"r": null, "amax": maxreq, "atot": total}),
        Ok(Ok((n, re))) => json!({"r": {"n": n, "re": hex(&re)}, "amax": maxreq, "atot": total}),
    }
}

/// mutants of a valid encoding: the malformed stream
fn mutants(r: &mut Rng, enc: &[u8], out: &mut Vec<(&'static str, Vec<u8>)>) {
    // truncations
    if !enc.is_empty() {
        out.push(("trunc", enc[..r.below(enc.len() as u64) as usize].to_vec()));
        out.push(("trunc1", enc[..enc.len() - 1].to_vec()));
    }
    // trailing bytes (decoders must leave them unread)
    let tl = 1 + r.below(4) as usize; let mut t = enc.to_vec(); t.extend_from_slice(&r.bytes(tl)); out.push(("trailing", t));
    if !enc.is_empty() {
        // bit flips
        for _ in 0..2 { let mut m = enc.to_vec(); let p = r.below(m.len() as u64) as usize; m[p] ^= 1 << r.below(8); out.push(("bitflip", m)); }
        // byte set to an extreme value (tags, lengths)
        let mut m = enc.to_vec(); let p = r.below(m.len().min(6) as u64) as usize; m[p] = *r.pick(&[0u8, 1, 2, 0x7f, 0x80, 0xff]); out.push(("setbyte", m));
        // inflated length: leading 1, 2, 4 or 8 bytes set to ff
        let k = *r.pick(&[1usize, 2, 4, 8]); let mut m = enc.to_vec(); for b in m.iter_mut().take(k) { *b = 0xff; } out.push(("inflate", m));
        // moderately inflated length (decoder must run out of input, not over-allocate)
        let mut m = enc.to_vec(); m[0] = m[0].wrapping_add(1 + r.below(3) as u8); out.push(("len+", m));
        // swap two adjacent chunks (produces descending / duplicate keys in collections)
        if enc.len() >= 4 {
            let w = *r.pick(&[1usize, 2, 3, 4, 5, 8]);
            if enc.len() >= 2 * w + 1 {
                let p = r.below((enc.len() - 2 * w) as u64 + 1) as usize;
                let mut m = enc.to_vec();
                for i in 0..w { m.swap(p + i, p + w + i); }
                out.push(("swap", m));
                let mut m = enc.to_vec();
                for i in 0..w { m[p + w + i] = m[p + i]; }
                out.push(("dup", m));
            }
        }
    }
}

fn run_type<T: Serial + Deserial + Gen + PartialEq>(name: &str, r: &mut Rng, n: u64) {
    for _ in 0..n {
        let v = T::gen(r);
        let enc = match guarded(|| to_bytes(&v)) { Ok(e) => e, Err(_) => { println!("{}", json!({"k":"b","t":name,"cls":"valid","in":"","enc_panic":true})); continue; } };
        // direct oracle on the implementation alone
        let back = guarded(|| from_bytes::<T>(&enc));
        let rt = matches!(&back, Ok(Ok(w)) if *w == v);
        let mut o = probe::<T>(&enc);
        o["k"] = json!("b"); o["t"] = json!(name); o["cls"] = json!("valid"); o["in"] = json!(hex(&enc)); o["rt"] = json!(rt);
        println!("{}", o);
        let mut ms = Vec::new();
        mutants(r, &enc, &mut ms);
        for (cls, m) in ms {
            let mut o = probe::<T>(&m);
            o["k"] = json!("b"); o["t"] = json!(name); o["cls"] = json!(cls); o["in"] = json!(hex(&m));
            println!("{}", o);
        }
    }
    // purely random short inputs
    for _ in 0..(n / 2).max(2) {
        let len = r.below(24) as usize;
        let m: Vec<u8> = if r.chance(1, 2) { r.bytes(len) } else { (0..len).map(|_| *r.pick(&[0u8, 1, 2, 3, 255])).collect() };
        let mut o = probe::<T>(&m);
        o["k"] = json!("b"); o["t"] = json!(name); o["cls"] = json!("random"); o["in"] = json!(hex(&m));
        println!("{}", o);
    }
}

/// every type of the correspondence: `$m!(name, Type);`
macro_rules! all_types {
    ($m:ident) => {
    $m!("u8", u8); $m!("u16", u16); $m!("u32", u32); $m!("u64", u64); $m!("u128", u128);
    $m!("i8", i8); $m!("i16", i16); $m!("i32", i32); $m!("i64", i64); $m!("i128", i128);
    $m!("bool", bool);
    $m!("pair_u8_u16", (u8, u16)); $m!("triple_u64_bool_u32", (u64, bool, u32));
    $m!("opt_u32", Option<u32>); $m!("opt_opt_u8", Option<Option<u8>>); $m!("opt_vec_u16", Option<Vec<u16>>);
    $m!("vec_u8", Vec<u8>); $m!("vec_u16", Vec<u16>); $m!("vec_bool", Vec<bool>); $m!("vec_u128", Vec<u128>);
    $m!("vec_vec_u8", Vec<Vec<u8>>); $m!("vec_pair_u8_u32", Vec<(u8, u32)>); $m!("vec_opt_u8", Vec<Option<u8>>);
    $m!("string", String); $m!("vec_string", Vec<String>);
    $m!("set_u8", BTreeSet<u8>); $m!("set_u32", BTreeSet<u32>); $m!("map_u8_u16", BTreeMap<u8, u16>); $m!("map_u64_vec_u8", BTreeMap<u64, Vec<u8>>);
    $m!("hashset_u16", HSetU16); $m!("hashmap_u8_u8", HMapU8U8);
    $m!("ordset32_u32", OrdSet32U32); $m!("ordset8_u8", OrdSet8U8); $m!("ordmap8_u8_u16", OrdMap8U8U16); $m!("ordmap16_u64_bool", OrdMap16U64Bool);
    $m!("unordset16_u16", UnordSet16U16); $m!("unordmap8_u8_u8", UnordMap8U8U8);
    $m!("nolenset_u16", NoLenSetU16); $m!("nolenmap_u32_u8", NoLenMapU32U8);
    $m!("vec8_u16", Vec8U16); $m!("vec64_u8", Vec64U8); $m!("str16", Str16);
    $m!("bytes32", [u8; 32]);
    $m!("amount", Amount); $m!("timestamp", Timestamp); $m!("duration", Duration);
    $m!("account_address", AccountAddress); $m!("contract_address", ContractAddress); $m!("address", Address);
    $m!("hash", hashes::Hash);
    $m!("account_balance", AccountBalance); $m!("exchange_rate", ExchangeRate); $m!("exchange_rates", ExchangeRates);
    $m!("threshold", AccountThreshold);
    $m!("contract_name", OwnedContractName); $m!("receive_name", OwnedReceiveName); $m!("entrypoint_name", OwnedEntrypointName);
    $m!("parameter", OwnedParameter);
    $m!("attribute_tag", AttributeTag); $m!("attribute_value", AttributeValue); $m!("policy", Pol);
    $m!("chain_metadata", ChainMd);
    };
}

fn hand_bytes<T: Serial + Deserial>(name: &str, cls: &'static str, m: &[u8]) {
    let mut o = probe::<T>(m);
    o["k"] = json!("b"); o["t"] = json!(name); o["cls"] = json!(cls); o["in"] = json!(hex(m));
    println!("{}", o);
}

fn bytes_mode(seed: u64, n: u64) {
    let mut r = Rng::new(seed);
    macro_rules! ty { ($name:expr, $t:ty) => { run_type::<$t>($name, &mut r, n); }; }
    all_types!(ty);
    // hand-written hostile inputs
    hand_bytes::<Vec<u8>>("vec_u8", "hostile", &[0xff, 0xff, 0xff, 0xff]);
    hand_bytes::<Vec<u8>>("vec_u8", "hostile", &[0xff, 0xff, 0xff, 0x7f, 1, 2, 3]);
    hand_bytes::<Vec<u128>>("vec_u128", "hostile", &[0xff, 0xff, 0xff, 0xff, 1]);
    hand_bytes::<Vec<Vec<u8>>>("vec_vec_u8", "hostile", &[0xff, 0xff, 0xff, 0xff, 0xff, 0xff, 0xff, 0xff]);
    hand_bytes::<Vec<Vec<u8>>>("vec_vec_u8", "hostile", &[2, 0, 0, 0, 0xff, 0xff, 0xff, 0xff, 0xff, 0xff, 0xff, 0xff]);
    hand_bytes::<String>("string", "hostile", &[0xff, 0xff, 0xff, 0xff, b'a']);
    hand_bytes::<Vec64U8>("vec64_u8", "hostile", &[0xff, 0xff, 0xff, 0xff, 0xff, 0xff, 0xff, 0x7f]);
    hand_bytes::<Vec64U8>("vec64_u8", "hostile", &[0, 0, 0, 0, 1, 0, 0, 0, 7]);
    hand_bytes::<BTreeSet<u32>>("set_u32", "hostile", &[0xff, 0xff, 0xff, 0xff, 1, 0, 0, 0]);
    hand_bytes::<BTreeMap<u8, u16>>("map_u8_u16", "hostile", &[0xff, 0xff, 0xff, 0xff, 1, 0, 0]);
    hand_bytes::<OrdSet32U32>("ordset32_u32", "hostile", &[0xff, 0xff, 0xff, 0xff]);
    hand_bytes::<Pol>("policy", "hostile", &[1, 0, 0, 0, 2, 0, 0, 0, 0, 0, 0, 0, 3, 0, 0, 0, 0, 0, 0, 0, 0xff, 0xff]);
    hand_bytes::<Pol>("policy", "hostile", &[1, 0, 0, 0, 2, 0, 0, 0, 0, 0, 0, 0, 3, 0, 0, 0, 0, 0, 0, 0, 0xff, 0xff, 7, 32]);
    hand_bytes::<OwnedParameter>("parameter", "hostile", &[0xff, 0xff, 1, 2, 3]);
    hand_bytes::<OwnedContractName>("contract_name", "hostile", &[0xff, 0xff, b'i', b'n', b'i', b't', b'_']);
    // order: strictly ascending / equal / descending keys
    hand_bytes::<OrdSet8U8>("ordset8_u8", "order", &[3, 1, 2, 3]);
    hand_bytes::<OrdSet8U8>("ordset8_u8", "order", &[3, 1, 2, 2]);
    hand_bytes::<OrdSet8U8>("ordset8_u8", "order", &[3, 1, 3, 2]);
    hand_bytes::<OrdSet8U8>("ordset8_u8", "order", &[2, 2, 1]);
    hand_bytes::<OrdMap8U8U16>("ordmap8_u8_u16", "order", &[2, 1, 0, 0, 2, 0, 0]);
    hand_bytes::<OrdMap8U8U16>("ordmap8_u8_u16", "order", &[2, 1, 0, 0, 1, 1, 0]);
    hand_bytes::<OrdMap8U8U16>("ordmap8_u8_u16", "order", &[2, 2, 0, 0, 1, 0, 0]);
    hand_bytes::<BTreeSet<u8>>("set_u8", "order", &[3, 0, 0, 0, 3, 1, 2]);
    hand_bytes::<BTreeSet<u8>>("set_u8", "order", &[3, 0, 0, 0, 3, 1, 3]);
    hand_bytes::<NoLenSetU16>("nolenset_u16", "order", &[2, 0, 1, 1, 0]);   // 256 then 1: descending
    hand_bytes::<NoLenSetU16>("nolenset_u16", "order", &[2, 1, 0, 0, 1]);   // 1 then 256: ascending
}

// ------------------------------------------------------------------ text side
fn cps(s: &str) -> Vec<u32> { s.chars().map(|c| c as u32).collect() }

fn res_json<T, E>(r: Result<Result<T, E>, String>, f: impl Fn(T) -> Value, e: impl Fn(E) -> String) -> Value {
    match r { Err(_) => json!("PANIC"), Ok(Ok(v)) => json!({"ok": f(v)}), Ok(Err(x)) => json!({"err": e(x)}) }
}
fn amount_parse(s: &str) -> Value {
    res_json(guarded(|| Amount::from_str(s)), |a| json!(a.micro_ccd.to_string()), |e| format!("{:?}", e))
}
fn duration_parse(s: &str) -> Value {
    res_json(guarded(|| Duration::from_str(s)), |d| json!(d.millis().to_string()),
        |e| match e { ParseDurationError::MissingUnit => "MissingUnit".into(), ParseDurationError::FailedParsingNumber => "FailedParsingNumber".into(), ParseDurationError::InvalidUnit(_) => "InvalidUnit".into() })
}
fn caddr_parse(s: &str) -> Value {
    res_json(guarded(|| ContractAddress::from_str(s)), |a| json!([a.index.to_string(), a.subindex.to_string()]),
        |e| match e {
            ContractAddressParseError::MissingStartBracket => "MissingStartBracket".into(),
            ContractAddressParseError::MissingEndBracket => "MissingEndBracket".into(),
            ContractAddressParseError::ParseIndexIntError(_) => "ParseIndex".into(),
            ContractAddressParseError::ParseSubIndexIntError(_) => "ParseSubIndex".into(),
            ContractAddressParseError::NoComma => "NoComma".into() })
}
fn ts_parse(s: &str) -> Value {
    res_json(guarded(|| Timestamp::from_str(s)), |t| json!(t.millis.to_string()),
        |e| match e { ParseTimestampError::ParseError(_) => "ParseError".into(), ParseTimestampError::BeforeUnixEpoch => "BeforeUnixEpoch".into() })
}
fn cname_check(s: &str) -> Value {
    match guarded(|| ContractName::is_valid_contract_name(s)) { Err(_) => json!("PANIC"), Ok(Ok(())) => json!({"ok": true}), Ok(Err(e)) => json!({"err": format!("{:?}", e)}) }
}
fn rname_check(s: &str) -> Value {
    match guarded(|| ReceiveName::is_valid_receive_name(s)) { Err(_) => json!("PANIC"), Ok(Ok(())) => json!({"ok": true}), Ok(Err(e)) => json!({"err": format!("{:?}", e)}) }
}
fn ename_check(s: &str) -> Value {
    match guarded(|| is_valid_entrypoint_name(s)) { Err(_) => json!("PANIC"), Ok(Ok(())) => json!({"ok": true}), Ok(Err(e)) => json!({"err": format!("{:?}", e)}) }
}

fn emit_print(t: &str, v: Value, printed: &str, back: Value, json_rt: Option<bool>) {
    println!("{}", json!({"k":"p","t":t,"v":v,"s":cps(printed),"back":back,"json_rt":json_rt}));
}
fn emit_parse(t: &str, cls: &str, s: &str, r: Value) {
    println!("{}", json!({"k":"s","t":t,"cls":cls,"s":cps(s),"txt":s,"r":r}));
}

/// near-miss mutants of a string
fn str_mutants(r: &mut Rng, s: &str, alphabet: &[char]) -> Vec<String> {
    let cs: Vec<char> = s.chars().collect();
    let mut out = Vec::new();
    if !cs.is_empty() {
        let p = r.below(cs.len() as u64) as usize;
        let mut m = cs.clone(); m.remove(p); out.push(m.iter().collect());
        let mut m = cs.clone(); m[p] = *r.pick(alphabet); out.push(m.iter().collect());
        let mut m = cs.clone(); m.insert(p, *r.pick(alphabet)); out.push(m.iter().collect());
        let mut m = cs.clone(); m.insert(p, cs[p]); out.push(m.iter().collect());
    }
    let mut m = cs.clone(); m.push(*r.pick(alphabet)); out.push(m.iter().collect());
    let mut m = cs.clone(); m.insert(0, *r.pick(alphabet)); out.push(m.iter().collect());
    out
}

/// owned / borrowed constructors of the three name kinds agree with each other and with the validator
fn constructor_consistency(c: &str) {
    let fail = |what: &str| println!("{}", json!({"k":"oracle_fail","t":format!("constructors:{}", what),"s":c}));
    let r = guarded(|| {
        // contract names
        let v = ContractName::is_valid_contract_name(c).is_ok();
        let b = ContractName::new(c);
        let o = OwnedContractName::new(c.to_string());
        let t = OwnedContractName::try_from(c.to_string());
        if b.is_ok() != v || o.is_ok() != v || t.is_ok() != v { fail("contract:accept"); }
        if let (Ok(b), Ok(o), Ok(t)) = (b, o, t) {
            if o.as_contract_name() != b || b.to_owned() != o || t != o || b.get_chain_name() != c || o.to_string() != c
                || b.to_string() != c || b.contract_name() != &c[5..] || ContractName::new_unchecked(c) != b
                || <&str>::from(b) != c || String::from(o.clone()) != c || OwnedContractName::new_unchecked(c.to_string()) != o {
                fail("contract:views");
            }
        }
        // receive names
        let v = ReceiveName::is_valid_receive_name(c).is_ok();
        let b = ReceiveName::new(c);
        let o = OwnedReceiveName::new(c.to_string());
        let t = OwnedReceiveName::try_from(c.to_string());
        let f = OwnedReceiveName::from_str(c);
        if b.is_ok() != v || o.is_ok() != v || t.is_ok() != v || f.is_ok() != v { fail("receive:accept"); }
        if let (Ok(b), Ok(o), Ok(t), Ok(f)) = (b, o, t, f) {
            if o.as_receive_name() != b || b.to_owned() != o || t != o || f != o || b.get_chain_name() != c || o.to_string() != c
                || b.to_string() != c || ReceiveName::new_unchecked(c) != b || OwnedReceiveName::new_unchecked(c.to_string()) != o {
                fail("receive:views");
            }
            println!("{}", json!({"k":"parts","s":cps(c),"c":cps(b.contract_name()),"e":cps(&b.entrypoint_name().to_string())}));
        }
        // entrypoint names
        let v = is_valid_entrypoint_name(c).is_ok();
        let b = EntrypointName::new(c);
        let o = OwnedEntrypointName::new(c.to_string());
        let t = OwnedEntrypointName::try_from(c.to_string());
        if b.is_ok() != v || o.is_ok() != v || t.is_ok() != v { fail("entrypoint:accept"); }
        if let (Ok(b), Ok(o), Ok(t)) = (b, o, t) {
            if o.as_entrypoint_name() != b || b.to_owned() != o || t != o || OwnedEntrypointName::from(b) != o || o.to_string() != c
                || b.to_string() != c || <&str>::from(b) != c || String::from(o.clone()) != c || b.size() as usize != c.len()
                || EntrypointName::new_unchecked(c) != b || OwnedEntrypointName::new_unchecked(c.to_string()) != o {
                fail("entrypoint:views");
            }
        }
    });
    if r.is_err() { fail("panic"); }
}

/// hexadecimal forms: printed by the implementation, parsed back, candidates
fn hex_forms(r: &mut Rng, n: u64) {
    fn show<T: AsRef<[u8]>>(x: Result<Result<T, ()>, String>) -> Value {
        match x { Err(_) => json!("PANIC"), Ok(Ok(v)) => json!(hex(v.as_ref())), Ok(Err(_)) => json!(null) }
    }
    let parse = |t: &str, s: &str| -> Value {
        match t {
            "hash" => show(guarded(|| hashes::Hash::from_str(s).map(|h| h.as_ref().to_vec()).map_err(|_| ()))),
            "pk_ed25519" => show(guarded(|| PublicKeyEd25519::from_str(s).map(|k| k.0.to_vec()).map_err(|_| ()))),
            "pk_ecdsa" => show(guarded(|| PublicKeyEcdsaSecp256k1::from_str(s).map(|k| k.0.to_vec()).map_err(|_| ()))),
            "sig_ed25519" => show(guarded(|| SignatureEd25519::from_str(s).map(|k| k.0.to_vec()).map_err(|_| ()))),
            _ => show(guarded(|| SignatureEcdsaSecp256k1::from_str(s).map(|k| k.0.to_vec()).map_err(|_| ()))),
        }
    };
    let kinds: [(&str, usize); 5] = [("hash", 32), ("pk_ed25519", 32), ("pk_ecdsa", 33), ("sig_ed25519", 64), ("sig_ecdsa", 64)];
    let hch = ['0', '9', 'a', 'f', 'A', 'F', 'g', 'G', '+', '-', ' ', 'x', '\u{e9}', '\u{ff10}'];
    for _ in 0..n {
        for (t, len) in kinds.iter() {
            let bytes: Vec<u8> = match r.below(4) { 0 => vec![0u8; *len], 1 => vec![0xffu8; *len], _ => r.bytes(*len) };
            let s = match *t {
                "hash" => { let mut a = [0u8; 32]; a.copy_from_slice(&bytes); hashes::Hash::new(a).to_string() }
                "pk_ed25519" => { let mut a = [0u8; 32]; a.copy_from_slice(&bytes); PublicKeyEd25519(a).to_string() }
                "pk_ecdsa" => { let mut a = [0u8; 33]; a.copy_from_slice(&bytes); PublicKeyEcdsaSecp256k1(a).to_string() }
                "sig_ed25519" => { let mut a = [0u8; 64]; a.copy_from_slice(&bytes); SignatureEd25519(a).to_string() }
                _ => { let mut a = [0u8; 64]; a.copy_from_slice(&bytes); SignatureEcdsaSecp256k1(a).to_string() }
            };
            println!("{}", json!({"k":"hp","t":t,"bytes":hex(&bytes),"s":cps(&s),"back":parse(t, &s)}));
            let mut cands: Vec<(String, String)> = vec![
                ("upper".into(), s.to_uppercase()),
                ("mixed".into(), s.chars().enumerate().map(|(i, ch)| if i % 3 == 0 { ch.to_ascii_uppercase() } else { ch }).collect()),
                ("short".into(), s[..s.len() - 1].to_string()), ("short2".into(), s[..s.len() - 2].to_string()),
                ("long".into(), format!("{}0", s)), ("long2".into(), format!("{}00", s)), ("empty".into(), String::new()),
                ("plus".into(), format!("+{}", &s[1..])), ("plus2".into(), format!("{}+{}", &s[..2], &s[3..])), ("plusplus".into(), format!("++{}", &s[2..])),
                ("minus".into(), format!("-{}", &s[1..])), ("0x".into(), format!("0x{}", &s[2..])), ("space".into(), format!(" {}", &s[1..])),
            ];
            for m in str_mutants(r, &s, &hch) { cands.push(("mutant".into(), m)); }
            // same byte length, but a two-byte character at an odd byte offset (outside the model: see design/C16.md)
            cands.push(("nonascii-odd".into(), format!("0\u{e9}{}", &s[3..])));
            cands.push(("nonascii-even".into(), format!("\u{e9}{}", &s[2..])));
            for (cls, m) in cands {
                println!("{}", json!({"k":"hs","t":t,"cls":cls,"s":cps(&m),"txt":m,"r":parse(t, &m)}));
            }
        }
    }
    // serde (JSON string) forms of the hash and of the key / signature types that have one
    for _ in 0..n {
        let h = hashes::Hash::gen(r);
        let ok = guarded(|| serde_json::from_str::<hashes::Hash>(&serde_json::to_string(&h).unwrap()).ok() == Some(h)).unwrap_or(false);
        let mut a = [0u8; 32]; a.copy_from_slice(&r.bytes(32));
        let pk = PublicKeyEd25519(a);
        let ok2 = guarded(|| serde_json::from_str::<PublicKeyEd25519>(&serde_json::to_string(&pk).unwrap()).ok() == Some(pk)).unwrap_or(false);
        if !ok || !ok2 { println!("{}", json!({"k":"oracle_fail","t":"hex_json_roundtrip","s":h.to_string()})); }
    }
}

const WS: [char; 8] = [' ', '\t', '\n', '\u{a0}', '\u{3000}', '\u{2003}', '\r', '\u{85}'];

fn text_mode(seed: u64, n: u64) {
    let mut r = Rng::new(seed);
    // ---------------- Amount
    let amount_vals: Vec<u64> = vec![0, 1, 9, 10, 999_999, 1_000_000, 1_000_001, 1_999_999, 10_000_000, 100_000, 123_400, 1_000_010,
        u64::MAX, u64::MAX - 1, 18_446_744_073_709_000_000, 18_446_744_073_708_999_999, 18_446_744_073_709_551_610, 1u64 << 63, (1u64 << 63) - 1];
    let mut avs = amount_vals.clone();
    for _ in 0..n { avs.push(r.u64_edge()); avs.push(r.below(3_000_000)); avs.push(r.below(1000) * 1_000_000 + *r.pick(&[0u64, 1, 10, 100, 1000, 10_000, 100_000, 500_000, 999_999, 90_000, 9])); }
    for m in avs {
        let a = Amount::from_micro_ccd(m);
        let s = a.to_string();
        emit_print("amount", json!(m.to_string()), &s, amount_parse(&s), None);
    }
    let amount_hand = ["", "0", "0.", ".0", "0.0", "00", "00.1", "01", "01.5", "1", "13", "1.", "1.5", "1.50", "1.500000", "1.5000000", "0.1234567", "0.000000", "0.0000000", "0.000001", "0.0000001",
        "1..2", "1.2.3", "1,5", "1e5", " 1", "1 ", "+1", "-1", "1.-5", "1.+5", "١", "1.١", "１", "0x10", "1_000", "18446744073709.551615", "18446744073709.551616", "18446744073709.55161", "18446744073709.6",
        "18446744073710", "18446744073709", "18446744073709.", "99999999999999999999", "1844674407370955161", "18446744073709551615", "18446744073709551616", "184467440737095.51615", "0.9", "9.999999", "9.9999999", "a", "1a", "1.a", "0a", "0.0a"];
    for s in amount_hand { emit_parse("amount", "hand", s, amount_parse(s)); }
    let dig = ['0', '1', '5', '9', '.', '+', '-', ' ', 'a', ',', '٣'];
    for _ in 0..n * 3 {
        // grammar: int part, optional fraction of 0..8 digits
        let ip = match r.below(5) { 0 => "0".to_string(), 1 => r.below(10).to_string(), 2 => r.below(1_000_000).to_string(), 3 => (18_446_744_073_700 + r.below(12)).to_string(), _ => r.u64_edge().to_string() };
        let fl = r.below(9);
        let s = if r.chance(1, 4) { ip.clone() } else { format!("{}.{}", ip, (0..fl).map(|_| (b'0' + r.below(10) as u8) as char).collect::<String>()) };
        emit_parse("amount", "grammar", &s, amount_parse(&s));
        if r.chance(1, 2) { for m in str_mutants(&mut r, &s, &dig) { emit_parse("amount", "mutant", &m, amount_parse(&m)); } }
    }
    // ---------------- Duration
    let mut dvs: Vec<u64> = vec![0, 1, 999, 1000, 1001, 59_999, 60_000, 3_599_999, 3_600_000, 86_399_999, 86_400_000, 86_400_001, 90_061_001, u64::MAX, u64::MAX - 1, 1 << 63];
    for _ in 0..n { dvs.push(r.u64_edge()); dvs.push(r.below(200_000_000)); }
    for m in dvs {
        let d = Duration::from_millis(m);
        let s = d.to_string();
        let jr = guarded(|| serde_json::from_str::<Duration>(&serde_json::to_string(&d).unwrap()).ok() == Some(d)).unwrap_or(false);
        emit_print("duration", json!(m.to_string()), &s, duration_parse(&s), Some(jr));
    }
    let dur_hand = ["", " ", "1d", "1h", "1m", "1s", "1ms", "1d 2h 3m 4s 5ms", "10d 1h 2m 3s 4s", "5ms 4s 3m 2h 1d", "1d2h", "1 d", "d", "ms", "1", "12", "1x", "1us", "1S", "1D", "1min", "1sec", "1 ms", "1.5s", "+5s", "-5s",
        "007s", "0d", "00ms", "1d  2h", " 1d ", "\t1d\n2h", "1d\u{a0}2h", "1d\u{3000}2h", "1d\u{200b}2h", "1d,2h", "1s 1", "1s x", "x 1s", "1s 1x", "99999999999999999999s", "18446744073709551616ms", "18446744073709551615ms", "18446744073709551615ms 0ms",
        "1٣s", "١s", "1ｓ", "1m s", "1mss", "1sm", "1hd", "213503982334d", "213503982334d 14h 25m 51s 615ms"];
    for s in dur_hand { emit_parse("duration", "hand", s, duration_parse(s)); }
    // outside the claim (O4): components or sums that overflow u64
    let dur_o4 = ["213503982335d", "18446744073709551615ms 1ms", "18446744073709551615s", "5124095576030432h", "213503982334d 14h 25m 51s 616ms", "307445734561825861m", "18446744073709552s", "9223372036854775808ms 9223372036854775808ms"];
    for s in dur_o4 { emit_parse("duration", "o4", s, duration_parse(s)); }
    let units = ["ms", "s", "m", "h", "d"];
    let bad_units = ["", "us", "S", "min", "hs", "dd", "msd", "µs", "M"];
    let dch = ['0', '9', 's', 'm', 'h', 'd', ' ', '+', '.', 'x', '\u{a0}'];
    for i in 0..n * 3 {
        // every subset of units (bitmask), random order, random whitespace, mostly representable
        let mask = (i % 32) as u32;
        let mut ms: Vec<String> = Vec::new();
        for (j, u) in units.iter().enumerate() {
            if mask & (1 << j) != 0 {
                let v = match r.below(6) { 0 => 0, 1 => r.below(100), 2 => r.below(100_000), 3 => r.below(1u64 << 33), _ => r.below(1000) };
                let num = if r.chance(1, 8) { format!("00{}", v) } else { v.to_string() };
                ms.push(format!("{}{}", num, u));
            }
        }
        if r.chance(1, 6) { ms.push(format!("{}{}", r.below(100), r.pick(&bad_units))); }
        if r.chance(1, 10) { ms.push(format!("{}{}", r.below(50), r.pick(&units))); }
        // shuffle
        for k in (1..ms.len()).rev() { let j = r.below(k as u64 + 1) as usize; ms.swap(k, j); }
        let mut s = String::new();
        if r.chance(1, 5) { s.push(*r.pick(&WS)); }
        for (k, m) in ms.iter().enumerate() {
            if k > 0 { s.push(if r.chance(2, 3) { ' ' } else { *r.pick(&WS) }); if r.chance(1, 6) { s.push(*r.pick(&WS)); } }
            s.push_str(m);
        }
        if r.chance(1, 5) { s.push(*r.pick(&WS)); }
        emit_parse("duration", "grammar", &s, duration_parse(&s));
        if r.chance(1, 3) { for m in str_mutants(&mut r, &s, &dch) { emit_parse("duration", "mutant", &m, duration_parse(&m)); } }
    }
    // ---------------- ContractAddress
    let mut cvs: Vec<(u64, u64)> = vec![(0, 0), (1, 0), (0, 1), (u64::MAX, u64::MAX), (u64::MAX, 0), (10, 10), (1 << 63, 9)];
    for _ in 0..n { cvs.push((r.u64_edge(), r.u64_edge())); }
    for (i, j) in cvs {
        let a = ContractAddress::new(i, j);
        let s = a.to_string();
        emit_print("contract_address", json!([i.to_string(), j.to_string()]), &s, caddr_parse(&s), None);
        // Address parses it as a contract address as well
        let adr = guarded(|| Address::from_str(&s).ok() == Some(Address::Contract(a)) && Address::Contract(a).to_string() == s).unwrap_or(false);
        if !adr { println!("{}", json!({"k":"oracle_fail","t":"address_contract","s":s})); }
    }
    let ca_hand = ["", "<", ">", "<>", "<,>", "<1,2>", "<1,2", "1,2>", "<1 ,2>", "< 1,2>", "<1, 2>", "<1,2> ", " <1,2>", "<+1,+2>", "<-1,2>", "<001,002>", "<1,2,3>", "<1;2>", "<1>", "<1,>", "<,2>", "<<1,2>", "<1,2>>",
        "<18446744073709551615,18446744073709551615>", "<18446744073709551616,0>", "<0,18446744073709551616>", "<1,2>x", "x<1,2>", "<١,2>", "<1,٢>", "＜1,2＞", "<1.0,2>", "<0x1,2>", "<+,1>", "<1,+>", "<1,2>\n"];
    for s in ca_hand { emit_parse("contract_address", "hand", s, caddr_parse(s)); }
    let cch = ['<', '>', ',', '0', '9', '+', ' ', '-', 'x'];
    for _ in 0..n * 2 {
        let s = format!("<{},{}>", r.u64_edge(), r.u64_edge());
        for m in str_mutants(&mut r, &s, &cch) { emit_parse("contract_address", "mutant", &m, caddr_parse(&m)); }
    }
    // ---------------- Timestamp
    const DAY: u64 = 86_400_000;
    let y10k: u64 = 253_402_300_800_000;
    let mut tvs: Vec<u64> = vec![0, 1, 999, 1000, 1001, 59_999, 60_000, 3_599_999, 3_600_000, DAY - 1, DAY, DAY + 1,
        951_782_400_000 - 1, 951_782_400_000, 951_782_400_000 + DAY - 1, 951_782_400_000 + DAY,          // 2000-02-29
        4_107_456_000_000 - 1, 4_107_456_000_000, 4_107_456_000_000 + DAY,                                 // 2100-02-28 / 03-01
        946_684_799_999, 946_684_800_000, 978_307_199_999, 978_307_200_000,                                 // year ends 1999/2000
        68_255_999_999, 68_256_000_000, 68_256_000_000 + DAY,                                               // 1972-02-29
        13_574_563_200_000 - 1, 13_574_563_200_000,                                                         // 2400-02-29
        y10k - 1, y10k, y10k + 1, y10k - DAY, 8_210_266_876_799_999, 8_210_266_876_800_000, 8_210_298_412_799_999, 8_210_298_412_800_000,
        (1u64 << 63) - 1, 1u64 << 63, (1u64 << 63) + 1, u64::MAX, u64::MAX - 1, u64::MAX - 8_000_000_000_000_000, u64::MAX - 62_135_596_800_000, u64::MAX - 999, 1u64 << 62];
    for _ in 0..n * 2 {
        tvs.push(r.below(y10k)); tvs.push(r.u64_edge()); tvs.push(r.below(4_200_000_000_000));
        tvs.push((1u64 << 63).wrapping_add(r.below(1u64 << 53)).wrapping_sub(1u64 << 52));
        tvs.push(u64::MAX - r.below(9_000_000_000_000_000));
        // first / last millisecond of a random day, random year boundary
        let d = r.below(2_932_897); tvs.push(d * DAY); tvs.push(d * DAY + DAY - 1);
    }
    for m in tvs {
        let t = Timestamp::from_timestamp_millis(m);
        let s = match guarded(|| t.to_string()) { Ok(s) => s, Err(_) => "PANIC".to_string() };
        let jr = guarded(|| serde_json::from_str::<Timestamp>(&serde_json::to_string(&t).unwrap()).ok() == Some(t)).unwrap_or(false);
        emit_print("timestamp", json!(m.to_string()), &s, ts_parse(&s), Some(jr));
    }
    let ts_hand = ["", "0", "1", "+5", "-5", "007", "18446744073709551615", "18446744073709551616", "1.5", "1e3", " 1", "1 ",
        "1970-01-01T00:00:00Z", "1970-01-01T00:00:00z", "1970-01-01t00:00:00Z", "1970-01-01 00:00:00Z", "1970-01-01_00:00:00Z", "1970-01-01T00:00:00", "1970-01-01T00:00:00+00:00", "1970-01-01T00:00:00-00:00",
        "1970-01-01T00:00:00+0000", "1970-01-01T00:00:00+00", "1970-01-01T00:00:00 +00:00", "1970-01-01T00:00:00+00:00 ", " 1970-01-01T00:00:00Z", "1970-01-01T00:00:00\u{2212}00:00", "1970-01-01T01:00:00\u{2212}01:00",
        "1970-01-01T00:00:00+00:01", "1970-01-01T00:00:00-00:01", "1969-12-31T23:59:59.999Z", "1969-12-31T23:59:59.999-00:01", "1969-12-31T23:00:00-01:00", "1970-01-01T00:59:59+01:00", "1970-01-01T01:00:00+01:00",
        "1970-01-01T23:59:00+23:59", "1970-01-01T23:58:59+23:59", "1970-01-01T00:00:00+24:00", "1970-01-01T00:00:00+23:60", "1970-01-01T00:00:00+99:00", "1969-12-31T00:01:00-23:59", "1969-12-31T00:00:59-23:59",
        "1970-01-01T00:00:00.Z", "1970-01-01T00:00:00.0Z", "1970-01-01T00:00:00.001Z", "1970-01-01T00:00:00.0009Z", "1970-01-01T00:00:00.0019999999999Z", "1970-01-01T00:00:00.123456789Z", "1970-01-01T00:00:00.1234567891Z",
        "1970-01-01T00:00:00,5Z", "1970-01-01T00:00:60Z", "1970-01-01T00:00:60.5Z", "1970-01-01T23:59:60Z", "1970-01-01T00:00:61Z", "1970-01-01T00:60:00Z", "1970-01-01T24:00:00Z", "1970-01-01T23:59:59.999Z",
        "1970-1-01T00:00:00Z", "1970-01-1T00:00:00Z", "70-01-01T00:00:00Z", "01970-01-01T00:00:00Z", "+1970-01-01T00:00:00Z", "-1970-01-01T00:00:00Z", "1970-00-01T00:00:00Z", "1970-13-01T00:00:00Z", "1970-01-00T00:00:00Z", "1970-01-32T00:00:00Z",
        "1970-02-29T00:00:00Z", "1972-02-29T00:00:00Z", "1972-02-30T00:00:00Z", "2000-02-29T00:00:00Z", "2100-02-29T00:00:00Z", "1900-02-29T00:00:00Z", "2400-02-29T00:00:00Z", "1970-04-31T00:00:00Z", "1970-06-31T00:00:00Z", "1970-09-31T00:00:00Z", "1970-11-31T00:00:00Z", "1970-12-31T00:00:00Z",
        "0000-01-01T00:00:00Z", "0000-02-29T00:00:00Z", "0000-03-01T00:00:00Z", "0001-01-01T00:00:00Z", "9999-12-31T23:59:59.999Z", "9999-12-31T23:59:59.999+00:00", "9999-12-31T23:59:60.999-23:59", "10000-01-01T00:00:00Z", "+10000-01-01T00:00:00+00:00",
        "1970-01-01T00:00:00Zx", "1970-01-01T00:00:00ZZ", "1970-01-01T0:00:00Z", "1970-01-01T00:0:00Z", "1970-01-01T00:00:0Z", "1970-01-01T00-00-00Z", "1970/01/01T00:00:00Z", "1970-01-01T00:00Z", "1970-01-01", "1970-01-01T",
        "１970-01-01T00:00:00Z", "1970-01-01T00:00:00+٠0:00", "1970-01-01T00:00:00+0:00", "1970-01-01T00:00:00+00:0", "1970-01-01T00:00:00+00:000", "2262-04-11T23:47:16.854Z", "2262-04-11T23:47:16.855Z"];
    for s in ts_hand { emit_parse("timestamp", "hand", s, ts_parse(s)); }
    let tch = ['0', '1', '9', '-', ':', 'T', 'Z', '+', '.', ' ', '6', 't', 'z', 'x'];
    for _ in 0..n * 4 {
        // grammar with fields slightly outside their ranges
        let y = match r.below(6) { 0 => 1970, 1 => 1969, 2 => r.below(10_000), 3 => 1968 + r.below(140), 4 => *r.pick(&[0u64, 1, 1600, 1900, 2000, 2100, 2400, 9999]), _ => 1970 + r.below(60) };
        let mo = match r.below(8) { 0 => *r.pick(&[0u64, 13]), 1 => 2, _ => 1 + r.below(12) };
        let d = match r.below(6) { 0 => *r.pick(&[0u64, 28, 29, 30, 31, 32]), _ => 1 + r.below(28) };
        let h = match r.below(10) { 0 => 24, 1 => 23, _ => r.below(24) };
        let mi = match r.below(12) { 0 => 60, 1 => 59, _ => r.below(60) };
        let sec = match r.below(10) { 0 => 60, 1 => 61, 2 => 59, _ => r.below(60) };
        let sep = match r.below(8) { 0 => 't', 1 => ' ', 2 => *r.pick(&['_', 'x', '-']), _ => 'T' };
        let frac = match r.below(6) { 0 => String::new(), 1 => ".".to_string(), 2 => format!(".{:03}", r.below(1000)), 3 => { let k = 1 + r.below(12); format!(".{}", (0..k).map(|_| (b'0' + r.below(10) as u8) as char).collect::<String>()) }, _ => String::new() };
        let off = match r.below(10) {
            0 => "Z".to_string(), 1 => "z".to_string(), 2 => "+00:00".to_string(), 3 => String::new(),
            4 => format!("{}{:02}:{:02}", r.pick(&["+", "-", "\u{2212}"]), r.below(25), r.below(61)),
            5 => format!("{}{:02}{:02}", r.pick(&["+", "-"]), r.below(24), r.below(60)),
            6 => format!("{}{:02}", r.pick(&["+", "-"]), r.below(24)),
            _ => format!("{}{:02}:{:02}", r.pick(&["+", "-"]), r.below(24), r.below(60)),
        };
        let s = format!("{:04}-{:02}-{:02}{}{:02}:{:02}:{:02}{}{}", y, mo, d, sep, h, mi, sec, frac, off);
        emit_parse("timestamp", "grammar", &s, ts_parse(&s));
        if r.chance(1, 3) { for m in str_mutants(&mut r, &s, &tch) { emit_parse("timestamp", "mutant", &m, ts_parse(&m)); } }
    }
    // ---------------- names
    let name_hand_c = ["", "init", "init_", "init_a", "Init_a", "init-a", "xinit_a", " init_a", "init_a ", "init_a.b", "init_.", "init_a b", "init_é", "init_a\u{7f}", "init_a\n", "init_!\"#$%&'()*+,-/:;<=>?@[\\]^_`{|}~", "init_0129AZaz", "init_\u{0}"];
    for s in name_hand_c { emit_parse("contract_name", "hand", s, cname_check(s)); }
    let name_hand_r = ["", ".", "a.b", "ab", "a.", ".b", "a..b", "a.b.c", "a b.c", "é.b", "a.b\n", "init_a.b", "a\u{7f}.b", "a.\u{80}"];
    for s in name_hand_r { emit_parse("receive_name", "hand", s, rname_check(s)); }
    let name_hand_e = ["", "a", ".", "a.b", "a b", "é", "a\u{7f}", "~", "!", " ", "\t"];
    for s in name_hand_e { emit_parse("entrypoint_name", "hand", s, ename_check(s)); }
    let nch = ['a', 'Z', '0', '.', '_', ' ', '~', '!', '\u{7f}', 'é', '\u{20ac}', '\u{1f600}', '\n'];
    for _ in 0..n * 2 {
        // lengths around the limits; an occasional multi-byte or forbidden character
        let len = *r.pick(&[0usize, 1, 10, 93, 94, 95, 96, 97, 98, 99, 100, 101]);
        let mut body: Vec<char> = name_chars(&mut r, len, false).chars().collect();
        let k = r.below(5);
        if k == 0 && !body.is_empty() { let p = r.below(body.len() as u64) as usize; body[p] = *r.pick(&nch); }
        let body: String = body.into_iter().collect();
        let c = format!("init_{}", body);
        emit_parse("contract_name", "grammar", &c, cname_check(&c));
        emit_parse("entrypoint_name", "grammar", &body, ename_check(&body));
        let mut rb: Vec<char> = body.chars().collect();
        if !rb.is_empty() && r.chance(5, 6) { let p = r.below(rb.len() as u64) as usize; rb[p] = '.'; }
        let rn: String = rb.into_iter().collect();
        emit_parse("receive_name", "grammar", &rn, rname_check(&rn));
        let l2 = *r.pick(&[0usize, 1, 4, 5, 6]); let rn2 = format!("{}.{}", body, name_chars(&mut r, l2, true));
        emit_parse("receive_name", "grammar", &rn2, rname_check(&rn2));
        for cand in [&c, &body, &rn, &rn2] { constructor_consistency(cand); }
        if r.chance(1, 3) {
            for m in str_mutants(&mut r, &c, &nch) { constructor_consistency(&m); emit_parse("contract_name", "mutant", &m, cname_check(&m)); }
            for m in str_mutants(&mut r, &rn, &nch) { emit_parse("receive_name", "mutant", &m, rname_check(&m)); emit_parse("entrypoint_name", "mutant", &m, ename_check(&m)); }
        }
        // print/parse of accepted names: Display is the name itself; construct composes names
        if let Ok(cn) = OwnedContractName::new(c.clone()) {
            let ok = cn.to_string() == c && OwnedContractName::new(cn.to_string()).ok() == Some(cn.clone())
                && serde_json::from_str::<OwnedContractName>(&serde_json::to_string(&cn).unwrap()).ok() == Some(cn.clone());
            if !ok { println!("{}", json!({"k":"oracle_fail","t":"contract_name_print_parse","s":c})); }
            let l3 = *r.pick(&[0usize, 1, 5, 50, 99]);
            if let Ok(en) = OwnedEntrypointName::new(name_chars(&mut r, l3, true)) {
                let built = guarded(|| OwnedReceiveName::construct(cn.as_contract_name(), en.as_entrypoint_name()));
                let s = format!("{}.{}", &c[5..], en);
                let v = match &built { Err(_) => json!("PANIC"), Ok(Ok(x)) => json!({"ok": cps(&x.to_string())}), Ok(Err(e)) => json!({"err": format!("{:?}", e)}) };
                println!("{}", json!({"k":"construct","c":cps(&c),"e":cps(&en.to_string()),"expect":cps(&s),"r":v}));
                if let Ok(Ok(x)) = built {
                    let rn = x.as_receive_name();
                    let parts_ok = rn.contract_name() == &c[5..] && rn.entrypoint_name().to_string() == en.to_string()
                        && OwnedReceiveName::from_str(&x.to_string()).ok() == Some(x.clone());
                    if !parts_ok { println!("{}", json!({"k":"oracle_fail","t":"receive_name_parts","s":x.to_string()})); }
                }
            }
        }
    }
    // ---------------- hexadecimal forms
    hex_forms(&mut r, (n / 3).max(2));
    // ---------------- AccountAddress (base58check)
    let b58 = "123456789ABCDEFGHJKLMNPQRSTUVWXYZabcdefghijkmnopqrstuvwxyz".chars().collect::<Vec<_>>();
    let mut acc_n = 0u64; let mut acc_mut = 0u64; let mut acc_mut_acc = 0u64;
    for _ in 0..n * 4 {
        let a = AccountAddress::gen(&mut r);
        let s = a.to_string();
        println!("{}", json!({"k":"acc_print","bytes":hex(&a.0),"s":s}));
        let back = guarded(|| AccountAddress::from_str(&s).ok());
        let jr = guarded(|| serde_json::from_str::<AccountAddress>(&serde_json::to_string(&a).unwrap()).ok() == Some(a)).unwrap_or(false);
        let adr = guarded(|| Address::from_str(&s).ok() == Some(Address::Account(a))).unwrap_or(false);
        acc_n += 1;
        if back != Ok(Some(a)) || !jr || !adr || s.len() != 50 { println!("{}", json!({"k":"oracle_fail","t":"account_address_print_parse","s":s,"bytes":hex(&a.0)})); }
        // mutants: must be rejected, or parse to an address that prints the mutant (canonical text)
        for m in str_mutants(&mut r, &s, &b58) {
            acc_mut += 1;
            println!("{}", json!({"k":"acc_parse","s":m,"r": match guarded(|| AccountAddress::from_str(&m)) { Err(_) => json!("PANIC"), Ok(Ok(b)) => json!(hex(&b.0)), Ok(Err(_)) => json!(null) }}));
            match guarded(|| AccountAddress::from_str(&m)) {
                Err(_) => println!("{}", json!({"k":"oracle_fail","t":"account_address_panic","s":m})),
                Ok(Ok(b)) => { acc_mut_acc += 1; if b.to_string() != m { println!("{}", json!({"k":"oracle_fail","t":"account_address_noncanonical_text","s":m})); } }
                Ok(Err(_)) => {}
            }
        }
    }
    for m in ["", "1", "3XSLuJcXg6xEua6iBPnWacc3iWh93yEDMCqX8FbE3RPSbEnT9P", "3XSLuJcXg6xEua6iBPnWacc3iWh93yEDMCqX8FbE3RPSbEnT9Q", "0XSLuJcXg6xEua6iBPnWacc3iWh93yEDMCqX8FbE3RPSbEnT9P",
              "3XSLuJcXg6xEua6iBPnWacc3iWh93yEDMCqX8FbE3RPSbEnT9", " 3XSLuJcXg6xEua6iBPnWacc3iWh93yEDMCqX8FbE3RPSbEnT9P", "3XSLuJcXg6xEua6iBPnWacc3iWh93yEDMCqX8FbE3RPSbEnT9P ", "lXSLuJcXg6xEua6iBPnWacc3iWh93yEDMCqX8FbE3RPSbEnT9P",
              "<1,2>", "11111111111111111111111111111111111111111111111111", "2wkBET2rRgE8pahuaczxKbmv7ciehqsne57F9gtzf1PVdr2VP3"] {
        println!("{}", json!({"k":"acc_parse","s":m,"r": match guarded(|| AccountAddress::from_str(m)) { Err(_) => json!("PANIC"), Ok(Ok(b)) => json!(hex(&b.0)), Ok(Err(_)) => json!(null) }}));
    }
    println!("{}", json!({"k":"stat","t":"account_address","printed":acc_n,"mutants":acc_mut,"mutants_accepted":acc_mut_acc}));
}

// ------------------------------------------------------------------ arithmetic
fn opt(v: Result<Option<u64>, String>) -> Value { match v { Err(_) => json!("PANIC"), Ok(None) => json!(null), Ok(Some(x)) => json!(x.to_string()) } }
fn pan(v: Result<u64, String>) -> Value { match v { Err(_) => json!("PANIC"), Ok(x) => json!(x.to_string()) } }

fn arith_mode(seed: u64, n: u64) {
    let mut r = Rng::new(seed);
    // truncation (`as u64`) and u128-overflow corners of the conversions
    for (num, den, x) in [(200u64, 1u64, (1u64 << 63) - 1), (200, 1, 1 << 63), (1, 1, 1 << 63), (1, u64::MAX, u64::MAX), (u64::MAX, 1, u64::MAX),
                          (u64::MAX, u64::MAX, u64::MAX), (1, 1 << 57, 1 << 63), (1, 1 << 58, 1 << 63), (3, 36893488147419103, u64::MAX), (100, 1, u64::MAX), (1, 100, 12345)] {
        let rates = ExchangeRates { euro_per_energy: ExchangeRate::new_unchecked(1, 1), micro_ccd_per_euro: ExchangeRate::new_unchecked(num, den) };
        println!("{}", json!({"k":"a","op":"euro_cent_to_amount","num":num.to_string(),"den":den.to_string(),"x":x.to_string(),"r":pan(guarded(|| rates.convert_euro_cent_to_amount(x).micro_ccd))}));
        println!("{}", json!({"k":"a","op":"amount_to_euro_cent","num":num.to_string(),"den":den.to_string(),"x":x.to_string(),"r":pan(guarded(|| rates.convert_amount_to_euro_cent(Amount::from_micro_ccd(x))))}));
    }
    for i in 0..n {
        let x = r.u64_edge();
        let y = match i % 5 { 0 => u64::MAX - x, 1 => (u64::MAX - x).wrapping_add(1), 2 => x, 3 => x.wrapping_add(1), _ => r.u64_edge() };
        let e = |op: &str, v: Value| println!("{}", json!({"k":"a","op":op,"x":x.to_string(),"y":y.to_string(),"r":v}));
        let (ax, ay) = (Amount::from_micro_ccd(x), Amount::from_micro_ccd(y));
        let (dx, dy) = (Duration::from_millis(x), Duration::from_millis(y));
        let tx = Timestamp::from_timestamp_millis(x);
        let ty = Timestamp::from_timestamp_millis(y);
        e("amount_checked_add", opt(guarded(|| ax.checked_add(ay).map(|a| a.micro_ccd))));
        e("amount_checked_sub", opt(guarded(|| ax.checked_sub(ay).map(|a| a.micro_ccd))));
        e("duration_checked_add", opt(guarded(|| dx.checked_add(dy).map(|a| a.millis()))));
        e("duration_checked_sub", opt(guarded(|| dx.checked_sub(dy).map(|a| a.millis()))));
        e("timestamp_checked_add", opt(guarded(|| tx.checked_add(dy).map(|a| a.millis))));
        e("timestamp_checked_sub", opt(guarded(|| tx.checked_sub(dy).map(|a| a.millis))));
        e("duration_since", opt(guarded(|| tx.duration_since(ty).map(|a| a.millis()))));
        e("duration_between", pan(guarded(|| tx.duration_between(ty).millis())));
        e("amount_add", pan(guarded(|| (ax + ay).micro_ccd)));
        e("amount_sub", pan(guarded(|| (ax - ay).micro_ccd)));
        let d = match i % 4 { 0 => 0, 1 => 1, 2 => r.below(1000), _ => r.u64_edge() };
        let qr = guarded(|| ax.quotient_remainder(d));
        let v = match qr { Err(_) => json!("PANIC"), Ok((q, m)) => json!([q.micro_ccd.to_string(), m.micro_ccd.to_string()]) };
        println!("{}", json!({"k":"a","op":"quotient_remainder","x":x.to_string(),"y":d.to_string(),"r":v}));
        let m = match i % 3 { 0 => r.below(1 << 20), 1 => 1, _ => r.u64_edge() };
        println!("{}", json!({"k":"a","op":"amount_mul","x":x.to_string(),"y":m.to_string(),"r":pan(guarded(|| (ax * m).micro_ccd))}));
        // exchange rates
        let num = match i % 3 { 0 => 1 + r.below(1 << 40), 1 => r.u64_edge().max(1), _ => 1 + r.below(100_000) };
        let den = match i % 4 { 0 => 1, 1 => 1 + r.below(1 << 30), 2 => r.u64_edge().max(1), _ => 1 + r.below(1000) };
        let rates = ExchangeRates { euro_per_energy: ExchangeRate::new_unchecked(1, 1), micro_ccd_per_euro: ExchangeRate::new_unchecked(num, den) };
        let c = match i % 3 { 0 => r.below(1 << 32), 1 => r.u64_edge(), _ => r.below(100_000) };
        println!("{}", json!({"k":"a","op":"euro_cent_to_amount","num":num.to_string(),"den":den.to_string(),"x":c.to_string(),"r":pan(guarded(|| rates.convert_euro_cent_to_amount(c).micro_ccd))}));
        println!("{}", json!({"k":"a","op":"amount_to_euro_cent","num":num.to_string(),"den":den.to_string(),"x":c.to_string(),"r":pan(guarded(|| rates.convert_amount_to_euro_cent(Amount::from_micro_ccd(c))))}));
    }
}

/// model-generated encodings: one "<type> <hex>" per stdin line
fn probe_mode() {
    use std::io::BufRead;
    let stdin = std::io::stdin();
    for line in stdin.lock().lines() {
        let line = line.unwrap();
        let mut it = line.split_whitespace();
        let (name, hx) = match (it.next(), it.next()) { (Some(a), b) => (a.to_string(), b.unwrap_or("").to_string()), _ => continue };
        let bytes = hlib::unhex(&hx);
        let mut done = false;
        macro_rules! pr { ($n:expr, $t:ty) => { if !done && name == $n { hand_bytes::<$t>($n, "model", &bytes); done = true; } }; }
        all_types!(pr);
        if !done { println!("{}", json!({"k":"b","t":name,"cls":"model","in":hx,"unknown_type":true})); }
    }
}

/// account-address candidate strings, one per stdin line
fn accparse_mode() {
    use std::io::BufRead;
    for line in std::io::stdin().lock().lines() {
        let m = line.unwrap();
        let r = match guarded(|| AccountAddress::from_str(&m)) { Err(_) => json!("PANIC"), Ok(Ok(b)) => json!(hex(&b.0)), Ok(Err(_)) => json!(null) };
        let adr = match guarded(|| Address::from_str(&m)) { Err(_) => json!("PANIC"), Ok(Ok(Address::Account(b))) => json!(hex(&b.0)), Ok(Ok(_)) => json!("contract"), Ok(Err(_)) => json!(null) };
        println!("{}", json!({"k":"acc_parse","s":m,"r":r,"address":adr}));
    }
}

fn main() {
    quiet_panics();
    let a: Vec<String> = std::env::args().collect();
    let mode = a.get(1).map(|s| s.as_str()).unwrap_or("bytes");
    let seed: u64 = a.get(2).and_then(|s| s.parse().ok()).unwrap_or(1);
    let n: u64 = a.get(3).and_then(|s| s.parse().ok()).unwrap_or(10);
    match mode {
        "bytes" => bytes_mode(seed, n),
        "text" => text_mode(seed, n),
        "arith" => arith_mode(seed, n),
        "probe" => probe_mode(),
        "accparse" => accparse_mode(),
        _ => { eprintln!("usage: c16 bytes|text|arith <seed> <n>"); std::process::exit(2) }
    }
}
