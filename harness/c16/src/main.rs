use concordium_contracts_common::*;
use std::str::FromStr;
fn main() {
    for m in [0u64, 1, 253402300799999, 253402300800000, 8210266876799999, 8210266876800000, 8210298412799999, 8210298412800000, (1u64<<63)-1, 1u64<<63, u64::MAX, u64::MAX - 8_000_000_000_000_000] {
        let s = Timestamp::from_timestamp_millis(m).to_string();
        let p = Timestamp::from_str(&s);
        println!("{} -> {:?} -> {:?}", m, s, p);
    }
}
