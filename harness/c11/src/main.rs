//! C11 harness: bulletproof range / set (non-)membership proofs.
//!
//! Every public group element is a *known* multiple of the group generator P (the harness keeps the
//! discrete logs), prover randomness is replayed from a clone of the RNG handed to the prover, and the
//! Fiat-Shamir challenges are recorded by a wrapping `TranscriptProtocol`.  The Coq model computes the
//! discrete log of every proof component "in the exponent"; `mulcheck` compares `dlog * P` with the
//! real points.  Independently, direct oracles (honest proofs verify, out-of-range / perturbed /
//! wrong-context proofs do not) are evaluated on the implementation alone.
#![allow(deprecated, non_snake_case, clippy::too_many_arguments)]
use concordium_base::{
    bulletproofs::{
        inner_product_proof as ipp, range_proof as rp, set_membership_proof as smp,
        set_non_membership_proof as snmp, utils::Generators,
    },
    common::{from_bytes, to_bytes, Deserial, Serial},
    curve_arithmetic::{arkworks_instances::ArkGroup, multiexp, Curve, Field},
    id::id_proof_types::ProofVersion,
    pedersen_commitment::{Commitment, CommitmentKey, Randomness, Value},
    random_oracle::{Challenge, RandomOracle, TranscriptProtocol, TranscriptProtocolV1},
};
use hlib::{guarded, hex, quiet_panics, unhex, Rng};
use rand::{rngs::StdRng, SeedableRng};
use serde_json::{json, Value as J};
use std::io::{BufRead, Cursor};

type G1 = ArkGroup<ark_bls12_381::G1Projective>;
type Fr = <G1 as Curve>::Scalar;

// ------------------------------------------------------------------ recording transcript
enum Inner {
    V0(RandomOracle),
    V1(TranscriptProtocolV1),
}
struct Rec {
    inner: Inner,
    log:   Vec<(String, String)>,
}
impl Rec {
    fn new(tk: u64, dom: &str) -> Self {
        let inner = if tk == 0 { Inner::V0(RandomOracle::domain(dom)) } else { Inner::V1(TranscriptProtocolV1::with_domain(dom)) };
        Rec { inner, log: Vec::new() }
    }
    /// recorded challenges, followed by ["#post", H(transcript state now)]
    fn chal(&self) -> J {
        let mut v: Vec<J> = self.log.iter().map(|(l, s)| json!([l, s])).collect();
        v.push(json!(["#post", hex(self.extract_raw_challenge().as_ref())]));
        json!(v)
    }
    fn us(&self) -> Vec<Fr> {
        self.log.iter().filter(|(l, _)| l == "uj").map(|(_, s)| Fr::deserial(&mut Cursor::new(unhex(s))).unwrap()).collect()
    }
}
impl TranscriptProtocol for Rec {
    fn append_label(&mut self, label: impl AsRef<[u8]>) {
        match &mut self.inner { Inner::V0(t) => t.append_label(label), Inner::V1(t) => t.append_label(label) }
    }
    fn append_message(&mut self, label: impl AsRef<[u8]>, message: &impl Serial) {
        match &mut self.inner { Inner::V0(t) => t.append_message(label, message), Inner::V1(t) => t.append_message(label, message) }
    }
    fn append_messages<'a, T: Serial + 'a, B: IntoIterator<Item = &'a T>>(&mut self, label: impl AsRef<[u8]>, messages: B)
    where B::IntoIter: ExactSizeIterator {
        match &mut self.inner { Inner::V0(t) => t.append_messages(label, messages), Inner::V1(t) => t.append_messages(label, messages) }
    }
    fn append_final_prover_message(&mut self, label: impl AsRef<[u8]>, message: &impl Serial) {
        match &mut self.inner {
            Inner::V0(t) => t.append_final_prover_message(label, message),
            Inner::V1(t) => t.append_final_prover_message(label, message),
        }
    }
    fn append_each_message<T, B: IntoIterator<Item = T>>(&mut self, _label: impl AsRef<[u8]>, _messages: B, _f: impl FnMut(&mut Self, T))
    where B::IntoIter: ExactSizeIterator {
        panic!("append_each_message is not used by the bulletproofs code")
    }
    fn extract_challenge_scalar<C: Curve>(&mut self, label: impl AsRef<[u8]>) -> C::Scalar {
        let l = label.as_ref().to_vec();
        let s = match &mut self.inner {
            Inner::V0(t) => t.extract_challenge_scalar::<C>(&l),
            Inner::V1(t) => t.extract_challenge_scalar::<C>(&l),
        };
        self.log.push((String::from_utf8_lossy(&l).to_string(), hex(&to_bytes(&s))));
        s
    }
    fn extract_raw_challenge(&self) -> Challenge {
        match &self.inner { Inner::V0(t) => t.extract_raw_challenge(), Inner::V1(t) => t.extract_raw_challenge() }
    }
}

// ------------------------------------------------------------------ helpers
fn sh(s: &Fr) -> String { hex(&to_bytes(s)) }
fn ph(p: &G1) -> String { hex(&to_bytes(p)) }
fn shs(v: &[Fr]) -> J { json!(v.iter().map(sh).collect::<Vec<_>>()) }
fn fr(n: u64) -> Fr { G1::scalar_from_u64(n) }
fn fadd(a: &Fr, b: &Fr) -> Fr { let mut x = *a; x.add_assign(b); x }
fn fsub(a: &Fr, b: &Fr) -> Fr { let mut x = *a; x.sub_assign(b); x }
fn fmul(a: &Fr, b: &Fr) -> Fr { let mut x = *a; x.mul_assign(b); x }
fn fneg(a: &Fr) -> Fr { let mut x = *a; x.negate(); x }
fn pmul(s: &Fr) -> G1 { G1::one_point().mul_by_scalar(s) }
fn ver(v: u64) -> ProofVersion { if v == 1 { ProofVersion::Version1 } else { ProofVersion::Version2 } }

/// Public parameters with known discrete logs.
struct Params {
    g:    Vec<Fr>,
    h:    Vec<Fr>,
    b:    Fr,
    bt:   Fr,
    gens: Generators<G1>,
    keys: CommitmentKey<G1>,
}
fn params(aux: &mut StdRng, len: usize) -> Params {
    let g: Vec<Fr> = (0..len).map(|_| G1::generate_non_zero_scalar(aux)).collect();
    let h: Vec<Fr> = (0..len).map(|_| G1::generate_non_zero_scalar(aux)).collect();
    let b = G1::generate_non_zero_scalar(aux);
    let bt = G1::generate_non_zero_scalar(aux);
    let gens = Generators { G_H: g.iter().zip(h.iter()).map(|(x, y)| (pmul(x), pmul(y))).collect() };
    let keys = CommitmentKey { g: pmul(&b), h: pmul(&bt) };
    Params { g, h, b, bt, gens, keys }
}
fn edge_scalar(r: &mut Rng, aux: &mut StdRng) -> Fr {
    match r.below(8) { 0 => fr(0), 1 => fr(1), 2 => fneg(&fr(1)), _ => G1::generate_scalar(aux) }
}

/// The serialised layout shared by RangeProof, SetMembershipProof and SetNonMembershipProof:
/// A S T_1 T_2 | tx tx_tilde e_tilde | u32 len, (L_j R_j)* | a b
#[derive(Clone)]
struct Parts {
    pts: Vec<G1>,
    scs: Vec<Fr>,
    lr:  Vec<(G1, G1)>,
    a:   Fr,
    b:   Fr,
}
impl Parts {
    fn parse(bytes: &[u8]) -> Parts {
        let mut c = Cursor::new(bytes);
        let pts = (0..4).map(|_| G1::deserial(&mut c).unwrap()).collect();
        let scs = (0..3).map(|_| Fr::deserial(&mut c).unwrap()).collect();
        let len = u32::deserial(&mut c).unwrap();
        let lr = (0..len).map(|_| { let l = G1::deserial(&mut c).unwrap(); let r = G1::deserial(&mut c).unwrap(); (l, r) }).collect();
        let a = Fr::deserial(&mut c).unwrap();
        let b = Fr::deserial(&mut c).unwrap();
        assert_eq!(c.position() as usize, bytes.len());
        Parts { pts, scs, lr, a, b }
    }
    fn build(&self) -> Vec<u8> {
        let mut out = Vec::new();
        for p in &self.pts { out.extend(to_bytes(p)); }
        for s in &self.scs { out.extend(to_bytes(s)); }
        out.extend(to_bytes(&(self.lr.len() as u32)));
        for (l, r) in &self.lr { out.extend(to_bytes(l)); out.extend(to_bytes(r)); }
        out.extend(to_bytes(&self.a));
        out.extend(to_bytes(&self.b));
        out
    }
    fn names(&self) -> Vec<String> {
        let mut v: Vec<String> = ["A", "S", "T1", "T2", "tx", "txt", "et"].iter().map(|s| s.to_string()).collect();
        for j in 0..self.lr.len() { v.push(format!("L{}", j)); v.push(format!("R{}", j)); }
        v.push("a".into());
        v.push("b".into());
        v
    }
    /// component `i` (order of `names`) moved by one: points += P, scalars += 1
    fn bump(&self, i: usize) -> Parts {
        let mut p = self.clone();
        let one = fr(1);
        let P = G1::one_point();
        let k = self.lr.len();
        if i < 4 { p.pts[i] = p.pts[i].plus_point(&P); }
        else if i < 7 { p.scs[i - 4] = fadd(&p.scs[i - 4], &one); }
        else if i < 7 + 2 * k { let j = (i - 7) / 2; if (i - 7) % 2 == 0 { p.lr[j].0 = p.lr[j].0.plus_point(&P) } else { p.lr[j].1 = p.lr[j].1.plus_point(&P) } }
        else if i == 7 + 2 * k { p.a = fadd(&p.a, &one); }
        else { p.b = fadd(&p.b, &one); }
        p
    }
}

type Verdict = (String, J);
/// every single-component perturbation of the proof, plus structural ones; `verify` gets proof bytes
fn perturbations(bytes: &[u8], verify: &dyn Fn(&[u8]) -> Verdict, with_chal: bool) -> Vec<J> {
    let parts = Parts::parse(bytes);
    let names = parts.names();
    let mut out = Vec::new();
    for (i, nm) in names.iter().enumerate() {
        let (v, ch) = verify(&parts.bump(i).build());
        out.push(if with_chal { json!({"c": nm, "i": i, "r": v, "ch": ch}) } else { json!({"c": nm, "i": i, "r": v}) });
    }
    // structural: drop the last (L,R) pair / duplicate it / swap L0 and R0 / swap a and b
    if !parts.lr.is_empty() {
        let mut p = parts.clone(); p.lr.pop();
        out.push(json!({"c": "lr_drop_last", "r": verify(&p.build()).0}));
        let mut p = parts.clone(); let l = *p.lr.last().unwrap(); p.lr.push(l);
        out.push(json!({"c": "lr_dup_last", "r": verify(&p.build()).0}));
        let mut p = parts.clone(); p.lr[0] = (p.lr[0].1, p.lr[0].0);
        out.push(json!({"c": "lr_swap0", "r": verify(&p.build()).0}));
    }
    let mut p = parts.clone(); std::mem::swap(&mut p.a, &mut p.b);
    if parts.a != parts.b { out.push(json!({"c": "swap_ab", "r": verify(&p.build()).0})); }
    let mut p = parts.clone(); p.pts.swap(2, 3);
    out.push(json!({"c": "swap_T1T2", "r": verify(&p.build()).0}));
    out
}

fn rp_verdict(r: Result<Result<(), rp::VerificationError>, String>) -> String {
    match r {
        Err(_) => "PANIC".into(),
        Ok(Ok(())) => "Ok".into(),
        Ok(Err(rp::VerificationError::First)) => "First".into(),
        Ok(Err(rp::VerificationError::Second)) => "Second".into(),
        Ok(Err(rp::VerificationError::DivisionError)) => "Division".into(),
        Ok(Err(rp::VerificationError::NotEnoughGenerators)) => "NotEnoughGenerators".into(),
    }
}
fn rp_verify(bytes: &[u8], v: u64, tk: u64, dom: &str, n: u8, coms: &[Commitment<G1>], gens: &Generators<G1>, keys: &CommitmentKey<G1>) -> Verdict {
    let proof = match from_bytes::<rp::RangeProof<G1>, _>(&mut Cursor::new(bytes)) { Ok(p) => p, Err(_) => return ("ParseError".into(), json!([])) };
    let mut t = Rec::new(tk, dom);
    let r = guarded(|| rp::verify_efficient(ver(v), &mut t, n, coms, &proof, gens, keys));
    (rp_verdict(r), t.chal())
}

// ------------------------------------------------------------------ range proofs
fn pick_value(r: &mut Rng, n: u64) -> u64 {
    let max = if n >= 64 { u64::MAX } else { (1u64 << n) - 1 };
    match r.below(6) { 0 => 0, 1 => 1 & max, 2 => max, 3 => max >> 1, 4 => max - (max >> 1), _ => r.next() & max }
}

fn range_case(r: &mut Rng, aux: &mut StdRng, id: u64, n: u64, m: u64, full: bool) {
    let nm = (n * m) as usize;
    let v = 1 + (id % 2);
    let tk = (id / 2) % 2;
    let dom = "c11-range";
    let extra = if nm <= 32 { nm } else { 0 }; // room for the wrong-bit-width check
    let pr = params(aux, nm + extra);
    let vals: Vec<u64> = (0..m).map(|_| pick_value(r, n)).collect();
    let rs: Vec<Fr> = (0..m).map(|_| edge_scalar(r, aux)).collect();
    let rand: Vec<Randomness<G1>> = rs.iter().map(|x| Randomness::new(*x)).collect();
    let coms: Vec<Commitment<G1>> = vals.iter().zip(rand.iter()).map(|(x, rr)| pr.keys.hide(&Value::<G1>::new(fr(*x)), rr)).collect();
    let seed = r.next();
    let mut prng = StdRng::seed_from_u64(seed);
    let mut replay = prng.clone();
    let mut t = Rec::new(tk, dom);
    let gens_nm = pr.gens.take(nm);
    let res = guarded(|| rp::prove(ver(v), &mut t, &mut prng, n as u8, m as u8, &vals, &gens_nm, &pr.keys, &rand));
    let base = json!({"k": "range", "id": id, "n": n, "m": m, "ver": v, "tk": tk,
        "vals": vals.iter().map(|x| x.to_string()).collect::<Vec<_>>()});
    let mut o = base.as_object().unwrap().clone();
    let supported = nm.is_power_of_two();
    o.insert("supported".into(), json!(supported));
    match res {
        Err(e) => { o.insert("prove".into(), json!(format!("PANIC {}", e))); }
        Ok(None) => { o.insert("prove".into(), json!("None")); }
        Ok(Some(proof)) => {
            o.insert("prove".into(), json!("Some"));
            let bytes = to_bytes(&proof);
            // prover randomness in draw order: (s_L[i], s_R[i]) i<nm; (a_tilde_j, s_tilde_j) j<m; (t1_tilde_j, t2_tilde_j) j<m
            let draws: Vec<Fr> = (0..2 * nm + 4 * m as usize).map(|_| G1::generate_scalar(&mut replay)).collect();
            o.insert("g".into(), shs(&pr.g[..nm])); o.insert("h".into(), shs(&pr.h[..nm]));
            o.insert("b".into(), json!(sh(&pr.b))); o.insert("bt".into(), json!(sh(&pr.bt)));
            o.insert("r".into(), shs(&rs)); o.insert("draws".into(), shs(&draws));
            o.insert("pch".into(), t.chal());
            o.insert("proof".into(), json!(hex(&bytes)));
            o.insert("V".into(), json!(coms.iter().map(|c| ph(&c.0)).collect::<Vec<_>>()));
            o.insert("dom".into(), json!(dom));
            o.insert("kp".into(), json!(hex(&to_bytes(&pr.keys))));
            if v == 2 {
                o.insert("Gp".into(), json!(gens_nm.G_H.iter().map(|x| ph(&x.0)).collect::<Vec<_>>()));
                o.insert("Hp".into(), json!(gens_nm.G_H.iter().map(|x| ph(&x.1)).collect::<Vec<_>>()));
            }
            let vf = |bs: &[u8]| rp_verify(bs, v, tk, dom, n as u8, &coms, &gens_nm, &pr.keys);
            let (verdict, vch) = vf(&bytes);
            o.insert("verify".into(), json!(verdict)); o.insert("vch".into(), vch);
            o.insert("perturb".into(), json!(perturbations(&bytes, &vf, full || nm <= 16)));
            // wrong context
            let mut ctx: Vec<J> = Vec::new();
            let P = G1::one_point();
            let mut c2 = coms.clone(); c2[0] = Commitment(c2[0].0.plus_point(&pr.keys.g));
            ctx.push(json!(["commitment_value_plus_1", rp_verify(&bytes, v, tk, dom, n as u8, &c2, &gens_nm, &pr.keys).0]));
            let mut c2 = coms.clone(); let last = c2.len() - 1; c2[last] = Commitment(c2[last].0.plus_point(&pr.keys.h));
            ctx.push(json!(["commitment_randomness_plus_1", rp_verify(&bytes, v, tk, dom, n as u8, &c2, &gens_nm, &pr.keys).0]));
            if m >= 2 && coms[0] != coms[1] {
                let mut c2 = coms.clone(); c2.swap(0, 1);
                ctx.push(json!(["commitments_swapped", rp_verify(&bytes, v, tk, dom, n as u8, &c2, &gens_nm, &pr.keys).0]));
                let c2 = coms[..(m as usize / 2)].to_vec();
                ctx.push(json!(["commitments_halved", rp_verify(&bytes, v, tk, dom, n as u8, &c2, &gens_nm, &pr.keys).0]));
            }
            let mut g2 = gens_nm.clone(); g2.G_H[0].0 = g2.G_H[0].0.plus_point(&P);
            ctx.push(json!(["generator_G0", rp_verify(&bytes, v, tk, dom, n as u8, &coms, &g2, &pr.keys).0]));
            let mut g2 = gens_nm.clone(); g2.G_H[nm - 1].1 = g2.G_H[nm - 1].1.double_point();
            ctx.push(json!(["generator_Hlast", rp_verify(&bytes, v, tk, dom, n as u8, &coms, &g2, &pr.keys).0]));
            if nm >= 2 { let mut g2 = gens_nm.clone(); g2.G_H.swap(0, 1);
                ctx.push(json!(["generators_swapped", rp_verify(&bytes, v, tk, dom, n as u8, &coms, &g2, &pr.keys).0])); }
            let k2 = CommitmentKey { g: pr.keys.h, h: pr.keys.g };
            ctx.push(json!(["keys_swapped", rp_verify(&bytes, v, tk, dom, n as u8, &coms, &gens_nm, &k2).0]));
            ctx.push(json!(["transcript_domain", rp_verify(&bytes, v, tk, "c11-other", n as u8, &coms, &gens_nm, &pr.keys).0]));
            ctx.push(json!(["transcript_kind", rp_verify(&bytes, v, 1 - tk, dom, n as u8, &coms, &gens_nm, &pr.keys).0]));
            ctx.push(json!(["proof_version", rp_verify(&bytes, 3 - v, tk, dom, n as u8, &coms, &gens_nm, &pr.keys).0]));
            // wrong bit width: n/2 (shorter vectors) and 2n (longer; needs the extra generators)
            if n >= 2 { ctx.push(json!(["bitwidth_half", rp_verify(&bytes, v, tk, dom, (n / 2) as u8, &coms, &pr.gens, &pr.keys).0])); }
            if extra > 0 && n < 64 { ctx.push(json!(["bitwidth_double", rp_verify(&bytes, v, tk, dom, (2 * n) as u8, &coms, &pr.gens, &pr.keys).0])); }
            if n < 64 { ctx.push(json!(["bitwidth_plus1", rp_verify(&bytes, v, tk, dom, (n + 1) as u8, &coms, &pr.gens, &pr.keys).0])); }
            o.insert("ctx".into(), json!(ctx));
        }
    }
    println!("{}", J::Object(o));
}

/// values just outside [0, 2^n): the honest algorithm must not produce a verifying proof
fn outside_case(r: &mut Rng, aux: &mut StdRng, id: u64, n: u64, m: u64) {
    let nm = (n * m) as usize;
    let v = 1 + (id % 2);
    let tk = (id / 2) % 2;
    let dom = "c11-out";
    let pr = params(aux, nm);
    let bad = r.below(m) as usize;
    // the out-of-range value as a scalar: 2^n, 2^n+1, 2^n + random, -1
    let two_n = fr(2).pow([n]);
    let (badv, what) = match r.below(4) {
        0 => (two_n, "2^n"), 1 => (fadd(&two_n, &fr(1)), "2^n+1"),
        2 => (fadd(&two_n, &fr(r.next() >> 1)), "2^n+rand"), _ => (fneg(&fr(1)), "-1") };
    let vals: Vec<Fr> = (0..m as usize).map(|j| if j == bad { badv } else { fr(pick_value(r, n)) }).collect();
    let rs: Vec<Fr> = (0..m).map(|_| edge_scalar(r, aux)).collect();
    let rand: Vec<Randomness<G1>> = rs.iter().map(|x| Randomness::new(*x)).collect();
    let coms: Vec<Commitment<G1>> = vals.iter().zip(rand.iter()).map(|(x, rr)| pr.keys.hide(&Value::<G1>::new(*x), rr)).collect();
    let mut prng = StdRng::seed_from_u64(r.next());
    let mut t = Rec::new(tk, dom);
    let res = guarded(|| rp::prove_given_scalars(ver(v), &mut t, &mut prng, n as u8, m as u8, &vals, &pr.gens, &pr.keys, &rand));
    let (made, verdict) = match res {
        Err(e) => (format!("PANIC {}", e), "-".to_string()),
        Ok(None) => ("None".into(), "-".into()),
        Ok(Some(p)) => ("Some".into(), rp_verify(&to_bytes(&p), v, tk, dom, n as u8, &coms, &pr.gens, &pr.keys).0),
    };
    // also via `prove` with the u64 value when it fits (n < 64): the prover commits to the real value
    let mut verdict2 = "-".to_string();
    if n < 63 && what != "-1" {
        let v64: Vec<u64> = vals.iter().map(|s| { let rep = { use concordium_base::curve_arithmetic::PrimeField; s.into_repr() }; rep[0] }).collect();
        let mut t = Rec::new(tk, dom);
        if let Ok(Some(p)) = guarded(|| rp::prove(ver(v), &mut t, &mut prng, n as u8, m as u8, &v64, &pr.gens, &pr.keys, &rand)) {
            verdict2 = rp_verify(&to_bytes(&p), v, tk, dom, n as u8, &coms, &pr.gens, &pr.keys).0;
        } else { verdict2 = "noproof".into(); }
    }
    println!("{}", json!({"k": "outside", "id": id, "n": n, "m": m, "what": what, "bad": bad, "prove": made, "verify": verdict, "verify_u64": verdict2}));
}

// ------------------------------------------------------------------ derived statements
fn leq_case(r: &mut Rng, aux: &mut StdRng, id: u64, n: u64, a: u64, b: u64, ca: u64, cb: u64, pert: bool) {
    // proof made for (a, b); checked against commitments to (ca, cb) (same randomness)
    let pr = params(aux, (2 * n) as usize);
    let ra = edge_scalar(r, aux); let rb = edge_scalar(r, aux);
    let (Ra, Rb) = (Randomness::<G1>::new(ra), Randomness::<G1>::new(rb));
    let com = |x: u64, rr: &Randomness<G1>| pr.keys.hide(&Value::<G1>::new(fr(x)), rr);
    let tk = id % 2;
    let mut prng = StdRng::seed_from_u64(r.next());
    let mut t = Rec::new(tk, "c11-leq");
    let res = guarded(|| rp::prove_less_than_or_equal(&mut t, &mut prng, n as u8, a, b, &pr.gens, &pr.keys, &Ra, &Rb));
    let mut o = json!({"k": "leq", "id": id, "n": n, "a": a.to_string(), "b": b.to_string(), "ca": ca.to_string(), "cb": cb.to_string()});
    let m = o.as_object_mut().unwrap();
    match res {
        Err(e) => { m.insert("prove".into(), json!(format!("PANIC {}", e))); }
        Ok(None) => { m.insert("prove".into(), json!("None")); }
        Ok(Some(p)) => {
            m.insert("prove".into(), json!("Some"));
            let (Ca, Cb) = (com(ca, &Ra), com(cb, &Rb));
            let vf = |proof: &rp::RangeProof<G1>, dom: &str, n: u8, Ca: &Commitment<G1>, Cb: &Commitment<G1>| {
                let mut t = Rec::new(tk, dom);
                match guarded(|| rp::verify_less_than_or_equal(&mut t, n, Ca, Cb, proof, &pr.gens, &pr.keys)) { Ok(x) => json!(x), Err(_) => json!("PANIC") }
            };
            m.insert("verify".into(), vf(&p, "c11-leq", n as u8, &Ca, &Cb));
            if pert {
                let bytes = to_bytes(&p);
                let vb = |bs: &[u8]| -> Verdict {
                    match from_bytes::<rp::RangeProof<G1>, _>(&mut Cursor::new(bs)) {
                        Ok(q) => (vf(&q, "c11-leq", n as u8, &Ca, &Cb).to_string(), json!([])), Err(_) => ("ParseError".into(), json!([])) } };
                m.insert("perturb".into(), json!(perturbations(&bytes, &vb, false)));
                m.insert("ctx".into(), json!([
                    ["transcript_domain", vf(&p, "c11-leq2", n as u8, &Ca, &Cb)],
                    ["commitments_swapped", if ca != cb || ra != rb { vf(&p, "c11-leq", n as u8, &Cb, &Ca) } else { json!(false) }],
                    ["bitwidth_half", vf(&p, "c11-leq", (n / 2) as u8, &Ca, &Cb)],
                ]));
            }
        }
    }
    println!("{}", o);
}

fn in_range_case(r: &mut Rng, aux: &mut StdRng, id: u64, v: Fr, a: Fr, b: Fr, pert: bool) {
    let pr = params(aux, 128);
    let rv = edge_scalar(r, aux);
    let R = Randomness::<G1>::new(rv);
    let com = pr.keys.hide(&Value::<G1>::new(v), &R);
    let pv = 1 + id % 2; let tk = (id / 2) % 2;
    let mut prng = StdRng::seed_from_u64(r.next());
    let mut t = Rec::new(tk, "c11-inrange");
    let res = guarded(|| rp::prove_in_range(ver(pv), &mut t, &mut prng, &pr.gens, &pr.keys, v, a, b, &R));
    let mut o = json!({"k": "inrange", "id": id, "v": sh(&v), "a": sh(&a), "b": sh(&b), "ver": pv});
    let m = o.as_object_mut().unwrap();
    match res {
        Err(e) => { m.insert("prove".into(), json!(format!("PANIC {}", e))); }
        Ok(None) => { m.insert("prove".into(), json!("None")); }
        Ok(Some(p)) => {
            m.insert("prove".into(), json!("Some"));
            let vf = |proof: &rp::RangeProof<G1>, dom: &str, a: Fr, b: Fr, c: &Commitment<G1>| {
                let mut t = Rec::new(tk, dom);
                rp_verdict(guarded(|| rp::verify_in_range(ver(pv), &mut t, &pr.keys, &pr.gens, a, b, c, proof)))
            };
            m.insert("verify".into(), json!(vf(&p, "c11-inrange", a, b, &com)));
            if pert {
                let bytes = to_bytes(&p);
                let vb = |bs: &[u8]| -> Verdict {
                    match from_bytes::<rp::RangeProof<G1>, _>(&mut Cursor::new(bs)) {
                        Ok(q) => (vf(&q, "c11-inrange", a, b, &com), json!([])), Err(_) => ("ParseError".into(), json!([])) } };
                m.insert("perturb".into(), json!(perturbations(&bytes, &vb, false)));
                let com1 = Commitment(com.0.plus_point(&pr.keys.g));
                m.insert("ctx".into(), json!([
                    ["transcript_domain", vf(&p, "c11-inrange2", a, b, &com)],
                    ["lower_plus_1", vf(&p, "c11-inrange", fadd(&a, &fr(1)), b, &com)],
                    ["upper_minus_1", vf(&p, "c11-inrange", a, fsub(&b, &fr(1)), &com)],
                    ["upper_plus_1", vf(&p, "c11-inrange", a, fadd(&b, &fr(1)), &com)],
                    ["commitment_value_plus_1", vf(&p, "c11-inrange", a, b, &com1)],
                ]));
            }
        }
    }
    println!("{}", o);
}

fn derived(seed: u64, count: u64) {
    let mut r = Rng::new(seed ^ 0xD11);
    let mut aux = StdRng::seed_from_u64(r.next());
    let mut id = 0;
    // a <= b
    for i in 0..count {
        let n = *r.pick(&[8u64, 16, 32, 64, 4, 2, 1]);
        let max = if n == 64 { u64::MAX } else { (1u64 << n) - 1 };
        let b = match r.below(5) { 0 => 0, 1 => max, 2 => max - (max >> 1), _ => r.u64_edge() & max };
        let a = match i % 6 { 0 => b, 1 => b.wrapping_add(1) & max, 2 => b.saturating_sub(1), 3 => 0, 4 => r.u64_edge() & max,
                              _ => if n < 64 { (r.u64_edge() & max) | (1u64 << n) } else { r.next() } }; // 5: a outside [0,2^n) when n < 64
        leq_case(&mut r, &mut aux, id, n, a, b, a, b, i < 3); id += 1;
        // honest proof for (a', b) with a' <= b, checked against a commitment to a larger a
        if i % 4 == 0 && b < max {
            let a2 = b / 2;
            leq_case(&mut r, &mut aux, id, n, a2, b, b + 1, b, false); id += 1;
        }
    }
    // v in [a, b)
    for i in 0..count {
        let lo = r.u64_edge(); let hi = r.u64_edge();
        let (a, b) = match i % 5 { 0 => (lo, lo), 1 => (lo.min(hi), lo.max(hi)), 2 => (0, u64::MAX), 3 => (lo.max(hi), lo.min(hi)), _ => (lo.min(hi), lo.max(hi)) };
        let v = match r.below(8) { 0 => a, 1 => b.wrapping_sub(1), 2 => b, 3 => a.wrapping_sub(1), 4 => b.wrapping_add(1), 5 => a.wrapping_add(1),
                                   6 => if b > a { a + r.below(b - a) } else { r.next() }, _ => r.u64_edge() };
        in_range_case(&mut r, &mut aux, id, fr(v), fr(a), fr(b), i < 3); id += 1;
    }
    // scalars beyond u64 (the API takes scalars): negative bounds / values, 2^64, 2^64+1
    let two64 = fr(2).pow([64]);
    let specials: Vec<(Fr, Fr, Fr)> = vec![
        (two64, fr(0), fadd(&two64, &fr(1))), (fr(5), fneg(&fr(1)), fr(10)), (fneg(&fr(1)), fneg(&fr(2)), fr(0)),
        (fr(0), fr(0), two64), (fadd(&two64, &fr(5)), two64, fadd(&two64, &fr(6))), (fr(7), fr(3), fneg(&fr(1))),
    ];
    for (v, a, b) in specials { in_range_case(&mut r, &mut aux, id, v, a, b, false); id += 1; }
}

// ------------------------------------------------------------------ set (non-)membership
fn smp_verdict(r: Result<Result<(), smp::VerificationError>, String>) -> String {
    match r { Err(_) => "PANIC".into(), Ok(Ok(())) => "Ok".into(),
        Ok(Err(smp::VerificationError::InconsistentT0)) => "First".into(),
        Ok(Err(smp::VerificationError::IPVerificationError)) => "Second".into(),
        Ok(Err(smp::VerificationError::DivisionError)) => "Division".into(),
        Ok(Err(smp::VerificationError::NotEnoughGenerators)) => "NotEnoughGenerators".into(),
        Ok(Err(smp::VerificationError::SetTooLarge)) => "SetTooLarge".into() }
}
fn snmp_verdict(r: Result<Result<(), snmp::VerificationError>, String>) -> String {
    match r { Err(_) => "PANIC".into(), Ok(Ok(())) => "Ok".into(),
        Ok(Err(snmp::VerificationError::InconsistentT0)) => "First".into(),
        Ok(Err(snmp::VerificationError::IPVerificationError)) => "Second".into(),
        Ok(Err(snmp::VerificationError::DivisionError)) => "Division".into(),
        Ok(Err(snmp::VerificationError::NotEnoughGenerators)) => "NotEnoughGenerators".into() }
}
fn set_verify(member: bool, bytes: &[u8], v: u64, tk: u64, dom: &str, set: &[Fr], com: &Commitment<G1>, gens: &Generators<G1>, keys: &CommitmentKey<G1>) -> Verdict {
    let mut t = Rec::new(tk, dom);
    if member {
        let proof = match from_bytes::<smp::SetMembershipProof<G1>, _>(&mut Cursor::new(bytes)) { Ok(p) => p, Err(_) => return ("ParseError".into(), json!([])) };
        let r = guarded(|| smp::verify(ver(v), &mut t, set, com, &proof, gens, keys));
        (smp_verdict(r), t.chal())
    } else {
        let proof = match from_bytes::<snmp::SetNonMembershipProof<G1>, _>(&mut Cursor::new(bytes)) { Ok(p) => p, Err(_) => return ("ParseError".into(), json!([])) };
        let r = guarded(|| snmp::verify(ver(v), &mut t, set, com, &proof, gens, keys));
        (snmp_verdict(r), t.chal())
    }
}

fn set_case(r: &mut Rng, aux: &mut StdRng, id: u64, member: bool, set_u: &[u64], val: u64, full: bool) {
    let size = set_u.len();
    let padded = if size == 0 { 0 } else { size.next_power_of_two() };
    let pr = params(aux, padded.max(1));
    let set: Vec<Fr> = set_u.iter().map(|x| fr(*x)).collect();
    let v = 1 + (id % 2); let tk = (id / 2) % 2;
    let dom = "c11-set";
    let rv = edge_scalar(r, aux);
    let R = Randomness::<G1>::new(rv);
    let com = pr.keys.hide(&Value::<G1>::new(fr(val)), &R);
    let mut prng = StdRng::seed_from_u64(r.next());
    let mut replay = prng.clone();
    let mut t = Rec::new(tk, dom);
    let gens = pr.gens.take(padded);
    let res: Result<Result<Vec<u8>, String>, String> = if member {
        guarded(|| smp::prove(ver(v), &mut t, &mut prng, &set, fr(val), &gens, &pr.keys, &R).map(|p| to_bytes(&p)).map_err(|e| format!("{:?}", e)))
    } else {
        guarded(|| snmp::prove(ver(v), &mut t, &mut prng, &set, fr(val), &gens, &pr.keys, &R).map(|p| to_bytes(&p)).map_err(|e| format!("{:?}", e)))
    };
    let mut o = json!({"k": if member { "member" } else { "nonmember" }, "id": id, "ver": v, "tk": tk,
        "set": set_u.iter().map(|x| x.to_string()).collect::<Vec<_>>(), "v": val.to_string(), "in_set": set_u.contains(&val)});
    let m = o.as_object_mut().unwrap();
    match res {
        Err(e) => { m.insert("prove".into(), json!(format!("PANIC {}", e))); }
        Ok(Err(e)) => { m.insert("prove".into(), json!(e)); }
        Ok(Ok(bytes)) => {
            m.insert("prove".into(), json!("Some"));
            let n = padded;
            // draw order.  membership: (s_L[i], s_R[i]) i<n, a_tilde, s_tilde, t1_tilde, t2_tilde
            //              non-membership: a_tilde, s_L[0..n], s_R[0..n], s_tilde, t1_tilde, t2_tilde
            let draws: Vec<Fr> = (0..2 * n + 4).map(|_| G1::generate_scalar(&mut replay)).collect();
            m.insert("g".into(), shs(&pr.g[..n])); m.insert("h".into(), shs(&pr.h[..n]));
            m.insert("b".into(), json!(sh(&pr.b))); m.insert("bt".into(), json!(sh(&pr.bt)));
            m.insert("r".into(), json!(sh(&rv))); m.insert("draws".into(), shs(&draws));
            m.insert("pch".into(), t.chal()); m.insert("proof".into(), json!(hex(&bytes)));
            m.insert("dom".into(), json!(dom)); m.insert("kp".into(), json!(hex(&to_bytes(&pr.keys))));
            m.insert("Vc".into(), json!(ph(&com.0)));
            if v == 2 {
                m.insert("Gp".into(), json!(gens.G_H.iter().map(|x| ph(&x.0)).collect::<Vec<_>>()));
                m.insert("Hp".into(), json!(gens.G_H.iter().map(|x| ph(&x.1)).collect::<Vec<_>>()));
            }
            let vf = |bs: &[u8]| set_verify(member, bs, v, tk, dom, &set, &com, &gens, &pr.keys);
            let (verdict, vch) = vf(&bytes);
            m.insert("verify".into(), json!(verdict)); m.insert("vch".into(), vch);
            m.insert("perturb".into(), json!(perturbations(&bytes, &vf, full || n <= 8)));
            let mut ctx: Vec<J> = Vec::new();
            let sv = |set: &[Fr], com: &Commitment<G1>, gens: &Generators<G1>, keys: &CommitmentKey<G1>, dom: &str, v: u64, tk: u64|
                set_verify(member, &bytes, v, tk, dom, set, com, gens, keys).0;
            let com1 = Commitment(com.0.plus_point(&pr.keys.g));
            ctx.push(json!(["commitment_value_plus_1", sv(&set, &com1, &gens, &pr.keys, dom, v, tk)]));
            // a commitment to a value for which the statement is false
            if member {
                let outv = (0..).map(|i| 1000 + i).find(|x| !set_u.contains(x)).unwrap();
                let c = pr.keys.hide(&Value::<G1>::new(fr(outv)), &R);
                ctx.push(json!(["commitment_to_non_member", sv(&set, &c, &gens, &pr.keys, dom, v, tk)]));
                // the set with the proved element replaced (statement false for the committed value)
                let mut s2 = set.clone(); for x in s2.iter_mut() { if *x == fr(val) { *x = fr(outv); } }
                ctx.push(json!(["set_without_v", sv(&s2, &com, &gens, &pr.keys, dom, v, tk)]));
            } else {
                let c = pr.keys.hide(&Value::<G1>::new(set[0]), &R);
                ctx.push(json!(["commitment_to_member", sv(&set, &c, &gens, &pr.keys, dom, v, tk)]));
                let mut s2 = set.clone(); let last = s2.len() - 1; s2[last] = fr(val);
                ctx.push(json!(["set_with_v", sv(&s2, &com, &gens, &pr.keys, dom, v, tk)]));
            }
            let mut s2 = set.clone(); s2[0] = fadd(&s2[0], &fr(1));
            if !(member && set_u[0] == val) { ctx.push(json!(["set_element0_plus_1", sv(&s2, &com, &gens, &pr.keys, dom, v, tk)])); }
            if size >= 2 && set_u[0] != set_u[1] { let mut s2 = set.clone(); s2.swap(0, 1);
                ctx.push(json!(["set_reordered", sv(&s2, &com, &gens, &pr.keys, dom, v, tk)])); }
            // same padded vector spelled out explicitly is the same statement for the verifier (padding is by the last element)
            if size != padded { let mut s2 = set.clone(); while s2.len() < padded { s2.push(*set.last().unwrap()); }
                ctx.push(json!(["set_explicitly_padded(same statement)", sv(&s2, &com, &gens, &pr.keys, dom, v, tk)])); }
            let mut g2 = gens.clone(); g2.G_H[0].0 = g2.G_H[0].0.plus_point(&G1::one_point());
            ctx.push(json!(["generator_G0", sv(&set, &com, &g2, &pr.keys, dom, v, tk)]));
            let mut g2 = gens.clone(); g2.G_H[n - 1].1 = g2.G_H[n - 1].1.double_point();
            ctx.push(json!(["generator_Hlast", sv(&set, &com, &g2, &pr.keys, dom, v, tk)]));
            let k2 = CommitmentKey { g: pr.keys.h, h: pr.keys.g };
            ctx.push(json!(["keys_swapped", sv(&set, &com, &gens, &k2, dom, v, tk)]));
            ctx.push(json!(["transcript_domain", sv(&set, &com, &gens, &pr.keys, "c11-other", v, tk)]));
            ctx.push(json!(["transcript_kind", sv(&set, &com, &gens, &pr.keys, dom, v, 1 - tk)]));
            ctx.push(json!(["proof_version", sv(&set, &com, &gens, &pr.keys, dom, 3 - v, tk)]));
            // the other kind of proof must not parse-and-verify as this kind
            m.insert("ctx".into(), json!(ctx));
            let other = set_verify(!member, &bytes, v, tk, dom, &set, &com, &gens, &pr.keys).0;
            m.insert("as_other_kind".into(), json!(other));
        }
    }
    println!("{}", o);
}

fn sets(seed: u64, count: u64, full: bool) {
    let mut r = Rng::new(seed ^ 0x5E7);
    let mut aux = StdRng::seed_from_u64(r.next());
    let sizes: Vec<usize> = if full { vec![0, 1, 2, 3, 4, 5, 6, 7, 8, 9, 12, 15, 16, 17, 31, 32, 33, 64] } else { vec![0, 1, 2, 3, 4, 5, 7, 8, 9, 16, 17] };
    let mut id = 0;
    for rep in 0..count {
        for &size in &sizes {
            // set elements: distinct small/large values; sometimes with duplicates (multiset), sometimes containing 0
            let mut set: Vec<u64> = Vec::new();
            let style = r.below(4);
            while set.len() < size {
                let x = match style { 0 => 1 + r.below(50), 1 => r.next(), 2 => r.u64_edge(), _ => 3 + 2 * set.len() as u64 };
                if style == 0 || !set.contains(&x) { set.push(x); }
            }
            // members: first, last (the element used for padding), middle; non-members: 0, last+1, random
            let mut vals: Vec<u64> = Vec::new();
            if size > 0 { vals.push(set[0]); vals.push(set[size - 1]); vals.push(set[size / 2]); }
            for c in [0u64, 1, r.next(), set.last().copied().unwrap_or(5).wrapping_add(1)] { vals.push(c); }
            let pick = if full { vals.clone() } else {
                // quick: two members + two non-members per set, rotating
                let mut p = Vec::new();
                if size > 0 { p.push(vals[(rep as usize + size) % 3]); p.push(set[size - 1]); }
                p.push(0); p.push(vals[3 + ((rep as usize + size) % 4)]);
                p };
            for &v in &pick {
                set_case(&mut r, &mut aux, id, true, &set, v, full); id += 1;
                set_case(&mut r, &mut aux, id, false, &set, v, full); id += 1;
            }
        }
    }
}

// ------------------------------------------------------------------ inner product argument alone
fn ipa(seed: u64, count: u64) {
    let mut r = Rng::new(seed ^ 0x1FA);
    let mut aux = StdRng::seed_from_u64(r.next());
    let mut id = 0;
    for rep in 0..count {
        for &n in &[1usize, 2, 4, 8, 16, 32, 3, 0] {
            if rep > 0 && (n == 3 || n == 0) { continue; }
            let tk = id % 2;
            let g: Vec<Fr> = (0..n).map(|_| G1::generate_non_zero_scalar(&mut aux)).collect();
            let h: Vec<Fr> = (0..n).map(|_| G1::generate_non_zero_scalar(&mut aux)).collect();
            let q = G1::generate_non_zero_scalar(&mut aux);
            let a: Vec<Fr> = (0..n).map(|_| edge_scalar(&mut r, &mut aux)).collect();
            let b: Vec<Fr> = (0..n).map(|_| edge_scalar(&mut r, &mut aux)).collect();
            let G: Vec<G1> = g.iter().map(pmul).collect();
            let H: Vec<G1> = h.iter().map(pmul).collect();
            let Q = pmul(&q);
            let mut t = Rec::new(tk, "c11-ipa");
            let res = guarded(|| ipp::prove_inner_product(&mut t, &G, &H, &Q, &a, &b));
            let mut o = json!({"k": "ipa", "id": id, "n": n, "tk": tk, "g": shs(&g), "h": shs(&h), "q": sh(&q), "a": shs(&a), "b": shs(&b)});
            let m = o.as_object_mut().unwrap();
            match res {
                Err(e) => { m.insert("prove".into(), json!(format!("PANIC {}", e))); }
                Ok(None) => { m.insert("prove".into(), json!("None")); }
                Ok(Some(p)) => {
                    m.insert("prove".into(), json!("Some"));
                    m.insert("pch".into(), t.chal());
                    m.insert("lr".into(), json!(p.lr_vec.iter().map(|(l, r)| json!([ph(l), ph(r)])).collect::<Vec<_>>()));
                    m.insert("pa".into(), json!(sh(&p.a))); m.insert("pb".into(), json!(sh(&p.b)));
                    let ip = ipp::inner_product(&a, &b);
                    let Pp = multiexp(&G, &a).plus_point(&multiexp(&H, &b)).plus_point(&Q.mul_by_scalar(&ip));
                    let vf = |p: &ipp::InnerProductProof<G1>, Pp: &G1| { let mut t = Rec::new(tk, "c11-ipa");
                        match guarded(|| ipp::verify_inner_product(&mut t, &G, &H, Pp, &Q, p)) { Ok(x) => json!(x), Err(_) => json!("PANIC") } };
                    m.insert("verify".into(), vf(&p, &Pp));
                    m.insert("verify_wrong_P".into(), vf(&p, &Pp.plus_point(&G1::one_point())));
                    let mut rej = Vec::new();
                    for j in 0..p.lr_vec.len() {
                        let mut p2 = p.clone(); p2.lr_vec[j].0 = p2.lr_vec[j].0.plus_point(&G1::one_point()); rej.push(json!([format!("L{}", j), vf(&p2, &Pp)]));
                        let mut p2 = p.clone(); p2.lr_vec[j].1 = p2.lr_vec[j].1.plus_point(&G1::one_point()); rej.push(json!([format!("R{}", j), vf(&p2, &Pp)]));
                    }
                    let mut p2 = p.clone(); p2.a = fadd(&p2.a, &fr(1)); rej.push(json!(["a", vf(&p2, &Pp)]));
                    let mut p2 = p.clone(); p2.b = fadd(&p2.b, &fr(1)); rej.push(json!(["b", vf(&p2, &Pp)]));
                    m.insert("perturb".into(), json!(rej));
                    // the verifier's scalar vector s (public function) on a fresh transcript
                    let mut t = Rec::new(tk, "c11-ipa-s");
                    if let Ok(Some(vs)) = guarded(|| ipp::verify_scalars(&mut t, n, &p)) {
                        m.insert("s".into(), shs(&vs.s)); m.insert("u_sq".into(), shs(&vs.u_sq)); m.insert("u_inv_sq".into(), shs(&vs.u_inv_sq));
                        m.insert("sch".into(), t.chal());
                    }
                }
            }
            println!("{}", o);
            id += 1;
        }
    }
}


// ------------------------------------------------------------------ attack corpus: adaptive forgers
// Each forger assumes that ONE prover message is not bound by the challenges that follow it: it
// simulates the transcript with a placeholder in that position (the previous message repeated, the
// shape of the classic "appended the wrong variable" mistake), reads the challenges, and then SOLVES
// the verification equations for the unbound message.  The forgery satisfies both verifier equations
// under the simulated challenges (self-checked below with real curve arithmetic) for a FALSE statement
// (out-of-range value / no known opening).  The real verifier must reject every one of them.
fn finv(a: &Fr) -> Fr { a.inverse().expect("nonzero") }
fn powers(z: &Fr, n: usize) -> Vec<Fr> { let mut v = Vec::with_capacity(n); let mut c = fr(1); for _ in 0..n { v.push(c); c = fmul(&c, z); } v }
fn dotf(a: &[Fr], b: &[Fr]) -> Fr { a.iter().zip(b.iter()).fold(fr(0), |acc, (x, y)| fadd(&acc, &fmul(x, y))) }
fn mexp(ps: &[G1], ss: &[Fr]) -> G1 { assert_eq!(ps.len(), ss.len()); multiexp::<G1, G1>(ps, ss) }
fn rnd(aux: &mut StdRng) -> Fr { G1::generate_non_zero_scalar(aux) }
/// s_i = prod_j u_j^(+1 if bit (k-1-j) of i is set else -1)
fn svec_rec(us: &[Fr]) -> Vec<Fr> {
    let mut s = vec![fr(1)];
    for u in us.iter().rev() {
        let ui = finv(u);
        let mut t: Vec<Fr> = s.iter().map(|x| fmul(x, &ui)).collect();
        t.extend(s.iter().map(|x| fmul(x, u)));
        s = t;
    }
    s
}

struct Forge { n: u64, m: u64, ver: u64, tk: u64, pr: Params, G: Vec<G1>, H: Vec<G1>, vals: Vec<Fr>, rs: Vec<Fr>, coms: Vec<Commitment<G1>>, aL: Vec<Fr> }
const FDOM: &str = "c11-forge";
impl Forge {
    fn new(r: &mut Rng, aux: &mut StdRng, n: u64, m: u64, id: u64) -> Forge {
        let nm = (n * m) as usize;
        let pr = params(aux, nm);
        let G: Vec<G1> = pr.gens.G_H.iter().map(|x| x.0).collect();
        let H: Vec<G1> = pr.gens.G_H.iter().map(|x| x.1).collect();
        // values: low parts c_j, the value of block `bad` is c + 2^n (outside [0,2^n)); a_L = bits of c_j with
        // the top entry of the bad block increased by 2, so that <a_L_j, 2^n> = v_j but a_L is not a bit vector
        let bad = r.below(m) as usize;
        let two_n = fr(2).pow([n]);
        let mut vals = Vec::new(); let mut aL = Vec::new();
        for j in 0..m as usize {
            let c = pick_value(r, n);
            for i in 0..n { aL.push(if c & (1u64 << i) != 0 { fr(1) } else { fr(0) }); }
            if j == bad { let last = aL.len() - 1; aL[last] = fadd(&aL[last], &fr(2)); vals.push(fadd(&fr(c), &two_n)); } else { vals.push(fr(c)); }
        }
        let rs: Vec<Fr> = (0..m).map(|_| G1::generate_scalar(aux)).collect();
        let coms = vals.iter().zip(rs.iter()).map(|(v, rr)| pr.keys.hide(&Value::<G1>::new(*v), &Randomness::new(*rr))).collect();
        { let _ = id; Forge { n, m, ver: 1 + r.below(2), tk: r.below(2), pr, G, H, vals, rs, coms, aL } }
    }
    fn prelude(&self, t: &mut Rec) {
        if self.ver == 2 {
            t.append_message(b"G", &self.G); t.append_message(b"H", &self.H);
            t.append_message(b"v_keys", &self.pr.keys); t.append_message(b"n", &(self.n as u8));
        }
        for V in &self.coms { t.append_message(b"Vj", &V.0); }
    }
    fn nm(&self) -> usize { (self.n * self.m) as usize }
    /// e_i = z^(2 + i/n) 2^(i mod n)
    fn e_vec(&self, z: &Fr) -> Vec<Fr> {
        let zp = powers(z, self.m as usize + 3); let two = powers(&fr(2), self.n as usize);
        (0..self.nm()).map(|i| fmul(&zp[2 + i / self.n as usize], &two[i % self.n as usize])).collect()
    }
    fn delta(&self, y: &Fr, z: &Fr) -> Fr {
        let sy = powers(y, self.nm()).iter().fold(fr(0), |a, b| fadd(&a, b));
        let s2 = powers(&fr(2), self.n as usize).iter().fold(fr(0), |a, b| fadd(&a, b));
        let zp = powers(z, self.m as usize + 3);
        let sz = (0..self.m as usize).fold(fr(0), |a, j| fadd(&a, &zp[j + 3]));
        fsub(&fmul(&fsub(z, &fmul(z, z)), &sy), &fmul(&sz, &s2))
    }
    fn zweights(&self, z: &Fr) -> Vec<Fr> { let zp = powers(z, self.m as usize + 2); (0..self.m as usize).map(|j| zp[j + 2]).collect() }
    /// t_0 the verifier's first equation asks for:  sum z^(j+2) v_j + delta
    fn target_t0(&self, y: &Fr, z: &Fr) -> Fr { fadd(&dotf(&self.zweights(z), &self.vals), &self.delta(y, z)) }
    fn cvr(&self, z: &Fr) -> Fr { dotf(&self.zweights(z), &self.rs) }
    fn vterm(&self, z: &Fr) -> G1 { let cs: Vec<G1> = self.coms.iter().map(|c| c.0).collect(); mexp(&cs, &self.zweights(z)) }
    fn e_h(&self, y: &Fr, z: &Fr) -> Vec<Fr> {
        let yi = powers(&finv(y), self.nm()); let e = self.e_vec(z);
        (0..self.nm()).map(|i| fadd(z, &fmul(&yi[i], &e[i]))).collect()
    }
    /// both verifier equations with the given challenges (real curve arithmetic, textbook form)
    fn eqs_hold(&self, p: &Parts, y: &Fr, z: &Fr, x: &Fr, w: &Fr, us: &[Fr]) -> (bool, bool) {
        let (B, Bt) = (self.pr.keys.g, self.pr.keys.h);
        let (A, S, T1, T2) = (p.pts[0], p.pts[1], p.pts[2], p.pts[3]);
        let (tx, txt, et) = (p.scs[0], p.scs[1], p.scs[2]);
        let lhs1 = mexp(&[B, Bt], &[tx, txt]);
        let rhs1 = self.vterm(z).plus_point(&mexp(&[B, T1, T2], &[self.delta(y, z), *x, fmul(x, x)]));
        let nm = self.nm();
        if us.len() != p.lr.len() || (1usize << us.len()) != nm { return (lhs1 == rhs1, false); }
        let Q = B.mul_by_scalar(w);
        let mut bases: Vec<G1> = self.G.clone(); bases.extend(self.H.iter()); bases.extend([Q, Bt, A, S]);
        let mut exps: Vec<Fr> = vec![fneg(z); nm]; exps.extend(self.e_h(y, z)); exps.extend([tx, fneg(&et), fr(1), *x]);
        let mut lhs2 = mexp(&bases, &exps);
        for (j, (l, r)) in p.lr.iter().enumerate() {
            let ui = finv(&us[j]);
            lhs2 = lhs2.plus_point(&mexp(&[*l, *r], &[fmul(&us[j], &us[j]), fmul(&ui, &ui)]));
        }
        let s = svec_rec(us); let yi = powers(&finv(y), nm);
        let mut b2: Vec<G1> = self.G.clone(); b2.extend(self.H.iter()); b2.push(Q);
        let mut e2: Vec<Fr> = s.iter().map(|si| fmul(&p.a, si)).collect();
        e2.extend((0..nm).map(|i| fmul(&p.b, &fmul(&s[nm - 1 - i], &yi[i]))));
        e2.push(fmul(&p.a, &p.b));
        (lhs1 == rhs1, lhs2 == mexp(&b2, &e2))
    }
    fn verify_real(&self, p: &Parts) -> String {
        rp_verify(&p.build(), self.ver, self.tk, FDOM, self.n as u8, &self.coms, &self.pr.gens, &self.pr.keys).0
    }
    /// r_0, r_1 and l_0 for given a_L, a_R, s_R
    fn lr_coeffs(&self, aL: &[Fr], aR: &[Fr], sR: &[Fr], y: &Fr, z: &Fr) -> (Vec<Fr>, Vec<Fr>, Vec<Fr>) {
        let yp = powers(y, self.nm()); let e = self.e_vec(z);
        let l0: Vec<Fr> = aL.iter().map(|a| fsub(a, z)).collect();
        let r0: Vec<Fr> = (0..self.nm()).map(|i| fadd(&fmul(&yp[i], &fadd(&aR[i], z)), &e[i])).collect();
        let r1: Vec<Fr> = (0..self.nm()).map(|i| fmul(&yp[i], &sR[i])).collect();
        (l0, r0, r1)
    }
}

fn report(kind: &str, f: &Forge, p: &Parts, sim: (bool, bool)) {
    let real = f.verify_real(p);
    println!("{}", json!({"k": "forge", "kind": kind, "n": f.n, "m": f.m, "ver": f.ver, "tk": f.tk,
        "valid_under_simulated_challenges": sim.0 && sim.1, "eqs": [sim.0, sim.1], "verify": real, "proof": hex(&p.build())}));
}

/// last R_j of the inner-product argument not bound (challenges computed with L_j in its place)
fn forge_last_r(f: &Forge, aux: &mut StdRng) {
    let (B, Bt) = (f.pr.keys.g, f.pr.keys.h);
    let nm = f.nm(); let k = nm.trailing_zeros() as usize;
    let mut t = Rec::new(f.tk, FDOM); f.prelude(&mut t);
    let (A, S) = (pmul(&rnd(aux)), pmul(&rnd(aux)));   // no known opening at all
    t.append_message(b"A", &A); t.append_message(b"S", &S);
    let y: Fr = t.extract_challenge_scalar::<G1>(b"y"); let z: Fr = t.extract_challenge_scalar::<G1>(b"z");
    let (t1, t1t, t2, t2t) = (rnd(aux), rnd(aux), rnd(aux), rnd(aux));
    let (T1, T2) = (mexp(&[B, Bt], &[t1, t1t]), mexp(&[B, Bt], &[t2, t2t]));
    t.append_message(b"T1", &T1); t.append_message(b"T2", &T2);
    let x: Fr = t.extract_challenge_scalar::<G1>(b"x"); let xx = fmul(&x, &x);
    let tx = fadd(&f.target_t0(&y, &z), &fadd(&fmul(&t1, &x), &fmul(&t2, &xx)));
    let txt = fadd(&f.cvr(&z), &fadd(&fmul(&t1t, &x), &fmul(&t2t, &xx)));
    let et = rnd(aux);
    t.append_message(b"tx", &tx); t.append_message(b"tx_tilde", &txt); t.append_message(b"e_tilde", &et);
    let w: Fr = t.extract_challenge_scalar::<G1>(b"w");
    let Q = B.mul_by_scalar(&w);
    let Ls: Vec<G1> = (0..k).map(|_| pmul(&rnd(aux))).collect();
    let mut Rs: Vec<G1> = (0..k).map(|_| pmul(&rnd(aux))).collect();
    let (a, b) = (rnd(aux), rnd(aux));
    let mut us = Vec::new();
    for j in 0..k { t.append_message(b"Lj", &Ls[j]); t.append_message(b"Rj", &Ls[j]); us.push(t.extract_challenge_scalar::<G1>(b"uj")); }
    // solve  P' + sum u^2 L + u^-2 R = a<s,G> + b<s^-1 o y^-i,H> + ab Q  for the last R
    let mut bases: Vec<G1> = f.G.clone(); bases.extend(f.H.iter()); bases.extend([Q, Bt, A, S]);
    let mut exps: Vec<Fr> = vec![fneg(&z); nm]; exps.extend(f.e_h(&y, &z)); exps.extend([tx, fneg(&et), fr(1), x]);
    let mut acc = mexp(&bases, &exps);
    for j in 0..k { acc = acc.plus_point(&Ls[j].mul_by_scalar(&fmul(&us[j], &us[j])));
        if j + 1 < k { let ui = finv(&us[j]); acc = acc.plus_point(&Rs[j].mul_by_scalar(&fmul(&ui, &ui))); } }
    let s = svec_rec(&us); let yi = powers(&finv(&y), nm);
    let mut b2: Vec<G1> = f.G.clone(); b2.extend(f.H.iter()); b2.push(Q);
    let mut e2: Vec<Fr> = s.iter().map(|si| fmul(&a, si)).collect();
    e2.extend((0..nm).map(|i| fmul(&b, &fmul(&s[nm - 1 - i], &yi[i])))); e2.push(fmul(&a, &b));
    let rhs = mexp(&b2, &e2);
    let ul = us[k - 1];
    Rs[k - 1] = rhs.minus_point(&acc).mul_by_scalar(&fmul(&ul, &ul));
    let p = Parts { pts: vec![A, S, T1, T2], scs: vec![tx, txt, et], lr: Ls.iter().cloned().zip(Rs.iter().cloned()).collect(), a, b };
    let sim = f.eqs_hold(&p, &y, &z, &x, &w, &us);
    report("ipa_last_R_unbound", f, &p, sim);
}

/// honest inner-product argument on (l, r) continuing transcript t
fn honest_ipa(f: &Forge, t: &mut Rec, y: &Fr, w: &Fr, l: &[Fr], r: &[Fr]) -> ipp::InnerProductProof<G1> {
    let Q = f.pr.keys.g.mul_by_scalar(w);
    let hps = powers(&finv(y), f.nm());
    ipp::prove_inner_product_with_scalars(t, &f.G, &f.H, &hps, &Q, l, r).expect("ipa")
}

/// T_2 (or T_1 when `first`) not bound by x: out-of-range value, honest l(x), r(x); the unbound
/// commitment is solved from the first equation
fn forge_t(f: &Forge, aux: &mut StdRng, first: bool) {
    let (B, Bt) = (f.pr.keys.g, f.pr.keys.h); let nm = f.nm();
    let aL = f.aL.clone(); let aR: Vec<Fr> = aL.iter().map(|a| fsub(a, &fr(1))).collect();
    let sL: Vec<Fr> = (0..nm).map(|_| rnd(aux)).collect(); let sR: Vec<Fr> = (0..nm).map(|_| rnd(aux)).collect();
    let (at, st) = (rnd(aux), rnd(aux));
    let A = mexp(&f.G, &aL).plus_point(&mexp(&f.H, &aR)).plus_point(&Bt.mul_by_scalar(&at));
    let S = mexp(&f.G, &sL).plus_point(&mexp(&f.H, &sR)).plus_point(&Bt.mul_by_scalar(&st));
    let mut t = Rec::new(f.tk, FDOM); f.prelude(&mut t);
    t.append_message(b"A", &A); t.append_message(b"S", &S);
    let y: Fr = t.extract_challenge_scalar::<G1>(b"y"); let z: Fr = t.extract_challenge_scalar::<G1>(b"z");
    let (l0, r0, r1) = f.lr_coeffs(&aL, &aR, &sR, &y, &z);
    let (t0, t2) = (dotf(&l0, &r0), dotf(&sL, &r1)); let t1 = fadd(&dotf(&l0, &r1), &dotf(&sL, &r0));
    let (t1t, t2t) = (rnd(aux), rnd(aux));
    let T1h = mexp(&[B, Bt], &[t1, t1t]); let T2h = mexp(&[B, Bt], &[t2, t2t]);
    if first { t.append_message(b"T1", &S); t.append_message(b"T2", &T2h); }     // placeholder in T1's position
    else { t.append_message(b"T1", &T1h); t.append_message(b"T2", &T1h); }       // placeholder in T2's position
    let x: Fr = t.extract_challenge_scalar::<G1>(b"x"); let xx = fmul(&x, &x);
    let tx = fadd(&t0, &fadd(&fmul(&t1, &x), &fmul(&t2, &xx)));
    let txt = fadd(&f.cvr(&z), &fadd(&fmul(&t1t, &x), &fmul(&t2t, &xx)));
    // x T1 + x^2 T2 = tx B + txt Bt - Vterm - delta B : solve for the unbound one
    let base = mexp(&[B, Bt], &[fsub(&tx, &f.delta(&y, &z)), txt]).minus_point(&f.vterm(&z));
    let (T1, T2) = if first { (base.minus_point(&T2h.mul_by_scalar(&xx)).mul_by_scalar(&finv(&x)), T2h) }
                   else { (T1h, base.minus_point(&T1h.mul_by_scalar(&x)).mul_by_scalar(&finv(&xx))) };
    let et = fadd(&at, &fmul(&st, &x));
    t.append_message(b"tx", &tx); t.append_message(b"tx_tilde", &txt); t.append_message(b"e_tilde", &et);
    let w: Fr = t.extract_challenge_scalar::<G1>(b"w");
    let l: Vec<Fr> = (0..nm).map(|i| fadd(&l0[i], &fmul(&x, &sL[i]))).collect();
    let r: Vec<Fr> = (0..nm).map(|i| fadd(&r0[i], &fmul(&x, &r1[i]))).collect();
    let ip = honest_ipa(f, &mut t, &y, &w, &l, &r);
    let p = Parts { pts: vec![A, S, T1, T2], scs: vec![tx, txt, et], lr: ip.lr_vec.clone(), a: ip.a, b: ip.b };
    let sim = f.eqs_hold(&p, &y, &z, &x, &w, &t.us());
    report(if first { "T1_unbound" } else { "T2_unbound" }, f, &p, sim);
}

/// A not bound by y, z: a_R adjusted after seeing y, z so that t_0 has the value the verifier expects
fn forge_a(f: &Forge, aux: &mut StdRng) {
    let (B, Bt) = (f.pr.keys.g, f.pr.keys.h); let nm = f.nm();
    let sL: Vec<Fr> = (0..nm).map(|_| rnd(aux)).collect(); let sR: Vec<Fr> = (0..nm).map(|_| rnd(aux)).collect();
    let (at, st) = (rnd(aux), rnd(aux));
    let S = mexp(&f.G, &sL).plus_point(&mexp(&f.H, &sR)).plus_point(&Bt.mul_by_scalar(&st));
    let mut t = Rec::new(f.tk, FDOM); f.prelude(&mut t);
    t.append_message(b"A", &S); t.append_message(b"S", &S);   // placeholder in A's position
    let y: Fr = t.extract_challenge_scalar::<G1>(b"y"); let z: Fr = t.extract_challenge_scalar::<G1>(b"z");
    let aL = f.aL.clone(); let mut aR: Vec<Fr> = aL.iter().map(|a| fsub(a, &fr(1))).collect();
    let (l0, r0, _) = f.lr_coeffs(&aL, &aR, &sR, &y, &z);
    let d = fmul(&fsub(&f.target_t0(&y, &z), &dotf(&l0, &r0)), &finv(&l0[0]));   // y^0 = 1
    aR[0] = fadd(&aR[0], &d);
    let A = mexp(&f.G, &aL).plus_point(&mexp(&f.H, &aR)).plus_point(&Bt.mul_by_scalar(&at));
    let (l0, r0, r1) = f.lr_coeffs(&aL, &aR, &sR, &y, &z);
    let (t0, t2) = (dotf(&l0, &r0), dotf(&sL, &r1)); let t1 = fadd(&dotf(&l0, &r1), &dotf(&sL, &r0));
    let (t1t, t2t) = (rnd(aux), rnd(aux));
    let (T1, T2) = (mexp(&[B, Bt], &[t1, t1t]), mexp(&[B, Bt], &[t2, t2t]));
    t.append_message(b"T1", &T1); t.append_message(b"T2", &T2);
    let x: Fr = t.extract_challenge_scalar::<G1>(b"x"); let xx = fmul(&x, &x);
    let tx = fadd(&t0, &fadd(&fmul(&t1, &x), &fmul(&t2, &xx)));
    let txt = fadd(&f.cvr(&z), &fadd(&fmul(&t1t, &x), &fmul(&t2t, &xx)));
    let et = fadd(&at, &fmul(&st, &x));
    t.append_message(b"tx", &tx); t.append_message(b"tx_tilde", &txt); t.append_message(b"e_tilde", &et);
    let w: Fr = t.extract_challenge_scalar::<G1>(b"w");
    let l: Vec<Fr> = (0..nm).map(|i| fadd(&l0[i], &fmul(&x, &sL[i]))).collect();
    let r: Vec<Fr> = (0..nm).map(|i| fadd(&r0[i], &fmul(&x, &r1[i]))).collect();
    let ip = honest_ipa(f, &mut t, &y, &w, &l, &r);
    let p = Parts { pts: vec![A, S, T1, T2], scs: vec![tx, txt, et], lr: ip.lr_vec.clone(), a: ip.a, b: ip.b };
    let sim = f.eqs_hold(&p, &y, &z, &x, &w, &t.us());
    report("A_unbound", f, &p, sim);
}

/// S not bound at all: arbitrary l, r with <l,r> = t_x, S solved from the second equation
fn forge_s(f: &Forge, aux: &mut StdRng) {
    let (B, Bt) = (f.pr.keys.g, f.pr.keys.h); let nm = f.nm();
    let A = pmul(&rnd(aux));
    let mut t = Rec::new(f.tk, FDOM); f.prelude(&mut t);
    t.append_message(b"A", &A); t.append_message(b"S", &A);   // placeholder in S's position
    let y: Fr = t.extract_challenge_scalar::<G1>(b"y"); let z: Fr = t.extract_challenge_scalar::<G1>(b"z");
    let (t1, t1t, t2, t2t) = (rnd(aux), rnd(aux), rnd(aux), rnd(aux));
    let (T1, T2) = (mexp(&[B, Bt], &[t1, t1t]), mexp(&[B, Bt], &[t2, t2t]));
    t.append_message(b"T1", &T1); t.append_message(b"T2", &T2);
    let x: Fr = t.extract_challenge_scalar::<G1>(b"x"); let xx = fmul(&x, &x);
    let tx = fadd(&f.target_t0(&y, &z), &fadd(&fmul(&t1, &x), &fmul(&t2, &xx)));
    let txt = fadd(&f.cvr(&z), &fadd(&fmul(&t1t, &x), &fmul(&t2t, &xx)));
    let et = rnd(aux);
    t.append_message(b"tx", &tx); t.append_message(b"tx_tilde", &txt); t.append_message(b"e_tilde", &et);
    let w: Fr = t.extract_challenge_scalar::<G1>(b"w");
    let l: Vec<Fr> = (0..nm).map(|_| rnd(aux)).collect(); let mut r: Vec<Fr> = (0..nm).map(|_| rnd(aux)).collect();
    r[0] = fmul(&fsub(&tx, &dotf(&l[1..], &r[1..])), &finv(&l[0]));
    // x S = <l + z, G> + <r o y^-i - eH, H> + et Bt - A
    let yi = powers(&finv(&y), nm); let eh = f.e_h(&y, &z);
    let ge: Vec<Fr> = l.iter().map(|li| fadd(li, &z)).collect();
    let he: Vec<Fr> = (0..nm).map(|i| fsub(&fmul(&r[i], &yi[i]), &eh[i])).collect();
    let S = mexp(&f.G, &ge).plus_point(&mexp(&f.H, &he)).plus_point(&Bt.mul_by_scalar(&et)).minus_point(&A).mul_by_scalar(&finv(&x));
    let ip = honest_ipa(f, &mut t, &y, &w, &l, &r);
    let p = Parts { pts: vec![A, S, T1, T2], scs: vec![tx, txt, et], lr: ip.lr_vec.clone(), a: ip.a, b: ip.b };
    let sim = f.eqs_hold(&p, &y, &z, &x, &w, &t.us());
    report("S_unbound", f, &p, sim);
}

/// the inner-product argument alone: a proof for a random P' with no known opening
fn forge_ipa_alone(r: &mut Rng, aux: &mut StdRng, n: usize, id: u64) {
    let _ = r;
    let tk = id % 2; let k = n.trailing_zeros() as usize;
    let G: Vec<G1> = (0..n).map(|_| pmul(&rnd(aux))).collect(); let H: Vec<G1> = (0..n).map(|_| pmul(&rnd(aux))).collect();
    let Q = pmul(&rnd(aux)); let Pp = pmul(&rnd(aux));
    let Ls: Vec<G1> = (0..k).map(|_| pmul(&rnd(aux))).collect(); let mut Rs: Vec<G1> = (0..k).map(|_| pmul(&rnd(aux))).collect();
    let (a, b) = (rnd(aux), rnd(aux));
    let mut t = Rec::new(tk, "c11-forge-ipa");
    let mut us: Vec<Fr> = Vec::new();
    for j in 0..k { t.append_message(b"Lj", &Ls[j]); t.append_message(b"Rj", &Ls[j]); us.push(t.extract_challenge_scalar::<G1>(b"uj")); }
    let mut acc = Pp;
    for j in 0..k { acc = acc.plus_point(&Ls[j].mul_by_scalar(&fmul(&us[j], &us[j])));
        if j + 1 < k { let ui = finv(&us[j]); acc = acc.plus_point(&Rs[j].mul_by_scalar(&fmul(&ui, &ui))); } }
    let s = svec_rec(&us);
    let mut bases = G.clone(); bases.extend(H.iter()); bases.push(Q);
    let mut exps: Vec<Fr> = s.iter().map(|si| fmul(&a, si)).collect();
    exps.extend((0..n).map(|i| fmul(&b, &s[n - 1 - i]))); exps.push(fmul(&a, &b));
    let rhs = mexp(&bases, &exps);
    let ul = us[k - 1];
    Rs[k - 1] = rhs.minus_point(&acc).mul_by_scalar(&fmul(&ul, &ul));
    // self check under the simulated challenges
    let mut lhs = Pp;
    for j in 0..k { let ui = finv(&us[j]); lhs = lhs.plus_point(&mexp(&[Ls[j], Rs[j]], &[fmul(&us[j], &us[j]), fmul(&ui, &ui)])); }
    let proof = ipp::InnerProductProof::<G1> { lr_vec: Ls.iter().cloned().zip(Rs.iter().cloned()).collect(), a, b };
    let mut t2 = Rec::new(tk, "c11-forge-ipa");
    let real = match guarded(|| ipp::verify_inner_product(&mut t2, &G, &H, &Pp, &Q, &proof)) { Ok(true) => "Ok", Ok(false) => "Rejected", Err(_) => "PANIC" };
    println!("{}", json!({"k": "forge", "kind": "ipa_alone_last_R_unbound", "n": n, "m": 1, "ver": 0, "tk": tk,
        "valid_under_simulated_challenges": lhs == rhs, "verify": real}));
}

fn attacks(seed: u64, count: u64) {
    let mut r = Rng::new(seed ^ 0xF0E);
    let mut aux = StdRng::seed_from_u64(r.next());
    let shapes: [(u64, u64); 7] = [(2, 1), (4, 1), (8, 1), (8, 2), (16, 2), (32, 1), (64, 1)];
    let mut id = 0;
    for rep in 0..count {
        for &(n, m) in shapes.iter() {
            if rep > 0 && n * m > 16 { continue; }
            for kind in 0..5 {
                let f = Forge::new(&mut r, &mut aux, n, m, id);
                let res = guarded(|| match kind { 0 => forge_last_r(&f, &mut aux), 1 => forge_t(&f, &mut aux, false), 2 => forge_t(&f, &mut aux, true), 3 => forge_a(&f, &mut aux), _ => forge_s(&f, &mut aux) });
                if let Err(e) = res { println!("{}", json!({"k": "forge", "kind": kind, "n": n, "m": m, "error": e})); }
                id += 1;
            }
        }
        for &n in &[2usize, 4, 16, 64] { forge_ipa_alone(&mut r, &mut aux, n, id); id += 1; }
    }
}

// ------------------------------------------------------------------ range driver
fn range(seed: u64, tier: u64) {
    let mut r = Rng::new(seed ^ 0xA11);
    let mut aux = StdRng::seed_from_u64(r.next());
    // (n, m, repetitions): supported shapes have n*m a power of two (no padding in the range proof)
    let quick: Vec<(u64, u64, u64)> = vec![
        (1, 1, 2), (1, 2, 2), (2, 1, 2), (2, 2, 2), (4, 1, 2), (1, 4, 1), (4, 2, 2), (2, 4, 1), (8, 1, 2), (8, 2, 2), (4, 4, 1),
        (16, 1, 2), (16, 2, 1), (8, 4, 1), (32, 1, 2), (32, 2, 1), (64, 1, 2), (16, 4, 1), (64, 2, 1), (32, 4, 1), (64, 4, 1),
        // unsupported shapes: the prover must return None (n*m not a power of two)
        (3, 1, 1), (7, 1, 1), (63, 1, 1), (8, 3, 1), (8, 5, 1), (1, 3, 1), (2, 3, 1), (63, 2, 1), (1, 5, 1),
    ];
    let mut shapes = quick.clone();
    if tier >= 1 {
        shapes = quick.iter().map(|&(n, m, k)| (n, m, if n * m <= 64 { k * 12 } else { k * 4 })).collect();
        shapes.extend(vec![(2, 8, 4), (1, 8, 4), (1, 16, 2), (4, 8, 2), (8, 8, 2), (16, 8, 2), (32, 8, 1), (64, 8, 1), (2, 16, 2), (5, 1, 1), (6, 2, 1), (64, 3, 1), (64, 5, 1)]);
    }
    let mut id = 0;
    for &(n, m, k) in &shapes {
        for _ in 0..k { range_case(&mut r, &mut aux, id, n, m, tier >= 1); id += 1; }
    }
    // out-of-range values
    let outs: Vec<(u64, u64)> = vec![(1, 1), (2, 1), (4, 1), (8, 1), (8, 2), (16, 1), (32, 1), (32, 2), (64, 1), (64, 2), (16, 4), (1, 4), (2, 2), (4, 2)];
    let reps = if tier >= 1 { 12 } else { 1 };
    for _ in 0..reps { for &(n, m) in &outs { outside_case(&mut r, &mut aux, id, n, m); id += 1; } }
}

// ------------------------------------------------------------------ mulcheck: lines "scalarhex pointhex" -> ok / bad
fn mulcheck() {
    let stdin = std::io::stdin();
    for line in stdin.lock().lines() {
        let line = line.unwrap();
        let mut it = line.split_whitespace();
        let (s, p) = match (it.next(), it.next()) { (Some(s), Some(p)) => (s.to_string(), p.to_string()), _ => continue };
        let sc = Fr::deserial(&mut Cursor::new(unhex(&s)));
        let pt = G1::deserial(&mut Cursor::new(unhex(&p)));
        match (sc, pt) { (Ok(sc), Ok(pt)) => println!("{}", if pmul(&sc) == pt { "ok" } else { "bad" }), _ => println!("parse") }
    }
}

fn main() {
    quiet_panics();
    let a: Vec<String> = std::env::args().collect();
    let seed: u64 = a.get(2).map(|s| s.parse().unwrap()).unwrap_or(1);
    let n: u64 = a.get(3).map(|s| s.parse().unwrap()).unwrap_or(1);
    match a[1].as_str() {
        "range" => range(seed, n),
        "derived" => derived(seed, n),
        "sets" => sets(seed, n, a.get(4).map(|s| s == "full").unwrap_or(false)),
        "ipa" => ipa(seed, n),
        "attacks" => attacks(seed, n),
        "mulcheck" => mulcheck(),
        _ => panic!("mode"),
    }
}
