//! C17 harness: CBOR `Value` codec, derive-generated token types, token amounts.
//! Every case is printed as one JSON object per line; every implementation call runs under
//! `hlib::guarded`; a counting global allocator measures the peak allocation of each decode.
#![allow(clippy::type_complexity)]
use concordium_base::{
    common::{
        cbor::{
            self, value::Value, Bytes, CborDeserialize, CborSerialize, Decoder, DecimalFraction, MapKey,
            SerializationOptions, UnknownMapKeys, UnsignedDecimalFraction,
        },
        upward::{CborUpward, Upward},
    },
    contracts_common::{hashes::Hash, AccountAddress},
    protocol_level_tokens::*,
    transactions::Memo,
};
use hlib::{guarded, hex, quiet_panics, Rng};
use serde_json::{json, Value as J};
use std::{
    alloc::{GlobalAlloc, Layout, System},
    collections::HashMap,
    sync::atomic::{AtomicUsize, Ordering::SeqCst},
};

// ------------------------------------------------------------------ counting allocator
struct Counting;
static CUR: AtomicUsize = AtomicUsize::new(0);
static PEAK: AtomicUsize = AtomicUsize::new(0);
static MAXREQ: AtomicUsize = AtomicUsize::new(0);
unsafe impl GlobalAlloc for Counting {
    unsafe fn alloc(&self, l: Layout) -> *mut u8 {
        MAXREQ.fetch_max(l.size(), SeqCst);
        // refuse absurd requests instead of touching the memory: the request itself is recorded
        if l.size() > (1usize << 34) {
            return std::ptr::null_mut();
        }
        let p = System.alloc(l);
        if !p.is_null() {
            let c = CUR.fetch_add(l.size(), SeqCst) + l.size();
            PEAK.fetch_max(c, SeqCst);
        }
        p
    }
    unsafe fn dealloc(&self, p: *mut u8, l: Layout) {
        CUR.fetch_sub(l.size(), SeqCst);
        System.dealloc(p, l)
    }
    unsafe fn realloc(&self, p: *mut u8, l: Layout, n: usize) -> *mut u8 {
        MAXREQ.fetch_max(n, SeqCst);
        if n > (1usize << 34) {
            return std::ptr::null_mut();
        }
        let q = System.realloc(p, l, n);
        if !q.is_null() {
            if n >= l.size() {
                // old and new block may coexist during the move
                let c = CUR.fetch_add(n, SeqCst) + n;
                PEAK.fetch_max(c, SeqCst);
                CUR.fetch_sub(l.size(), SeqCst);
            } else {
                CUR.fetch_sub(l.size() - n, SeqCst);
            }
        }
        q
    }
}
#[global_allocator]
static A: Counting = Counting;

/// run `f`, return (result, peak bytes allocated above the level at entry, largest single request)
fn measured<T>(f: impl FnOnce() -> T) -> (T, usize, usize) {
    let base = CUR.load(SeqCst);
    PEAK.store(base, SeqCst);
    MAXREQ.store(0, SeqCst);
    let r = f();
    let peak = PEAK.load(SeqCst).saturating_sub(base);
    (r, peak, MAXREQ.load(SeqCst))
}

// ------------------------------------------------------------------ Value <-> JSON
fn vj(v: &Value) -> J {
    match v {
        Value::Positive(n) => json!(["P", n.to_string()]),
        Value::Negative(n) => json!(["N", n.to_string()]),
        Value::Bytes(b) => json!(["B", hex(&b.0)]),
        Value::Text(s) => json!(["T", hex(s.as_bytes())]),
        Value::Array(l) => json!(["A", l.iter().map(vj).collect::<Vec<_>>()]),
        Value::Map(l) => json!(["M", l.iter().map(|(k, x)| json!([vj(k), vj(x)])).collect::<Vec<_>>()]),
        Value::Tag(t, x) => json!(["G", t.to_string(), vj(x)]),
        Value::Bool(b) => json!(["b", b]),
        Value::Null => json!(["z"]),
        Value::Simple(n) => json!(["S", n]),
        Value::Float(f) => json!(["F", f.to_bits().to_string()]),
    }
}

fn enc<T: CborSerialize>(x: &T) -> Result<Vec<u8>, String> {
    match guarded(|| cbor::cbor_encode(x)) {
        Ok(Ok(b)) => Ok(b),
        Ok(Err(e)) => Err(format!("ERR {}", e)),
        Err(_) => Err("PANIC".into()),
    }
}
fn dec_opts<T: CborDeserialize>(b: &[u8], fail: bool) -> Result<T, String> {
    let o = SerializationOptions::default()
        .unknown_map_keys(if fail { UnknownMapKeys::Fail } else { UnknownMapKeys::Ignore });
    match guarded(|| cbor::cbor_decode_with_options::<T>(b, o)) {
        Ok(Ok(v)) => Ok(v),
        Ok(Err(_)) => Err("ERR".into()),
        Err(_) => Err("PANIC".into()),
    }
}

// ------------------------------------------------------------------ Value generator
const EDGE: [u64; 18] = [0, 1, 10, 23, 24, 25, 100, 255, 256, 257, 65535, 65536, 65537, 4294967295, 4294967296,
    4294967297, u64::MAX - 1, u64::MAX];
const FLOATS: [u64; 14] = [
    0x0000000000000000, 0x8000000000000000, 0x3ff0000000000000, 0x3ff8000000000000, 0xc000000000000000,
    0x40effc0000000000, 0x40f86a0000000000, 0x3ff199999999999a, 0x7ff0000000000000, 0xfff0000000000000,
    0x7e37e43c8800759c, 0x47efffffe0000000, 0x7ff8000000000000, 0x3e70000000000000,
];
fn int(r: &mut Rng) -> u64 {
    match r.below(4) { 0 | 1 => *r.pick(&EDGE), 2 => r.u64_edge(), _ => r.below(30) }
}
static LONG_OK: std::sync::atomic::AtomicBool = std::sync::atomic::AtomicBool::new(false);
fn text(r: &mut Rng) -> String {
    let pieces = ["a", "b", "key", "Z", "0", " ", "\u{e9}", "\u{20ac}", "\u{1f600}", "\u{7ff}", "\u{800}", "\u{ffff}", "\u{10000}", "\u{10ffff}", "\u{d7ff}", "\u{e000}", "\u{0}"];
    let sel = r.below(100);
    match if sel == 0 && !LONG_OK.load(SeqCst) { 5 } else { sel } {
        0 => {
            // long text with a multi-byte code point around a 4096-byte chunk boundary
            let base = if r.chance(1, 2) { 4096 } else { 8192 };
            let n = base - 5 + r.below(7) as usize;
            let mut s = "x".repeat(n);
            s.push_str(*r.pick(&["\u{e9}", "\u{20ac}", "\u{1f600}"]));
            s.push_str("yz");
            s
        }
        1 => "m".repeat(*r.pick(&[23usize, 24, 255, 256, 300])),
        _ => { let k = r.below(6); (0..k).map(|_| *r.pick(&pieces)).collect() }
    }
}
fn bytes(r: &mut Rng) -> Vec<u8> {
    let sel = r.below(80);
    let n = match if sel == 0 && !LONG_OK.load(SeqCst) { 5 } else { sel } { 0 => 4096 + r.below(3) as usize, 1 => *r.pick(&[23usize, 24, 255, 256]), _ => r.below(10) as usize };
    r.bytes(n)
}
fn leaf(r: &mut Rng) -> Value {
    match r.below(12) {
        0 | 1 | 2 => Value::Positive(int(r)),
        3 | 4 => Value::Negative(int(r)),
        5 => Value::Bytes(Bytes(bytes(r))),
        6 | 7 => Value::Text(text(r)),
        8 => Value::Bool(r.chance(1, 2)),
        9 => Value::Null,
        10 => { let s = *r.pick(&[0u8, 1, 19, 23, 24, 31, 32, 33, 100, 254, 255]); Value::Simple(s) }
        _ => Value::Float(f64::from_bits(*r.pick(&FLOATS))),
    }
}
/// `sorted`: map entries are put into the deterministic order (by encoded bytes)
fn gen_value(r: &mut Rng, depth: u64, sorted: bool) -> Value {
    if depth == 0 || r.chance(1, 4) { return leaf(r); }
    match r.below(7) {
        0 | 1 => { let n = r.below(4); Value::Array((0..n).map(|_| gen_value(r, depth - 1, sorted)).collect()) }
        2 | 3 => {
            let n = r.below(4);
            let mut es: Vec<(Value, Value)> = (0..n).map(|_| {
                let k = if r.chance(3, 4) { leaf(r) } else { gen_value(r, depth - 1, sorted) };
                (k, gen_value(r, depth - 1, sorted))
            }).collect();
            if r.chance(1, 8) && !es.is_empty() { let e = es[0].clone(); es.push(e); }
            if sorted { es.sort_by_key(|(k, x)| { let mut b = cbor::cbor_encode(k).unwrap(); b.extend(cbor::cbor_encode(x).unwrap()); b }); }
            Value::Map(es)
        }
        4 => Value::Tag(int(r), Box::new(gen_value(r, depth - 1, sorted))),
        5 => Value::Tag(*r.pick(&[2u64, 3, 4, 24, 40307]), Box::new(gen_value(r, depth - 1, sorted))),
        _ => leaf(r),
    }
}
/// a chain of exactly `depth` nested containers around a leaf
fn gen_deep(r: &mut Rng, depth: u64) -> Value {
    let mut v = leaf(r);
    for _ in 0..depth {
        v = match r.below(3) {
            0 => Value::Array(vec![v]),
            1 => Value::Map(vec![(Value::Positive(r.below(3)), v)]),
            _ => Value::Tag(r.below(100), Box::new(v)),
        };
    }
    v
}

// ------------------------------------------------------------------ raw (non-canonical) encoder
#[derive(Clone, Copy)]
struct Style { wide: u64, indef: u64, seg: u64 }   // chances in 16
fn raw_head(r: &mut Rng, st: Style, major: u8, arg: u64, out: &mut Vec<u8>) {
    let min_w = if arg < 24 { 0 } else if arg < 256 { 1 } else if arg < 65536 { 2 } else if arg < (1 << 32) { 4 } else { 8 };
    let mut w = min_w;
    if r.chance(st.wide, 16) { let ws = [0u8, 1, 2, 4, 8]; let c: Vec<u8> = ws.iter().copied().filter(|x| *x >= min_w).collect(); w = *r.pick(&c); }
    match w {
        0 => out.push(major << 5 | arg as u8),
        1 => { out.push(major << 5 | 24); out.push(arg as u8) }
        2 => { out.push(major << 5 | 25); out.extend((arg as u16).to_be_bytes()) }
        4 => { out.push(major << 5 | 26); out.extend((arg as u32).to_be_bytes()) }
        _ => { out.push(major << 5 | 27); out.extend(arg.to_be_bytes()) }
    }
}
fn raw_string(r: &mut Rng, st: Style, major: u8, data: &[u8], out: &mut Vec<u8>, nest: u64) {
    if r.chance(st.seg, 16) && nest < 3 {
        out.push(major << 5 | 31);
        // split at arbitrary byte positions (for text this may split a code point: must be rejected)
        let mut i = 0;
        while i < data.len() || r.chance(1, 6) {
            let k = if i < data.len() { 1 + r.below((data.len() - i) as u64) as usize } else { 0 };
            let k = if major == 3 && r.chance(7, 8) { // keep code points whole most of the time
                let mut k = k; while i + k < data.len() && (data[i + k] & 0xC0) == 0x80 { k += 1 } k } else { k };
            if r.chance(1, 10) { raw_string(r, st, major, &data[i..i + k], out, nest + 1) }
            else { raw_head(r, st, major, k as u64, out); out.extend(&data[i..i + k]); }
            i += k;
            if k == 0 { break }
        }
        out.push(0xff);
    } else {
        raw_head(r, st, major, data.len() as u64, out);
        out.extend(data);
    }
}
fn raw_encode(r: &mut Rng, st: Style, v: &Value, out: &mut Vec<u8>) {
    match v {
        Value::Positive(n) => raw_head(r, st, 0, *n, out),
        Value::Negative(n) => raw_head(r, st, 1, *n, out),
        Value::Bytes(b) => raw_string(r, st, 2, &b.0, out, 0),
        Value::Text(s) => raw_string(r, st, 3, s.as_bytes(), out, 0),
        Value::Array(l) => {
            let ind = r.chance(st.indef, 16);
            if ind { out.push(0x9f) } else { raw_head(r, st, 4, l.len() as u64, out) }
            for x in l { raw_encode(r, st, x, out) }
            if ind { out.push(0xff) }
        }
        Value::Map(l) => {
            let ind = r.chance(st.indef, 16);
            if ind { out.push(0xbf) } else { raw_head(r, st, 5, l.len() as u64, out) }
            for (k, x) in l { raw_encode(r, st, k, out); raw_encode(r, st, x, out) }
            if ind { out.push(0xff) }
        }
        Value::Tag(t, x) => { raw_head(r, st, 6, *t, out); raw_encode(r, st, x, out) }
        Value::Bool(b) => { if r.chance(st.wide, 32) { out.push(0xf8); out.push(20 + *b as u8) } else { out.push(0xf4 + *b as u8) } }
        Value::Null => { if r.chance(st.wide, 32) { out.extend([0xf8, 22]) } else { out.push(0xf6) } }
        Value::Simple(s) => { if *s < 24 && !r.chance(st.wide, 16) { out.push(0xe0 | s) } else { out.push(0xf8); out.push(*s) } }
        Value::Float(f) => { out.extend(cbor::cbor_encode(&Value::Float(*f)).unwrap()) }
    }
}

// ------------------------------------------------------------------ mode: values
fn values(seed: u64, n: u64, maxdepth: u64) {
    LONG_OK.store(true, SeqCst);
    let mut r = Rng::new(seed);
    println!("{}", json!({"k":"meta","value_size": std::mem::size_of::<Value>(), "pair_size": std::mem::size_of::<(Value, Value)>()}));
    // regression corpus first (F-C17-1): multi-byte code points on the 4096-byte read-chunk boundaries
    let mut corpus: Vec<Value> = vec![];
    for (n, cp) in [(4095usize, "\u{e9}"), (4094, "\u{1f600}"), (4093, "\u{20ac}"), (8191, "\u{e9}"), (8190, "\u{20ac}")] {
        corpus.push(Value::Text("x".repeat(n) + cp + "yz"));
    }
    corpus.push(Value::Map(vec![(Value::Text("k".repeat(4095) + "\u{e9}"), Value::Array(vec![Value::Text("x".repeat(4094) + "\u{10ffff}")]))]));
    let ncorpus = corpus.len() as u64;
    for i in 0..n + ncorpus {
        let sorted = i % 4 != 0;
        let v = if i < ncorpus { corpus[i as usize].clone() } else { loop {
            let v = if i % 10 == 9 { let d = 1 + r.below(maxdepth); gen_deep(&mut r, d) } else { let d = 1 + r.below(maxdepth.min(8)); gen_value(&mut r, d, sorted) };
            if enc(&v).map(|b| b.len()).unwrap_or(0) <= 12000 { break v }
        } };
        let e = enc(&v);
        let mut o = json!({"k":"val","v":vj(&v)});
        match e {
            Ok(b) => {
                o["hex"] = json!(hex(&b));
                let e2 = enc(&v);
                let (d, peak, maxreq) = measured(|| dec_opts::<Value>(&b, true));
                o["peak"] = json!(peak); o["maxreq"] = json!(maxreq);
                match d {
                    Ok(d) => {
                        o["rt"] = vj(&d);
                        o["reenc_same"] = json!(enc(&d).ok().as_ref() == Some(&b));
                    }
                    Err(s) => o["rt"] = json!(s),
                }
                o["det"] = json!(e2.ok().as_ref() == Some(&b));
            }
            Err(s) => o["hex"] = json!(s),
        }
        println!("{}", o);
    }
}

// ------------------------------------------------------------------ mode: bytes (hostile / non-canonical streams)
fn mutate(r: &mut Rng, b: &mut Vec<u8>) -> &'static str {
    match r.below(9) {
        0 => { let k = r.below(b.len() as u64 + 1) as usize; b.truncate(k); "truncate" }
        1 => { if !b.is_empty() { let i = r.below(b.len() as u64) as usize; b[i] ^= 1 << r.below(8); } "bitflip" }
        2 => { let t = r.below(3) + 1; for _ in 0..t { b.push(r.next() as u8) } "trailing" }
        3 => { if !b.is_empty() { let i = r.below(b.len() as u64) as usize; b[i] = *r.pick(&[0x1cu8, 0x1f, 0x3f, 0x5f, 0x7f, 0x9f, 0xbf, 0xdf, 0xff, 0xfc, 0xf8, 0x9b, 0xbb, 0x5b, 0x7b]); } "headbyte" }
        4 => { // huge declared length in front
            let m = *r.pick(&[2u8, 3, 4, 5]); let l: u64 = *r.pick(&[1 << 16, 1 << 20, 1 << 24, 1 << 28, 1 << 32, 1 << 48, (1 << 56) - 1, u64::MAX, u64::MAX >> 1]);
            let mut p = vec![m << 5 | 27]; p.extend(l.to_be_bytes()); p.extend(b.iter()); *b = p; "hugelen" }
        5 => { if !b.is_empty() { let i = r.below(b.len() as u64) as usize; b.insert(i, 0xff); } "break" }
        6 => { if !b.is_empty() { let i = r.below(b.len() as u64) as usize; b.remove(i); } "delete" }
        7 => { if b.len() > 1 { let i = r.below(b.len() as u64 - 1) as usize; b.swap(i, i + 1); } "swap" }
        _ => "none",
    }
}
fn bytes_mode(seed: u64, n: u64, maxdepth: u64) {
    LONG_OK.store(true, SeqCst);
    let mut r = Rng::new(seed ^ 0xb17e5);
    for i in 0..n {
        let st = match i % 4 { 0 => Style { wide: 0, indef: 0, seg: 0 }, 1 => Style { wide: 8, indef: 0, seg: 0 }, 2 => Style { wide: 2, indef: 8, seg: 6 }, _ => Style { wide: 4, indef: 4, seg: 3 } };
        let d = 1 + r.below(maxdepth.min(6));
        let mut b = Vec::new();
        loop {
            let v = if i % 13 == 12 { let dd = 1 + r.below(maxdepth); gen_deep(&mut r, dd) } else { let so = r.chance(1, 2); gen_value(&mut r, d, so) };
            b.clear();
            raw_encode(&mut r, st, &v, &mut b);
            if b.len() <= 12000 { break }
        }
        let mut muts = vec![];
        if i % 3 != 0 { let k = 1 + r.below(2); for _ in 0..k { muts.push(mutate(&mut r, &mut b)) } }
        if i % 50 == 49 { let k = r.below(12) as usize; b = r.bytes(k); muts.push("random") }
        // announce the input first: if the decode aborts the process (allocation failure), the last
        // pending line names the input
        println!("{}", json!({"k":"pending","hex":hex(&b)}));
        // whole-input decode (cbor_decode) with allocation measurement
        let (top, peak, maxreq) = measured(|| dec_opts::<Value>(&b, true));
        // prefix decode: one data item, then the offset
        let pre = guarded(|| { let mut d = Decoder::new(b.as_slice(), SerializationOptions::default()); let v = Value::deserialize(&mut d); v.map(|v| (v, d.offset())) });
        let prej = match pre { Ok(Ok((v, off))) => json!({"v": vj(&v), "off": off}), Ok(Err(_)) => json!("ERR"), Err(_) => json!("PANIC") };
        let topj = match &top { Ok(v) => json!({"v": vj(v)}), Err(s) => json!(s) };
        // re-encoding of an accepted stream is stable
        let stable = match &top { Ok(v) => { let e1 = enc(v); let e2 = e1.as_ref().ok().and_then(|e| dec_opts::<Value>(e, true).ok()).map(|v2| enc(&v2)); json!(e2.map(|x| x == e1).unwrap_or(false)) } Err(_) => json!(null) };
        println!("{}", json!({"k":"bytes","hex":hex(&b),"top":topj,"pre":prej,"peak":peak,"maxreq":maxreq,"len":b.len(),"muts":muts,"stable":stable}));
    }
}

// ------------------------------------------------------------------ typed values: sval JSON
fn xn(n: u64) -> J { json!(["XN", n.to_string()]) }
fn xz(n: i64) -> J { json!(["XZ", n.to_string()]) }
fn xb(b: bool) -> J { json!(["XBool", b]) }
fn xt(s: &str) -> J { json!(["XText", hex(s.as_bytes())]) }
fn xby(b: &[u8]) -> J { json!(["XBytes", hex(b)]) }
fn xo<T>(o: &Option<T>, f: impl Fn(&T) -> J) -> J { match o { None => json!(["XNone"]), Some(x) => json!(["XSome", f(x)]) } }
fn xs(fields: Vec<J>, other: Vec<(J, J)>) -> J {
    let mut o: Vec<J> = other.into_iter().map(|(k, v)| json!([k, v])).collect();
    o.sort_by_key(|e| e[0].to_string());
    json!(["XStruct", fields, o])
}
fn xother(m: &HashMap<String, Value>) -> Vec<(J, J)> { m.iter().map(|(k, v)| (vj(&Value::Text(k.clone())), vj(v))).collect() }
fn xv(i: u64, x: J) -> J { json!(["XVariant", i, x]) }

trait T17: CborSerialize + CborDeserialize + PartialEq + std::fmt::Debug + Sized {
    fn gen(r: &mut Rng) -> Self;
    fn sv(&self) -> J;
}

fn addr(r: &mut Rng) -> AccountAddress { let mut a = [0u8; 32]; for x in a.iter_mut() { *x = r.next() as u8 } if r.chance(1, 6) { a = [0xff; 32] } AccountAddress(a) }
fn small_text(r: &mut Rng) -> String { match r.below(5) { 0 => String::new(), 1 => "https://example.com/\u{e9}".into(), 2 => "x".repeat(*r.pick(&[23usize, 24, 255, 256])), _ => text(r) } }
fn opt<T>(r: &mut Rng, f: impl FnOnce(&mut Rng) -> T) -> Option<T> { if r.chance(1, 2) { Some(f(r)) } else { None } }
fn additional(r: &mut Rng, declared: &[&str]) -> HashMap<String, Value> {
    let mut m = HashMap::new();
    let n = match r.below(4) { 0 | 1 => 0, 2 => 1, _ => 2 + r.below(2) };
    for _ in 0..n {
        let k = loop { let k = match r.below(4) { 0 => "other1".to_string(), 1 => "_x".to_string(), 2 => format!("k{}", r.below(50)), _ => small_text(r) }; if !declared.contains(&k.as_str()) { break k } };
        m.insert(k, gen_value(r, 2, true));
    }
    m
}

impl T17 for TokenAmount {
    fn gen(r: &mut Rng) -> Self { TokenAmount::from_raw(int(r), match r.below(4) { 0 => 0, 1 => 255, 2 => *r.pick(&[1u8, 6, 23, 24, 28, 29, 254]), _ => r.below(256) as u8 }) }
    fn sv(&self) -> J { json!(["XList", [xz(-(self.decimals() as i64)), xn(self.value())]]) }
}
impl T17 for DecimalFraction {
    fn gen(r: &mut Rng) -> Self { DecimalFraction::new(sint(r), sint(r)) }
    fn sv(&self) -> J { json!(["XList", [xz(self.exponent()), xz(self.mantissa())]]) }
}
impl T17 for UnsignedDecimalFraction {
    fn gen(r: &mut Rng) -> Self { UnsignedDecimalFraction::new(sint(r), int(r)) }
    fn sv(&self) -> J { json!(["XList", [xz(self.exponent()), xn(self.mantissa())]]) }
}
fn sint(r: &mut Rng) -> i64 { match r.below(6) { 0 => i64::MIN, 1 => i64::MAX, 2 => -1, 3 => -(r.below(300) as i64), 4 => r.u64_edge() as i64, _ => r.below(300) as i64 } }
impl T17 for CoinInfo {
    fn gen(_: &mut Rng) -> Self { CoinInfo::CCD }
    fn sv(&self) -> J { xs(vec![xn(919)], vec![]) }
}
impl T17 for CborHolderAccount {
    fn gen(r: &mut Rng) -> Self { CborHolderAccount { coin_info: opt(r, |_| CoinInfo::CCD), address: addr(r) } }
    fn sv(&self) -> J { xs(vec![xo(&self.coin_info, |c| c.sv()), xby(&self.address.0)], vec![]) }
}
fn memo(r: &mut Rng) -> Memo { let n = *r.pick(&[0usize, 1, 4, 23, 24, 255, 256]); Memo::try_from(r.bytes(n)).unwrap() }
impl T17 for CborMemo {
    fn gen(r: &mut Rng) -> Self { if r.chance(1, 2) { CborMemo::Raw(memo(r)) } else { CborMemo::Cbor(memo(r)) } }
    fn sv(&self) -> J { match self { CborMemo::Raw(m) => xv(1, xby(m.as_ref())), CborMemo::Cbor(m) => xv(0, xby(m.as_ref())) } }
}
impl T17 for TokenTransfer {
    fn gen(r: &mut Rng) -> Self { TokenTransfer { amount: T17::gen(r), recipient: T17::gen(r), memo: opt(r, CborMemo::gen) } }
    fn sv(&self) -> J { xs(vec![self.amount.sv(), self.recipient.sv(), xo(&self.memo, |m| m.sv())], vec![]) }
}
impl T17 for TokenSupplyUpdateDetails {
    fn gen(r: &mut Rng) -> Self { TokenSupplyUpdateDetails { amount: T17::gen(r) } }
    fn sv(&self) -> J { xs(vec![self.amount.sv()], vec![]) }
}
impl T17 for TokenPauseDetails {
    fn gen(_: &mut Rng) -> Self { TokenPauseDetails {} }
    fn sv(&self) -> J { xs(vec![], vec![]) }
}
impl T17 for TokenListUpdateDetails {
    fn gen(r: &mut Rng) -> Self { TokenListUpdateDetails { target: T17::gen(r) } }
    fn sv(&self) -> J { xs(vec![self.target.sv()], vec![]) }
}
impl T17 for TokenOperation {
    fn gen(r: &mut Rng) -> Self {
        use TokenOperation::*;
        match r.below(9) { 0 => Transfer(T17::gen(r)), 1 => Mint(T17::gen(r)), 2 => Burn(T17::gen(r)), 3 => AddAllowList(T17::gen(r)), 4 => RemoveAllowList(T17::gen(r)),
            5 => AddDenyList(T17::gen(r)), 6 => RemoveDenyList(T17::gen(r)), 7 => Pause(TokenPauseDetails {}), _ => Unpause(TokenPauseDetails {}) }
    }
    fn sv(&self) -> J {
        use TokenOperation::*;
        match self { Transfer(x) => xv(0, x.sv()), Mint(x) => xv(1, x.sv()), Burn(x) => xv(2, x.sv()), AddAllowList(x) => xv(3, x.sv()), RemoveAllowList(x) => xv(4, x.sv()),
            AddDenyList(x) => xv(5, x.sv()), RemoveDenyList(x) => xv(6, x.sv()), Pause(x) => xv(7, x.sv()), Unpause(x) => xv(8, x.sv()) }
    }
}
impl T17 for TokenOperations {
    fn gen(r: &mut Rng) -> Self {
        let n = r.below(5);
        TokenOperations::new((0..n).map(|_| if r.chance(1, 5) {
            // an operation of a future protocol version: single-entry map with an undeclared key
            let k = r.pick(&["freeze", "transferFrom", "x", "Pause", ""]).to_string();
            Upward::Unknown(Value::Map(vec![(Value::Text(k), gen_value(r, 2, true))]))
        } else { Upward::Known(TokenOperation::gen(r)) }).collect())
    }
    fn sv(&self) -> J { json!(["XList", self.operations.iter().map(|o| match o { Upward::Known(x) => json!(["XKnown", x.sv()]), Upward::Unknown(v) => json!(["XUnknown", vj(v)]) }).collect::<Vec<_>>()]) }
}
impl T17 for TokenListUpdateEventDetails {
    fn gen(r: &mut Rng) -> Self { TokenListUpdateEventDetails { target: T17::gen(r) } }
    fn sv(&self) -> J { xs(vec![self.target.sv()], vec![]) }
}
impl T17 for TokenPauseEventDetails {
    fn gen(_: &mut Rng) -> Self { TokenPauseEventDetails {} }
    fn sv(&self) -> J { xs(vec![], vec![]) }
}
fn idx(r: &mut Rng) -> usize { int(r) as usize }
impl T17 for AddressNotFoundRejectReason {
    fn gen(r: &mut Rng) -> Self { Self { index: idx(r), address: T17::gen(r) } }
    fn sv(&self) -> J { xs(vec![xn(self.index as u64), self.address.sv()], vec![]) }
}
impl T17 for TokenBalanceInsufficientRejectReason {
    fn gen(r: &mut Rng) -> Self { Self { index: idx(r), available_balance: T17::gen(r), required_balance: T17::gen(r) } }
    fn sv(&self) -> J { xs(vec![xn(self.index as u64), self.available_balance.sv(), self.required_balance.sv()], vec![]) }
}
impl T17 for DeserializationFailureRejectReason {
    fn gen(r: &mut Rng) -> Self { Self { cause: opt(r, small_text) } }
    fn sv(&self) -> J { xs(vec![xo(&self.cause, |s| xt(s))], vec![]) }
}
impl T17 for UnsupportedOperationRejectReason {
    fn gen(r: &mut Rng) -> Self { Self { index: idx(r), operation_type: small_text(r), reason: opt(r, small_text) } }
    fn sv(&self) -> J { xs(vec![xn(self.index as u64), xt(&self.operation_type), xo(&self.reason, |s| xt(s))], vec![]) }
}
impl T17 for OperationNotPermittedRejectReason {
    fn gen(r: &mut Rng) -> Self { Self { index: idx(r), address: opt(r, CborHolderAccount::gen), reason: opt(r, small_text) } }
    fn sv(&self) -> J { xs(vec![xn(self.index as u64), xo(&self.address, |a| a.sv()), xo(&self.reason, |s| xt(s))], vec![]) }
}
impl T17 for MintWouldOverflowRejectReason {
    fn gen(r: &mut Rng) -> Self { Self { index: idx(r), requested_amount: T17::gen(r), current_supply: T17::gen(r), max_representable_amount: T17::gen(r) } }
    fn sv(&self) -> J { xs(vec![xn(self.index as u64), self.requested_amount.sv(), self.current_supply.sv(), self.max_representable_amount.sv()], vec![]) }
}
impl T17 for MetadataUrl {
    fn gen(r: &mut Rng) -> Self { MetadataUrl { url: small_text(r), checksum_sha_256: opt(r, |r| { let mut h = [0u8; 32]; for x in h.iter_mut() { *x = r.next() as u8 } Hash::from(h) }), additional: additional(r, &["url", "checksumSha256"]) } }
    fn sv(&self) -> J { xs(vec![xt(&self.url), xo(&self.checksum_sha_256, |h| xby(h.as_ref()))], xother(&self.additional)) }
}
impl T17 for TokenModuleAccountState {
    fn gen(r: &mut Rng) -> Self { Self { allow_list: opt(r, |r| r.chance(1, 2)), deny_list: opt(r, |r| r.chance(1, 2)), additional: additional(r, &["allowList", "denyList"]) } }
    fn sv(&self) -> J { xs(vec![xo(&self.allow_list, |b| xb(*b)), xo(&self.deny_list, |b| xb(*b))], xother(&self.additional)) }
}
const STATE_KEYS: [&str; 9] = ["name", "metadata", "governanceAccount", "allowList", "denyList", "mintable", "burnable", "paused", "initialSupply"];
impl T17 for TokenModuleState {
    fn gen(r: &mut Rng) -> Self {
        Self { name: opt(r, small_text), metadata: opt(r, MetadataUrl::gen), governance_account: opt(r, CborHolderAccount::gen), allow_list: opt(r, |r| r.chance(1, 2)),
            deny_list: opt(r, |r| r.chance(1, 2)), mintable: opt(r, |r| r.chance(1, 2)), burnable: opt(r, |r| r.chance(1, 2)), paused: opt(r, |r| r.chance(1, 2)), additional: additional(r, &STATE_KEYS) }
    }
    fn sv(&self) -> J {
        xs(vec![xo(&self.name, |s| xt(s)), xo(&self.metadata, |m| m.sv()), xo(&self.governance_account, |a| a.sv()), xo(&self.allow_list, |b| xb(*b)), xo(&self.deny_list, |b| xb(*b)),
            xo(&self.mintable, |b| xb(*b)), xo(&self.burnable, |b| xb(*b)), xo(&self.paused, |b| xb(*b))], xother(&self.additional))
    }
}
impl T17 for TokenModuleInitializationParameters {
    fn gen(r: &mut Rng) -> Self {
        Self { name: opt(r, small_text), metadata: opt(r, MetadataUrl::gen), governance_account: opt(r, CborHolderAccount::gen), allow_list: opt(r, |r| r.chance(1, 2)),
            deny_list: opt(r, |r| r.chance(1, 2)), initial_supply: opt(r, TokenAmount::gen), mintable: opt(r, |r| r.chance(1, 2)), burnable: opt(r, |r| r.chance(1, 2)), additional: additional(r, &STATE_KEYS) }
    }
    fn sv(&self) -> J {
        xs(vec![xo(&self.name, |s| xt(s)), xo(&self.metadata, |m| m.sv()), xo(&self.governance_account, |a| a.sv()), xo(&self.allow_list, |b| xb(*b)), xo(&self.deny_list, |b| xb(*b)),
            xo(&self.initial_supply, |a| a.sv()), xo(&self.mintable, |b| xb(*b)), xo(&self.burnable, |b| xb(*b))], xother(&self.additional))
    }
}

// perturbation of an encoded typed value at the generic level
fn all_maps<'a>(v: &'a mut Value, out: &mut Vec<*mut Value>) {
    match v {
        Value::Map(_) => { out.push(v as *mut Value); if let Value::Map(l) = v { for (_, x) in l.iter_mut() { all_maps(x, out) } } }
        Value::Array(l) => for x in l.iter_mut() { all_maps(x, out) },
        Value::Tag(..) => { out.push(v as *mut Value); if let Value::Tag(_, x2) = v { all_maps(x2, out) } }
        _ => {}
    }
}
fn perturb(r: &mut Rng, v: &mut Value) -> &'static str {
    let mut nodes = vec![];
    all_maps(v, &mut nodes);
    if nodes.is_empty() { *v = leaf(r); return "replace-root" }
    let p = *r.pick(&nodes);
    // SAFETY: the pointers come from a single traversal of `v`, only one is dereferenced
    let node = unsafe { &mut *p };
    match node {
        Value::Map(l) => match r.below(9) {
            0 => { if !l.is_empty() { let i = r.below(l.len() as u64) as usize; l.remove(i); } "drop-entry" }
            1 => { l.push((Value::Text(r.pick(&["zzUnknown", "a", "Amount", "typo", ""]).to_string()), gen_value(r, 2, true))); "add-unknown-text-key" }
            2 => { l.push((Value::Positive(r.below(9)), gen_value(r, 1, true))); "add-int-key" }
            3 => { l.reverse(); "reverse" }
            4 => { if !l.is_empty() { let i = r.below(l.len() as u64) as usize; let mut e = l[i].clone(); e.1 = leaf(r); if r.chance(1, 2) { l.push(e) } else { l.insert(0, e) } } "duplicate-key" }
            5 => { if !l.is_empty() { let i = r.below(l.len() as u64) as usize; l[i].1 = leaf(r); } "wrong-type" }
            6 => { if !l.is_empty() { let i = r.below(l.len() as u64) as usize; l[i].1 = Value::Null; } "null-value" }
            7 => { l.push((gen_value(r, 1, true), Value::Positive(1))); "odd-key" }
            _ => { if !l.is_empty() { let i = r.below(l.len() as u64) as usize; if let Value::Text(s) = &mut l[i].0 { if r.chance(1, 2) { s.push('x') } else { *s = s.to_uppercase() } } } "key-typo" }
        },
        Value::Tag(t, x) => match r.below(4) {
            0 => { *t = *r.pick(&[2u64, 3, 4, 24, 40305, 40307, 40306, 0]); "retag" }
            1 => { let inner = (**x).clone(); *node = inner; "untag" }
            2 => { if let Value::Array(l) = &mut **x { if r.chance(1, 2) { l.push(Value::Positive(0)) } else if !l.is_empty() { l.pop(); } } "array-len" }
            _ => { if let Value::Array(l) = &mut **x { if !l.is_empty() { let i = r.below(l.len() as u64) as usize; l[i] = match r.below(5) { 0 => Value::Positive(int(r)), 1 => Value::Negative(int(r)),
                        2 => { let k = r.below(11) as usize; Value::Tag(2, Box::new(Value::Bytes(Bytes(r.bytes(k))))) } 3 => { let k = r.below(10) as usize; Value::Tag(3, Box::new(Value::Bytes(Bytes(r.bytes(k))))) } _ => leaf(r) }; } } "array-elem" }
        },
        _ => "none",
    }
}

fn typed_one<T: T17>(name: &str, r: &mut Rng, n: u64) {
    for i in 0..n {
        let x = T::gen(r);
        let mut o = json!({"k":"typed","ty":name,"x":x.sv()});
        let e = match enc(&x) { Ok(b) => b, Err(s) => { o["hex"] = json!(s); println!("{}", o); continue } };
        o["hex"] = json!(hex(&e));
        // direct oracles on the implementation alone
        o["det"] = json!(enc(&x).ok().as_ref() == Some(&e));
        let back = dec_opts::<T>(&e, true);
        // equality through the printed form: floats inside catch-all values compare bitwise (NaN == NaN)
        let xs = x.sv();
        o["rt"] = json!(match &back { Ok(y) => if y.sv() == xs { "same".to_string() } else { format!("DIFFERENT {:?}", y) }, Err(s) => s.clone() });
        o["rt_ignore"] = json!(matches!(dec_opts::<T>(&e, false), Ok(y) if y.sv() == xs));
        o["reenc"] = json!(back.ok().and_then(|y| enc(&y).ok()).as_ref() == Some(&e));
        println!("{}", o);
        // perturbed encodings decoded under both options
        let gv = match dec_opts::<Value>(&e, true) { Ok(v) => v, Err(_) => continue };
        let reps = if i % 2 == 0 { 2 } else { 1 };
        for _ in 0..reps {
            let mut v = gv.clone();
            let what = perturb(r, &mut v);
            let st = match r.below(4) { 0 => Style { wide: 0, indef: 0, seg: 0 }, 1 => Style { wide: 6, indef: 0, seg: 0 }, 2 => Style { wide: 0, indef: 8, seg: 4 }, _ => Style { wide: 3, indef: 3, seg: 2 } };
            let mut b = Vec::new();
            raw_encode(r, st, &v, &mut b);
            if r.chance(1, 12) { b.push(0) }
            println!("{}", json!({"k":"pending","ty":name,"hex":hex(&b)}));
            let (rf, peak, _) = measured(|| dec_opts::<T>(&b, true));
            let ri = dec_opts::<T>(&b, false);
            let j = |res: &Result<T, String>| match res { Ok(y) => json!({"x": y.sv()}), Err(s) => json!(s) };
            // whatever is accepted must re-encode deterministically and decode to itself
            let fix = match &ri { Ok(y) => match enc(y) { Ok(e2) => json!(matches!(dec_opts::<T>(&e2, false).map(|z| enc(&z)), Ok(Ok(e3)) if e3 == e2)), Err(_) => json!(false) }, Err(_) => json!(null) };
            println!("{}", json!({"k":"tdec","ty":name,"hex":hex(&b),"what":what,"fail":j(&rf),"ignore":j(&ri),"peak":peak,"len":b.len(),"fix":fix}));
        }
    }
}

fn typed(seed: u64, n: u64, only: &str) {
    let mut r = Rng::new(seed ^ 0x7e9d);
    macro_rules! t { ($t:ty, $name:expr, $m:expr) => { if only.is_empty() || only == $name { typed_one::<$t>($name, &mut r, n * $m) } }; }
    t!(TokenAmount, "TokenAmount", 3);
    t!(DecimalFraction, "DecimalFraction", 1);
    t!(UnsignedDecimalFraction, "UnsignedDecimalFraction", 1);
    t!(CoinInfo, "CoinInfo", 1);
    t!(CborHolderAccount, "CborHolderAccount", 2);
    t!(CborMemo, "CborMemo", 1);
    t!(TokenTransfer, "TokenTransfer", 2);
    t!(TokenSupplyUpdateDetails, "TokenSupplyUpdateDetails", 1);
    t!(TokenPauseDetails, "TokenPauseDetails", 1);
    t!(TokenListUpdateDetails, "TokenListUpdateDetails", 1);
    t!(TokenOperation, "TokenOperation", 3);
    t!(TokenOperations, "TokenOperations", 3);
    t!(TokenListUpdateEventDetails, "TokenListUpdateEventDetails", 1);
    t!(TokenPauseEventDetails, "TokenPauseEventDetails", 1);
    t!(AddressNotFoundRejectReason, "AddressNotFoundRejectReason", 1);
    t!(TokenBalanceInsufficientRejectReason, "TokenBalanceInsufficientRejectReason", 1);
    t!(DeserializationFailureRejectReason, "DeserializationFailureRejectReason", 1);
    t!(UnsupportedOperationRejectReason, "UnsupportedOperationRejectReason", 1);
    t!(OperationNotPermittedRejectReason, "OperationNotPermittedRejectReason", 2);
    t!(MintWouldOverflowRejectReason, "MintWouldOverflowRejectReason", 1);
    t!(MetadataUrl, "MetadataUrl", 2);
    t!(TokenModuleAccountState, "TokenModuleAccountState", 2);
    t!(TokenModuleState, "TokenModuleState", 3);
    t!(TokenModuleInitializationParameters, "TokenModuleInitializationParameters", 3);
}

// ------------------------------------------------------------------ events / reject reasons: dispatch on the type string
fn dispatch(seed: u64, n: u64) {
    let mut r = Rng::new(seed ^ 0xd15);
    let ev = ["addAllowList", "removeAllowList", "addDenyList", "removeDenyList", "pause", "unpause", "futureEvent", ""];
    let rr = ["addressNotFound", "tokenBalanceInsufficient", "deserializationFailure", "unsupportedOperation", "operationNotPermitted", "mintWouldOverflow", "futureReason"];
    for i in 0..n {
        let ty = ev[(i % 8) as usize];
        let details: Vec<u8> = match i % 8 { 0..=3 => enc(&TokenListUpdateEventDetails::gen(&mut r)).unwrap(), 4 | 5 => enc(&TokenPauseEventDetails {}).unwrap(), _ => enc(&gen_value(&mut r, 3, true)).unwrap() };
        let e = TokenModuleEvent { event_type: ty.to_string().try_into().unwrap(), details: details.clone().into() };
        let res = guarded(|| e.decode_token_module_event());
        let j = match res {
            Ok(Ok(Upward::Known(k))) => { use TokenModuleEventType::*; let (vi, x) = match &k { AddAllowList(x) => (0, x.sv()), RemoveAllowList(x) => (1, x.sv()), AddDenyList(x) => (2, x.sv()), RemoveDenyList(x) => (3, x.sv()), Pause(x) => (4, x.sv()), Unpause(x) => (5, x.sv()) }; json!({"known": vi, "x": x}) }
            Ok(Ok(Upward::Unknown(v))) => json!({"unknown": vj(&v)}),
            Ok(Err(_)) => json!("ERR"), Err(_) => json!("PANIC") };
        println!("{}", json!({"k":"event","ty":ty,"hex":hex(&details),"r":j}));
        let ty = rr[(i % 7) as usize];
        let (details, want): (Option<Vec<u8>>, J) = match i % 7 {
            0 => { let x = AddressNotFoundRejectReason::gen(&mut r); (Some(enc(&x).unwrap()), x.sv()) }
            1 => { let x = TokenBalanceInsufficientRejectReason::gen(&mut r); (Some(enc(&x).unwrap()), x.sv()) }
            2 => { let x = DeserializationFailureRejectReason::gen(&mut r); (Some(enc(&x).unwrap()), x.sv()) }
            3 => { let x = UnsupportedOperationRejectReason::gen(&mut r); (Some(enc(&x).unwrap()), x.sv()) }
            4 => { let x = OperationNotPermittedRejectReason::gen(&mut r); (Some(enc(&x).unwrap()), x.sv()) }
            5 => { let x = MintWouldOverflowRejectReason::gen(&mut r); (Some(enc(&x).unwrap()), x.sv()) }
            _ => { let v = gen_value(&mut r, 3, true); (Some(enc(&v).unwrap()), vj(&v)) }
        };
        let details = if i % 29 == 28 { None } else { details };
        let rj = TokenModuleRejectReason { token_id: "TK1".parse().unwrap(), reason_type: ty.to_string().try_into().unwrap(), details: details.clone().map(Into::into) };
        let res = guarded(|| rj.decode_reject_reason());
        let j = match res {
            Ok(Ok(Upward::Known(k))) => { use TokenModuleRejectReasonType::*; let (vi, x) = match &k { AddressNotFound(x) => (0, x.sv()), TokenBalanceInsufficient(x) => (1, x.sv()), DeserializationFailure(x) => (2, x.sv()),
                UnsupportedOperation(x) => (3, x.sv()), OperationNotPermitted(x) => (4, x.sv()), MintWouldOverflow(x) => (5, x.sv()) }; json!({"known": vi, "x": x}) }
            Ok(Ok(Upward::Unknown(v))) => json!({"unknown": vj(&v)}),
            Ok(Err(_)) => json!("ERR"), Err(_) => json!("PANIC") };
        println!("{}", json!({"k":"reject","ty":ty,"idx": i % 7,"hex":details.map(|d| hex(&d)),"r":j,"want":want}));
    }
}

// ------------------------------------------------------------------ token amounts: string and JSON forms
fn amount_str(r: &mut Rng) -> String {
    fn digits(r: &mut Rng, lo: u64, span: u64) -> String { let n = lo + r.below(span.max(1)); (0..n).map(|_| char::from(b'0' + r.below(10) as u8)).collect() }
    match r.below(12) {
        0 => String::new(), 1 => ".".into(), 2 => "1.2.3".into(), 3 => format!("-{}", digits(r, 1, 3)), 4 => format!("{}x", digits(r, 2, 1)),
        5 => format!("{}.", digits(r, 1, 4)), 6 => format!(".{}", digits(r, 1, 4)), 7 => "18446744073709551616".into(), 8 => "18446744073709551615".into(),
        9 => { let a = digits(r, 1, 22); let b = digits(r, 0, 30); format!("{}.{}", a, b) }
        10 => { let a = digits(r, 1, 6); let b = digits(r, 0, 5); format!("{}.{}000", a, b) }
        _ => { let a = digits(r, 1, 8); let b = digits(r, 1, 8); format!("{}.{}", a, b) }
    }
}
fn amounts(seed: u64, n: u64) {
    let mut r = Rng::new(seed ^ 0xa3);
    for _ in 0..n {
        let a = TokenAmount::gen(&mut r);
        let s = a.to_string();
        let back = guarded(|| TokenAmount::from_str(&s, a.decimals(), ConversionRule::Exact));
        let bj = match &back { Ok(Ok(b)) => json!([b.value().to_string(), b.decimals()]), Ok(Err(_)) => json!("ERR"), Err(_) => json!("PANIC") };
        let js = serde_json::to_string(&a).unwrap();
        let jb: Result<TokenAmount, _> = serde_json::from_str(&js);
        println!("{}", json!({"k":"disp","value":a.value().to_string(),"decimals":a.decimals(),"s":s,"back":bj,"json":js,"json_back": jb.ok().map(|b| json!([b.value().to_string(), b.decimals()]))}));
        // parsing arbitrary decimal strings at arbitrary precisions
        let s2 = amount_str(&mut r);
        let d2 = match r.below(4) { 0 => 0u8, 1 => *r.pick(&[27u8, 28, 29, 30, 255]), _ => r.below(12) as u8 };
        for (rule, rn) in [(ConversionRule::Exact, "exact"), (ConversionRule::AllowRounding, "round")] {
            let res = guarded(|| TokenAmount::from_str(&s2, d2, rule));
            let rj = match &res { Ok(Ok(b)) => json!([b.value().to_string(), b.decimals()]), Ok(Err(_)) => json!("ERR"), Err(_) => json!("PANIC") };
            println!("{}", json!({"k":"parse","s":s2,"decimals":d2,"rule":rn,"r":rj}));
        }
        // JSON forms, including non-canonical number strings
        let v = match r.below(8) { 0 => "+5".to_string(), 1 => "007".into(), 2 => "-1".into(), 3 => "18446744073709551616".into(), 4 => "".into(), 5 => "1.0".into(), 6 => " 1".into(), _ => int(&mut r).to_string() };
        let dj = match r.below(6) { 0 => json!(256), 1 => json!(-1), 2 => json!("3"), _ => json!(r.below(256)) };
        let text = json!({"value": v, "decimals": dj}).to_string();
        let res: Result<TokenAmount, _> = serde_json::from_str(&text);
        println!("{}", json!({"k":"json","value":v,"decimals":dj,"r": res.ok().map(|b| json!([b.value().to_string(), b.decimals()]))}));
    }
}

// ------------------------------------------------------------------ conversions: Decimal <-> TokenAmount, heads, float widths
fn dec_mantissa(r: &mut Rng) -> u128 {
    let k = r.below(29) as u32;
    let p = 10u128.pow(k);
    let max96: u128 = (1u128 << 96) - 1;
    let m = match r.below(16) {
        0 => 0, 1 => 1, 2 => (5 * p).saturating_sub(1), 3 => 5 * p, 4 => 5 * p + 1, 5 => p, 6 => p - 1,
        7 => u64::MAX as u128, 8 => u64::MAX as u128 + 1, 9 => (u64::MAX as u128).saturating_mul(p.min(10u128.pow(9))) + r.below(3) as u128 - 1,
        10 => max96, 11 => max96 / 10 + r.below(3) as u128 - 1,
        12 => ((r.next() as u128) << 64 | r.next() as u128) & max96,
        13 => { let q = r.below(1000) as u128; q * p + *r.pick(&[4u128, 5, 9]) * (p / 10) + *r.pick(&[0u128, 0, 1]) * r.below(7) as u128 }   // first dropped digit 4/5/9
        14 => { let q = 999 + 1000 * r.below(50) as u128; q * p + p / 2 - r.below(2) as u128 }                                               // carry ...999.5
        _ => r.below(100000) as u128,
    };
    m.min(max96)
}
fn conv_mode(seed: u64, n: u64) {
    use rust_decimal::Decimal;
    let mut r = Rng::new(seed ^ 0x7c0);
    // ---- decimals
    for _ in 0..n {
        let m = dec_mantissa(&mut r);
        let sc = match r.below(4) { 0 => *r.pick(&[0u32, 1, 27, 28]), _ => r.below(29) as u32 };
        let d = match r.below(6) { 0 => sc as u8, 1 => sc.saturating_sub(1) as u8, 2 => (sc + 1) as u8, 3 => *r.pick(&[0u8, 28, 29, 30, 255]), _ => r.below(31) as u8 };
        let neg = r.chance(1, 5);
        let x = Decimal::from_parts(m as u32, (m >> 32) as u32, (m >> 64) as u32, neg, sc);
        for (rule, rn) in [(ConversionRule::Exact, "Exact"), (ConversionRule::AllowRounding, "AllowRounding")] {
            let res = guarded(|| TokenAmount::try_from_rust_decimal(x, d, rule));
            let rj = match &res {
                Ok(Ok(b)) => json!([0, b.value().to_string(), b.decimals()]),
                Ok(Err(TokenAmountConversionError::RustDecimal(_))) => json!([1, "0", 0]),
                Ok(Err(TokenAmountConversionError::ValueOverflow)) => json!([2, "0", 0]),
                Ok(Err(TokenAmountConversionError::LossOfPrecision)) => json!([3, "0", 0]),
                Err(_) => json!("PANIC"),
            };
            println!("{}", json!({"k":"dec","neg":neg,"m":m.to_string(),"sc":sc,"d":d,"rule":rn,"r":rj}));
        }
    }
    for _ in 0..n / 4 {
        let a = TokenAmount::gen(&mut r);
        let res = guarded(|| a.try_to_rust_decimal());
        let rj = match &res { Ok(Ok(x)) => json!([x.is_sign_negative(), x.mantissa().unsigned_abs().to_string(), x.scale()]), Ok(Err(_)) => json!("ERR"), Err(_) => json!("PANIC") };
        let back = match &res { Ok(Ok(x)) => match guarded(|| TokenAmount::try_from_rust_decimal(*x, a.decimals(), ConversionRule::Exact)) { Ok(Ok(b)) => json!(b == a), _ => json!("ERR") }, _ => J::Null };
        println!("{}", json!({"k":"todec","value":a.value().to_string(),"decimals":a.decimals(),"r":rj,"back":back}));
    }
    // ---- heads: every major type x every boundary argument x every width that holds it, truncations, reserved infos
    let bounds: [u64; 12] = [0, 1, 23, 24, 255, 256, 65535, 65536, 4294967295, 4294967296, u64::MAX - 1, u64::MAX];
    let pull = |b: &[u8]| -> J {
        let res = guarded(|| { let mut d = ciborium_ll::Decoder::from(b); let h = d.pull(); (h, d.offset()) });
        match res {
            Ok((Ok(h), off)) => { use ciborium_ll::Header::*; let o = |x: Option<usize>| x.map(|n| n.to_string());
                json!({"off": off, "h": match h { Positive(n) => json!(["HPos", n.to_string()]), Negative(n) => json!(["HNeg", n.to_string()]), Float(f) => json!(["HFloat", f.to_bits().to_string()]),
                    Simple(n) => json!(["HSimple", n.to_string()]), Tag(n) => json!(["HTag", n.to_string()]), Break => json!(["HBreak"]), Bytes(x) => json!(["HBytes", o(x)]), Text(x) => json!(["HText", o(x)]),
                    Array(x) => json!(["HArray", o(x)]), Map(x) => json!(["HMap", o(x)]) }}) }
            Ok((Err(_), _)) => json!("ERR"), Err(_) => json!("PANIC") }
    };
    let mut heads: Vec<(String, Vec<u8>)> = vec![];
    for major in 0u8..8 {
        for &a in &bounds {
            for (info, w) in [(24u8, 1usize), (25, 2), (26, 4), (27, 8)] {
                if w < 8 && a >> (8 * w) != 0 { continue }
                let mut b = vec![major << 5 | info]; b.extend(&a.to_be_bytes()[8 - w..]);
                let short = (a < 24) || (w > 1 && a < 256) || (w > 2 && a < 65536) || (w > 4 && a >> 32 == 0);
                heads.push((if short { "nonshortest".into() } else { "shortest".into() }, b.clone()));
                let cut = r.below(w as u64) as usize; let mut t = b.clone(); t.truncate(1 + cut); heads.push(("truncated".into(), t));
                if r.chance(1, 3) { let k = 1 + r.below(3) as usize; b.extend(r.bytes(k)); heads.push(("trailing".into(), b)); }
            }
            if a < 24 { heads.push(("immediate".into(), vec![major << 5 | a as u8])) }
        }
        for info in 24u8..32 { heads.push((format!("info{}", info), { let mut b = vec![major << 5 | info]; b.extend(r.bytes(9)); b })); }
    }
    heads.push(("empty".into(), vec![]));
    for _ in 0..n / 4 { let l = r.below(11) as usize; heads.push(("random".into(), r.bytes(l))); }
    for (cl, b) in &heads { println!("{}", json!({"k":"pull","class":cl,"hex":hex(b),"r":pull(b)})); }
    // push: every kind of header
    let push = |h: ciborium_ll::Header| -> J {
        match guarded(|| { let mut out = Vec::new(); let mut e = ciborium_ll::Encoder::from(&mut out); e.push(h).map(|_| ()).map_err(|_| ()).ok(); out }) { Ok(b) => json!(hex(&b)), Err(_) => json!("PANIC") }
    };
    for &a in &bounds {
        use ciborium_ll::Header::*;
        for (name, h) in [("HPos", Positive(a)), ("HNeg", Negative(a)), ("HTag", Tag(a))] { println!("{}", json!({"k":"push","h":[name, a.to_string()],"r":push(h)})); }
        for (name, h) in [("HBytes", Bytes(Some(a as usize))), ("HText", Text(Some(a as usize))), ("HArray", Array(Some(a as usize))), ("HMap", Map(Some(a as usize)))] { println!("{}", json!({"k":"push","h":[name, Some(a.to_string())],"r":push(h)})); }
    }
    { use ciborium_ll::Header::*;
      for (name, h) in [("HBytes", Bytes(None)), ("HText", Text(None)), ("HArray", Array(None)), ("HMap", Map(None))] { println!("{}", json!({"k":"push","h":[name, J::Null],"r":push(h)})); }
      println!("{}", json!({"k":"push","h":["HBreak"],"r":push(Break)}));
      for s in 0u16..256 { println!("{}", json!({"k":"push","h":["HSimple", s.to_string()],"r":push(Simple(s as u8))})); } }
    // ---- floats
    let mut fl: Vec<(&'static str, u64)> = vec![];
    let h2d = |h: u16| -> u64 { // exact widening of a binary16 pattern (independent of the half crate)
        let s = (h as u64 >> 15) << 63; let e = (h >> 10) & 31; let m = (h & 1023) as u64;
        let mag = if e == 0 { (m as f64) * 2f64.powi(-24) } else if e == 31 { if m == 0 { f64::INFINITY } else { f64::NAN } } else { (1.0 + m as f64 / 1024.0) * 2f64.powi(e as i32 - 15) };
        s | mag.to_bits() };
    for h in [0u16, 1, 2, 0x3ff, 0x400, 0x401, 0x3c00, 0x7bff, 0x7c00] { for sg in [0u16, 0x8000] { let b = h2d(h | sg); fl.push(("f16edge", b)); fl.push(("f16edge+1", b.wrapping_add(1))); fl.push(("f16edge-1", b.wrapping_sub(1))); } }
    for x in [0u32, 1, 2, 0x7fffff, 0x800000, 0x800001, 0x3f800000, 0x7f7fffff, 0x7f800000, 0x33800000, 0x33000000, 0x477fe000, 0x477ff000, 0x47800000] {
        for sg in [0u32, 0x80000000] { let b = (f32::from_bits(x | sg) as f64).to_bits(); fl.push(("f32edge", b)); fl.push(("f32edge+1", b.wrapping_add(1))); fl.push(("f32edge-1", b.wrapping_sub(1))); } }
    for b in [1u64, 0x000fffffffffffff, 0x0010000000000000, 0x7fefffffffffffff, 0x47efffffe0000001, 0x47effffff0000000, 0x47f0000000000000, 0x36a0000000000000, 0x3690000000000000, 0x3e70000000000000, 0x3e60000000000000, 0x3e78000000000000, 0x40effc0000000000, 0x40effe0000000000, 0x40f0000000000000] { fl.push(("f64edge", b)); fl.push(("f64edge", b | 1 << 63)); }
    for pay in [0u64, 1, 1 << 41, 1 << 42, 1 << 28, 1 << 29, (1 << 51) - 1, 0x3ff << 42, 0x155 << 42, 0x2aaaaa << 29, 0x7fffff << 29 & ((1 << 51) - 1)] {
        for q in [0u64, 1 << 51] { for sg in [0u64, 1 << 63] { let b = sg | 0x7ff << 52 | q | pay; if b << 12 != 0 { fl.push((if q == 0 { "snan" } else { "qnan" }, b)) } } } }
    for _ in 0..n / 4 { fl.push(("rand16", h2d(r.next() as u16))); fl.push(("rand32", (f32::from_bits(r.next() as u32) as f64).to_bits())); fl.push(("rand64", r.next())); fl.push(("rand32+1", (f32::from_bits(r.next() as u32) as f64).to_bits() ^ 1 << r.below(30))); }
    for (cl, b) in &fl {
        let f = f64::from_bits(*b);
        let e = enc(&f);
        let back = e.as_ref().ok().and_then(|e| dec_opts::<f64>(e, true).ok()).map(|g| g.to_bits().to_string());
        println!("{}", json!({"k":"fenc","class":cl,"bits":b.to_string(),"nan":f.is_nan(),"hex":match &e { Ok(b) => hex(b), Err(s) => s.clone() },"back":back}));
    }
    let mut pats: Vec<(u8, u64)> = vec![];
    for h in [0u16, 1, 0x3ff, 0x400, 0x3c00, 0x7bff, 0x7c00, 0x7c01, 0x7dff, 0x7e00, 0x7e01, 0x7fff, 0xfe01, 0xfc00, 0x8000, 0x8001] { pats.push((2, h as u64)) }
    for x in [0u32, 1, 0x7fffff, 0x800000, 0x3f800000, 0x7f7fffff, 0x7f800000, 0x7f800001, 0x7fbfffff, 0x7fc00000, 0x7fc00001, 0xffffffff, 0x80000000, 0x80000001, 0x00400000, 0x00000100] { pats.push((4, x as u64)) }
    for _ in 0..n / 4 { pats.push((2, r.next() & 0xffff)); pats.push((4, r.next() & 0xffff_ffff)); pats.push((8, r.next())); }
    for (_, b) in &fl { if pats.len() % 3 == 0 { pats.push((8, *b)) } else { pats.push((4, *b >> 32)) } }
    for (w, bits) in &pats {
        let mut b = vec![match w { 2 => 0xf9u8, 4 => 0xfa, _ => 0xfb }]; b.extend(&bits.to_be_bytes()[8 - *w as usize..]);
        let d = dec_opts::<f64>(&b, true);
        println!("{}", json!({"k":"fdec","w":w,"bits":bits.to_string(),"r": match d { Ok(f) => json!(f.to_bits().to_string()), Err(s) => json!(s) }}));
    }
}

// ------------------------------------------------------------------ long strings: many 4096-byte read chunks
const CHUNK: usize = 4096;
/// A text of `chunks` read chunks in which a code point straddles every boundary selected by `sel`.
/// The boundaries are those of `decode_text_impl`: after a straddle with `d` bytes before the boundary the
/// next chunk restarts on those bytes, so the following boundary is at `b + 4096 - d`.
fn straddle_text(r: &mut Rng, chunks: usize, sel: &dyn Fn(usize) -> bool, cps: &[&str]) -> String {
    let mut s = String::new();
    let mut boundary = CHUNK;
    for j in 1..chunks {
        if sel(j) {
            let cp = *r.pick(cps);
            let d = 1 + r.below(cp.len() as u64 - 1) as usize;     // bytes of the code point before the boundary
            while s.len() < boundary - d { s.push(if r.chance(1, 64) { 'y' } else { 'x' }) }
            s.push_str(cp);
            boundary = boundary + CHUNK - d;
        } else {
            while s.len() < boundary { s.push('x') }
            boundary += CHUNK;
        }
    }
    let tail = 1 + r.below(CHUNK as u64 / 2) as usize;
    for _ in 0..tail { s.push('z') }
    s
}
fn chunk_texts(r: &mut Rng, max_chunks: usize, per_shape: usize) -> Vec<(String, String)> {
    let cp2 = ["\u{e9}", "\u{7ff}"]; let cp3 = ["\u{20ac}", "\u{ffff}", "\u{800}"]; let cp4 = ["\u{1f600}", "\u{10ffff}", "\u{10000}"];
    let all: Vec<&str> = cp2.iter().chain(cp3.iter()).chain(cp4.iter()).copied().collect();
    let mut out = vec![];
    let mut sizes = vec![3usize, 4, 5];
    let mut c = 6; while c <= max_chunks { sizes.push(c); c = c * 2 - 3; }
    if *sizes.last().unwrap() != max_chunks && max_chunks > 5 { sizes.push(max_chunks) }
    for &chunks in &sizes {
        for _ in 0..per_shape {
            for (name, cps) in [("2", &cp2[..]), ("3", &cp3[..]), ("4", &cp4[..]), ("mix", &all[..])] {
                out.push((format!("first/{}/{}", name, chunks), straddle_text(r, chunks, &|j| j == 1, cps)));
                out.push((format!("second/{}/{}", name, chunks), straddle_text(r, chunks, &|j| j == 2, cps)));
                out.push((format!("all/{}/{}", name, chunks), straddle_text(r, chunks, &|_| true, cps)));
            }
            let mask = r.next();
            out.push((format!("several/mix/{}", chunks), straddle_text(r, chunks, &|j| j == 1 || (mask >> (j % 60)) & 1 == 1, &all)));
            out.push((format!("lastonly/mix/{}", chunks), straddle_text(r, chunks, &|j| j == chunks - 1, &all)));
        }
    }
    out
}
fn chunk_line(kind: &str, shape: &str, v: &Value, raw: Option<Vec<u8>>, big: &[&str]) {
    // `raw`: bytes written by the harness (segmented forms); otherwise the encoder's bytes
    let b = match raw { Some(b) => b, None => match enc(v) { Ok(b) => b, Err(e) => { println!("{}", json!({"k":"chunk","kind":kind,"shape":shape,"hex":e})); return } } };
    println!("{}", json!({"k":"pending","hex":""}));
    let (d, peak, _) = measured(|| dec_opts::<Value>(&b, true));
    let (rt, same) = match &d { Ok(d) => ("ok".to_string(), vj(d) == vj(v)), Err(s) => (s.clone(), false) };
    let reenc = d.as_ref().ok().and_then(|d| enc(d).ok());
    println!("{}", json!({"k":"chunk","kind":kind,"shape":shape,"hex":hex(&b),"v":vj(v),"rt":rt,"same":same,"peak":peak,"len":b.len(),"big":big.iter().map(|t| hex(t.as_bytes())).collect::<Vec<_>>(),
        "reenc_same": reenc.as_ref().map(|e| enc(v).ok().as_ref() == Some(e))}));
}
fn chunks_mode(seed: u64, max_chunks: u64, per_shape: u64) {
    let mut r = Rng::new(seed ^ 0xc4a2);
    let texts = chunk_texts(&mut r, max_chunks as usize, per_shape as usize);
    for (i, (shape, t)) in texts.iter().enumerate() {
        // top-level text
        chunk_line("text", shape, &Value::Text(t.clone()), None, &[t]);
        // the same bytes as a byte string (no UTF-8 parser on this path)
        if i % 3 == 0 { chunk_line("bytes", shape, &Value::Bytes(Bytes(t.as_bytes().to_vec())), None, &[t]) }
        // nested inside containers, as key and as value
        if i % 4 == 1 { chunk_line("nested", shape, &Value::Map(vec![(Value::Text(t.clone()), Value::Array(vec![Value::Tag(24, Box::new(Value::Text(t.clone())))]))]), None, &[t]) }
        // indefinite-length text: every segment is chunked on its own
        if i % 2 == 0 {
            let (_, t2) = &texts[(i * 7 + 3) % texts.len()];
            let mut raw = vec![0x7fu8];
            for seg in [t.as_str(), "", t2.as_str()] {
                let l = seg.len() as u64;
                if l < 24 { raw.push(0x60 | l as u8) } else if l < 65536 { raw.push(0x79); raw.extend((l as u16).to_be_bytes()) } else { raw.push(0x7a); raw.extend((l as u32).to_be_bytes()) }
                raw.extend(seg.as_bytes());
            }
            raw.push(0xff);
            chunk_line("segmented", shape, &Value::Text(format!("{}{}", t, t2)), Some(raw), &[t, t2]);
        }
    }
    // inside token types: metadata URL, names, reasons, catch-all values
    for (i, (shape, t)) in texts.iter().enumerate() {
        let (ty, hexs, x, rt): (&str, Result<Vec<u8>, String>, J, String) = match i % 4 {
            0 => { let mut add = HashMap::new(); add.insert("blob".to_string(), Value::Bytes(Bytes(t.as_bytes().to_vec()))); add.insert("note".to_string(), Value::Text(t.clone()));
                   let v = MetadataUrl { url: t.clone(), checksum_sha_256: None, additional: add }; (  "MetadataUrl", enc(&v), v.sv(), typed_rt(&v)) }
            1 => { let v = TokenModuleState { name: Some(t.clone()), metadata: Some(MetadataUrl { url: t.clone(), checksum_sha_256: None, additional: HashMap::new() }), governance_account: None, allow_list: None, deny_list: None, mintable: None, burnable: None, paused: None, additional: HashMap::new() };
                   ("TokenModuleState", enc(&v), v.sv(), typed_rt(&v)) }
            2 => { let v = UnsupportedOperationRejectReason { index: i, operation_type: t.clone(), reason: Some(t.clone()) }; ("UnsupportedOperationRejectReason", enc(&v), v.sv(), typed_rt(&v)) }
            _ => { let v = DeserializationFailureRejectReason { cause: Some(t.clone()) }; ("DeserializationFailureRejectReason", enc(&v), v.sv(), typed_rt(&v)) }
        };
        match hexs {
            Ok(b) => println!("{}", json!({"k":"chunk","kind":"typed","shape":shape,"ty":ty,"hex":hex(&b),"x":x,"rt":rt,"same":rt == "same","len":b.len(),"big":[hex(t.as_bytes())]})),
            Err(e) => println!("{}", json!({"k":"chunk","kind":"typed","shape":shape,"ty":ty,"hex":e})),
        }
    }
}
fn typed_rt<T: T17>(x: &T) -> String {
    match enc(x) { Ok(e) => match dec_opts::<T>(&e, true) { Ok(y) => if y.sv() == x.sv() { "same".into() } else { "DIFFERENT".into() }, Err(s) => s }, Err(s) => s }
}

// ------------------------------------------------------------------ nesting deeper than 64 (observation O3; separate process)
fn deep(depth: u64) {
    let mut b = vec![0x81u8; depth as usize];
    b.push(0x00);
    println!("{}", json!({"k":"deep","depth":depth,"stage":"start"}));
    let res = guarded(|| cbor::cbor_decode::<Value>(&b));
    let s = match &res { Ok(Ok(_)) => "decoded", Ok(Err(_)) => "ERR", Err(_) => "PANIC" };
    println!("{}", json!({"k":"deep","depth":depth,"stage":"decoded","r":s}));
    if let Ok(Ok(v)) = res {
        let e = guarded(|| cbor::cbor_encode(&v));
        println!("{}", json!({"k":"deep","depth":depth,"stage":"encoded","r": matches!(e, Ok(Ok(ref x)) if *x == b)}));
        std::mem::forget(v); // dropping a very deep value recurses as well
    }
}

fn main() {
    quiet_panics();
    let a: Vec<String> = std::env::args().collect();
    let num = |i: usize| a.get(i).and_then(|s| s.parse::<u64>().ok()).unwrap_or(0);
    match a.get(1).map(|s| s.as_str()) {
        Some("values") => values(num(2), num(3), num(4).max(1)),
        Some("bytes") => bytes_mode(num(2), num(3), num(4).max(1)),
        Some("typed") => typed(num(2), num(3), a.get(4).map(|s| s.as_str()).unwrap_or("")),
        Some("dispatch") => dispatch(num(2), num(3)),
        Some("amounts") => amounts(num(2), num(3)),
        Some("deep") => deep(num(2)),
        Some("conv") => conv_mode(num(2), num(3)),
        Some("chunks") => chunks_mode(num(2), num(3).max(3), num(4).max(1)),
        Some("replay-bytes") => {
            let b = hlib::unhex(&a[2]);
            let top = dec_opts::<Value>(&b, true);
            println!("{}", json!({"k":"bytes","hex":a[2],"top": match &top { Ok(v) => json!({"v": vj(v)}), Err(s) => json!(s) }}));
        }
        _ => eprintln!("usage: c17 values|bytes|typed|dispatch|amounts|deep ..."),
    }
    let _: Option<MapKey> = None;
}
