//! Small helpers shared by the per-property harness binaries.
use std::panic::{catch_unwind, AssertUnwindSafe};

/// SplitMix64: every random choice of a harness run derives from one state.
#[derive(Clone)]
pub struct Rng(pub u64);
impl Rng {
    pub fn new(seed: u64) -> Self { Rng(seed.wrapping_mul(0x9E3779B97F4A7C15) ^ 0xD1B54A32D192ED03) }
    pub fn next(&mut self) -> u64 {
        self.0 = self.0.wrapping_add(0x9E3779B97F4A7C15);
        let mut z = self.0;
        z = (z ^ (z >> 30)).wrapping_mul(0xBF58476D1CE4E5B9);
        z = (z ^ (z >> 27)).wrapping_mul(0x94D049BB133111EB);
        z ^ (z >> 31)
    }
    pub fn below(&mut self, n: u64) -> u64 { if n == 0 { 0 } else { self.next() % n } }
    pub fn range(&mut self, lo: u64, hi: u64) -> u64 { lo + self.below(hi - lo + 1) }
    pub fn chance(&mut self, num: u64, den: u64) -> bool { self.below(den) < num }
    pub fn pick<'a, T>(&mut self, xs: &'a [T]) -> &'a T { &xs[self.below(xs.len() as u64) as usize] }
    pub fn bytes(&mut self, n: usize) -> Vec<u8> { (0..n).map(|_| self.next() as u8).collect() }
    /// A u64 drawn from a boundary-heavy distribution.
    pub fn u64_edge(&mut self) -> u64 {
        match self.below(8) {
            0 => *self.pick(&[0u64, 1, 2, u64::MAX, u64::MAX - 1, 1 << 63, (1 << 63) - 1, 1 << 32, (1 << 32) - 1, (1 << 32) + 1]),
            1 => { let k = self.below(64); 1u64 << k }
            2 => { let k = self.below(64); (1u64 << k).wrapping_sub(1) }
            3 => { let k = self.below(64); (1u64 << k).wrapping_add(1) }
            4 => self.below(256),
            5 => self.next() >> self.below(64),
            _ => self.next(),
        }
    }
    pub fn u32_edge(&mut self) -> u32 {
        match self.below(6) {
            0 => *self.pick(&[0u32, 1, 2, u32::MAX, u32::MAX - 1, 1 << 31, (1 << 31) - 1, 1 << 16, 65535]),
            1 => { let k = self.below(32); 1u32 << k }
            2 => { let k = self.below(32); (1u32 << k).wrapping_sub(1) }
            3 => self.below(256) as u32,
            _ => self.next() as u32,
        }
    }
}

/// Run `f`, turning a panic into `Err(message)`.
pub fn guarded<T>(f: impl FnOnce() -> T) -> Result<T, String> {
    match catch_unwind(AssertUnwindSafe(f)) {
        Ok(v) => Ok(v),
        Err(e) => Err(if let Some(s) = e.downcast_ref::<&str>() { s.to_string() }
                      else if let Some(s) = e.downcast_ref::<String>() { s.clone() }
                      else { "panic".to_string() }),
    }
}

/// Silence the default panic printer (panics are results, not noise).
pub fn quiet_panics() { std::panic::set_hook(Box::new(|_| {})); }

pub fn hex(b: &[u8]) -> String { b.iter().map(|x| format!("{:02x}", x)).collect() }
pub fn unhex(s: &str) -> Vec<u8> {
    (0..s.len() / 2).map(|i| u8::from_str_radix(&s[2 * i..2 * i + 2], 16).unwrap()).collect()
}
