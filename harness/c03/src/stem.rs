//! C03, nibble-path primitives: drives the real `Stem` / `MutStem` / `StemIter` / `follow_stem`
//! through the H1b hook wrappers.  Lines:  N <id> <case>;<case>;...   and   R <id> <out>;...
//!   p<stem>,<c>            MutStem::push            t<stem>,<len>   MutStem::truncate
//!   e<stem>,<stem>         MutStem::extend          r<self>,<first>,<mid>  Stem::prepend_parts
//!   i<hex>,<len>,<steps>,<p>   StemIter: `steps` x next, then to_stem / consumed_to_stem / last_to_stem(p)
//!   f<hexkey>,<kpos>,<stem>    follow_stem of a key iterator advanced by kpos against a fresh stem iterator
//! a stem is written <xhex>/<0|1> (stored bytes / last_partial).
use crate::{unx, x};
use concordium_smart_contract_engine::v1::trie::low_level::verif_hooks_stem as hk;
use hlib::{guarded, Rng};
use std::io::BufRead;

type RawStem = (Vec<u8>, bool);

fn show(s: &RawStem) -> String { format!("{}/{}", x(&s.0), s.1 as u8) }

fn parse_stem(t: &str) -> RawStem {
    let (h, p) = t.split_once('/').unwrap();
    (unx(h), p == "1")
}

fn nib(c: Option<u8>) -> String {
    match c {
        Some(v) => format!("{:x}", v),
        None => "-".into(),
    }
}

fn run_case(c: &str) -> String {
    let kind = c.as_bytes()[0];
    let a: Vec<&str> = c[1..].split(',').collect();
    match kind {
        b'p' => {
            let (s, l) = hk::mutstem_push(&parse_stem(a[0]), a[1].parse().unwrap());
            format!("{}#{}", show(&s), l)
        }
        b't' => {
            let (s, l) = hk::mutstem_truncate(&parse_stem(a[0]), a[1].parse().unwrap());
            format!("{}#{}", show(&s), l)
        }
        b'e' => {
            let (s, l) = hk::mutstem_extend(&parse_stem(a[0]), &parse_stem(a[1]));
            format!("{}#{}", show(&s), l)
        }
        b'r' => {
            let (s, l) = hk::stem_prepend_parts(&parse_stem(a[0]), &parse_stem(a[1]), a[2].parse().unwrap());
            format!("{}#{}", show(&s), l)
        }
        b'i' => {
            let data = unx(a[0]);
            let (chunks, pos, ts, cs, ls) =
                hk::stemiter_probe(&data, a[1].parse().unwrap(), a[2].parse().unwrap(), a[3].parse().unwrap());
            format!("{}@{}|{}|{}|{}", chunks.iter().map(|c| nib(*c)).collect::<String>(), pos, show(&ts), show(&cs), show(&ls))
        }
        b'f' => {
            let key = unx(a[0]);
            let o = hk::follow(&key, a[1].parse().unwrap(), &parse_stem(a[2]));
            format!(
                "{}{}{}@{},{}|{}|{}|{}|{}",
                o.tag,
                nib(o.key_step),
                nib(o.stem_step),
                o.key_pos,
                o.stem_pos,
                show(&o.key_rest),
                show(&o.stem_rest),
                show(&o.stem_consumed),
                show(&o.key_from_start)
            )
        }
        _ => panic!("bad stem case {}", c),
    }
}

fn pack(ns: &[u8]) -> RawStem {
    let mut d = Vec::new();
    for ch in ns.chunks(2) {
        d.push((ch[0] << 4) | if ch.len() > 1 { ch[1] } else { 0 });
    }
    (d, ns.len() % 2 == 1)
}

fn nibs(rng: &mut Rng) -> Vec<u8> {
    let len = match rng.below(12) {
        0 => 0,
        1 => 1,
        2 => 2,
        3 => 3,
        4 => *rng.pick(&[62usize, 63, 64, 65, 66]),
        5 => *rng.pick(&[126usize, 127, 128, 129]),
        _ => rng.below(12) as usize,
    };
    (0..len).map(|_| if rng.chance(1, 4) { *rng.pick(&[0u8, 15, 1, 8]) } else { rng.below(16) as u8 }).collect()
}

/// mostly well-formed stems; sometimes a partial stem whose unused low nibble is dirty (the
/// transcription uses the same bit operations, so it must agree there too)
fn stem(rng: &mut Rng) -> RawStem {
    let mut s = pack(&nibs(rng));
    if s.1 && rng.chance(1, 12) {
        if let Some(l) = s.0.last_mut() {
            *l |= 1 + rng.below(15) as u8;
        }
    }
    s
}

fn gen_case(rng: &mut Rng) -> String {
    match rng.below(12) {
        0 | 1 => format!("p{},{}", show(&stem(rng)), rng.below(16)),
        2 | 3 => {
            let s = stem(rng);
            let len = if s.1 { 2 * s.0.len() - 1 } else { 2 * s.0.len() };
            format!("t{},{}", show(&s), rng.below(len as u64 + 1))
        }
        4 | 5 => format!("e{},{}", show(&stem(rng)), show(&stem(rng))),
        6 | 7 => format!("r{},{},{}", show(&stem(rng)), show(&stem(rng)), rng.below(16)),
        8 | 9 => {
            let s = stem(rng);
            let len = if s.1 { 2 * s.0.len() - 1 } else { 2 * s.0.len() };
            let steps = rng.below(len as u64 + 3);
            let p = rng.below(len as u64 + 1);
            format!("i{},{},{},{}", x(&s.0), len, steps, p)
        }
        _ => {
            // a key that follows the stem for a while
            let st = pack(&nibs(rng));
            let sn: Vec<u8> = {
                let mut v = Vec::new();
                for b in st.0.iter() {
                    v.push(b >> 4);
                    v.push(b & 15);
                }
                if st.1 {
                    v.pop();
                }
                v
            };
            let kpos = rng.below(5) as usize;
            let mut kn: Vec<u8> = (0..kpos).map(|_| rng.below(16) as u8).collect();
            let take = match rng.below(4) {
                0 => sn.len(),
                _ => rng.below(sn.len() as u64 + 1) as usize,
            };
            kn.extend_from_slice(&sn[..take]);
            match rng.below(4) {
                0 => {}
                1 => kn.push(rng.below(16) as u8),
                _ => {
                    let n = rng.below(6);
                    for _ in 0..n {
                        kn.push(rng.below(16) as u8);
                    }
                }
            }
            if kn.len() % 2 == 1 {
                if rng.chance(1, 2) && kn.len() > kpos { kn.pop(); } else { kn.push(rng.below(16) as u8); }
            }
            let key = pack(&kn).0;
            let kpos = kpos.min(2 * key.len());
            format!("f{},{},{}", x(&key), kpos, show(&st))
        }
    }
}

fn emit(id: &str, cases: &[String]) {
    let outs: Vec<String> = cases.iter().map(|c| guarded(|| run_case(c)).unwrap_or_else(|_| "PANIC".into())).collect();
    println!("N {} {}", id, cases.join(";"));
    println!("R {} {}", id, outs.join(";"));
}

pub fn generate(seed: u64, n: u64) {
    let mut rng = Rng::new(seed ^ 0x57e3);
    for i in 0..n {
        let k = 1 + rng.below(40);
        let cases: Vec<String> = (0..k).map(|_| gen_case(&mut rng)).collect();
        emit(&format!("n{}", i), &cases);
    }
}

pub fn replay() {
    for line in std::io::stdin().lock().lines() {
        let line = line.unwrap();
        if let Some(rest) = line.strip_prefix("N ") {
            let (id, body) = rest.split_once(' ').unwrap_or((rest, ""));
            let cases: Vec<String> = body.split(';').filter(|s| !s.is_empty()).map(|s| s.to_string()).collect();
            emit(id, &cases);
        }
    }
}
