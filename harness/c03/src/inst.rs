//! C15, contract-visible layer: histories over `InstanceState` (lookup_entry / create_entry /
//! delete_entry / delete_prefix / iterator* / entry_*) with interrupts (re-entrant calls that
//! commit or roll back) through the H1 hook wrappers; every result encoding is compared with
//! an independent reference (ordered map + entry table + lock multiset + generation counter).
//!
//!   J <id> <ops>   ops separated by ';':
//!     l<k> lookup_entry   c<k> create_entry   d<k> delete_entry   p<k> delete_prefix   t<k> iterator
//!     n<i> iterator_next  x<i> iterator_delete  k<i> iterator key (size + read)
//!     r<h> entry_read (size + read)  z<h> entry_size  w<h>,<off>,<hex> entry_write  s<h>,<n> entry_resize
//!     [    interrupt: a re-entrant call starts on a fresh generation
//!     ]1   the re-entrant call ends with success      ]0   it ends with failure (rolled back)
//!   <i>/<h> index the lists of iterator / entry ids the outermost call has been handed so far
//!   (ids stay in the list across interrupts, so stale ids get used); g<h>/G<i> use a forged id.
use crate::{unx, x, KeyUniverse};
use concordium_smart_contract_engine::{
    v1::{
        trie::{Loader, MutableState},
        verif_hooks::VerifSuspended,
        InstanceState,
    },
    InterpreterEnergy,
};
use hlib::{guarded, hex, Rng};
use std::collections::{BTreeMap, VecDeque};
use std::io::BufRead;

const NONE: u64 = u64::MAX;
const ERR: u64 = u64::MAX & !(1u64 << 62);
const INVALID: u32 = u32::MAX;

#[derive(Clone, Debug)]
enum J {
    Lookup(Vec<u8>),
    Create(Vec<u8>),
    Delete(Vec<u8>),
    DeletePrefix(Vec<u8>),
    Iter(Vec<u8>),
    Next(usize),
    IterDelete(usize),
    IterKey(usize),
    Read(usize),
    Size(usize),
    Write(usize, u32, Vec<u8>),
    Resize(usize, u32),
    ForgedEntry(usize),
    ForgedIter(usize),
    Interrupt,
    End(bool),
}

impl J {
    fn show(&self) -> String {
        match self {
            J::Lookup(k) => format!("l{}", x(k)),
            J::Create(k) => format!("c{}", x(k)),
            J::Delete(k) => format!("d{}", x(k)),
            J::DeletePrefix(k) => format!("p{}", x(k)),
            J::Iter(k) => format!("t{}", x(k)),
            J::Next(i) => format!("n{}", i),
            J::IterDelete(i) => format!("x{}", i),
            J::IterKey(i) => format!("k{}", i),
            J::Read(h) => format!("r{}", h),
            J::Size(h) => format!("z{}", h),
            J::Write(h, o, d) => format!("w{},{},{}", h, o, x(d)),
            J::Resize(h, n) => format!("s{},{}", h, n),
            J::ForgedEntry(h) => format!("g{}", h),
            J::ForgedIter(i) => format!("G{}", i),
            J::Interrupt => "[".into(),
            J::End(b) => format!("]{}", *b as u8),
        }
    }

    fn parse(s: &str) -> J {
        let c = s.as_bytes()[0];
        let a = &s[1..];
        match c {
            b'l' => J::Lookup(unx(a)),
            b'c' => J::Create(unx(a)),
            b'd' => J::Delete(unx(a)),
            b'p' => J::DeletePrefix(unx(a)),
            b't' => J::Iter(unx(a)),
            b'n' => J::Next(a.parse().unwrap()),
            b'x' => J::IterDelete(a.parse().unwrap()),
            b'k' => J::IterKey(a.parse().unwrap()),
            b'r' => J::Read(a.parse().unwrap()),
            b'z' => J::Size(a.parse().unwrap()),
            b'w' => {
                let t: Vec<&str> = a.split(',').collect();
                J::Write(t[0].parse().unwrap(), t[1].parse().unwrap(), unx(t[2]))
            }
            b's' => {
                let t: Vec<&str> = a.split(',').collect();
                J::Resize(t[0].parse().unwrap(), t[1].parse().unwrap())
            }
            b'g' => J::ForgedEntry(a.parse().unwrap()),
            b'G' => J::ForgedIter(a.parse().unwrap()),
            b'[' => J::Interrupt,
            b']' => J::End(a == "1"),
            _ => panic!("bad J op {}", s),
        }
    }
}

// ------------------------------------------------------------------------------------ reference

#[derive(Clone, Default)]
struct RTrie {
    map: BTreeMap<Vec<u8>, usize>,
    ents: Vec<Option<Vec<u8>>>,
    /// prefixes locked in this trie generation (multiset); survives the call that took them
    locks: Vec<Vec<u8>>,
}

#[derive(Default)]
struct RInst {
    gen: u32,
    changed: bool,
    emap: Vec<usize>,
    /// prefix, remaining keys, current key (None = unknown after exhaustion)
    iters: Vec<Option<(Vec<u8>, VecDeque<Vec<u8>>, Option<Vec<u8>>)>>,
}

fn enc(gen: u32, idx: usize) -> u64 { (u64::from(gen) << 32) | idx as u64 }

impl RInst {
    fn entry(&self, t: &RTrie, id: u64) -> Option<usize> {
        let (g, i) = ((id >> 32) as u32, (id & 0xffff_ffff) as usize);
        if g != self.gen {
            return None;
        }
        let e = *self.emap.get(i)?;
        if t.ents.get(e)?.is_some() { Some(e) } else { None }
    }

    fn step(&mut self, t: &mut RTrie, op: &J, eids: &mut Vec<u64>, iids: &mut Vec<u64>) -> String {
        let pick = |v: &Vec<u64>, i: usize| -> Option<u64> { v.get(i).copied() };
        match op {
            J::Lookup(k) => match t.map.get(k).copied() {
                Some(e) => {
                    let id = enc(self.gen, self.emap.len());
                    self.emap.push(e);
                    eids.push(id);
                    format!("{:x}", id)
                }
                None => format!("{:x}", NONE),
            },
            J::Create(k) => {
                self.changed = true;
                if t.locks.iter().any(|p| k.starts_with(p)) {
                    return format!("{:x}", NONE);
                }
                let e = match t.map.get(k).copied() {
                    Some(e) => {
                        t.ents[e] = Some(vec![]);
                        e
                    }
                    None => {
                        let e = t.ents.len();
                        t.ents.push(Some(vec![]));
                        t.map.insert(k.clone(), e);
                        e
                    }
                };
                let id = enc(self.gen, self.emap.len());
                self.emap.push(e);
                eids.push(id);
                format!("{:x}", id)
            }
            J::Delete(k) => {
                self.changed = true;
                if t.map.is_empty() {
                    return "1".into();
                }
                if t.locks.iter().any(|p| k.starts_with(p)) {
                    return "0".into();
                }
                match t.map.remove(k) {
                    Some(e) => {
                        t.ents[e] = None;
                        "2".into()
                    }
                    None => "1".into(),
                }
            }
            J::DeletePrefix(k) => {
                self.changed = true;
                if t.map.is_empty() {
                    return "1".into();
                }
                if t.locks.iter().any(|p| k.starts_with(p) || p.starts_with(k)) {
                    return "0".into();
                }
                let ks: Vec<Vec<u8>> = t.map.keys().filter(|q| q.starts_with(k)).cloned().collect();
                if ks.is_empty() {
                    return "1".into();
                }
                for q in ks {
                    let e = t.map.remove(&q).unwrap();
                    t.ents[e] = None;
                }
                "2".into()
            }
            J::Iter(k) => {
                let ks: VecDeque<Vec<u8>> = t.map.keys().filter(|q| q.starts_with(k)).cloned().collect();
                if ks.is_empty() {
                    return format!("{:x}", NONE);
                }
                t.locks.push(k.clone());
                let id = enc(self.gen, self.iters.len());
                self.iters.push(Some((k.clone(), ks, Some(k.clone()))));
                iids.push(id);
                format!("{:x}", id)
            }
            J::Next(_) | J::ForgedIter(_) => {
                let id = match op {
                    J::Next(i) => match pick(iids, *i) {
                        Some(id) => id,
                        None => return "skip".into(),
                    },
                    J::ForgedIter(i) => forged(pick(iids, *i), *i),
                    _ => unreachable!(),
                };
                let (g, i) = ((id >> 32) as u32, (id & 0xffff_ffff) as usize);
                if g != self.gen {
                    return format!("{:x}", ERR);
                }
                match self.iters.get_mut(i) {
                    Some(Some((_, rem, cur))) => match rem.pop_front() {
                        Some(k) => {
                            let e = t.map[&k];
                            *cur = Some(k);
                            let eid = enc(self.gen, self.emap.len());
                            self.emap.push(e);
                            eids.push(eid);
                            format!("{:x}", eid)
                        }
                        None => {
                            *cur = None;
                            format!("{:x}", NONE)
                        }
                    },
                    _ => format!("{:x}", ERR),
                }
            }
            J::IterDelete(i) => {
                let id = match pick(iids, *i) {
                    Some(id) => id,
                    None => return "skip".into(),
                };
                let (g, i) = ((id >> 32) as u32, (id & 0xffff_ffff) as usize);
                if g != self.gen {
                    return format!("{}", INVALID);
                }
                match self.iters.get_mut(i) {
                    Some(slot @ Some(_)) => {
                        let p = slot.as_ref().unwrap().0.clone();
                        *slot = None;
                        if let Some(pos) = t.locks.iter().position(|q| q == &p) {
                            t.locks.remove(pos);
                        }
                        "1".into()
                    }
                    Some(None) => "0".into(),
                    None => format!("{}", INVALID),
                }
            }
            J::IterKey(i) => {
                let id = match pick(iids, *i) {
                    Some(id) => id,
                    None => return "skip".into(),
                };
                let (g, i) = ((id >> 32) as u32, (id & 0xffff_ffff) as usize);
                if g != self.gen {
                    return "invalid".into();
                }
                match self.iters.get(i) {
                    Some(Some((_, _, Some(k)))) => hex(k),
                    Some(Some((_, _, None))) => "?".into(),
                    _ => "invalid".into(),
                }
            }
            J::Read(_) | J::Size(_) | J::ForgedEntry(_) => {
                let id = match op {
                    J::Read(h) | J::Size(h) => match pick(eids, *h) {
                        Some(id) => id,
                        None => return "skip".into(),
                    },
                    J::ForgedEntry(h) => forged(pick(eids, *h), *h),
                    _ => unreachable!(),
                };
                match self.entry(t, id) {
                    Some(e) => {
                        let v = t.ents[e].as_ref().unwrap();
                        if let J::Size(_) = op { format!("{}", v.len()) } else { hex(v) }
                    }
                    None => "invalid".into(),
                }
            }
            J::Write(h, off, data) => {
                let id = match pick(eids, *h) {
                    Some(id) => id,
                    None => return "skip".into(),
                };
                self.changed = true;
                match self.entry(t, id) {
                    Some(e) => {
                        let v = t.ents[e].as_mut().unwrap();
                        let off = *off as usize;
                        if off <= v.len() {
                            let end = off + data.len();
                            if v.len() < end {
                                v.resize(end, 0);
                            }
                            v[off..end].copy_from_slice(data);
                            format!("{}", data.len())
                        } else {
                            "0".into()
                        }
                    }
                    None => format!("{}", INVALID),
                }
            }
            J::Resize(h, n) => {
                let id = match pick(eids, *h) {
                    Some(id) => id,
                    None => return "skip".into(),
                };
                self.changed = true;
                match self.entry(t, id) {
                    Some(e) => {
                        t.ents[e].as_mut().unwrap().resize(*n as usize, 0);
                        "1".into()
                    }
                    None => format!("{}", INVALID),
                }
            }
            J::Interrupt | J::End(_) => unreachable!(),
        }
    }
}

/// A forged id derived from a real one: another generation, or an index nobody was given.
fn forged(real: Option<u64>, salt: usize) -> u64 {
    let base = real.unwrap_or(0);
    match salt % 3 {
        0 => base ^ (1u64 << 32),              // neighbouring generation
        1 => (base & !0xffff_ffff) | 0x00ff_fff0, // index far outside the table
        _ => base.wrapping_add(7u64 << 32),
    }
}

// ------------------------------------------------------------------------------- implementation

type Inst<'a, 'b> = InstanceState<'a, Loader<&'b [u8]>>;

fn impl_step(inst: &mut Inst, op: &J, eids: &mut Vec<u64>, iids: &mut Vec<u64>, exhausted: &mut Vec<u64>) -> String {
    let mut energy = InterpreterEnergy { energy: 1 << 50 };
    let pick = |v: &Vec<u64>, i: usize| -> Option<u64> { v.get(i).copied() };
    let read_entry = |inst: &mut Inst, id: u64, size_only: bool| -> String {
        let n = inst.verif_entry_size(id);
        if n == INVALID {
            // reading must agree
            let mut buf = [0u8; 4];
            return if inst.verif_entry_read(id, &mut buf, 0) == INVALID { "invalid".into() } else { "SIZE-READ-DISAGREE".into() };
        }
        if size_only {
            return format!("{}", n);
        }
        let mut buf = vec![0u8; n as usize + 3];
        let got = inst.verif_entry_read(id, &mut buf, 0);
        if got != n {
            return format!("READ-LEN-{}-{}", got, n);
        }
        // a read at an offset returns the suffix
        if n > 1 {
            let mut b2 = vec![0u8; n as usize];
            let g2 = inst.verif_entry_read(id, &mut b2, 1);
            if g2 != n - 1 || b2[..g2 as usize] != buf[1..n as usize] {
                return "READ-OFFSET-DISAGREE".into();
            }
        }
        hex(&buf[..n as usize])
    };
    match op {
        J::Lookup(k) => {
            let id = inst.verif_lookup_entry(k);
            if id != NONE {
                eids.push(id);
            }
            format!("{:x}", id)
        }
        J::Create(k) => match inst.verif_create_entry(k) {
            Ok(id) => {
                if id != NONE {
                    eids.push(id);
                }
                format!("{:x}", id)
            }
            Err(_) => "error".into(),
        },
        J::Delete(k) => inst.verif_delete_entry(k).map(|v| v.to_string()).unwrap_or("error".into()),
        J::DeletePrefix(k) => inst.verif_delete_prefix(&mut energy, k).map(|v| v.to_string()).unwrap_or("error".into()),
        J::Iter(k) => {
            let id = inst.verif_iterator(k);
            if id != NONE && id != ERR {
                iids.push(id);
            }
            format!("{:x}", id)
        }
        J::Next(_) | J::ForgedIter(_) => {
            let id = match op {
                J::Next(i) => match pick(iids, *i) {
                    Some(id) => id,
                    None => return "skip".into(),
                },
                J::ForgedIter(i) => forged(pick(iids, *i), *i),
                _ => unreachable!(),
            };
            match inst.verif_iterator_next(&mut energy, id) {
                Ok(e) => {
                    if e != NONE && e != ERR {
                        eids.push(e);
                    }
                    if e == NONE {
                        // after exhaustion the key of the iterator is unspecified
                        exhausted.push(id);
                    }
                    format!("{:x}", e)
                }
                Err(_) => "error".into(),
            }
        }
        J::IterDelete(i) => match pick(iids, *i) {
            Some(id) => inst.verif_iterator_delete(&mut energy, id).map(|v| v.to_string()).unwrap_or("error".into()),
            None => "skip".into(),
        },
        J::IterKey(i) => match pick(iids, *i) {
            Some(id) => {
                let n = inst.verif_iterator_key_size(id);
                if n == INVALID {
                    let mut b = [0u8; 2];
                    return if inst.verif_iterator_key_read(id, &mut b, 0) == INVALID { "invalid".into() } else { "KEY-DISAGREE".into() };
                }
                let mut buf = vec![0u8; n as usize];
                let got = inst.verif_iterator_key_read(id, &mut buf, 0);
                if got != n {
                    format!("KEY-LEN-{}-{}", got, n)
                } else if exhausted.contains(&id) {
                    "?".into()
                } else {
                    hex(&buf)
                }
            }
            None => "skip".into(),
        },
        J::Read(h) => match pick(eids, *h) {
            Some(id) => read_entry(inst, id, false),
            None => "skip".into(),
        },
        J::Size(h) => match pick(eids, *h) {
            Some(id) => read_entry(inst, id, true),
            None => "skip".into(),
        },
        J::ForgedEntry(h) => read_entry(inst, forged(pick(eids, *h), *h), false),
        J::Write(h, off, data) => match pick(eids, *h) {
            Some(id) => inst.verif_entry_write(&mut energy, id, data, *off).map(|v| v.to_string()).unwrap_or("error".into()),
            None => "skip".into(),
        },
        J::Resize(h, n) => match pick(eids, *h) {
            Some(id) => inst.verif_entry_resize(&mut energy, id, *n).map(|v| v.to_string()).unwrap_or("error".into()),
            None => "skip".into(),
        },
        J::Interrupt | J::End(_) => unreachable!(),
    }
}

enum SegEnd {
    Interrupt(VerifSuspended),
    Done(bool),
}

struct Ctx<'o> {
    ops: &'o [J],
    pos: usize,
    outs: Vec<String>,
    exp: Vec<String>,
}

/// One uninterrupted stretch of a call: from (re)entry to the next interrupt or the end of the call.
fn segment(
    st: &mut MutableState,
    resume: Option<(VerifSuspended, bool)>,
    cx: &mut Ctx,
    rt: &mut RTrie,
    ri: &mut RInst,
    eids: &mut Vec<u64>,
    iids: &mut Vec<u64>,
    reids: &mut Vec<u64>,
    riids: &mut Vec<u64>,
    exhausted: &mut Vec<u64>,
) -> (SegEnd, bool) {
    let store: &[u8] = &[];
    let mut loader = Loader::new(store);
    let inner = st.get_inner(&mut loader).clone();
    let mut inst: Inst = match resume {
        None => InstanceState::new(Loader::new(store), &inner),
        Some((s, updated)) => InstanceState::verif_resume(s, updated, Loader::new(store), &inner),
    };
    loop {
        if cx.pos >= cx.ops.len() {
            return (SegEnd::Done(true), inst.verif_changed());
        }
        let op = cx.ops[cx.pos].clone();
        cx.pos += 1;
        match op {
            J::Interrupt => {
                cx.outs.push("[".into());
                cx.exp.push("[".into());
                let changed = inst.verif_changed();
                return (SegEnd::Interrupt(inst.verif_suspend()), changed);
            }
            J::End(commit) => {
                cx.outs.push("]".into());
                cx.exp.push("]".into());
                return (SegEnd::Done(commit), inst.verif_changed());
            }
            _ => {
                let got = impl_step(&mut inst, &op, eids, iids, exhausted);
                let exp = ri.step(rt, &op, reids, riids);
                cx.outs.push(got);
                cx.exp.push(exp);
            }
        }
    }
}

/// A whole call (outermost or re-entrant). Returns (commit, changed).
fn run_call(st: &mut MutableState, cx: &mut Ctx, rt: &mut RTrie, depth: usize) -> (bool, bool) {
    let mut ri = RInst::default();
    let (mut eids, mut iids, mut reids, mut riids, mut exhausted) = (vec![], vec![], vec![], vec![], vec![]);
    let mut resume: Option<(VerifSuspended, bool)> = None;
    let mut changed_any = false;
    loop {
        let (end, changed) = segment(st, resume.take(), cx, rt, &mut ri, &mut eids, &mut iids, &mut reids, &mut riids, &mut exhausted);
        changed_any |= changed;
        match end {
            SegEnd::Done(commit) => return (commit, changed_any),
            SegEnd::Interrupt(susp) => {
                let store: &[u8] = &[];
                let mut loader = Loader::new(store);
                let mut st2 = st.make_fresh_generation(&mut loader);
                let mut rt2 = RTrie { map: rt.map.clone(), ents: rt.ents.clone(), locks: vec![] };
                let (commit, inner_changed) = run_call(&mut st2, cx, &mut rt2, depth + 1);
                let updated = commit && inner_changed;
                if updated {
                    *st = st2;
                    *rt = rt2;
                    ri.gen += 1;
                    ri.emap.clear();
                    ri.iters.clear();
                    changed_any = true;
                }
                ri.changed = false;
                resume = Some((susp, updated));
            }
        }
    }
}

fn run(ops: &[J]) -> (Vec<String>, Vec<String>, Option<String>) {
    let mut cx = Ctx { ops, pos: 0, outs: vec![], exp: vec![] };
    let res = guarded(|| {
        let store: &[u8] = &[];
        let mut loader = Loader::new(store);
        let mut st = MutableState::initial_state();
        let _ = st.get_inner(&mut loader);
        let mut rt = RTrie::default();
        run_call(&mut st, &mut cx, &mut rt, 0);
    });
    (cx.outs, cx.exp, res.err())
}

fn gen_ops(rng: &mut Rng) -> Vec<J> {
    let uni = KeyUniverse::new(rng);
    let cap = if rng.chance(1, 4) { 250 } else { 60 };
    let n = 1 + rng.below(cap) as usize;
    let mut ops = Vec::new();
    let mut depth = 0usize;
    // rough counts of ids handed out at the current level (stack)
    let mut counts: Vec<(usize, usize)> = vec![(0, 0)];
    for _ in 0..n {
        let (ne, ni) = *counts.last().unwrap();
        let idx = |rng: &mut Rng, n: usize| -> usize { if n == 0 { 0 } else if rng.chance(1, 2) { n - 1 - rng.below(n.min(3) as u64) as usize } else { rng.below(n as u64 + 1) as usize } };
        let op = match rng.below(100) {
            0..=9 => J::Lookup(uni.key(rng)),
            10..=27 => J::Create(uni.key(rng)),
            28..=35 => J::Delete(uni.key(rng)),
            36..=40 => J::DeletePrefix(uni.prefix(rng)),
            41..=50 => J::Iter(uni.prefix(rng)),
            51..=62 => J::Next(idx(rng, ni)),
            63..=66 => J::IterDelete(idx(rng, ni)),
            67..=69 => J::IterKey(idx(rng, ni)),
            70..=76 => J::Read(idx(rng, ne)),
            77..=78 => J::Size(idx(rng, ne)),
            79..=86 => {
                let off = *rng.pick(&[0u32, 0, 1, 2, 5, 64, 65]);
                let len = *rng.pick(&[0usize, 1, 3, 64, 65, 10]);
                J::Write(idx(rng, ne), off, rng.bytes(len))
            }
            87..=89 => J::Resize(idx(rng, ne), *rng.pick(&[0u32, 1, 2, 64, 65, 300])),
            90 => J::ForgedEntry(idx(rng, ne)),
            91 => J::ForgedIter(idx(rng, ni)),
            92..=95 => {
                if depth < 2 {
                    depth += 1;
                    counts.push((0, 0));
                    J::Interrupt
                } else {
                    J::Lookup(uni.key(rng))
                }
            }
            _ => {
                if depth > 0 {
                    depth -= 1;
                    counts.pop();
                    J::End(rng.chance(2, 3))
                } else {
                    J::Create(uni.key(rng))
                }
            }
        };
        let op = match op {
            J::Next(_) | J::IterDelete(_) | J::IterKey(_) if ni == 0 && rng.chance(5, 6) => J::Iter(uni.prefix(rng)),
            J::Read(_) | J::Size(_) | J::Write(..) | J::Resize(..) if ne == 0 && rng.chance(5, 6) => J::Create(uni.key(rng)),
            o => o,
        };
        match &op {
            J::Create(_) => counts.last_mut().unwrap().0 += 1,
            J::Iter(_) => counts.last_mut().unwrap().1 += 1,
            _ => {}
        }
        ops.push(op);
    }
    while depth > 0 {
        depth -= 1;
        ops.push(J::End(rng.chance(1, 2)));
        // and a few operations of the resumed caller using its old ids
        for _ in 0..rng.below(6) {
            ops.push(match rng.below(4) {
                0 => J::Read(rng.below(4) as usize),
                1 => J::Next(rng.below(3) as usize),
                2 => J::Write(rng.below(4) as usize, 0, rng.bytes(2)),
                _ => J::IterDelete(rng.below(3) as usize),
            });
        }
    }
    ops
}

fn emit(id: &str, ops: &[J]) {
    let (outs, exp, panic) = run(ops);
    println!("J {} {}", id, ops.iter().map(|o| o.show()).collect::<Vec<_>>().join(";"));
    println!("R {} {}", id, outs.join(";"));
    let first_bad = outs.iter().zip(exp.iter()).position(|(a, b)| a != b).map(|i| i as i64).unwrap_or(if outs.len() != exp.len() { outs.len().min(exp.len()) as i64 } else { -1 });
    let ok = first_bad < 0 && panic.is_none();
    println!(
        "O {} {}",
        id,
        serde_json::json!({"ok": ok, "first_bad": first_bad,
            "exp": if first_bad >= 0 { exp.get(first_bad as usize).cloned() } else { None },
            "got": if first_bad >= 0 { outs.get(first_bad as usize).cloned() } else { None },
            "panic": panic, "len": ops.len()})
    );
}

pub fn generate(seed: u64, n: u64) {
    let mut rng = Rng::new(seed ^ 0x1157);
    for i in 0..n {
        let ops = gen_ops(&mut rng);
        emit(&format!("j{}", i), &ops);
    }
}

pub fn replay() {
    for line in std::io::stdin().lock().lines() {
        let line = line.unwrap();
        if let Some(rest) = line.strip_prefix("J ") {
            let (id, body) = rest.split_once(' ').unwrap_or((rest, ""));
            let ops: Vec<J> = body.split(';').filter(|s| !s.is_empty()).map(J::parse).collect();
            emit(id, &ops);
        }
    }
}
