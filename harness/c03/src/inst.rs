//! InstanceState layer (filled in below).
pub fn generate(_seed: u64, _n: u64) {}
pub fn replay() {}
