//! C03 / C15 harness: random operation histories over the contract-state trie.
//!
//!   c03 hist <seed> <n> <profile>    generate n histories (profile c03|c15), run them on the
//!                                    implementation and on the in-harness reference (BTreeMap stack +
//!                                    lock multiset); prints per history
//!                                       H <id> <ops>      the history (input of the Coq runner)
//!                                       R <id> <outs>     observations of the implementation
//!                                       O <id> <json>     verdict of the direct oracle + statistics
//!   c03 replay                       the same for histories read from stdin ("H <id> <ops>" lines)
//!   c03 prefix <seed> <n>            histories over `PrefixesMap` alone:  P / R lines
//!   c03 preplay                      the same for "P <id> <ops>" lines read from stdin
//!   c03 inst <seed> <n>              histories over `InstanceState` (contract-visible encodings)
//!   c03 ireplay                      the same for "J <id> <ops>" lines read from stdin
//!   c03 directed                     fixed directed cases (overflow of the lock count, api quirks)
//!
//! An id starting with `a` runs generations through the public `MutableState` API
//! (`get_inner` / `make_fresh_generation` / `freeze` / `thaw`), `t` drives `MutableTrie` directly
//! through the H1 hook wrappers.
use concordium_smart_contract_engine::v1::trie::{
    low_level::verif_hooks::*, EmptyCollector, EntryId, Loadable, Loader, MutableState,
    MutableTrie, PersistentState,
};
use hlib::{guarded, hex, quiet_panics, unhex, Rng};
use std::collections::{BTreeMap, VecDeque};
use std::io::BufRead;

mod inst;
mod stem;

// ------------------------------------------------------------------------------------------- ops

#[derive(Clone, Debug)]
pub enum Op {
    Insert(Vec<u8>, Vec<u8>),
    Get(Vec<u8>),
    Read(usize),
    Set(usize, Vec<u8>),
    Mut(usize, Vec<u8>),
    Delete(Vec<u8>),
    DeletePrefix(Vec<u8>),
    Iter(Vec<u8>),
    Next(usize),
    DelIter(usize),
    NewGen,
    Normalize(usize),
    /// like `Normalize`, but through the `MutableState` API the newer states are just dropped and the
    /// parent is NOT touched (`get_inner`) before the next operation: the next `make_fresh_generation` /
    /// `freeze` has to discard the abandoned generations itself
    Abandon(usize),
    Freeze,
    Thaw(u8),
    /// `MutableState::freeze` and then keep operating on the SAME `MutableState` (which must now be
    /// equivalent to a thaw of the result); semantics of `Thaw` in model, specification and reference
    FreezeKeep,
}

pub fn x(b: &[u8]) -> String { format!("x{}", hex(b)) }
pub fn unx(s: &str) -> Vec<u8> { unhex(&s[1..]) }

impl Op {
    fn show(&self) -> String {
        match self {
            Op::Insert(k, v) => format!("I {} {}", x(k), x(v)),
            Op::Get(k) => format!("G {}", x(k)),
            Op::Read(h) => format!("R {}", h),
            Op::Set(h, v) => format!("S {} {}", h, x(v)),
            Op::Mut(h, v) => format!("M {} {}", h, x(v)),
            Op::Delete(k) => format!("D {}", x(k)),
            Op::DeletePrefix(k) => format!("P {}", x(k)),
            Op::Iter(k) => format!("T {}", x(k)),
            Op::Next(i) => format!("N {}", i),
            Op::DelIter(i) => format!("X {}", i),
            Op::NewGen => "+".into(),
            Op::Normalize(r) => format!("- {}", r),
            Op::Abandon(r) => format!("~ {}", r),
            Op::Freeze => "F".into(),
            Op::Thaw(v) => format!("W {}", v),
            Op::FreezeKeep => "K".into(),
        }
    }

    fn parse(s: &str) -> Op {
        let t: Vec<&str> = s.split(' ').collect();
        match t[0] {
            "I" => Op::Insert(unx(t[1]), unx(t[2])),
            "G" => Op::Get(unx(t[1])),
            "R" => Op::Read(t[1].parse().unwrap()),
            "S" => Op::Set(t[1].parse().unwrap(), unx(t[2])),
            "M" => Op::Mut(t[1].parse().unwrap(), unx(t[2])),
            "D" => Op::Delete(unx(t[1])),
            "P" => Op::DeletePrefix(unx(t[1])),
            "T" => Op::Iter(unx(t[1])),
            "N" => Op::Next(t[1].parse().unwrap()),
            "X" => Op::DelIter(t[1].parse().unwrap()),
            "+" => Op::NewGen,
            "-" => Op::Normalize(t[1].parse().unwrap()),
            "~" => Op::Abandon(t[1].parse().unwrap()),
            "F" => Op::Freeze,
            "W" => Op::Thaw(t.get(1).map(|v| v.parse().unwrap()).unwrap_or(0)),
            "K" => Op::FreezeKeep,
            _ => panic!("bad op {}", s),
        }
    }

    fn tag(&self) -> &'static str {
        match self {
            Op::Insert(..) => "insert",
            Op::Get(..) => "get",
            Op::Read(..) => "read",
            Op::Set(..) => "set",
            Op::Mut(..) => "get_mut",
            Op::Delete(..) => "delete",
            Op::DeletePrefix(..) => "delete_prefix",
            Op::Iter(..) => "iter",
            Op::Next(..) => "next",
            Op::DelIter(..) => "delete_iter",
            Op::NewGen => "new_generation",
            Op::Normalize(..) => "normalize",
            Op::Abandon(..) => "abandon",
            Op::Freeze => "freeze",
            Op::Thaw(..) => "thaw",
            Op::FreezeKeep => "freeze_keep",
        }
    }
}

fn optval(v: &Option<Vec<u8>>) -> String {
    match v {
        None => "~".into(),
        Some(v) => hex(v),
    }
}

fn dump_str(l: &[(Vec<u8>, Option<Vec<u8>>)]) -> String {
    format!("{{{}}}", l.iter().map(|(k, v)| format!("{}={}", hex(k), optval(v))).collect::<Vec<_>>().join(","))
}

// ------------------------------------------------------------------- reference (direct oracle)

/// The reference: a stack of ordered maps from keys to entry ids, a table of entries, and live
/// iterators that are snapshots of the keys under their prefix.  "Locked" is defined from the
/// live iterators.  This mirrors the level-A specification of coq/Trie/Locks.v and is written
/// independently of the implementation.
#[derive(Clone, Default)]
struct RGen {
    map: BTreeMap<Vec<u8>, usize>,
    ents: Vec<Option<Vec<u8>>>,
    handles: Vec<usize>,
    iters: Vec<Option<(Vec<u8>, VecDeque<Vec<u8>>)>>,
}

impl RGen {
    fn locked(&self, k: &[u8]) -> bool { self.iters.iter().flatten().any(|(p, _)| k.starts_with(p)) }

    fn locked2(&self, k: &[u8]) -> bool {
        self.iters.iter().flatten().any(|(p, _)| k.starts_with(p) || p.starts_with(k))
    }

    fn locks(&self) -> Vec<(Vec<u8>, u32)> {
        let mut m: BTreeMap<Vec<u8>, u32> = BTreeMap::new();
        for (p, _) in self.iters.iter().flatten() {
            *m.entry(p.clone()).or_insert(0) += 1;
        }
        m.into_iter().collect()
    }

    fn ent(&self, e: usize) -> Option<Vec<u8>> { self.ents.get(e).cloned().flatten() }

    fn dump(&self) -> Vec<(Vec<u8>, Option<Vec<u8>>)> {
        self.map.iter().map(|(k, e)| (k.clone(), self.ent(*e))).collect()
    }
}

struct Reference {
    gens: Vec<RGen>,
}

impl Reference {
    fn new() -> Self { Reference { gens: vec![RGen::default()] } }

    fn cur(&mut self) -> &mut RGen { self.gens.last_mut().unwrap() }

    fn step(&mut self, op: &Op) -> String {
        match op {
            Op::Insert(k, v) => {
                let g = self.cur();
                if g.locked(k) {
                    return "L".into();
                }
                let h = g.handles.len();
                if let Some(&e) = g.map.get(k) {
                    g.ents[e] = Some(v.clone());
                    g.handles.push(e);
                    format!("h{}:1", h)
                } else {
                    let e = g.ents.len();
                    g.ents.push(Some(v.clone()));
                    g.map.insert(k.clone(), e);
                    g.handles.push(e);
                    format!("h{}:0", h)
                }
            }
            Op::Get(k) => {
                let g = self.cur();
                match g.map.get(k).copied() {
                    None => "-".into(),
                    Some(e) => {
                        let h = g.handles.len();
                        g.handles.push(e);
                        format!("f{}={}", h, optval(&g.ent(e)))
                    }
                }
            }
            Op::Read(h) => {
                let g = self.cur();
                match g.handles.get(*h).copied() {
                    None => "x".into(),
                    Some(e) => format!("={}", optval(&g.ent(e))),
                }
            }
            Op::Set(h, v) => {
                let g = self.cur();
                match g.handles.get(*h).copied() {
                    None => "x".into(),
                    Some(e) => {
                        if g.ent(e).is_some() {
                            g.ents[e] = Some(v.clone());
                            "1".into()
                        } else {
                            "0".into()
                        }
                    }
                }
            }
            Op::Mut(h, v) => {
                let g = self.cur();
                match g.handles.get(*h).copied() {
                    None => "x".into(),
                    Some(e) => {
                        let old = g.ent(e);
                        if old.is_some() {
                            g.ents[e] = Some(v.clone());
                        }
                        format!("={}", optval(&old))
                    }
                }
            }
            Op::Delete(k) => {
                let g = self.cur();
                if g.map.is_empty() {
                    return "0".into();
                }
                if g.locked(k) {
                    return "L".into();
                }
                match g.map.remove(k) {
                    None => "0".into(),
                    Some(e) => {
                        let alive = g.ent(e).is_some();
                        g.ents[e] = None;
                        if alive { "1".into() } else { "0".into() }
                    }
                }
            }
            Op::DeletePrefix(k) => {
                let g = self.cur();
                if g.map.is_empty() {
                    return "0".into();
                }
                if g.locked2(k) {
                    return "L".into();
                }
                let ks: Vec<Vec<u8>> = g.map.keys().filter(|x| x.starts_with(k)).cloned().collect();
                if ks.is_empty() {
                    return "0".into();
                }
                for key in ks {
                    let e = g.map.remove(&key).unwrap();
                    g.ents[e] = None;
                }
                "1".into()
            }
            Op::Iter(k) => {
                let g = self.cur();
                let ks: VecDeque<Vec<u8>> = g.map.keys().filter(|x| x.starts_with(k)).cloned().collect();
                if ks.is_empty() {
                    return "-".into();
                }
                let i = g.iters.len();
                g.iters.push(Some((k.clone(), ks)));
                format!("i{}", i)
            }
            Op::Next(i) => {
                let g = self.cur();
                let nk = match g.iters.get_mut(*i) {
                    Some(Some((_, rem))) => rem.pop_front(),
                    _ => return "x".into(),
                };
                match nk {
                    None => "-".into(),
                    Some(k) => match g.map.get(&k).copied() {
                        Some(e) => {
                            let h = g.handles.len();
                            g.handles.push(e);
                            format!("n{},{}={}", hex(&k), h, optval(&g.ent(e)))
                        }
                        None => "REFERENCE-LOST-KEY".into(),
                    },
                }
            }
            Op::DelIter(i) => {
                let g = self.cur();
                match g.iters.get_mut(*i) {
                    Some(s @ Some(_)) => {
                        *s = None;
                        "1".into()
                    }
                    _ => "x".into(),
                }
            }
            Op::NewGen => {
                let g = self.cur().clone();
                self.gens.push(RGen { map: g.map, ents: g.ents, handles: vec![], iters: vec![] });
                format!("g{}", self.gens.len())
            }
            Op::Normalize(r) | Op::Abandon(r) => {
                if r + 1 < self.gens.len() {
                    self.gens.truncate(r + 1);
                }
                format!("g{}", self.gens.len())
            }
            Op::Freeze => dump_str(&self.cur().dump()),
            Op::Thaw(_) | Op::FreezeKeep => {
                let g = self.cur().clone();
                let d = dump_str(&g.dump());
                self.gens = vec![RGen { map: g.map, ents: g.ents, handles: vec![], iters: vec![] }];
                d
            }
        }
    }
}

// ------------------------------------------------------------------------- implementation side

#[derive(Default)]
struct Tables {
    handles: Vec<EntryId>,
    iters: Vec<Option<VerifIterator>>,
}

enum Backend {
    Trie(MutableTrie),
    Api(Vec<MutableState>),
}

struct Machine {
    backend: Backend,
    store: Vec<u8>,
    tabs: Vec<Tables>,
    /// persistent states produced so far with the contents they had when produced
    /// (oracle: a persistent state never changes afterwards)
    frozen: Vec<(PersistentState, String)>,
}

fn persistent_dump(ps: &PersistentState, store: &[u8]) -> String {
    let mut loader = Loader::new(store);
    let items: Vec<(Vec<u8>, Vec<u8>)> = ps.clone().into_iterator(&mut loader).collect();
    let mut out: Vec<(Vec<u8>, Option<Vec<u8>>)> = Vec::new();
    let mut bad = false;
    for (k, v) in items.iter() {
        let mut loader = Loader::new(store);
        let lv = ps.lookup(&mut loader, k);
        if lv.as_ref() != Some(v) {
            bad = true;
        }
        out.push((k.clone(), Some(v.clone())));
    }
    // a few absent keys: extensions and truncations of present keys
    for (k, _) in items.iter().take(8) {
        let mut k2 = k.clone();
        k2.push(0x5a);
        let mut loader = Loader::new(store);
        if !items.iter().any(|(kk, _)| kk == &k2) && ps.lookup(&mut loader, &k2).is_some() {
            bad = true;
        }
        if !k.is_empty() {
            let k3 = k[..k.len() - 1].to_vec();
            let mut loader = Loader::new(store);
            if !items.iter().any(|(kk, _)| kk == &k3) && ps.lookup(&mut loader, &k3).is_some() {
                bad = true;
            }
        }
    }
    let mut s = dump_str(&out);
    if bad {
        s.push_str("!LOOKUP");
    }
    s
}

impl Machine {
    fn new(api: bool) -> Self {
        let backend = if api {
            let mut st = MutableState::initial_state();
            let mut loader = Loader::new(&[][..]);
            // touch the state so that `make_fresh_generation` really starts a generation
            let _ = st.get_inner(&mut loader);
            Backend::Api(vec![st])
        } else {
            Backend::Trie(MutableTrie::empty())
        };
        Machine { backend, store: Vec::new(), tabs: vec![Tables::default()], frozen: Vec::new() }
    }

    fn with_trie<X>(&mut self, f: impl FnOnce(&mut MutableTrie, &mut Loader<&[u8]>, &mut Tables) -> X) -> X {
        let Machine { backend, store, tabs, .. } = self;
        let mut loader = Loader::new(&store[..]);
        let tab = tabs.last_mut().unwrap();
        match backend {
            Backend::Trie(t) => f(t, &mut loader, tab),
            Backend::Api(states) => {
                let st = states.last_mut().unwrap();
                let inner = st.get_inner(&mut loader);
                let mut guard = inner.lock();
                f(&mut guard, &mut loader, tab)
            }
        }
    }

    fn locks(&mut self) -> Vec<(Vec<u8>, u32)> { self.with_trie(|t, _, _| t.verif_locks()) }

    fn num_gens(&self) -> usize {
        match &self.backend {
            Backend::Trie(t) => t.verif_num_generations(),
            Backend::Api(s) => s.len(),
        }
    }

    /// Freeze a copy of the current generation (the machine itself is unchanged).
    fn freeze_copy(&mut self) -> PersistentState {
        let Machine { backend, store, .. } = self;
        let mut loader = Loader::new(&store[..]);
        let copy: MutableTrie = match backend {
            Backend::Trie(t) => t.clone(),
            Backend::Api(states) => {
                let st = states.last_mut().unwrap();
                let inner = st.get_inner(&mut loader);
                let guard = inner.lock();
                (*guard).clone()
            }
        };
        match copy.freeze(&mut loader, &mut EmptyCollector) {
            Some(n) => PersistentState::from(n),
            None => PersistentState::Empty,
        }
    }

    fn step(&mut self, op: &Op) -> String {
        match op {
            Op::Insert(k, v) => self.with_trie(|t, l, tab| match t.insert(l, k, v.clone()) {
                Ok((e, existed)) => {
                    let h = tab.handles.len();
                    tab.handles.push(e);
                    format!("h{}:{}", h, existed as u8)
                }
                Err(_) => "L".into(),
            }),
            Op::Get(k) => self.with_trie(|t, l, tab| match t.get_entry(l, k) {
                None => "-".into(),
                Some(e) => {
                    let h = tab.handles.len();
                    tab.handles.push(e);
                    let v = t.with_entry(e, l, |x| x.to_vec());
                    format!("f{}={}", h, optval(&v))
                }
            }),
            Op::Read(h) => self.with_trie(|t, l, tab| match tab.handles.get(*h).copied() {
                None => "x".into(),
                Some(e) => format!("={}", optval(&t.with_entry(e, l, |x| x.to_vec()))),
            }),
            Op::Set(h, v) => self.with_trie(|t, _, tab| match tab.handles.get(*h).copied() {
                None => "x".into(),
                Some(e) => {
                    if t.set(e, v.clone()).is_some() { "1".into() } else { "0".into() }
                }
            }),
            Op::Mut(h, v) => self.with_trie(|t, l, tab| match tab.handles.get(*h).copied() {
                None => "x".into(),
                Some(e) => match t.verif_get_mut(e, l) {
                    Some(r) => {
                        let old = std::mem::replace(r, v.clone());
                        format!("={}", hex(&old))
                    }
                    None => "=~".into(),
                },
            }),
            Op::Delete(k) => self.with_trie(|t, l, _| match t.delete(l, k) {
                Ok(b) => format!("{}", b as u8),
                Err(_) => "L".into(),
            }),
            Op::DeletePrefix(k) => self.with_trie(|t, l, _| match t.verif_delete_prefix(l, k) {
                Ok(b) => format!("{}", b as u8),
                Err(_) => "L".into(),
            }),
            Op::Iter(k) => self.with_trie(|t, l, tab| match t.verif_iter(l, k) {
                Err(_) => "E".into(),
                Ok(None) => "-".into(),
                Ok(Some(it)) => {
                    let i = tab.iters.len();
                    tab.iters.push(Some(it));
                    format!("i{}", i)
                }
            }),
            Op::Next(i) => self.with_trie(|t, l, tab| {
                let Tables { handles, iters } = tab;
                match iters.get_mut(*i) {
                    Some(Some(it)) => match t.verif_next(l, it) {
                        None => "-".into(),
                        Some(e) => {
                            let key = it.get_key().to_vec();
                            let h = handles.len();
                            handles.push(e);
                            let v = t.with_entry(e, l, |x| x.to_vec());
                            format!("n{},{}={}", hex(&key), h, optval(&v))
                        }
                    },
                    _ => "x".into(),
                }
            }),
            Op::DelIter(i) => self.with_trie(|t, _, tab| match tab.iters.get_mut(*i) {
                Some(slot @ Some(_)) => {
                    let b = t.verif_delete_iter(slot.as_ref().unwrap());
                    *slot = None;
                    format!("{}", b as u8)
                }
                _ => "x".into(),
            }),
            Op::NewGen => {
                let Machine { backend, store, tabs, .. } = self;
                let mut loader = Loader::new(&store[..]);
                match backend {
                    Backend::Trie(t) => t.verif_new_generation(),
                    Backend::Api(states) => {
                        let s = states.last_mut().unwrap().make_fresh_generation(&mut loader);
                        states.push(s);
                    }
                }
                tabs.push(Tables::default());
                format!("g{}", self.num_gens())
            }
            Op::Normalize(r) => {
                let Machine { backend, store, tabs, .. } = self;
                let mut loader = Loader::new(&store[..]);
                match backend {
                    Backend::Trie(t) => t.verif_normalize(*r as u32),
                    Backend::Api(states) => {
                        if r + 1 < states.len() {
                            states.truncate(r + 1);
                        }
                        // `get_inner` brings the shared trie back to this generation
                        let _ = states.last_mut().unwrap().get_inner(&mut loader);
                    }
                }
                if r + 1 < tabs.len() {
                    tabs.truncate(r + 1);
                }
                format!("g{}", self.num_gens())
            }
            Op::Abandon(r) => {
                let Machine { backend, tabs, .. } = self;
                match backend {
                    Backend::Trie(t) => t.verif_normalize(*r as u32),
                    Backend::Api(states) => {
                        // the newer states are dropped; the parent is not touched
                        if r + 1 < states.len() {
                            states.truncate(r + 1);
                        }
                    }
                }
                if r + 1 < tabs.len() {
                    tabs.truncate(r + 1);
                }
                format!("g{}", self.num_gens())
            }
            Op::Freeze => {
                let ps = self.freeze_copy();
                let d = persistent_dump(&ps, &self.store);
                self.frozen.push((ps, d.clone()));
                d
            }
            Op::FreezeKeep => {
                if let Backend::Trie(_) = self.backend {
                    return self.step(&Op::Thaw(0));
                }
                let Machine { backend, store, tabs, frozen } = self;
                let mut loader = Loader::new(&store[..]);
                let d = match backend {
                    Backend::Api(states) => {
                        let mut st = states.pop().unwrap();
                        let ps = st.freeze(&mut loader, &mut EmptyCollector);
                        let d = persistent_dump(&ps, store);
                        frozen.push((ps, d.clone()));
                        // keep using the very same MutableState (older states share the emptied trie and are gone)
                        let _ = st.get_inner(&mut loader);
                        *states = vec![st];
                        d
                    }
                    Backend::Trie(_) => unreachable!(),
                };
                *tabs = vec![Tables::default()];
                d
            }
            Op::Thaw(variant) => {
                // freeze for real (consuming), optionally write to the backing store and reload,
                // then continue on the thawed state
                let mut ps = {
                    let Machine { backend, store, .. } = self;
                    let mut loader = Loader::new(&store[..]);
                    match backend {
                        Backend::Trie(t) => {
                            let t = std::mem::replace(t, MutableTrie::empty());
                            match t.freeze(&mut loader, &mut EmptyCollector) {
                                Some(n) => PersistentState::from(n),
                                None => PersistentState::Empty,
                            }
                        }
                        Backend::Api(states) => {
                            states.last_mut().unwrap().freeze(&mut loader, &mut EmptyCollector)
                        }
                    }
                };
                let d0 = persistent_dump(&ps, &self.store);
                self.frozen.push((ps.clone(), d0.clone()));
                match variant % 3 {
                    1 => {
                        // store; children become disk references, the root stays in memory
                        ps.store_update(&mut self.store).expect("store");
                    }
                    2 => {
                        // store and reload from the backing store: everything is on disk
                        let r = ps.store_update(&mut self.store).expect("store");
                        let mut loader = Loader::new(&self.store[..]);
                        ps = PersistentState::load_from_location(&mut loader, r).expect("load");
                        if variant % 2 == 0 {
                            ps.cache(&mut loader);
                        }
                    }
                    _ => {}
                }
                let d = persistent_dump(&ps, &self.store);
                let Machine { backend, store, tabs, .. } = self;
                let mut loader = Loader::new(&store[..]);
                match backend {
                    Backend::Trie(t) => *t = ps.clone().into_trie(&mut loader),
                    Backend::Api(states) => {
                        let mut st = ps.thaw();
                        let _ = st.get_inner(&mut loader);
                        *states = vec![st];
                    }
                }
                *tabs = vec![Tables::default()];
                if d != d0 { format!("{}!RELOAD", d) } else { d }
            }
        }
    }
}

// --------------------------------------------------------------------------------- run a history

struct Outcome {
    outs: Vec<String>,
    first_bad: i64,
    exp: String,
    got: String,
    locks_ok: bool,
    persist_ok: bool,
    panic: Option<String>,
}

fn run_history(api: bool, ops: &[Op]) -> Outcome {
    let mut m = Machine::new(api);
    let mut r = Reference::new();
    let mut o = Outcome { outs: vec![], first_bad: -1, exp: String::new(), got: String::new(), locks_ok: true, persist_ok: true, panic: None };
    for (i, op) in ops.iter().enumerate() {
        let got = match guarded(|| m.step(op)) {
            Ok(s) => s,
            Err(e) => {
                o.panic = Some(e);
                o.outs.push("PANIC".into());
                if o.first_bad < 0 {
                    o.first_bad = i as i64;
                    o.exp = r.step(op);
                    o.got = "PANIC".into();
                }
                return o;
            }
        };
        let exp = r.step(op);
        if got != exp && o.first_bad < 0 {
            o.first_bad = i as i64;
            o.exp = exp.clone();
            o.got = got.clone();
        }
        // direct oracle on the lock multiset: exactly the prefixes of the live iterators
        // (not after an abandon: looking at the trie through the parent would normalise it)
        if let Op::Abandon(_) = op {
            o.outs.push(got);
            continue;
        }
        match guarded(|| m.locks()) {
            Ok(l) => {
                if l != r.cur().locks() && o.locks_ok {
                    o.locks_ok = false;
                    if o.first_bad < 0 {
                        o.first_bad = i as i64;
                        o.exp = format!("locks {:?}", r.cur().locks());
                        o.got = format!("locks {:?}", l);
                    }
                }
            }
            Err(e) => {
                o.panic = Some(e);
                o.outs.push("PANIC".into());
                return o;
            }
        }
        o.outs.push(got);
    }
    // persistent states never change after they were produced
    let store = m.store.clone();
    for (ps, d) in m.frozen.iter() {
        match guarded(|| persistent_dump(ps, &store)) {
            Ok(d2) => {
                if &d2 != d {
                    o.persist_ok = false;
                    if o.first_bad < 0 {
                        o.first_bad = ops.len() as i64;
                        o.exp = d.clone();
                        o.got = d2;
                    }
                }
            }
            Err(e) => {
                o.panic = Some(e);
                o.persist_ok = false;
            }
        }
    }
    o
}

// ------------------------------------------------------------------------------------ generator

pub struct KeyUniverse {
    pub keys: Vec<Vec<u8>>,
}

const SPECIAL: [u8; 10] = [0x00, 0xff, 0x10, 0x01, 0x0f, 0xf0, 0x11, 0xab, 0x80, 0x7f];

impl KeyUniverse {
    /// An adversarial set of keys: sharing long prefixes, prefixes of each other, differing in
    /// the high or the low nibble of a byte, the empty key, 0x00 / 0xff bytes, stems longer than
    /// the 63-nibble inline limit.
    pub fn new(rng: &mut Rng) -> Self {
        let mut keys: Vec<Vec<u8>> = Vec::new();
        let nbase = 1 + rng.below(3);
        for _ in 0..nbase {
            let blen = match rng.below(10) {
                0 => 0,
                1..=5 => 1 + rng.below(3) as usize,
                6..=7 => 4 + rng.below(6) as usize,
                8 => 30 + rng.below(6) as usize,
                _ => 60 + rng.below(10) as usize,
            };
            let base: Vec<u8> = (0..blen).map(|_| if rng.chance(2, 3) { *rng.pick(&SPECIAL) } else { rng.next() as u8 }).collect();
            keys.push(base.clone());
            let b = if rng.chance(1, 2) { *rng.pick(&SPECIAL) } else { rng.next() as u8 };
            let nvar = 1 + rng.below(5);
            for _ in 0..nvar {
                let mut k = base.clone();
                match rng.below(8) {
                    0 => k.push(b),
                    1 => k.push(b ^ 0x01),
                    2 => k.push(b ^ 0x10),
                    3 => {
                        k.push(b);
                        k.push(*rng.pick(&SPECIAL));
                    }
                    4 => {
                        k.push(b);
                        let n = 1 + rng.below(4);
                        for _ in 0..n {
                            k.push(*rng.pick(&SPECIAL));
                        }
                    }
                    5 => {
                        // a proper prefix of the base
                        let n = rng.below(k.len() as u64 + 1) as usize;
                        k.truncate(n);
                    }
                    6 => {
                        // differ in the last byte's low / high nibble
                        if let Some(l) = k.last_mut() {
                            *l ^= if rng.chance(1, 2) { 0x01 } else { 0x10 };
                        } else {
                            k.push(0);
                        }
                    }
                    _ => {
                        k.push(b ^ 0x11);
                        k.push(b);
                    }
                }
                keys.push(k);
            }
        }
        if rng.chance(1, 3) {
            keys.push(vec![]);
        }
        keys.sort();
        keys.dedup();
        KeyUniverse { keys }
    }

    pub fn key(&self, rng: &mut Rng) -> Vec<u8> {
        if rng.chance(9, 10) {
            rng.pick(&self.keys).clone()
        } else {
            let mut k = rng.pick(&self.keys).clone();
            match rng.below(4) {
                0 => k.push(rng.next() as u8),
                1 => {
                    let n = rng.below(k.len() as u64 + 1) as usize;
                    k.truncate(n);
                }
                2 => {
                    if let Some(l) = k.last_mut() {
                        *l = l.wrapping_add(1);
                    }
                }
                _ => k = rng.bytes(rng.clone().below(4) as usize),
            }
            k
        }
    }

    /// A prefix to iterate over / delete: a key, a proper prefix of a key, or the empty prefix.
    pub fn prefix(&self, rng: &mut Rng) -> Vec<u8> {
        let mut k = self.key(rng);
        match rng.below(6) {
            0 => k.clear(),
            1 | 2 => {
                let n = rng.below(k.len() as u64 + 1) as usize;
                k.truncate(n);
            }
            _ => {}
        }
        k
    }
}

pub fn value(rng: &mut Rng) -> Vec<u8> {
    let len = match rng.below(10) {
        0 => 0,
        1 | 2 => 1,
        3 => 64,
        4 => 65,
        5 => 300,
        6 => 63,
        _ => rng.below(12) as usize,
    };
    rng.bytes(len)
}

fn history_len(rng: &mut Rng, max: u64) -> usize {
    (match rng.below(10) {
        0..=3 => 1 + rng.below(20),
        4..=7 => 20 + rng.below(80),
        _ => 100 + rng.below(301),
    })
    .min(max) as usize
}

/// Generate a history.  The generator follows the reference state so that handle / iterator
/// numbers mostly refer to existing ones and rollbacks target existing generations.
fn gen_history(rng: &mut Rng, profile: &str, maxlen: u64) -> Vec<Op> {
    let uni = KeyUniverse::new(rng);
    let n = history_len(rng, maxlen);
    let mut r = Reference::new();
    let mut ops = Vec::with_capacity(n);
    // weights: insert get read set mut delete delprefix iter next deliter newgen normalize freeze thaw
    let w: [u64; 14] = if profile == "arena" {
        [26, 12, 7, 7, 7, 16, 7, 0, 0, 0, 8, 8, 0, 0]
    } else if profile == "c15" {
        [16, 5, 5, 4, 4, 12, 7, 14, 16, 6, 3, 3, 1, 1]
    } else {
        [24, 10, 6, 5, 5, 14, 5, 5, 8, 2, 5, 5, 3, 3]
    };
    let total: u64 = w.iter().sum();
    // start with a few inserts so that the tree is not trivial
    let warm = rng.below(6) as usize;
    while ops.len() < n {
        let g = r.gens.last().unwrap();
        let nh = g.handles.len();
        let ni = g.iters.len();
        let mut pick = rng.below(total);
        let mut c = 0;
        for (i, x) in w.iter().enumerate() {
            if pick < *x {
                c = i;
                break;
            }
            pick -= x;
        }
        if ops.len() < warm {
            c = 0;
        }
        // referring to a handle / iterator that does not exist is mostly a wasted operation
        if nh == 0 && (2..=4).contains(&c) && rng.chance(5, 6) {
            c = 0;
        }
        if ni == 0 && (8..=9).contains(&c) && rng.chance(5, 6) {
            c = 7;
        }
        let idx = |rng: &mut Rng, n: usize| -> usize {
            if n == 0 || rng.chance(1, 30) { n + rng.below(3) as usize } else if rng.chance(1, 2) { n - 1 - rng.below(n.min(4) as u64) as usize } else { rng.below(n as u64) as usize }
        };
        let op = match c {
            0 => Op::Insert(uni.key(rng), value(rng)),
            1 => Op::Get(uni.key(rng)),
            2 => Op::Read(idx(rng, nh)),
            3 => Op::Set(idx(rng, nh), value(rng)),
            4 => Op::Mut(idx(rng, nh), value(rng)),
            5 => Op::Delete(uni.key(rng)),
            6 => Op::DeletePrefix(uni.prefix(rng)),
            7 => Op::Iter(uni.prefix(rng)),
            8 => Op::Next(idx(rng, ni)),
            9 => Op::DelIter(idx(rng, ni)),
            10 => Op::NewGen,
            11 => {
                let ng = r.gens.len();
                let target = if rng.chance(1, 10) { ng + rng.below(2) as usize } else { rng.below(ng as u64) as usize };
                if rng.chance(2, 5) { Op::Abandon(target) } else { Op::Normalize(target) }
            }
            12 => Op::Freeze,
            _ => if rng.chance(1, 3) { Op::FreezeKeep } else { Op::Thaw(rng.below(6) as u8) },
        };
        let abandoned = matches!(op, Op::Abandon(_));
        r.step(&op);
        ops.push(op);
        // an abandoned checkpoint is typically followed by a new checkpoint of the same parent, or a freeze
        if abandoned && ops.len() < n {
            let follow = match rng.below(10) {
                0..=5 => Some(Op::NewGen),
                6 if profile != "arena" => Some(Op::Thaw(rng.below(6) as u8)),
                _ => None,
            };
            if let Some(f) = follow {
                r.step(&f);
                ops.push(f);
                // and look at what the new checkpoint sees
                if ops.len() + 2 < n && rng.chance(2, 3) {
                    let g = if profile != "arena" && rng.chance(1, 2) { Op::Freeze } else { Op::Get(uni.key(rng)) };
                    r.step(&g);
                    ops.push(g);
                }
            }
        }
    }
    ops
}

fn emit(id: &str, ops: &[Op], stats: &mut BTreeMap<String, u64>) -> bool {
    let api = id.starts_with('a');
    let o = run_history(api, ops);
    println!("H {} {}", id, ops.iter().map(|o| o.show()).collect::<Vec<_>>().join(";"));
    println!("R {} {}", id, o.outs.join(";"));
    let mut kinds: BTreeMap<&str, u64> = BTreeMap::new();
    for op in ops {
        *kinds.entry(op.tag()).or_insert(0) += 1;
        *stats.entry(format!("op_{}", op.tag())).or_insert(0) += 1;
    }
    for out in o.outs.iter() {
        let k = match out.as_bytes().first() {
            Some(b'L') => "out_locked",
            Some(b'x') => "out_skip",
            Some(b'E') => "out_too_many",
            Some(b'n') => "out_next_some",
            _ => "out_other",
        };
        *stats.entry(k.into()).or_insert(0) += 1;
    }
    let ok = o.first_bad < 0 && o.locks_ok && o.persist_ok && o.panic.is_none();
    println!(
        "O {} {}",
        id,
        serde_json::json!({"ok": ok, "first_bad": o.first_bad, "exp": o.exp, "got": o.got, "locks_ok": o.locks_ok,
                           "persist_ok": o.persist_ok, "panic": o.panic, "len": ops.len()})
    );
    ok
}

/// Arena mode: the history runs on `MutableTrie` directly and every observation carries the sizes of
/// the arena (nodes, entries, values, generations), so that the copy-on-write allocation behaviour
/// is compared with the arena model (coq/Trie/Arena.v) operation by operation.
fn emit_arena(id: &str, ops: &[Op]) {
    let mut m = Machine::new(false);
    let mut outs = Vec::new();
    for op in ops {
        let r = guarded(|| {
            let got = m.step(op);
            let (n, e, v, _b, g) = match &m.backend {
                Backend::Trie(t) => t.verif_arena_sizes(),
                Backend::Api(_) => (0, 0, 0, 0, 0),
            };
            format!("{}#{},{},{},{}", got, n, e, v, g)
        });
        match r {
            Ok(s) => outs.push(s),
            Err(_) => {
                outs.push("PANIC".into());
                break;
            }
        }
    }
    println!("A {} {}", id, ops.iter().map(|o| o.show()).collect::<Vec<_>>().join(";"));
    println!("R {} {}", id, outs.join(";"));
}

// -------------------------------------------------------------------------------- prefix map mode

fn run_prefix(ops: &[String]) -> Vec<String> {
    let mut m = VerifPrefixesMap::new();
    // reference: multiset
    let mut r: BTreeMap<Vec<u8>, u64> = BTreeMap::new();
    let mut outs = Vec::new();
    for s in ops {
        let c = s.as_bytes()[0];
        let arg = &s[1..];
        let res = guarded(|| match c {
            b'i' => {
                let k = unx(arg);
                let ok = m.insert(&k);
                let exp = r.get(&k).copied().unwrap_or(0) < u32::MAX as u64;
                if exp {
                    *r.entry(k).or_insert(0) += 1;
                }
                (if ok { "1".to_string() } else { "E".to_string() }, ok == exp)
            }
            b'd' => {
                let k = unx(arg);
                let b = m.delete(&k);
                let exp = r.get(&k).copied().unwrap_or(0) > 0;
                if exp {
                    let c = r.get_mut(&k).unwrap();
                    *c -= 1;
                    if *c == 0 {
                        r.remove(&k);
                    }
                }
                (format!("{}", b as u8), b == exp)
            }
            b'c' => {
                let k = unx(arg);
                let b = m.check_has_no_prefix(&k);
                let exp = !r.keys().any(|p| k.starts_with(p));
                (format!("{}", b as u8), b == exp)
            }
            b'o' => {
                let k = unx(arg);
                let b = m.is_or_has_prefix(&k);
                let exp = r.keys().any(|p| k.starts_with(p) || p.starts_with(&k));
                (format!("{}", b as u8), b == exp)
            }
            b's' => {
                let mut it = arg.split(':');
                let k = unx(it.next().unwrap());
                let n: u32 = it.next().unwrap().parse().unwrap();
                let b = m.set_count(&k, n);
                let exp = r.contains_key(&k) && n > 0;
                if exp {
                    r.insert(k, n as u64);
                }
                (format!("{}", b as u8), b == exp)
            }
            b'u' => {
                let d = m.dump();
                let exp: Vec<(Vec<u8>, u32)> = r.iter().map(|(k, c)| (k.clone(), *c as u32)).collect();
                let okk = d == exp && (m.is_empty() == r.is_empty()) && (!r.is_empty() || m.num_nodes() == 0);
                (format!("{{{}}}", d.iter().map(|(k, c)| format!("{}:{}", hex(k), c)).collect::<Vec<_>>().join(",")), okk)
            }
            _ => panic!("bad prefix op"),
        });
        match res {
            Ok((s, ok)) => outs.push(if ok { s } else { format!("{}!REF", s) }),
            Err(_) => {
                outs.push("PANIC".into());
                break;
            }
        }
    }
    outs
}

fn gen_prefix(rng: &mut Rng) -> Vec<String> {
    let uni = KeyUniverse::new(rng);
    let cap = if rng.chance(1, 5) { 300 } else { 60 };
    let n = 1 + rng.below(cap) as usize;
    let mut ops = Vec::new();
    let mut live: Vec<Vec<u8>> = Vec::new();
    for _ in 0..n {
        let k = if rng.chance(1, 4) { uni.prefix(rng) } else { uni.key(rng) };
        match rng.below(20) {
            0..=6 => {
                live.push(k.clone());
                ops.push(format!("i{}", x(&k)));
            }
            7..=10 => {
                // mostly delete something that is there
                let k = if !live.is_empty() && rng.chance(4, 5) { let i = rng.below(live.len() as u64) as usize; live.swap_remove(i) } else { k };
                ops.push(format!("d{}", x(&k)));
            }
            11..=13 => ops.push(format!("c{}", x(&k))),
            14..=16 => ops.push(format!("o{}", x(&k))),
            17 => {
                // drive a count to the overflow boundary
                let k = if !live.is_empty() { rng.pick(&live).clone() } else { k };
                let n = *rng.pick(&[u32::MAX, u32::MAX - 1, u32::MAX - 2, 2, 1]);
                ops.push(format!("s{}:{}", x(&k), n));
                ops.push(format!("i{}", x(&k)));
                ops.push(format!("i{}", x(&k)));
                ops.push("u".into());
                ops.push(format!("s{}:{}", x(&k), 1 + rng.below(3)));
            }
            _ => ops.push("u".into()),
        }
    }
    ops.push("u".into());
    ops
}

// ------------------------------------------------------------------------------------------ main

fn directed() {
    // 1. lock-count overflow at the trie level: the error is reported, nothing changes
    let mut loader = Loader::new(&[][..]);
    let mut t = MutableTrie::empty();
    t.insert(&mut loader, b"ab", vec![1]).unwrap();
    t.insert(&mut loader, b"ac", vec![2]).unwrap();
    let it = t.verif_iter(&mut loader, b"a").unwrap().unwrap();
    let ok_set = t.verif_set_lock_count(b"a", u32::MAX);
    let before = t.verif_locks();
    let r = t.verif_iter(&mut loader, b"a");
    let after = t.verif_locks();
    let refused = r.is_err();
    let still_locked = t.insert(&mut loader, b"ad", vec![]).is_err();
    t.verif_set_lock_count(b"a", 1);
    let released = t.verif_delete_iter(&it);
    let unlocked = t.insert(&mut loader, b"ad", vec![]).is_ok();
    println!(
        "D overflow {}",
        serde_json::json!({"ok": ok_set && refused && before == after && still_locked && released && unlocked,
                           "refused": refused, "unchanged": before == after, "still_locked": still_locked,
                           "released": released, "unlocked": unlocked})
    );
    // 2. observation: `make_fresh_generation` on a state that was never touched shares generation 0
    let mut loader = Loader::new(&[][..]);
    let mut m0 = MutableState::initial_state();
    let mut m1 = m0.make_fresh_generation(&mut loader);
    {
        let inner = m1.get_inner(&mut loader);
        inner.lock().insert(&mut loader, b"k", vec![9]).unwrap();
    }
    let leaked = {
        let inner = m0.get_inner(&mut loader);
        let mut t = inner.lock();
        t.get_entry(&mut loader, b"k").is_some()
    };
    let mut n0 = MutableState::initial_state();
    let _ = n0.get_inner(&mut loader);
    let mut n1 = n0.make_fresh_generation(&mut loader);
    {
        let inner = n1.get_inner(&mut loader);
        inner.lock().insert(&mut loader, b"k", vec![9]).unwrap();
    }
    let leaked_touched = {
        let inner = n0.get_inner(&mut loader);
        let mut t = inner.lock();
        t.get_entry(&mut loader, b"k").is_some()
    };
    println!("D fresh_generation_untouched {}", serde_json::json!({"shares_generation_0": leaked, "leak_after_get_inner": leaked_touched}));
}

fn main() {
    quiet_panics();
    let args: Vec<String> = std::env::args().collect();
    let mode = args.get(1).map(|s| s.as_str()).unwrap_or("");
    match mode {
        "hist" => {
            let seed: u64 = args[2].parse().unwrap();
            let n: u64 = args[3].parse().unwrap();
            let profile = args.get(4).map(|s| s.as_str()).unwrap_or("c03");
            let maxlen: u64 = args.get(5).map(|s| s.parse().unwrap()).unwrap_or(400);
            let mut rng = Rng::new(seed ^ if profile == "c15" { 0xC15 } else { 0xC03 });
            let mut stats: BTreeMap<String, u64> = BTreeMap::new();
            let mut bad = 0;
            for i in 0..n {
                let ops = gen_history(&mut rng, profile, maxlen);
                let id = format!("{}{}", if i % 4 == 3 { "a" } else { "t" }, i);
                if !emit(&id, &ops, &mut stats) {
                    bad += 1;
                }
            }
            stats.insert("histories".into(), n);
            stats.insert("oracle_failures".into(), bad);
            println!("S {}", serde_json::to_string(&stats).unwrap());
        }
        "replay" => {
            let mut stats = BTreeMap::new();
            for line in std::io::stdin().lock().lines() {
                let line = line.unwrap();
                if let Some(rest) = line.strip_prefix("H ") {
                    let (id, body) = rest.split_once(' ').unwrap_or((rest, ""));
                    let ops: Vec<Op> = body.split(';').filter(|s| !s.is_empty()).map(Op::parse).collect();
                    emit(id, &ops, &mut stats);
                }
            }
        }
        "prefix" => {
            let seed: u64 = args[2].parse().unwrap();
            let n: u64 = args[3].parse().unwrap();
            let mut rng = Rng::new(seed ^ 0x9f);
            for i in 0..n {
                let ops = gen_prefix(&mut rng);
                println!("P {} {}", i, ops.join(";"));
                println!("R {} {}", i, run_prefix(&ops).join(";"));
            }
        }
        "preplay" => {
            for line in std::io::stdin().lock().lines() {
                let line = line.unwrap();
                if let Some(rest) = line.strip_prefix("P ") {
                    let (id, body) = rest.split_once(' ').unwrap_or((rest, ""));
                    let ops: Vec<String> = body.split(';').filter(|s| !s.is_empty()).map(|s| s.to_string()).collect();
                    println!("P {} {}", id, ops.join(";"));
                    println!("R {} {}", id, run_prefix(&ops).join(";"));
                }
            }
        }
        "inst" => {
            let seed: u64 = args[2].parse().unwrap();
            let n: u64 = args[3].parse().unwrap();
            inst::generate(seed, n);
        }
        "ireplay" => inst::replay(),
        "arena" => {
            let seed: u64 = args[2].parse().unwrap();
            let n: u64 = args[3].parse().unwrap();
            let mut rng = Rng::new(seed ^ 0xA4E);
            for i in 0..n {
                let ops = gen_history(&mut rng, "arena", 400);
                emit_arena(&format!("t{}", i), &ops);
            }
        }
        "areplay" => {
            for line in std::io::stdin().lock().lines() {
                let line = line.unwrap();
                if let Some(rest) = line.strip_prefix("A ") {
                    let (id, body) = rest.split_once(' ').unwrap_or((rest, ""));
                    let ops: Vec<Op> = body.split(';').filter(|s| !s.is_empty()).map(Op::parse).collect();
                    emit_arena(id, &ops);
                }
            }
        }
        "stem" => {
            let seed: u64 = args[2].parse().unwrap();
            let n: u64 = args[3].parse().unwrap();
            stem::generate(seed, n);
        }
        "sreplay" => stem::replay(),
        "directed" => directed(),
        _ => {
            eprintln!("usage: c03 hist|replay|prefix|preplay|inst|ireplay|directed ...");
            std::process::exit(2);
        }
    }
}
