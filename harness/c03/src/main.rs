use concordium_smart_contract_engine::v1::trie::{self, low_level::verif_hooks::*, MutableTrie};
fn main() {
    let mut loader = trie::Loader::new(Vec::<u8>::new());
    let mut t = MutableTrie::empty();
    t.insert(&mut loader, b"ab", vec![1]).unwrap();
    let it = t.verif_iter(&mut loader, b"a").unwrap().unwrap();
    println!("{:?} {:?}", t.verif_locks(), it.get_key());
    let _ = VerifPrefixesMap::new();
}
