//! C05 harness: binary codec correspondence and direct oracles.
//!   c05 pool <seed>          print "<kind> <hex>" encodings of opaque leaves accepted by the implementation
//!   c05 gen <seed> <n>       implementation-generated values: "<schema-id> <hex>" (n per type)
//!   c05 run                  stdin: "<key> <hex>" per line (key = schema id or type name);
//!                            stdout: one JSON object per line (decision, consumed, re-encoding, peak allocation)
//!   c05 fuzz <seed> <n>      byte-level direct oracles for all listed types (one JSON line per type)
#![allow(deprecated)]
use concordium_base::{
    base::*,
    common::{
        to_bytes,
        types::{Amount, CredentialIndex, KeyIndex, KeyPair, Ratio, Signature, Timestamp, TransactionSignature,
                TransactionSignaturesV1, TransactionTime},
        Deserial, Serial,
    },
    contracts_common::{AccountAddress, Address, ContractAddress, ExchangeRate},
    hashes,
    id::types::{CredentialPublicKeys, VerifyKey},
    transactions::*,
    updates::*,
};
use hlib::{guarded, hex, quiet_panics, unhex, Rng};
use rand::{rngs::StdRng, SeedableRng};
use serde_json::json;
use std::alloc::{GlobalAlloc, Layout, System};
use std::collections::{BTreeMap, BTreeSet};
use std::io::{BufRead, Write};
use std::sync::atomic::{AtomicUsize, Ordering};

// ---------------------------------------------------------------- counting allocator
static LIVE: AtomicUsize = AtomicUsize::new(0);
static PEAK: AtomicUsize = AtomicUsize::new(0);
static mut CUR_CASE: [u8; 4096] = [0; 4096];
static CUR_LEN: AtomicUsize = AtomicUsize::new(0);
const HUGE: usize = 1 << 30;
const MAX_ID: u32 = 49;

struct Counting;
fn note_huge(size: usize) {
    // allocation-free report: which input asked for an absurd amount of memory
    let mut err = std::io::stderr();
    let _ = err.write_all(b"\nHUGE-ALLOC ");
    let mut buf = [0u8; 24];
    let mut n = size;
    let mut i = buf.len();
    if n == 0 { i -= 1; buf[i] = b'0'; }
    while n > 0 { i -= 1; buf[i] = b'0' + (n % 10) as u8; n /= 10; }
    let _ = err.write_all(&buf[i..]);
    let _ = err.write_all(b" ");
    let l = CUR_LEN.load(Ordering::Relaxed);
    unsafe { let p = std::ptr::addr_of!(CUR_CASE) as *const u8; let _ = err.write_all(std::slice::from_raw_parts(p, l)); }
    let _ = err.write_all(b"\n");
}
unsafe impl GlobalAlloc for Counting {
    unsafe fn alloc(&self, l: Layout) -> *mut u8 {
        if l.size() >= HUGE { note_huge(l.size()); }
        let p = System.alloc(l);
        if !p.is_null() { let v = LIVE.fetch_add(l.size(), Ordering::Relaxed) + l.size(); PEAK.fetch_max(v, Ordering::Relaxed); }
        p
    }
    unsafe fn alloc_zeroed(&self, l: Layout) -> *mut u8 {
        if l.size() >= HUGE { note_huge(l.size()); }
        let p = System.alloc_zeroed(l);
        if !p.is_null() { let v = LIVE.fetch_add(l.size(), Ordering::Relaxed) + l.size(); PEAK.fetch_max(v, Ordering::Relaxed); }
        p
    }
    unsafe fn dealloc(&self, p: *mut u8, l: Layout) { LIVE.fetch_sub(l.size(), Ordering::Relaxed); System.dealloc(p, l) }
    unsafe fn realloc(&self, p: *mut u8, l: Layout, new: usize) -> *mut u8 {
        if new >= HUGE { note_huge(new); }
        let q = System.realloc(p, l, new);
        if !q.is_null() {
            if new >= l.size() { let v = LIVE.fetch_add(new - l.size(), Ordering::Relaxed) + (new - l.size()); PEAK.fetch_max(v, Ordering::Relaxed); }
            else { LIVE.fetch_sub(l.size() - new, Ordering::Relaxed); }
        }
        q
    }
}
#[global_allocator]
static A: Counting = Counting;

fn set_case(key: &str, hexs: &str) {
    let s = format!("{} {}", key, hexs);
    let b = s.as_bytes();
    let l = b.len().min(4096);
    unsafe { let p = std::ptr::addr_of_mut!(CUR_CASE) as *mut u8; std::ptr::copy_nonoverlapping(b.as_ptr(), p, l); }
    CUR_LEN.store(l, Ordering::Relaxed);
}

// ---------------------------------------------------------------- one decode call
struct Out { r: char, consumed: usize, reenc: Vec<u8>, peak: usize, second_ok: bool }

/// Decode `bytes` as T under catch_unwind with allocation accounting; on success re-encode, and
/// decode the re-encoding again (decode . encode = id on the decoded value, observed on bytes).
fn run_case<T: Serial + Deserial>(bytes: &[u8]) -> Out {
    let mut cur = std::io::Cursor::new(bytes);
    let base = LIVE.load(Ordering::Relaxed);
    PEAK.store(base, Ordering::Relaxed);
    let res = guarded(|| T::deserial(&mut cur));
    let peak = PEAK.load(Ordering::Relaxed).saturating_sub(base);
    match res {
        Err(_) => Out { r: 'P', consumed: 0, reenc: vec![], peak, second_ok: true },
        Ok(Err(_)) => Out { r: 'R', consumed: 0, reenc: vec![], peak, second_ok: true },
        Ok(Ok(v)) => {
            let consumed = cur.position() as usize;
            match guarded(|| to_bytes(&v)) {
                Err(_) => Out { r: 'Q', consumed, reenc: vec![], peak, second_ok: true },
                Ok(reenc) => {
                    // second round: the implementation must decode its own encoding to a value
                    // with the same encoding, consuming all of it
                    let mut c2 = std::io::Cursor::new(&reenc[..]);
                    let second_ok = match guarded(|| T::deserial(&mut c2)) {
                        Ok(Ok(v2)) => c2.position() as usize == reenc.len() && guarded(|| to_bytes(&v2)).ok().as_deref() == Some(&reenc[..]),
                        _ => false,
                    };
                    Out { r: 'A', consumed, reenc, peak, second_ok }
                }
            }
        }
    }
}

/// ConfigureBaker / ConfigureDelegation bodies are decoded through Payload with the tag prepended.
fn run_payload_body(tag: u8, bytes: &[u8]) -> Out {
    let mut b = vec![tag];
    b.extend_from_slice(bytes);
    let mut o = run_case::<Payload>(&b);
    if o.r == 'A' { o.consumed -= 1; o.reenc.remove(0); }
    o
}

type BI = BlockItem<EncodedPayload>;
type NumRatio = num::rational::Ratio<u64>;
type AccThreshold = concordium_base::contracts_common::AccountThreshold;

macro_rules! types {
    ($m:ident) => { $m! {
        1 => Amount, 2 => AccountAddress, 3 => ContractAddress, 4 => Address, 5 => Memo, 6 => RegisteredData,
        7 => Ratio, 8 => ExchangeRate, 9 => NumRatio, 10 => PayloadSize, 11 => Signature, 12 => TransactionHeader,
        13 => TransactionHeaderV1, 14 => TransactionSignature, 15 => TransactionSignaturesV1, 16 => VerifyKey,
        17 => CredentialPublicKeys, 18 => AccountAccessStructure, 19 => OpenStatus, 20 => DelegationTarget,
        21 => AmountFraction, 22 => UrlText, 23 => BakerAddKeysPayload, 24 => AddBakerPayload,
        27 => Payload, 28 => AccountTransaction<Payload>, 29 => AccountTransaction<EncodedPayload>,
        30 => AccountTransactionV1<EncodedPayload>, 31 => UpdateHeader, 32 => UpdateInstructionSignature,
        33 => UpdateInstruction, 34 => UpdatePayload, 35 => BI, 36 => LeverageFactor, 37 => MintDistributionV0,
        38 => PoolParameters, 39 => TimeoutParameters, 40 => AccThreshold, 41 => TransactionFeeDistribution,
        42 => GASRewards, 43 => UpdateKeysThreshold, 44 => AccessStructure, 45 => HigherLevelAccessStructure<RootKeysKind>,
        46 => AuthorizationsV0, 47 => RootUpdate, 48 => Level1Update, 49 => ArInfoT
    } };
}

macro_rules! dispatch_impl {
    ($($id:literal => $t:ty),*) => {
        fn dispatch(id: u32, bytes: &[u8]) -> Option<Out> {
            match id {
                $($id => Some(run_case::<$t>(bytes)),)*
                25 => Some(run_payload_body(25, bytes)),
                26 => Some(run_payload_body(26, bytes)),
                50 => Some(run_case::<Payload>(bytes)),
                51 => Some(run_case::<UpdatePayload>(bytes)),
                52 => Some(run_case::<BI>(bytes)),
                // Chain/ChainSchemasAll.v: Payload with all 22 variants, AccountTransaction<Payload> over it, contract payloads and names
                53 => Some(run_case::<Payload>(bytes)),
                54 => Some(run_case::<AccountTransaction<Payload>>(bytes)),
                55 | 63 => Some(run_case::<InitContractPayload>(bytes)),
                56 | 64 => Some(run_case::<UpdateContractPayload>(bytes)),
                57 => Some(run_case::<concordium_base::smart_contracts::OwnedContractName>(bytes)),
                58 => Some(run_case::<concordium_base::smart_contracts::OwnedReceiveName>(bytes)),
                59 => Some(run_case::<concordium_base::smart_contracts::OwnedParameter>(bytes)),
                // Chain/ManualTie.v: terms regenerated from the hand-written impl bodies
                60 => Some(run_case::<concordium_base::id::types::PreIdentityProof<concordium_base::id::constants::IpPairing, concordium_base::id::constants::ArCurve>>(bytes)),
                61 => Some(run_case::<BakerAddKeysPayload>(bytes)),
                62 => Some(run_case::<AddBakerPayload>(bytes)),
                _ => dispatch_gen(id, bytes),
            }
        }
    };
}
types!(dispatch_impl);

// derived types whose schema terms are generated by translators/gen_chain_schemas.py (ids from 200)
include!("gen_types.rs");
macro_rules! gen_dispatch_impl {
    ($($id:literal => $t:ty),*) => {
        fn dispatch_gen(id: u32, bytes: &[u8]) -> Option<Out> {
            match id { $($id => Some(run_case::<$t>(bytes)),)* _ => None }
        }
        fn gen_ids() -> Vec<(u32, &'static str)> { vec![$(($id, stringify!($t))),*] }
    };
}
gen_types!(gen_dispatch_impl);

/// Types covered by the direct oracles only (no schema term): key = type name.
macro_rules! unmodelled {
    ($m:ident) => { $m! {
        u8, u16, u32, u64, i8, i16, i32, i64, bool, String, Vec<u16>, Vec<Vec<u8>>, BTreeMap<u8, u16>,
        BTreeSet<u32>, (u8, u16), [u8; 4], [u16; 3], std::net::IpAddr, std::net::SocketAddr,
        concordium_base::contracts_common::Duration, chrono::DateTime<chrono::Utc>,
        std::num::NonZeroU8, std::num::NonZeroU16, std::num::NonZeroU32, std::num::NonZeroU64, std::num::NonZeroI32,
        Timestamp, TransactionTime, KeyIndex, CredentialIndex, hashes::BlockHash, hashes::TransactionHash,
        ProtocolVersion, BakerId, DelegatorId, Slot, Epoch, Round, Nonce, UpdateSequenceNumber, Energy,
        CredentialsPerBlockLimit, BlockHeight, GenesisIndex, AbsoluteBlockHeight, AccountIndex, TransactionIndex,
        SlotDuration, DurationSeconds, ElectionDifficulty, PartsPerHundredThousands, CommissionRates, CommissionRanges,
        MintRate, CapitalBound, MintDistributionV1, FinalizationIndex, UpdatePublicKey, UpdateKeysIndex,
        BakerAggregationVerifyKey, BakerSignatureVerifyKey, BakerElectionVerifyKey, CredentialRegistrationID,
        InitContractPayload, UpdateContractPayload,
        concordium_base::smart_contracts::OwnedParameter, concordium_base::smart_contracts::OwnedReceiveName,
        concordium_base::smart_contracts::OwnedContractName, concordium_base::smart_contracts::ModuleReference,
        concordium_base::smart_contracts::WasmModule,
        ProtocolUpdate, GASRewardsV1, RootUpdate, Level1Update, HigherLevelAccessStructure<RootKeysKind>,
        AccessStructure, AuthorizationsV0, BakerParameters, CooldownParameters, RewardPeriodLength,
        TimeParameters, FinalizationCommitteeParameters, ValidatorScoreParameters, CreatePlt,
        BakerUpdateKeysPayload, TransferToPublicBox, EncAmountTransfer, EncAmount, SecToPub,
        CredInfo, AcctCredMsg, IpInfoT, ArInfoT, GlobalCtx
    } };
}
type TransferToPublicBox = Box<concordium_base::encrypted_transfers::types::SecToPubAmountTransferData<concordium_base::id::constants::ArCurve>>;
type SecToPub = concordium_base::encrypted_transfers::types::SecToPubAmountTransferData<concordium_base::id::constants::ArCurve>;
type EncAmountTransfer = concordium_base::encrypted_transfers::types::EncryptedAmountTransferData<concordium_base::id::constants::ArCurve>;
type EncAmount = concordium_base::encrypted_transfers::types::EncryptedAmount<concordium_base::id::constants::ArCurve>;
type CredInfo = concordium_base::id::types::CredentialDeploymentInfo<concordium_base::id::constants::IpPairing, concordium_base::id::constants::ArCurve, concordium_base::id::constants::AttributeKind>;
type AcctCredMsg = concordium_base::id::types::AccountCredentialMessage<concordium_base::id::constants::IpPairing, concordium_base::id::constants::ArCurve, concordium_base::id::constants::AttributeKind>;
type IpInfoT = concordium_base::id::types::IpInfo<concordium_base::id::constants::IpPairing>;
type ArInfoT = concordium_base::id::types::ArInfo<concordium_base::id::constants::ArCurve>;
type GlobalCtx = concordium_base::id::types::GlobalContext<concordium_base::id::constants::ArCurve>;
type AccountKeysT = concordium_base::id::types::AccountKeys;

macro_rules! named_impl {
    ($($t:ty),*) => {
        fn named_types() -> Vec<&'static str> { vec![$(stringify!($t)),*] }
        fn dispatch_named(name: &str, bytes: &[u8]) -> Option<Out> {
            $(if name == stringify!($t) { return Some(run_case::<$t>(bytes)); })*
            None
        }
    };
}
unmodelled!(named_impl);

// ---------------------------------------------------------------- pool of opaque leaves
struct Pool { ed_pk: Vec<Vec<u8>>, vrf_pk: Vec<Vec<u8>>, bls_pk: Vec<Vec<u8>>, dlog: Vec<Vec<u8>>, blsproof: Vec<Vec<u8>>,
              cred_id: Vec<Vec<u8>>, elg_pk: Vec<Vec<u8>>, g1: Vec<Vec<u8>>, g2: Vec<Vec<u8>>, fr: Vec<Vec<u8>>, bakers: Vec<(BakerAddKeysPayload, BakerUpdateKeysPayload, ConfigureBakerKeysPayload)>, keypairs: Vec<KeyPair> }

fn make_pool(seed: u64) -> Pool {
    let mut rng = StdRng::seed_from_u64(seed ^ 0x5eed_c05);
    let mut p = Pool { ed_pk: vec![], vrf_pk: vec![], bls_pk: vec![], dlog: vec![], blsproof: vec![], cred_id: vec![], elg_pk: vec![], g1: vec![], g2: vec![], fr: vec![], bakers: vec![], keypairs: vec![] };
    for i in 0..4u8 {
        let kp = BakerKeyPairs::generate(&mut rng);
        let sender = AccountAddress([i; 32]);
        let add = BakerAddKeysPayload::new(&kp, sender, &mut rng);
        let upd = BakerUpdateKeysPayload::new(&kp, sender, &mut rng);
        let conf = ConfigureBakerKeysPayload::new(&kp, sender, &mut rng);
        p.vrf_pk.push(to_bytes(&add.election_verify_key));
        p.ed_pk.push(to_bytes(&add.signature_verify_key));
        p.bls_pk.push(to_bytes(&add.aggregation_verify_key));
        for (a, b, c) in [(&add.proof_sig, &add.proof_election, &add.proof_aggregation),
                          (&upd.proof_sig, &upd.proof_election, &upd.proof_aggregation),
                          (&conf.proof_sig, &conf.proof_election, &conf.proof_aggregation)] {
            p.dlog.push(to_bytes(a)); p.dlog.push(to_bytes(b)); p.blsproof.push(to_bytes(c));
        }
        p.bakers.push((add, upd, conf));
    }
    for _ in 0..6 {
        let kp = KeyPair::generate(&mut rng);
        p.ed_pk.push(kp.public().to_bytes().to_vec());
        p.keypairs.push(kp);
    }
    for _ in 0..4 {
        use concordium_base::curve_arithmetic::Curve;
        let g = concordium_base::id::constants::ArCurve::generate(&mut rng);
        p.cred_id.push(to_bytes(&CredentialRegistrationID::new(g)));
    }
    for _ in 0..4 {
        use concordium_base::curve_arithmetic::Curve;
        let gen = concordium_base::id::constants::ArCurve::generate(&mut rng);
        let sk = concordium_base::elgamal::SecretKey::generate(&gen, &mut rng);
        p.elg_pk.push(to_bytes(&concordium_base::elgamal::PublicKey::from(&sk)));
        p.g1.push(to_bytes(&gen));
        p.g1.push(to_bytes(&concordium_base::id::constants::ArCurve::generate(&mut rng)));
    }
    { use concordium_base::curve_arithmetic::Curve; p.g1.push(to_bytes(&concordium_base::id::constants::ArCurve::zero_point())); }
    let extra: Vec<Vec<u8>> = p.cred_id.clone(); p.g1.extend(extra);
    for i in 0..5u64 {
        use concordium_base::curve_arithmetic::{Curve, Field};
        type G2 = concordium_base::id::constants::BlsG2;
        p.g2.push(to_bytes(&if i == 0 { G2::zero_point() } else { G2::generate(&mut rng) }));
        let sc = match i { 0 => <concordium_base::id::constants::ArCurve as Curve>::Scalar::zero(), 1 => <concordium_base::id::constants::ArCurve as Curve>::Scalar::one(),
                           _ => concordium_base::id::constants::ArCurve::generate_scalar(&mut rng) };
        p.fr.push(to_bytes(&sc));
    }
    p
}

// ---------------------------------------------------------------- implementation-side generators
struct G<'a> { r: Rng, pool: &'a Pool }
impl<'a> G<'a> {
    fn addr(&mut self) -> AccountAddress { let b = self.r.bytes(32); let mut a = [0u8; 32]; a.copy_from_slice(&b); AccountAddress(a) }
    fn amount(&mut self) -> Amount { Amount::from_micro_ccd(self.r.u64_edge()) }
    fn small_bytes(&mut self, max: usize) -> Vec<u8> {
        let l = match self.r.below(8) { 0 => 0, 1 => max, 2 => max.saturating_sub(1), _ => self.r.below(40.min(max as u64 + 1)) as usize };
        self.r.bytes(l)
    }
    fn memo(&mut self) -> Memo { Memo::try_from(self.small_bytes(256)).unwrap() }
    fn regdata(&mut self) -> RegisteredData { RegisteredData::try_from(self.small_bytes(256)).unwrap() }
    fn coprime(&mut self) -> (u64, u64) {
        let a = self.r.u64_edge(); let b = self.r.u64_edge().max(1);
        let g = num::integer::gcd(a, b); (a / g, b / g)
    }
    fn fraction(&mut self) -> AmountFraction { AmountFraction::new(*self.r.pick(&[0u32, 1, 99_999, 100_000, 50_000, 12_345])).unwrap() }
    fn header(&mut self, size: u32) -> TransactionHeader {
        TransactionHeader { sender: self.addr(), nonce: self.r.u64_edge().into(), energy_amount: self.r.u64_edge().into(),
                            payload_size: PayloadSize::from(size), expiry: TransactionTime::from_seconds(self.r.u64_edge()) }
    }
    fn sig(&mut self) -> Signature { let l = *self.r.pick(&[0usize, 1, 64, 64, 64, 65, 300]); Signature { sig: self.r.bytes(l) } }
    fn tx_sig(&mut self) -> TransactionSignature {
        let mut m = BTreeMap::new();
        let nc = 1 + self.r.below(3);
        for _ in 0..nc {
            let mut inner = BTreeMap::new();
            let nk = 1 + self.r.below(3);
            for _ in 0..nk { inner.insert(KeyIndex(self.r.below(256) as u8), self.sig()); }
            m.insert(CredentialIndex { index: self.r.below(256) as u8 }, inner);
        }
        TransactionSignature { signatures: m }
    }
    fn verify_key(&mut self) -> VerifyKey { let i = self.r.below(self.pool.keypairs.len() as u64) as usize; VerifyKey::Ed25519VerifyKey(self.pool.keypairs[i].public()) }
    fn cred_keys(&mut self) -> CredentialPublicKeys {
        let mut keys = BTreeMap::new();
        let nk = 1 + self.r.below(3);
        for _ in 0..nk { keys.insert(KeyIndex(self.r.below(256) as u8), self.verify_key()); }
        CredentialPublicKeys { keys, threshold: (1 + self.r.below(255) as u8).try_into().unwrap() }
    }
    fn url(&mut self) -> UrlText {
        let l = *self.r.pick(&[0usize, 1, 10, 30, 2048, 2047]);
        let s: String = (0..l).map(|_| (32 + self.r.below(95) as u8) as char).collect();
        UrlText::try_from(s).unwrap()
    }
    fn open_status(&mut self) -> OpenStatus { *self.r.pick(&[OpenStatus::OpenForAll, OpenStatus::ClosedForNew, OpenStatus::ClosedForAll]) }
    fn delegation_target(&mut self) -> DelegationTarget {
        if self.r.chance(1, 2) { DelegationTarget::Passive } else { DelegationTarget::Baker { baker_id: BakerId::from(AccountIndex::from(self.r.u64_edge())) } }
    }
    fn opt<T>(&mut self, all: u64, f: impl FnOnce(&mut Self) -> T) -> Option<T> {
        if all == 0 { None } else if all == 1 || self.r.chance(1, 2) { Some(f(self)) } else { None }
    }
    fn schedule(&mut self) -> Vec<(Timestamp, Amount)> {
        let l = *self.r.pick(&[0u64, 1, 2, 3, 255]);
        (0..l).map(|_| (Timestamp::from(self.r.u64_edge()), self.amount())).collect()
    }
    fn payload(&mut self) -> Payload {
        match self.r.below(14) {
            0 => Payload::Transfer { to_address: self.addr(), amount: self.amount() },
            1 => Payload::RemoveBaker,
            2 => Payload::UpdateBakerStake { stake: self.amount() },
            3 => Payload::UpdateBakerRestakeEarnings { restake_earnings: self.r.chance(1, 2) },
            4 => Payload::TransferToEncrypted { amount: self.amount() },
            5 => Payload::TransferWithSchedule { to: self.addr(), schedule: self.schedule() },
            6 => Payload::RegisterData { data: self.regdata() },
            7 => Payload::TransferWithMemo { to_address: self.addr(), memo: self.memo(), amount: self.amount() },
            8 => Payload::TransferWithScheduleAndMemo { to: self.addr(), memo: self.memo(), schedule: self.schedule() },
            9 => {
                let all = self.r.below(6);
                let i = self.r.below(self.pool.bakers.len() as u64) as usize;
                let keys = if all != 0 && (all == 1 || self.r.chance(1, 2)) { Some(self.pool.bakers[i].2.clone()) } else { None };
                Payload::ConfigureBaker { data: Box::new(ConfigureBakerPayload {
                    capital: self.opt(all, |g| g.amount()), restake_earnings: self.opt(all, |g| g.r.chance(1, 2)),
                    open_for_delegation: self.opt(all, |g| g.open_status()), keys_with_proofs: keys,
                    metadata_url: self.opt(all, |g| g.url()), transaction_fee_commission: self.opt(all, |g| g.fraction()),
                    baking_reward_commission: self.opt(all, |g| g.fraction()), finalization_reward_commission: self.opt(all, |g| g.fraction()),
                    suspend: self.opt(all, |g| g.r.chance(1, 2)) }) }
            }
            10 => {
                let all = self.r.below(6);
                let mut d = ConfigureDelegationPayload::new();
                d.capital = self.opt(all, |g| g.amount());
                d.restake_earnings = self.opt(all, |g| g.r.chance(1, 2));
                d.delegation_target = self.opt(all, |g| g.delegation_target());
                Payload::ConfigureDelegation { data: d }
            }
            11 => { let i = self.r.below(self.pool.bakers.len() as u64) as usize;
                    Payload::UpdateBakerKeys { payload: Box::new(self.pool.bakers[i].1.clone()) } }
            12 => { let i = self.r.below(self.pool.bakers.len() as u64) as usize;
                    let keys = self.pool.bakers[i].0.clone();
                    Payload::AddBaker { payload: Box::new(AddBakerPayload { keys, baking_stake: self.amount(), restake_earnings: self.r.chance(1, 2) }) } }
            _ => { let i = self.r.below(self.pool.cred_id.len() as u64) as usize;
                   let cred_id: CredentialRegistrationID = concordium_base::common::from_bytes(&mut std::io::Cursor::new(&self.pool.cred_id[i])).unwrap();
                   Payload::UpdateCredentialKeys { cred_id, keys: self.cred_keys() } }
        }
    }
    fn update_sig(&mut self) -> UpdateInstructionSignature {
        let mut m = BTreeMap::new();
        let n = 1 + self.r.below(3);
        for _ in 0..n { m.insert(UpdateKeysIndex { index: self.r.below(65536) as u16 }, self.sig()); }
        UpdateInstructionSignature { signatures: m }
    }
    fn update_payload(&mut self) -> UpdatePayload {
        match self.r.below(12) {
            9 => { let w = self.r.next(); UpdatePayload::Root(self.root_update(w)) }
            10 => { let w = self.r.next(); UpdatePayload::Level1(self.level1_update(w)) }
            11 => UpdatePayload::AddAnonymityRevoker(Box::new(self.ar_info())),
            0 => UpdatePayload::ElectionDifficulty(ElectionDifficulty::new(*self.r.pick(&[0u32, 1, 100_000, 25_000])).unwrap()),
            1 => { let (a, b) = self.coprime(); UpdatePayload::EuroPerEnergy(ExchangeRate::new(a.max(1), b).unwrap_or(ExchangeRate::new_unchecked(1, 1))) }
            2 => UpdatePayload::FoundationAccount(self.addr()),
            3 => UpdatePayload::GASRewards(GASRewards { baker: self.fraction(), finalization_proof: self.fraction(), account_creation: self.fraction(), chain_update: self.fraction() }),
            4 => UpdatePayload::BakerStakeThreshold(BakerParameters { minimum_threshold_for_baking: self.amount() }),
            5 => UpdatePayload::MinBlockTimeCPV2(concordium_base::contracts_common::Duration::from_millis(self.r.u64_edge())),
            6 => UpdatePayload::BlockEnergyLimitCPV2(self.r.u64_edge().into()),
            7 => UpdatePayload::ValidatorScoreParametersCPV3(ValidatorScoreParameters { max_missed_rounds: self.r.u64_edge() }),
            _ => UpdatePayload::FinalizationCommitteeParametersCPV2(FinalizationCommitteeParameters { min_finalizers: self.r.u32_edge(), max_finalizers: self.r.u32_edge(),
                    finalizers_relative_stake_threshold: PartsPerHundredThousands::new(*self.r.pick(&[0u32, 100_000, 777])).unwrap() }),
        }
    }
    fn threshold_for(&mut self, n: usize) -> UpdateKeysThreshold {
        let t = match self.r.below(3) { 0 => 1, 1 => n as u64, _ => 1 + self.r.below(n as u64) };
        UpdateKeysThreshold::try_from(t as u16).unwrap()
    }
    fn access_structure(&mut self, nkeys: u16) -> AccessStructure {
        let mut set = BTreeSet::new();
        let want = match self.r.below(4) { 0 => 1, 1 => 2, _ => 1 + self.r.below(5) };
        for _ in 0..want { set.insert(UpdateKeysIndex { index: if nkeys == 0 || self.r.chance(1, 8) { self.r.below(65536) as u16 } else { self.r.below(nkeys as u64) as u16 } }); }
        let threshold = self.threshold_for(set.len());
        AccessStructure { authorized_keys: set, threshold }
    }
    fn hlas<K>(&mut self) -> HigherLevelAccessStructure<K> {
        let n = *self.r.pick(&[1usize, 1, 2, 3, 7]);
        let keys: Vec<UpdatePublicKey> = (0..n).map(|_| UpdatePublicKey { public: self.verify_key() }).collect();
        let threshold = self.threshold_for(n);
        HigherLevelAccessStructure { keys, threshold, _phantom: Default::default() }
    }
    fn auth_v0(&mut self) -> AuthorizationsV0 {
        let n = *self.r.pick(&[0usize, 1, 2, 5]);
        let keys: Vec<UpdatePublicKey> = (0..n).map(|_| UpdatePublicKey { public: self.verify_key() }).collect();
        let n = n as u16;
        AuthorizationsV0 { keys, emergency: self.access_structure(n), protocol: self.access_structure(n), election_difficulty: self.access_structure(n),
            euro_per_energy: self.access_structure(n), micro_gtu_per_euro: self.access_structure(n), foundation_account: self.access_structure(n),
            mint_distribution: self.access_structure(n), transaction_fee_distribution: self.access_structure(n), param_gas_rewards: self.access_structure(n),
            pool_parameters: self.access_structure(n), add_anonymity_revoker: self.access_structure(n), add_identity_provider: self.access_structure(n) }
    }
    fn auth_v1(&mut self, plt: bool) -> AuthorizationsV1 {
        let v0 = self.auth_v0();
        let n = v0.keys.len() as u16;
        AuthorizationsV1 { v0, cooldown_parameters: self.access_structure(n), time_parameters: self.access_structure(n),
                           create_plt: if plt { Some(self.access_structure(n)) } else { None } }
    }
    fn root_update(&mut self, which: u64) -> RootUpdate {
        match which % 5 {
            0 => RootUpdate::RootKeysUpdate(self.hlas()),
            1 => RootUpdate::Level1KeysUpdate(self.hlas()),
            2 => RootUpdate::Level2KeysUpdate(Box::new(self.auth_v0())),
            3 => RootUpdate::Level2KeysUpdateV1(Box::new(self.auth_v1(false))),
            _ => RootUpdate::Level2KeysUpdateV2(Box::new(self.auth_v1(true))),
        }
    }
    fn level1_update(&mut self, which: u64) -> Level1Update {
        match which % 4 {
            0 => Level1Update::Level1KeysUpdate(self.hlas()),
            1 => Level1Update::Level2KeysUpdate(Box::new(self.auth_v0())),
            2 => Level1Update::Level2KeysUpdateV1(Box::new(self.auth_v1(false))),
            _ => Level1Update::Level2KeysUpdateV2(Box::new(self.auth_v1(true))),
        }
    }
    fn ascii(&mut self, max: u64) -> String { let l = self.r.below(max + 1); (0..l).map(|_| (32 + self.r.below(95) as u8) as char).collect() }
    fn ar_info(&mut self) -> ArInfoT {
        let i = self.r.below(self.pool.elg_pk.len() as u64) as usize;
        let mut b = to_bytes(&(1 + self.r.u32_edge() % (u32::MAX - 1)));
        for m in [0u64, 20, 40] { let s = self.ascii(m); b.extend(to_bytes(&(s.len() as u32))); b.extend(s.as_bytes()); }
        b.extend(&self.pool.elg_pk[i]);
        concordium_base::common::from_bytes(&mut std::io::Cursor::new(&b)).unwrap()
    }
    fn account_tx_encoded(&mut self) -> AccountTransaction<EncodedPayload> {
        let p = self.payload(); let enc = p.encode();
        let raw = if self.r.chance(1, 3) { EncodedPayload::try_from(self.small_bytes(300)).unwrap() } else { enc };
        AccountTransaction { signature: self.tx_sig(), header: self.header(u32::from(raw.size())), payload: raw }
    }
    fn update_instruction(&mut self) -> UpdateInstruction {
        let bytes = if self.r.chance(1, 2) { to_bytes(&self.update_payload()) } else { self.small_bytes(200) };
        let payload = EncodedUpdatePayload::from(bytes.clone());
        UpdateInstruction { header: UpdateHeader { seq_number: self.r.u64_edge().into(), effective_time: TransactionTime::from_seconds(self.r.u64_edge()),
            timeout: TransactionTime::from_seconds(self.r.u64_edge()), payload_size: PayloadSize::from(bytes.len() as u32) }, payload, signatures: self.update_sig() }
    }
    fn header_v1(&mut self, size: u32) -> TransactionHeaderV1 {
        let h = self.header(size);
        TransactionHeaderV1 { sender: h.sender, nonce: h.nonce, energy_amount: h.energy_amount, payload_size: h.payload_size, expiry: h.expiry,
                              sponsor: if self.r.chance(1, 2) { Some(self.addr()) } else { None } }
    }
    fn sigs_v1(&mut self) -> TransactionSignaturesV1 {
        TransactionSignaturesV1 { sender: self.tx_sig(), sponsor: if self.r.chance(1, 2) { Some(self.tx_sig()) } else { None } }
    }
    fn account_tx_v1(&mut self) -> AccountTransactionV1<EncodedPayload> {
        let raw = self.payload().encode();
        AccountTransactionV1 { signatures: self.sigs_v1(), header: self.header_v1(u32::from(raw.size())), payload: raw }
    }

    fn name_chars(&mut self, n: usize, dot: bool) -> String {
        // ASCII alphanumeric / punctuation (33..=126), with or without '.'
        (0..n).map(|_| loop { let c = (33 + self.r.below(94) as u8) as char; if dot || c != '.' { break c; } }).collect()
    }
    fn contract_name(&mut self) -> Vec<u8> {
        let n = *self.r.pick(&[0usize, 1, 5, 94, 95]);
        let s = format!("init_{}", self.name_chars(n, false));
        let v = concordium_base::smart_contracts::OwnedContractName::new(s).expect("valid contract name");
        to_bytes(&v)
    }
    fn receive_name(&mut self) -> Vec<u8> {
        let n = *self.r.pick(&[0usize, 1, 5, 49]);
        let m = *self.r.pick(&[0usize, 1, 5, 50]);
        let s = format!("{}.{}", self.name_chars(n, true), self.name_chars(m, true));
        let v = concordium_base::smart_contracts::OwnedReceiveName::new(s).expect("valid receive name");
        to_bytes(&v)
    }
    fn parameter(&mut self) -> Vec<u8> {
        let l = *self.r.pick(&[0usize, 1, 40, 1000, 65535]);
        let mut b = (l as u16).to_be_bytes().to_vec(); b.extend(self.r.bytes(l)); b
    }
    fn init_contract(&mut self) -> Vec<u8> {
        let mut b = to_bytes(&self.amount()); b.extend(self.r.bytes(32)); b.extend(self.contract_name()); b.extend(self.parameter());
        let v: InitContractPayload = de(&b); to_bytes(&v)
    }
    fn update_contract(&mut self) -> Vec<u8> {
        let mut b = to_bytes(&self.amount()); b.extend(to_bytes(&ContractAddress::new(self.r.u64_edge(), self.r.u64_edge())));
        b.extend(self.receive_name()); b.extend(self.parameter());
        let v: UpdateContractPayload = de(&b); to_bytes(&v)
    }

    /// One implementation-generated encoding for schema `id` (None: no generator for this id).
    fn gen(&mut self, id: u32) -> Option<Vec<u8>> {
        Some(match id {
            1 => to_bytes(&self.amount()),
            2 => to_bytes(&self.addr()),
            3 => to_bytes(&ContractAddress::new(self.r.u64_edge(), self.r.u64_edge())),
            4 => if self.r.chance(1, 2) { to_bytes(&Address::Account(self.addr())) } else { to_bytes(&Address::Contract(ContractAddress::new(self.r.u64_edge(), self.r.u64_edge()))) },
            5 => to_bytes(&self.memo()),
            6 => to_bytes(&self.regdata()),
            7 => { let (a, b) = self.coprime(); to_bytes(&Ratio::new(a, b).unwrap()) }
            8 => { let (a, b) = self.coprime(); if a == 0 { return None; } to_bytes(&ExchangeRate::new(a, b).unwrap()) }
            9 => to_bytes(&NumRatio::new_raw(self.r.u64_edge(), self.r.u64_edge().max(1))),
            10 => to_bytes(&PayloadSize::from(self.r.below(524297 + 1) as u32)),
            11 => to_bytes(&self.sig()),
            12 => { let s = self.r.below(524298) as u32; to_bytes(&self.header(s)) }
            13 => { let s = self.r.below(524298) as u32; to_bytes(&self.header_v1(s)) }
            14 => to_bytes(&self.tx_sig()),
            15 => to_bytes(&self.sigs_v1()),
            16 => to_bytes(&self.verify_key()),
            17 => to_bytes(&self.cred_keys()),
            18 => { let mut keys = BTreeMap::new(); let n = self.r.below(3);
                    for _ in 0..n { keys.insert(CredentialIndex { index: self.r.below(256) as u8 }, self.cred_keys()); }
                    to_bytes(&AccountAccessStructure { keys, threshold: (1 + self.r.below(255) as u8).try_into().unwrap() }) }
            19 => to_bytes(&self.open_status()),
            20 => to_bytes(&self.delegation_target()),
            21 => to_bytes(&self.fraction()),
            22 => to_bytes(&self.url()),
            23 => to_bytes(&self.pool.bakers[self.r.below(4) as usize].0),
            24 => { let keys = self.pool.bakers[self.r.below(4) as usize].0.clone();
                    to_bytes(&AddBakerPayload { keys, baking_stake: self.amount(), restake_earnings: self.r.chance(1, 2) }) }
            25 => loop { if let p @ Payload::ConfigureBaker { .. } = self.payload() { break to_bytes(&p)[1..].to_vec(); } },
            26 => loop { if let p @ Payload::ConfigureDelegation { .. } = self.payload() { break to_bytes(&p)[1..].to_vec(); } },
            27 => to_bytes(&self.payload()),
            28 => { let p = self.payload(); let size = p.encode().size();
                    to_bytes(&AccountTransaction { signature: self.tx_sig(), header: self.header(u32::from(size)), payload: p }) }
            29 => to_bytes(&self.account_tx_encoded()),
            30 => to_bytes(&self.account_tx_v1()),
            31 => to_bytes(&self.update_instruction().header),
            32 => to_bytes(&self.update_sig()),
            33 => to_bytes(&self.update_instruction()),
            34 => to_bytes(&self.update_payload()),
            35 => match self.r.below(3) {
                0 => to_bytes(&BI::AccountTransaction(self.account_tx_encoded())),
                1 => to_bytes(&BI::UpdateInstruction(self.update_instruction())),
                _ => to_bytes(&BI::AccountTransactionV1(self.account_tx_v1())),
            },
            36 => { let (a, b) = self.coprime(); let (a, b) = if a >= b { (a, b) } else { (b, a.max(1)) }; let g = num::integer::gcd(a, b);
                    to_bytes(&LeverageFactor::new(a / g, b / g)?) }
            40 => to_bytes(&AccThreshold::try_from(1 + self.r.below(255) as u8).unwrap()),
            42 => to_bytes(&GASRewards { baker: self.fraction(), finalization_proof: self.fraction(), account_creation: self.fraction(), chain_update: self.fraction() }),
            43 => to_bytes(&UpdateKeysThreshold::try_from(1 + self.r.below(65535) as u16).unwrap()),
            44 => to_bytes(&self.access_structure(4)),
            45 => to_bytes(&self.hlas::<RootKeysKind>()),
            46 => to_bytes(&self.auth_v0()),
            47 => { let w = self.r.next(); to_bytes(&self.root_update(w)) }
            48 => { let w = self.r.next(); to_bytes(&self.level1_update(w)) }
            49 => to_bytes(&self.ar_info()),
            53 => match self.r.below(3) { 0 => { let mut b = vec![1u8]; b.extend(self.init_contract()); b }
                                         1 => { let mut b = vec![2u8]; b.extend(self.update_contract()); b }
                                         _ => to_bytes(&self.payload()) },
            54 => { let p: Payload = match self.r.below(3) {
                        0 => { let mut b = vec![1u8]; b.extend(self.init_contract()); de(&b) }
                        1 => { let mut b = vec![2u8]; b.extend(self.update_contract()); de(&b) }
                        _ => self.payload() };
                    let size = p.encode().size();
                    to_bytes(&AccountTransaction { signature: self.tx_sig(), header: self.header(u32::from(size)), payload: p }) }
            55 | 63 => self.init_contract(),
            56 | 64 => self.update_contract(),
            57 => self.contract_name(),
            58 => self.receive_name(),
            59 => self.parameter(),
            61 => to_bytes(&self.pool.bakers[self.r.below(4) as usize].0),
            62 => { let keys = self.pool.bakers[self.r.below(4) as usize].0.clone();
                    to_bytes(&AddBakerPayload { keys, baking_stake: self.amount(), restake_earnings: self.r.chance(1, 2) }) }
            _ => return None,
        })
    }
}

// ---------------------------------------------------------------- byte-level direct oracles (fuzz)
fn rb(r: &mut Rng, n: u64) -> Vec<u8> { let l = r.below(n) as usize; r.bytes(l) }
fn mutate(r: &mut Rng, b: &[u8]) -> Vec<u8> {
    let mut v = b.to_vec();
    if v.is_empty() { { let mut x = rb(r, 8); x.push(1); return x; } }
    match r.below(8) {
        0 => { let k = r.below(v.len() as u64) as usize; v.truncate(k); }
        1 => { let k = r.below(v.len() as u64) as usize; v[k] ^= 1 << r.below(8); }
        2 => { let k = r.below(v.len() as u64) as usize; v[k] = 0xff; }
        3 => { let k = r.below(v.len() as u64) as usize; let w = *r.pick(&[2usize, 4, 8]); for j in k..(k + w).min(v.len()) { v[j] = 0xff; } }
        4 => { let k = r.below(v.len() as u64) as usize; v[k] = v[k].wrapping_add(1); }
        5 => { let k = r.below(v.len() as u64) as usize; v.insert(k, r.next() as u8); }
        6 => { let k = r.below(v.len() as u64) as usize; v.remove(k); }
        _ => { let mut extra = rb(r, 4); extra.push(7); v.extend(extra); }
    }
    v
}

fn seed_input(r: &mut Rng) -> Vec<u8> {
    match r.below(6) {
        0 => vec![0u8; r.below(80) as usize],
        1 => { let mut v = vec![0u8; 7]; v.push(1 + r.below(3) as u8); v.extend(rb(r, 40)); v }   // small u64 length prefix
        2 => { let mut v = vec![0u8, r.below(4) as u8]; v.extend(rb(r, 40)); v }              // small u16 prefix
        3 => { let mut v = vec![r.below(30) as u8]; v.extend(rb(r, 60)); v }                   // small tag
        4 => { let mut v = vec![0xffu8; *r.pick(&[1usize, 2, 4, 8])]; v.extend(rb(r, 20)); v } // inflated length
        _ => rb(r, 120),
    }
}

fn bound(len: usize) -> usize { (4 << 20) + (256 << 10) * len }

fn check_out(key: &str, input: &[u8], o: &Out, viol: &mut Vec<serde_json::Value>) {
    let mut why = vec![];
    if o.r == 'P' { why.push("decoder panicked"); }
    if o.r == 'Q' { why.push("encoder panicked on a decoded value"); }
    if o.r == 'A' {
        if o.consumed > input.len() || o.reenc[..] != input[..o.consumed.min(input.len())] { why.push("accepted bytes re-encode differently (non-canonical)"); }
        if !o.second_ok { why.push("decode(encode(v)) does not reproduce v"); }
    }
    if o.peak > bound(input.len()) { why.push("allocation bound exceeded"); }
    if !why.is_empty() && viol.len() < 5 {
        viol.push(json!({"type": key, "input": hex(input), "why": why, "r": o.r.to_string(), "consumed": o.consumed, "reenc": hex(&o.reenc), "peak": o.peak}));
    }
}

fn fuzz(seed: u64, n: u64) {
    let mut keys: Vec<String> = named_types().iter().map(|s| s.to_string()).collect();
    for id in 1..=MAX_ID { keys.push(id.to_string()); }
    for (id, _) in gen_ids() { keys.push(id.to_string()); }
    for id in 50..=64u32 { keys.push(id.to_string()); }
    let pool = make_pool(seed);
    let mut g = G { r: Rng::new(seed ^ 0x77), pool: &pool };
    for (ti, key) in keys.iter().enumerate() {
        let mut r = Rng::new(seed.wrapping_mul(7919).wrapping_add(ti as u64));
        let mut accepted: Vec<Vec<u8>> = vec![];
        // seed the mutation pool with implementation-generated valid encodings where a generator exists
        if let Ok(id) = key.parse::<u32>() {
            for _ in 0..8 { if let Ok(Some(b)) = guarded(|| g.gen(id)) { accepted.push(b); } }
        }
        let mut viol = vec![];
        let (mut na, mut nr, mut maxpeak, mut maxratio) = (0u64, 0u64, 0usize, 0f64);
        let mut distinct = std::collections::HashSet::new();
        for i in 0..n {
            let input = if !accepted.is_empty() && i % 2 == 1 { let b = accepted[r.below(accepted.len() as u64) as usize].clone(); mutate(&mut r, &b) } else { seed_input(&mut r) };
            set_case(key, &hex(&input));
            let o = match key.parse::<u32>() { Ok(id) => dispatch(id, &input), Err(_) => dispatch_named(key, &input) };
            let o = match o { Some(o) => o, None => break };
            check_out(key, &input, &o, &mut viol);
            maxpeak = maxpeak.max(o.peak);
            maxratio = maxratio.max(o.peak as f64 / (input.len().max(1)) as f64);
            if o.r == 'A' { na += 1; if distinct.insert(o.reenc.clone()) && accepted.len() < 64 { accepted.push(o.reenc.clone()); } } else { nr += 1; }
        }
        println!("{}", json!({"k": "fuzz", "type": key, "accepted": na, "rejected": nr, "distinct_accepted": distinct.len(), "max_peak": maxpeak,
                              "max_peak_per_byte": maxratio, "violations": viol}));
    }
}

// ---------------------------------------------------------------- per-variant VALUE oracles
// Every variant of every hand-written sum type is constructed as a value (several, boundary-sized
// where the variant has sizes) and checked: decode(encode v) = v (Debug form), exact consumption in
// front of trailing bytes, identical re-encoding.  The `*_variant` functions are exhaustive matches
// WITHOUT a wildcard arm: a variant added to the crate breaks the harness build (reported by the
// check), and the `*_ALL` lists make a variant that is no longer constructed a reported gap.
use concordium_base::id::{constants::{ArCurve, AttributeKind, IpPairing}, types as idt};

struct Heavy { ipdata_bytes: Vec<u8>, pio_bytes: Vec<u8>, poks_bytes: Vec<u8>, ip_info: IpInfoT, ars: Vec<ArInfoT>, icdi: idt::InitialCredentialDeploymentInfo<ArCurve, AttributeKind>, cdi: CredInfo,
               enc: EncAmountTransfer, s2p: SecToPub, global: GlobalCtx }

fn make_heavy(seed: u64) -> Heavy {
    use concordium_base::id::{account_holder::create_credential, identity_provider::verify_credentials, test::*};
    use concordium_base::{elgamal, encrypted_transfers as et};
    let mut csprng = StdRng::seed_from_u64(seed ^ 0x4ea5);
    let num_ars = 3u8;
    let ipd = test_create_ip_info(&mut csprng, num_ars, 10);
    let ipdata_bytes = to_bytes(&ipd);
    let idt::IpData { public_ip_info: ip_info, ip_secret_key, ip_cdi_secret_key } = ipd;
    let global = idt::GlobalContext::<ArCurve>::generate(String::from("verif-c05"));
    let (ars_infos, _) = test_create_ars(&global.on_chain_commitment_key.g, num_ars, &mut csprng);
    let id_use_data = test_create_id_use_data(&mut csprng);
    let mut keys = BTreeMap::new();
    keys.insert(KeyIndex(0), KeyPair::generate(&mut csprng));
    keys.insert(KeyIndex(7), KeyPair::generate(&mut csprng));
    let acc = idt::InitialAccountData { keys, threshold: idt::SignatureThreshold::TWO };
    let (context, pio, _) = test_create_pio(&id_use_data, &ip_info, &ars_infos, &global, num_ars, &acc);
    let pio_bytes = to_bytes(&pio);
    let poks_bytes = to_bytes(&pio.poks);
    let alist = test_create_attributes();
    let (sig, icdi) = verify_credentials(&pio, context, &alist, EXPIRY, &ip_secret_key, &ip_cdi_secret_key).expect("issue");
    let ido = idt::IdentityObject { pre_identity_object: pio, alist, signature: sig };
    let mut pv = BTreeMap::new();
    pv.insert(idt::AttributeTag::from(8u8), AttributeKind::from(31));
    let policy = idt::Policy { valid_to: idt::YearMonth::try_from(2022 << 8 | 5).unwrap(), created_at: idt::YearMonth::try_from(2020 << 8 | 5).unwrap(),
                               policy_vec: pv, _phantom: Default::default() };
    let mut ckeys = BTreeMap::new();
    ckeys.insert(KeyIndex(0), KeyPair::generate(&mut csprng));
    ckeys.insert(KeyIndex(255), KeyPair::generate(&mut csprng));
    let cd = idt::CredentialData { keys: ckeys, threshold: idt::SignatureThreshold::ONE };
    let (cdi, _) = create_credential(context, &ido, &id_use_data, 0, policy, &cd, &idt::SystemAttributeRandomness {}, &either::Either::Left(EXPIRY)).expect("credential");
    // encrypted transfers
    let sk = elgamal::SecretKey::generate(global.elgamal_generator(), &mut csprng);
    let sk2 = elgamal::SecretKey::generate(global.elgamal_generator(), &mut csprng);
    let pk2 = elgamal::PublicKey::from(&sk2);
    let bal = 1_000_000u64;
    let input = concordium_base::encrypted_transfers::types::AggregatedDecryptedAmount {
        agg_encrypted_amount: et::encrypt_amount_with_fixed_randomness(&global, Amount::from_micro_ccd(bal)),
        agg_amount: Amount::from_micro_ccd(bal), agg_index: 3u64.into() };
    let enc = et::make_transfer_data(&global, &pk2, &sk, &input, Amount::from_micro_ccd(777), &mut csprng).expect("transfer data");
    let s2p = et::make_sec_to_pub_transfer_data(&global, &sk, &input, Amount::from_micro_ccd(bal), &mut csprng).expect("sec to pub");
    Heavy { ipdata_bytes, pio_bytes, poks_bytes, ip_info, ars: ars_infos.into_values().collect(), icdi, cdi, enc, s2p, global }
}

fn de<T: Deserial>(b: &[u8]) -> T { concordium_base::common::from_bytes(&mut std::io::Cursor::new(b)).expect("fixture bytes decode") }

const PAYLOAD_ALL: &[&str] = &["DeployModule", "InitContract", "Update", "Transfer", "AddBaker", "RemoveBaker", "UpdateBakerStake",
    "UpdateBakerRestakeEarnings", "UpdateBakerKeys", "UpdateCredentialKeys", "EncryptedAmountTransfer", "TransferToEncrypted", "TransferToPublic",
    "TransferWithSchedule", "UpdateCredentials", "RegisterData", "TransferWithMemo", "EncryptedAmountTransferWithMemo",
    "TransferWithScheduleAndMemo", "ConfigureBaker", "ConfigureDelegation", "TokenUpdate"];
fn payload_variant(p: &Payload) -> &'static str {
    match p {
        Payload::DeployModule { .. } => "DeployModule", Payload::InitContract { .. } => "InitContract", Payload::Update { .. } => "Update",
        Payload::Transfer { .. } => "Transfer", Payload::AddBaker { .. } => "AddBaker", Payload::RemoveBaker => "RemoveBaker",
        Payload::UpdateBakerStake { .. } => "UpdateBakerStake", Payload::UpdateBakerRestakeEarnings { .. } => "UpdateBakerRestakeEarnings",
        Payload::UpdateBakerKeys { .. } => "UpdateBakerKeys", Payload::UpdateCredentialKeys { .. } => "UpdateCredentialKeys",
        Payload::EncryptedAmountTransfer { .. } => "EncryptedAmountTransfer", Payload::TransferToEncrypted { .. } => "TransferToEncrypted",
        Payload::TransferToPublic { .. } => "TransferToPublic", Payload::TransferWithSchedule { .. } => "TransferWithSchedule",
        Payload::UpdateCredentials { .. } => "UpdateCredentials", Payload::RegisterData { .. } => "RegisterData",
        Payload::TransferWithMemo { .. } => "TransferWithMemo", Payload::EncryptedAmountTransferWithMemo { .. } => "EncryptedAmountTransferWithMemo",
        Payload::TransferWithScheduleAndMemo { .. } => "TransferWithScheduleAndMemo", Payload::ConfigureBaker { .. } => "ConfigureBaker",
        Payload::ConfigureDelegation { .. } => "ConfigureDelegation", Payload::TokenUpdate { .. } => "TokenUpdate",
    }
}
const ROOT_ALL: &[&str] = &["RootKeysUpdate", "Level1KeysUpdate", "Level2KeysUpdate", "Level2KeysUpdateV1", "Level2KeysUpdateV2"];
fn root_variant(r: &RootUpdate) -> &'static str {
    match r { RootUpdate::RootKeysUpdate(_) => "RootKeysUpdate", RootUpdate::Level1KeysUpdate(_) => "Level1KeysUpdate",
              RootUpdate::Level2KeysUpdate(_) => "Level2KeysUpdate", RootUpdate::Level2KeysUpdateV1(_) => "Level2KeysUpdateV1",
              RootUpdate::Level2KeysUpdateV2(_) => "Level2KeysUpdateV2" }
}
const LEVEL1_ALL: &[&str] = &["Level1KeysUpdate", "Level2KeysUpdate", "Level2KeysUpdateV1", "Level2KeysUpdateV2"];
fn level1_variant(r: &Level1Update) -> &'static str {
    match r { Level1Update::Level1KeysUpdate(_) => "Level1KeysUpdate", Level1Update::Level2KeysUpdate(_) => "Level2KeysUpdate",
              Level1Update::Level2KeysUpdateV1(_) => "Level2KeysUpdateV1", Level1Update::Level2KeysUpdateV2(_) => "Level2KeysUpdateV2" }
}
const UPDATE_ALL: &[&str] = &["Protocol", "ElectionDifficulty", "EuroPerEnergy", "MicroGTUPerEuro", "FoundationAccount", "MintDistribution",
    "TransactionFeeDistribution", "GASRewards", "BakerStakeThreshold",
    "Root/RootKeysUpdate", "Root/Level1KeysUpdate", "Root/Level2KeysUpdate", "Root/Level2KeysUpdateV1", "Root/Level2KeysUpdateV2",
    "Level1/Level1KeysUpdate", "Level1/Level2KeysUpdate", "Level1/Level2KeysUpdateV1", "Level1/Level2KeysUpdateV2",
    "AddAnonymityRevoker", "AddIdentityProvider", "CooldownParametersCPV1", "PoolParametersCPV1", "TimeParametersCPV1", "MintDistributionCPV1",
    "GASRewardsCPV2", "TimeoutParametersCPV2", "MinBlockTimeCPV2", "BlockEnergyLimitCPV2", "FinalizationCommitteeParametersCPV2",
    "ValidatorScoreParametersCPV3", "CreatePlt"];
fn update_variant(u: &UpdatePayload) -> String {
    match u {
        UpdatePayload::Protocol(_) => "Protocol".into(), UpdatePayload::ElectionDifficulty(_) => "ElectionDifficulty".into(),
        UpdatePayload::EuroPerEnergy(_) => "EuroPerEnergy".into(), UpdatePayload::MicroGTUPerEuro(_) => "MicroGTUPerEuro".into(),
        UpdatePayload::FoundationAccount(_) => "FoundationAccount".into(), UpdatePayload::MintDistribution(_) => "MintDistribution".into(),
        UpdatePayload::TransactionFeeDistribution(_) => "TransactionFeeDistribution".into(), UpdatePayload::GASRewards(_) => "GASRewards".into(),
        UpdatePayload::BakerStakeThreshold(_) => "BakerStakeThreshold".into(),
        UpdatePayload::Root(r) => format!("Root/{}", root_variant(r)), UpdatePayload::Level1(l) => format!("Level1/{}", level1_variant(l)),
        UpdatePayload::AddAnonymityRevoker(_) => "AddAnonymityRevoker".into(), UpdatePayload::AddIdentityProvider(_) => "AddIdentityProvider".into(),
        UpdatePayload::CooldownParametersCPV1(_) => "CooldownParametersCPV1".into(), UpdatePayload::PoolParametersCPV1(_) => "PoolParametersCPV1".into(),
        UpdatePayload::TimeParametersCPV1(_) => "TimeParametersCPV1".into(), UpdatePayload::MintDistributionCPV1(_) => "MintDistributionCPV1".into(),
        UpdatePayload::GASRewardsCPV2(_) => "GASRewardsCPV2".into(), UpdatePayload::TimeoutParametersCPV2(_) => "TimeoutParametersCPV2".into(),
        UpdatePayload::MinBlockTimeCPV2(_) => "MinBlockTimeCPV2".into(), UpdatePayload::BlockEnergyLimitCPV2(_) => "BlockEnergyLimitCPV2".into(),
        UpdatePayload::FinalizationCommitteeParametersCPV2(_) => "FinalizationCommitteeParametersCPV2".into(),
        UpdatePayload::ValidatorScoreParametersCPV3(_) => "ValidatorScoreParametersCPV3".into(), UpdatePayload::CreatePlt(_) => "CreatePlt".into(),
    }
}
const BLOCKITEM_ALL: &[&str] = &["AccountTransaction", "CredentialDeployment/Initial", "CredentialDeployment/Normal", "UpdateInstruction", "AccountTransactionV1"];
fn blockitem_variant(b: &BI) -> &'static str {
    match b {
        BlockItem::AccountTransaction(_) => "AccountTransaction",
        BlockItem::CredentialDeployment(m) => match m.credential { idt::AccountCredential::Initial { .. } => "CredentialDeployment/Initial",
                                                                    idt::AccountCredential::Normal { .. } => "CredentialDeployment/Normal" },
        BlockItem::UpdateInstruction(_) => "UpdateInstruction", BlockItem::AccountTransactionV1(_) => "AccountTransactionV1",
    }
}
const ADDRESS_ALL: &[&str] = &["Account", "Contract"];
fn address_variant(a: &Address) -> &'static str { match a { Address::Account(_) => "Account", Address::Contract(_) => "Contract" } }
const DELEGATION_ALL: &[&str] = &["Passive", "Baker"];
fn delegation_variant(d: &DelegationTarget) -> &'static str { match d { DelegationTarget::Passive => "Passive", DelegationTarget::Baker { .. } => "Baker" } }
const OPEN_ALL: &[&str] = &["OpenForAll", "ClosedForNew", "ClosedForAll"];
fn open_variant(o: &OpenStatus) -> &'static str { match o { OpenStatus::OpenForAll => "OpenForAll", OpenStatus::ClosedForNew => "ClosedForNew", OpenStatus::ClosedForAll => "ClosedForAll" } }
const VERIFYKEY_ALL: &[&str] = &["Ed25519VerifyKey"];
fn verifykey_variant(k: &VerifyKey) -> &'static str { match k { VerifyKey::Ed25519VerifyKey(_) => "Ed25519VerifyKey" } }
const PV_ALL: &[&str] = &["P1", "P2", "P3", "P4", "P5", "P6", "P7", "P8", "P9", "P10"];
fn pv_variant(p: &ProtocolVersion) -> &'static str {
    match p { ProtocolVersion::P1 => "P1", ProtocolVersion::P2 => "P2", ProtocolVersion::P3 => "P3", ProtocolVersion::P4 => "P4", ProtocolVersion::P5 => "P5",
              ProtocolVersion::P6 => "P6", ProtocolVersion::P7 => "P7", ProtocolVersion::P8 => "P8", ProtocolVersion::P9 => "P9", ProtocolVersion::P10 => "P10" }
}
const IPADDR_ALL: &[&str] = &["V4", "V6"];
fn ipaddr_variant(a: &std::net::IpAddr) -> &'static str { match a { std::net::IpAddr::V4(_) => "V4", std::net::IpAddr::V6(_) => "V6" } }

/// The value oracle.  `id`: schema id when the type has a schema term (the check then also runs the
/// model on the bytes).
fn value_oracle<T: Serial + Deserial + std::fmt::Debug>(en: &str, label: &str, id: Option<u32>, v: &T, relabel: &dyn Fn(&T) -> String) {
    let mut why: Vec<String> = vec![];
    let mut debug_equal = true;
    let bytes = match guarded(|| to_bytes(v)) { Ok(b) => b, Err(e) => { println!("{}", json!({"k": "variant", "enum": en, "variant": label, "ok": false, "why": [format!("encoder panicked: {}", e)], "hex": ""})); return; } };
    set_case(en, &hex(&bytes));
    let mut with_junk = bytes.clone();
    with_junk.extend_from_slice(&[0xAA, 0x55, 0x01]);
    for (name, input) in [("exact", &bytes), ("trailing", &with_junk)] {
        let mut cur = std::io::Cursor::new(&input[..]);
        match guarded(|| T::deserial(&mut cur)) {
            Err(e) => why.push(format!("{}: decoder panicked: {}", name, e)),
            Ok(Err(e)) => why.push(format!("{}: decode(encode v) failed: {}", name, e)),
            Ok(Ok(v2)) => {
                if cur.position() as usize != bytes.len() { why.push(format!("{}: consumed {} of {} bytes", name, cur.position(), bytes.len())); }
                // Debug forms of freshly built curve points / keys are not normalised, so value equality is
                // observed as: identical re-encoding (below), same variant, and a stable Debug form from the
                // first decode on (decode . encode is the identity on decoded values).
                if format!("{:?}", v2) != format!("{:?}", v) { debug_equal = false; }
                let b2 = guarded(|| to_bytes(&v2)).unwrap_or_default();
                let mut c3 = std::io::Cursor::new(&b2[..]);
                match guarded(|| T::deserial(&mut c3)) {
                    Ok(Ok(v3)) => if format!("{:?}", v3) != format!("{:?}", v2) { why.push(format!("{}: decode(encode v) is not stable under a second round trip", name)); },
                    _ => why.push(format!("{}: second decode failed", name)),
                }
                if relabel(&v2) != label { why.push(format!("{}: decoded as variant {}", name, relabel(&v2))); }
                if guarded(|| to_bytes(&v2)).ok().as_deref() != Some(&bytes[..]) { why.push(format!("{}: re-encoding differs", name)); }
            }
        }
    }
    println!("{}", json!({"k": "variant", "enum": en, "variant": label, "id": id, "ok": why.is_empty(), "why": why, "hex": hex(&bytes), "len": bytes.len(), "debug_equal": debug_equal}));
}

fn variants(seed: u64, reps: u64) {
    let pool = make_pool(seed);
    let heavy = match guarded(|| make_heavy(seed)) { Ok(h) => h, Err(e) => { println!("{}", json!({"k": "variant_setup_failed", "why": e})); return; } };
    let mut g = G { r: Rng::new(seed ^ 0x7a71), pool: &pool };
    let mut made: BTreeMap<(String, String), u64> = BTreeMap::new();
    macro_rules! emit { ($en:expr, $id:expr, $v:expr, $lab:expr) => {{
        let v = $v; let f = $lab; let label: String = f(&v);
        *made.entry(($en.to_string(), label.clone())).or_insert(0) += 1;
        value_oracle($en, &label, $id, &v, &|x| f(x));
    }}; }
    let pl = |p: &Payload| payload_variant(p).to_string();
    for rep in 0..reps {
        // ---- Payload: the variants with generators in G (sizes vary per repetition) ...
        for _ in 0..14 { emit!("Payload", Some(53), g.payload(), pl); }
        for want in ["Transfer", "AddBaker", "RemoveBaker", "UpdateBakerStake", "UpdateBakerRestakeEarnings", "UpdateBakerKeys", "UpdateCredentialKeys",
                     "TransferToEncrypted", "TransferWithSchedule", "RegisterData", "TransferWithMemo", "TransferWithScheduleAndMemo", "ConfigureBaker", "ConfigureDelegation"] {
            if rep == 0 { loop { let p = g.payload(); if payload_variant(&p) == want { emit!("Payload", Some(53), p, pl); break; } } }
        }
        // ... and the others
        let src_len = *g.r.pick(&[0usize, 1, 8, 300]);
        let mut wasm = vec![0, 0, 0, (rep % 2) as u8]; wasm.extend((src_len as u32).to_be_bytes()); wasm.extend(g.r.bytes(src_len));
        emit!("Payload", Some(53), Payload::DeployModule { module: de(&wasm) }, pl);
        let name = format!("init_{}", "c".repeat(*g.r.pick(&[1usize, 5, 95])));
        let param = { let l = *g.r.pick(&[0usize, 1, 40, 65535]); let mut b = (l as u16).to_be_bytes().to_vec(); b.extend(g.r.bytes(l)); b };
        emit!("Payload", Some(53), Payload::InitContract { payload: InitContractPayload { amount: g.amount(), mod_ref: de(&g.r.bytes(32)),
            init_name: concordium_base::smart_contracts::OwnedContractName::new_unchecked(name.clone()), param: de(&param) } }, pl);
        let rname = format!("{}.{}", &name[5..], "f".repeat(*g.r.pick(&[1usize, 3])));
        emit!("Payload", Some(53), Payload::Update { payload: UpdateContractPayload { amount: g.amount(), address: ContractAddress::new(g.r.u64_edge(), g.r.u64_edge()),
            receive_name: concordium_base::smart_contracts::OwnedReceiveName::new_unchecked(rname), message: de(&param) } }, pl);
        emit!("Payload", Some(53), Payload::EncryptedAmountTransfer { to: g.addr(), data: Box::new(heavy.enc.clone()) }, pl);
        emit!("Payload", Some(53), Payload::EncryptedAmountTransferWithMemo { to: g.addr(), memo: g.memo(), data: Box::new(heavy.enc.clone()) }, pl);
        emit!("Payload", Some(53), Payload::TransferToPublic { data: Box::new(heavy.s2p.clone()) }, pl);
        let mut creds = BTreeMap::new();
        if rep % 2 == 0 { creds.insert(CredentialIndex { index: g.r.below(256) as u8 }, heavy.cdi.clone()); }
        let remove: Vec<CredentialRegistrationID> = (0..(rep % 3)).map(|i| de(&pool.cred_id[i as usize])).collect();
        emit!("Payload", Some(53), Payload::UpdateCredentials { new_cred_infos: creds, remove_cred_ids: remove, new_threshold: (1 + g.r.below(255) as u8).try_into().unwrap() }, pl);
        let tok = { let id = *g.r.pick(&["T", "TOKEN", "a-b.c%d"]); let mut b = vec![id.len() as u8]; b.extend(id.as_bytes()); b };
        let cbor = { let l = *g.r.pick(&[0usize, 1, 50, 5000]); let mut b = (l as u32).to_be_bytes().to_vec(); b.extend(g.r.bytes(l)); b };
        emit!("Payload", Some(53), Payload::TokenUpdate { payload: concordium_base::protocol_level_tokens::TokenOperationsPayload { token_id: de(&tok), operations: de(&cbor) } }, pl);

        // ---- UpdatePayload
        let ul = |u: &UpdatePayload| update_variant(u);
        for w in 0..5 { emit!("UpdatePayload", Some(51), UpdatePayload::Root(g.root_update(w)), ul); }
        for w in 0..4 { emit!("UpdatePayload", Some(51), UpdatePayload::Level1(g.level1_update(w)), ul); }
        for w in 0..5 { emit!("RootUpdate", Some(47), g.root_update(w), |r: &RootUpdate| root_variant(r).to_string()); }
        for w in 0..4 { emit!("Level1Update", Some(48), g.level1_update(w), |r: &Level1Update| level1_variant(r).to_string()); }
        for _ in 0..12 { emit!("UpdatePayload", Some(51), g.update_payload(), ul); }
        let (l1, l2, l3) = (*g.r.pick(&[0u64, 10, 5000]), *g.r.pick(&[0u64, 30, 4097]), *g.r.pick(&[0usize, 10, 5000]));
        let s1 = g.ascii(l1); let s2 = g.ascii(l2); let aux = g.small_bytes(l3);
        emit!("UpdatePayload", Some(51), UpdatePayload::Protocol(ProtocolUpdate { message: s1, specification_url: s2, specification_hash: de(&g.r.bytes(32)), specification_auxiliary_data: aux }), ul);
        let (a, b) = g.coprime();
        emit!("UpdatePayload", Some(51), UpdatePayload::MicroGTUPerEuro(ExchangeRate::new(a.max(1), b).unwrap_or(ExchangeRate::new_unchecked(1, 1))), ul);
        let (a, b) = g.coprime();
        emit!("UpdatePayload", Some(51), UpdatePayload::EuroPerEnergy(ExchangeRate::new(a.max(1), b).unwrap_or(ExchangeRate::new_unchecked(1, 1))), ul);
        emit!("UpdatePayload", Some(51), UpdatePayload::ElectionDifficulty(ElectionDifficulty::new(*g.r.pick(&[0u32, 1, 100_000])).unwrap()), ul);
        emit!("UpdatePayload", Some(51), UpdatePayload::FoundationAccount(g.addr()), ul);
        let half = *g.r.pick(&[0u32, 1, 50_000, 100_000]);
        let fr = |x: u32| AmountFraction::new(x).unwrap();
        emit!("UpdatePayload", Some(51), UpdatePayload::MintDistribution(MintDistributionV0 { mint_per_slot: MintRate { mantissa: g.r.u32_edge(), exponent: g.r.below(256) as u8 },
            baking_reward: fr(half), finalization_reward: fr(100_000 - half) }), ul);
        emit!("UpdatePayload", Some(51), UpdatePayload::MintDistributionCPV1(MintDistributionV1 { baking_reward: fr(half), finalization_reward: fr((100_000 - half) / 2) }), ul);
        emit!("UpdatePayload", Some(51), UpdatePayload::TransactionFeeDistribution(TransactionFeeDistribution { baker: fr(half), gas_account: fr(100_000 - half) }), ul);
        emit!("UpdatePayload", Some(51), UpdatePayload::GASRewards(GASRewards { baker: g.fraction(), finalization_proof: g.fraction(), account_creation: g.fraction(), chain_update: g.fraction() }), ul);
        emit!("UpdatePayload", Some(51), UpdatePayload::GASRewardsCPV2(GASRewardsV1 { baker: g.fraction(), account_creation: g.fraction(), chain_update: g.fraction() }), ul);
        emit!("UpdatePayload", Some(51), UpdatePayload::BakerStakeThreshold(BakerParameters { minimum_threshold_for_baking: g.amount() }), ul);
        emit!("UpdatePayload", Some(51), UpdatePayload::AddAnonymityRevoker(Box::new(heavy.ars[(rep as usize) % heavy.ars.len()].clone())), ul);
        emit!("UpdatePayload", Some(51), UpdatePayload::AddAnonymityRevoker(Box::new(g.ar_info())), ul);
        emit!("UpdatePayload", Some(51), UpdatePayload::AddIdentityProvider(Box::new(heavy.ip_info.clone())), ul);
        emit!("UpdatePayload", Some(51), UpdatePayload::CooldownParametersCPV1(CooldownParameters { pool_owner_cooldown: DurationSeconds { seconds: g.r.u64_edge() }, delegator_cooldown: DurationSeconds { seconds: g.r.u64_edge() } }), ul);
        let rng_ = |lo: u32, hi: u32| { let mut b = to_bytes(&fr(lo)); b.extend(to_bytes(&fr(hi))); b };
        let mut pp = vec![]; for _ in 0..3 { pp.extend(to_bytes(&g.fraction())); }
        pp.extend(rng_(0, 100_000)); pp.extend(rng_(half, half)); pp.extend(rng_(0, half));
        pp.extend(to_bytes(&g.amount())); pp.extend(to_bytes(&g.fraction()));
        let (a, b) = g.coprime(); let (a, b) = if a >= b { (a, b) } else { (b, a.max(1)) }; let gg = num::integer::gcd(a, b);
        pp.extend(to_bytes(&(a / gg))); pp.extend(to_bytes(&(b / gg)));
        emit!("UpdatePayload", Some(51), UpdatePayload::PoolParametersCPV1(de(&pp)), ul);
        let mut tp = to_bytes(&g.r.u64_edge()); tp.extend(to_bytes(&g.r.u32_edge())); tp.push(g.r.below(256) as u8);
        emit!("UpdatePayload", Some(51), UpdatePayload::TimeParametersCPV1(de(&tp)), ul);
        emit!("UpdatePayload", Some(51), UpdatePayload::TimeoutParametersCPV2(TimeoutParameters::new(concordium_base::contracts_common::Duration::from_millis(g.r.u64_edge()),
            Ratio::new(*g.r.pick(&[2u64, 3, u64::MAX]), 1).unwrap(), Ratio::new(1, *g.r.pick(&[2u64, 3, u64::MAX])).unwrap()).unwrap()), ul);
        emit!("UpdatePayload", Some(51), UpdatePayload::MinBlockTimeCPV2(concordium_base::contracts_common::Duration::from_millis(g.r.u64_edge())), ul);
        emit!("UpdatePayload", Some(51), UpdatePayload::BlockEnergyLimitCPV2(g.r.u64_edge().into()), ul);
        emit!("UpdatePayload", Some(51), UpdatePayload::FinalizationCommitteeParametersCPV2(FinalizationCommitteeParameters { min_finalizers: g.r.u32_edge(), max_finalizers: g.r.u32_edge(),
            finalizers_relative_stake_threshold: PartsPerHundredThousands::new(half).unwrap() }), ul);
        emit!("UpdatePayload", Some(51), UpdatePayload::ValidatorScoreParametersCPV3(ValidatorScoreParameters { max_missed_rounds: g.r.u64_edge() }), ul);
        emit!("UpdatePayload", Some(51), UpdatePayload::CreatePlt(CreatePlt { token_id: de(&tok), token_module: de(&g.r.bytes(32)), decimals: g.r.below(256) as u8, initialization_parameters: de(&cbor) }), ul);

        // ---- BlockItem
        let bl = |b: &BI| blockitem_variant(b).to_string();
        emit!("BlockItem", Some(52), BI::AccountTransaction(g.account_tx_encoded()), bl);
        emit!("BlockItem", Some(52), BI::UpdateInstruction(g.update_instruction()), bl);
        emit!("BlockItem", Some(52), BI::AccountTransactionV1(g.account_tx_v1()), bl);
        emit!("BlockItem", Some(52), BI::CredentialDeployment(Box::new(idt::AccountCredentialMessage { message_expiry: TransactionTime::from_seconds(g.r.u64_edge()),
            credential: idt::AccountCredential::Initial { icdi: heavy.icdi.clone() } })), bl);
        emit!("BlockItem", Some(52), BI::CredentialDeployment(Box::new(idt::AccountCredentialMessage { message_expiry: TransactionTime::from_seconds(g.r.u64_edge()),
            credential: idt::AccountCredential::Normal { cdi: heavy.cdi.clone() } })), bl);

        // ---- small sum types
        emit!("Address", Some(4), Address::Account(g.addr()), |a: &Address| address_variant(a).to_string());
        emit!("Address", Some(4), Address::Contract(ContractAddress::new(g.r.u64_edge(), g.r.u64_edge())), |a: &Address| address_variant(a).to_string());
        emit!("DelegationTarget", Some(20), DelegationTarget::Passive, |d: &DelegationTarget| delegation_variant(d).to_string());
        emit!("DelegationTarget", Some(20), DelegationTarget::Baker { baker_id: BakerId::from(AccountIndex::from(g.r.u64_edge())) }, |d: &DelegationTarget| delegation_variant(d).to_string());
        for o in [OpenStatus::OpenForAll, OpenStatus::ClosedForNew, OpenStatus::ClosedForAll] { emit!("OpenStatus", Some(19), o, |o: &OpenStatus| open_variant(o).to_string()); }
        emit!("VerifyKey", Some(16), g.verify_key(), |k: &VerifyKey| verifykey_variant(k).to_string());
        for p in [ProtocolVersion::P1, ProtocolVersion::P2, ProtocolVersion::P3, ProtocolVersion::P4, ProtocolVersion::P5, ProtocolVersion::P6,
                  ProtocolVersion::P7, ProtocolVersion::P8, ProtocolVersion::P9, ProtocolVersion::P10] {
            if rep == 0 { emit!("ProtocolVersion", None, p, |p: &ProtocolVersion| pv_variant(p).to_string()); } }
        let v4 = g.r.bytes(4); let v6 = g.r.bytes(16);
        emit!("IpAddr", None, std::net::IpAddr::V4(std::net::Ipv4Addr::new(v4[0], v4[1], v4[2], v4[3])), |a: &std::net::IpAddr| ipaddr_variant(a).to_string());
        emit!("IpAddr", None, std::net::IpAddr::V6({ let mut o = [0u8; 16]; o.copy_from_slice(&v6); std::net::Ipv6Addr::from(o) }), |a: &std::net::IpAddr| ipaddr_variant(a).to_string());
    }
    // implementation-generated values of derived types (credentials and transfers from the real pipeline): keyed by the
    // translator's output name; the check maps them to the generated schema ids
    {
        let fx = |name: &str, b: Vec<u8>| println!("{}", json!({"k": "fixture", "name": name, "hex": hex(&b)}));
        fx("CredentialDeploymentInfo_IpPairing_ArCurve_AttributeKind", to_bytes(&heavy.cdi));
        fx("CredentialDeploymentValues_ArCurve_AttributeKind", to_bytes(&heavy.cdi.values));
        fx("IdOwnershipProofs_IpPairing_ArCurve", to_bytes(&heavy.cdi.proofs.id_proofs));
        fx("CredentialDeploymentCommitments_ArCurve", to_bytes(&heavy.cdi.proofs.id_proofs.commitments));
        fx("InitialCredentialDeploymentInfo_ArCurve_AttributeKind", to_bytes(&heavy.icdi));
        fx("InitialCredentialDeploymentValues_ArCurve_AttributeKind", to_bytes(&heavy.icdi.values));
        fx("AccountCredentialMessage_IpPairing_ArCurve_AttributeKind", to_bytes(&idt::AccountCredentialMessage { message_expiry: TransactionTime::from_seconds(77),
            credential: idt::AccountCredential::Normal { cdi: heavy.cdi.clone() } }));
        fx("AccountCredentialMessage_IpPairing_ArCurve_AttributeKind", to_bytes(&idt::AccountCredentialMessage::<IpPairing, ArCurve, AttributeKind> { message_expiry: TransactionTime::from_seconds(0),
            credential: idt::AccountCredential::Initial { icdi: heavy.icdi.clone() } }));
        fx("IpInfo_IpPairing", to_bytes(&heavy.ip_info));
        fx("GlobalContext_ArCurve", to_bytes(&heavy.global));
        fx("EncryptedAmountTransferData_ArCurve", to_bytes(&heavy.enc));
        fx("EncryptedAmountTransferProof_ArCurve", to_bytes(&heavy.enc.proof));
        fx("EncryptedAmount_ArCurve", to_bytes(&heavy.enc.remaining_amount));
        fx("SecToPubAmountTransferData_ArCurve", to_bytes(&heavy.s2p));
        fx("SecToPubAmountTransferProof_ArCurve", to_bytes(&heavy.s2p.proof));
        // types translated since the extension of T4 (secret-key carriers, PreIdentityObject, wrappers)
        fx("IpData_IpPairing", heavy.ipdata_bytes.clone());
        fx("PreIdentityObject_IpPairing_ArCurve", heavy.pio_bytes.clone());
        fx("#60", heavy.poks_bytes.clone());
        {
            let mut rng = StdRng::seed_from_u64(seed ^ 0xbaca);
            for _ in 0..3 {
                let kp = BakerKeyPairs::generate(&mut rng);
                fx("BakerSignatureSignKey", to_bytes(&kp.signature_sign));
                fx("BakerElectionSignKey", to_bytes(&kp.election_sign));
                fx("BakerKeyPairs", to_bytes(&kp));
                fx("Keypair", to_bytes(&concordium_base::ecvrf::Keypair::generate(&mut rng)));
            }
        }
    }
    // coverage: every variant of every enum must have been constructed
    let mut cov = serde_json::Map::new();
    let mut missing = vec![];
    for (en, all) in [("Payload", PAYLOAD_ALL), ("UpdatePayload", UPDATE_ALL), ("RootUpdate", ROOT_ALL), ("Level1Update", LEVEL1_ALL), ("BlockItem", BLOCKITEM_ALL),
                      ("Address", ADDRESS_ALL), ("DelegationTarget", DELEGATION_ALL), ("OpenStatus", OPEN_ALL), ("VerifyKey", VERIFYKEY_ALL),
                      ("ProtocolVersion", PV_ALL), ("IpAddr", IPADDR_ALL)] {
        let mut m = serde_json::Map::new();
        for v in all.iter() {
            let n = made.get(&(en.to_string(), v.to_string())).copied().unwrap_or(0);
            if n == 0 { missing.push(format!("{}::{}", en, v)); }
            m.insert(v.to_string(), json!(n));
        }
        cov.insert(en.to_string(), serde_json::Value::Object(m));
    }
    let unexpected: Vec<String> = made.keys().filter(|(en, v)| {
        let all: &[&str] = match en.as_str() { "Payload" => PAYLOAD_ALL, "UpdatePayload" => UPDATE_ALL, "RootUpdate" => ROOT_ALL, "Level1Update" => LEVEL1_ALL,
            "BlockItem" => BLOCKITEM_ALL, "Address" => ADDRESS_ALL, "DelegationTarget" => DELEGATION_ALL, "OpenStatus" => OPEN_ALL, "VerifyKey" => VERIFYKEY_ALL,
            "ProtocolVersion" => PV_ALL, "IpAddr" => IPADDR_ALL, _ => &[] };
        !all.contains(&v.as_str()) }).map(|(a, b)| format!("{}::{}", a, b)).collect();
    println!("{}", json!({"k": "variant_coverage", "coverage": cov, "missing": missing, "unlisted": unexpected}));
}

fn main() {
    quiet_panics();
    let args: Vec<String> = std::env::args().collect();
    let mode = args.get(1).map(|s| s.as_str()).unwrap_or("");
    let seed: u64 = args.get(2).and_then(|s| s.parse().ok()).unwrap_or(1);
    let n: u64 = args.get(3).and_then(|s| s.parse().ok()).unwrap_or(10);
    match mode {
        "pool" => {
            let p = make_pool(seed);
            for (k, l) in [(1, &p.ed_pk), (2, &p.vrf_pk), (3, &p.bls_pk), (4, &p.dlog), (5, &p.blsproof), (7, &p.cred_id), (8, &p.elg_pk), (9, &p.g1), (10, &p.g2), (11, &p.fr)] {
                for e in l.iter() { println!("{} {}", k, hex(e)); }
            }
        }
        "gen" => {
            let p = make_pool(seed);
            let mut g = G { r: Rng::new(seed ^ 0xabcdef), pool: &p };
            for id in (1..=MAX_ID).chain(53..=64) {
                for _ in 0..n {
                    match guarded(|| g.gen(id)) {
                        Ok(Some(b)) => println!("{} {}", id, hex(&b)),
                        Ok(None) => {}
                        Err(e) => println!("GENPANIC {} {}", id, e),
                    }
                }
            }
        }
        "run" => {
            let stdin = std::io::stdin();
            let out = std::io::stdout();
            for (i, line) in stdin.lock().lines().enumerate() {
                let line = line.unwrap();
                let mut it = line.split_whitespace();
                let key = it.next().unwrap_or("");
                let hx = it.next().unwrap_or("");
                let input = unhex(hx);
                set_case(key, hx);
                let o = match key.parse::<u32>() { Ok(id) => dispatch(id, &input), Err(_) => dispatch_named(key, &input) };
                let mut w = out.lock();
                match o {
                    None => { let _ = writeln!(w, "{}", json!({"i": i, "r": "?"})); }
                    Some(o) => {
                        // variant tag for the sum types with unmodelled variants
                        let vt = if o.r == 'A' { match key { "27" | "34" | "35" | "47" | "48" | "50" | "51" | "52" => o.reenc.first().copied(),
                            "28" => { let mut c = std::io::Cursor::new(&input[..]);
                                      AccountTransaction::<Payload>::deserial(&mut c).ok().map(|t| to_bytes(&t.payload)[0]) }
                            _ => None } } else { None };
                        let _ = writeln!(w, "{}", json!({"i": i, "r": o.r.to_string(), "c": o.consumed, "e": hex(&o.reenc), "pk": o.peak,
                                                         "s2": o.second_ok, "vt": vt, "bound": bound(input.len())}));
                    }
                }
                let _ = w.flush();
            }
        }
        "leaves" => {
            // stdin: "<kind> <hex>" -> "<kind> <hex> <1|0>": does the implementation accept these bytes as an opaque leaf of that kind
            fn ok<T: Serial + Deserial>(b: &[u8]) -> bool {
                let mut c = std::io::Cursor::new(b);
                match guarded(|| T::deserial(&mut c)) { Ok(Ok(v)) => c.position() as usize == b.len() && guarded(|| to_bytes(&v)).ok().as_deref() == Some(b), _ => false }
            }
            let stdin = std::io::stdin();
            for line in stdin.lock().lines() {
                let line = line.unwrap();
                let mut it = line.split_whitespace();
                let k: u32 = it.next().and_then(|x| x.parse().ok()).unwrap_or(0);
                let hx = it.next().unwrap_or("");
                let b = unhex(hx);
                let v = match k {
                    1 => ok::<BakerSignatureVerifyKey>(&b), 2 => ok::<BakerElectionVerifyKey>(&b), 3 => ok::<BakerAggregationVerifyKey>(&b),
                    4 => ok::<concordium_base::eddsa_ed25519::Ed25519DlogProof>(&b),
                    5 => ok::<concordium_base::aggregate_sig::Proof<AggregateSigPairing>>(&b),
                    7 => ok::<CredentialRegistrationID>(&b), 8 => ok::<concordium_base::elgamal::PublicKey<ArCurve>>(&b),
                    9 => ok::<ArCurve>(&b), 10 => ok::<concordium_base::id::constants::BlsG2>(&b),
                    11 => ok::<concordium_base::id::constants::BaseField>(&b),
                    _ => false };
                println!("{} {} {}", k, hx, if v { 1 } else { 0 });
            }
        }
        "fuzz" => fuzz(seed, n),
        "variants" => variants(seed, n),
        "types" => { println!("{}", json!({"unmodelled": named_types(), "generated": gen_ids().iter().map(|(i, t)| json!([i, t])).collect::<Vec<_>>()})); }
        _ => { eprintln!("usage: c05 pool|gen|run|fuzz|variants|types ..."); std::process::exit(2); }
    }
}
