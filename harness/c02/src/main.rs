//! C02 harness: energy metering observed at the property's own observation point.
//!
//! For every generated (or given) program and both cost configurations (m0 = CostConfigurationV0,
//! m1 = CostConfigurationV1) it
//!  * runs the REAL `validate_module` + `Module::inject_metering` and dumps the metered module
//!    (code of every function, types, imports, element segments, exports);
//!  * compiles it (`utils::instantiate_with_metering`) and runs the entry point on the REAL engine
//!    (`Artifact::run`) with a RECORDING host that logs, in order, `tick_initial_memory` (`i<n>`),
//!    `tick_energy` (`t<n>`), calls of `concordium_metering.account_memory` (`a<pages>`), calls of the
//!    test imports `env.h<i>` (`h<i>:args`), `track_call` (`c`) and `track_return` (`r`); energy is
//!    the engine's own `InterpreterEnergy` (tick_energy / charge_memory_alloc of
//!    wasm-chain-integration/src/lib.rs);
//!  * re-runs under the budgets {need, need-1, 0, need+12345, ...} and reports out-of-energy / remaining;
//!  * runs the UNMETERED module instrumented with a tracing import before every instruction
//!    (`utils::instantiate`), giving the executed source-instruction sequence from the real engine.
//!
//! usage: c02 gen <seed> <n> [start]      generated programs (clean: no compiler-defect classes)
//!        c02 static <seed> <n>           generated programs of every class, metering output only
//!        c02 single                      one small program per opcode (cross-check of translator T2)
//!        c02 run                         programs (line format of ast.rs) from stdin
mod ast;
mod gen;
use ast::*;
use concordium_smart_contract_engine::{InterpreterEnergy, OutOfEnergy};
use concordium_wasm::{
    artifact::{Artifact, ArtifactNamedImport, CompiledFunction},
    machine::{ExecutionOutcome, Host, NoInterrupt, RunResult, RuntimeStack, Value},
    parse::parse_skeleton,
    types::{BlockType, ExportDescription, FunctionType, ImportDescription, Name, OpCode, ValueType},
    utils,
    validate::{validate_module, ValidateImportExport, ValidationConfig},
    CostConfigurationV0, CostConfigurationV1,
};
use hlib::{guarded, quiet_panics, Rng};
use serde_json::{json, Value as J};
use std::sync::atomic::{AtomicU64, Ordering};

struct AllowAll;
impl ValidateImportExport for AllowAll {
    fn validate_import_function(&self, _d: bool, _m: &Name, _i: &Name, _t: &FunctionType) -> bool { true }
    fn validate_export_function(&self, _i: &Name, _t: &FunctionType) -> bool { true }
}

/// Recording host.  Energy accounting is the engine's InterpreterEnergy.
struct Rec {
    ev: Vec<String>,
    energy: InterpreterEnergy,
    max_events: usize,
}
impl Rec {
    fn new(budget: u64) -> Self { Rec { ev: vec![], energy: InterpreterEnergy::new(budget), max_events: 2_000_000 } }
    fn log(&mut self, s: String) -> RunResult<()> {
        PROGRESS.fetch_add(1, Ordering::Relaxed);
        if self.ev.len() >= self.max_events { anyhow::bail!("event limit") }
        self.ev.push(s);
        Ok(())
    }
}
impl Host<ArtifactNamedImport> for Rec {
    type Interrupt = NoInterrupt;
    fn tick_initial_memory(&mut self, n: u32) -> RunResult<()> {
        self.log(format!("i{}", n))?;
        self.energy.charge_memory_alloc(n)
    }
    fn call(&mut self, f: &ArtifactNamedImport, _memory: &mut [u8], stack: &mut RuntimeStack) -> RunResult<Option<NoInterrupt>> {
        if f.matches("concordium_metering", "account_memory") {
            let v = unsafe { stack.peek_u32() };
            self.log(format!("a{}", v))?;
            self.energy.charge_memory_alloc(v)?;
            Ok(None)
        } else if f.matches("env", "h0") {
            self.log("h0".into())?;
            Ok(None)
        } else if f.matches("env", "h1") {
            let x = unsafe { stack.pop_u32() };
            self.log(format!("h1:{}", x))?;
            stack.push_value(x.wrapping_mul(3).wrapping_add(1));
            Ok(None)
        } else if f.matches("env", "h2") {
            let y = unsafe { stack.pop_u64() };
            let x = unsafe { stack.pop_u32() };
            self.log(format!("h2:{}:{}", x, y))?;
            stack.push_value((x as u64).wrapping_add(y));
            Ok(None)
        } else if f.matches("env", "trace") {
            let x = unsafe { stack.pop_u32() };
            self.log(format!("{}", x))?;
            Ok(None)
        } else {
            anyhow::bail!("unknown host function")
        }
    }
    fn tick_energy(&mut self, e: u64) -> RunResult<()> {
        self.log(format!("t{}", e))?;
        self.energy.tick_energy(e)
    }
    fn track_call(&mut self) -> RunResult<()> { self.log("c".into()) }
    fn track_return(&mut self) { let _ = self.log("r".into()); }
}

static PROGRESS: AtomicU64 = AtomicU64::new(0);
type Art = Artifact<ArtifactNamedImport, CompiledFunction>;

fn instantiate(cfg: &str, bytes: &[u8]) -> Result<Art, String> {
    let vc = ValidationConfig::V1;
    let r = match cfg {
        "plain" => utils::instantiate::<ArtifactNamedImport, _>(vc, &AllowAll, bytes),
        "m0" => utils::instantiate_with_metering::<ArtifactNamedImport>(vc, CostConfigurationV0, &AllowAll, bytes),
        _ => utils::instantiate_with_metering::<ArtifactNamedImport>(vc, CostConfigurationV1, &AllowAll, bytes),
    };
    r.map(|m| m.artifact).map_err(|e| format!("{}", e))
}

const BIG: u64 = 1 << 60;

/// one run: (events, outcome string, remaining energy)
fn run_once(art: &Art, entry_name: &str, args: &[(VT, i64)], budget: u64) -> (Vec<String>, String, u64) {
    let vals: Vec<Value> = args.iter().map(|(t, v)| match t { VT::I32 => Value::I32(*v as i32), VT::I64 => Value::I64(*v) }).collect();
    let mut host = Rec::new(budget);
    let r = guarded(|| art.run(&mut host, entry_name, &vals));
    PROGRESS.fetch_add(1, Ordering::Relaxed);
    let out = match r {
        Err(p) => format!("PANIC {}", p),
        Ok(Err(e)) => {
            if e.downcast_ref::<OutOfEnergy>().is_some() { "ooe".to_string() } else { "trap".to_string() }
        }
        Ok(Ok(ExecutionOutcome::Interrupted { .. })) => "interrupt".to_string(),
        Ok(Ok(ExecutionOutcome::Success { result, memory })) => {
            let res = match result { None => "-".to_string(), Some(Value::I32(x)) => format!("7f:{}", x), Some(Value::I64(x)) => format!("7e:{}", x) };
            format!("ok {} P {}", res, memory.len() / 65536)
        }
    };
    (host.ev, out, host.energy.energy)
}

fn opcode_tok(o: &OpCode) -> String {
    let bt = |b: &BlockType| match b { BlockType::EmptyType => "40", BlockType::ValueType(ValueType::I32) => "7f", BlockType::ValueType(ValueType::I64) => "7e" };
    use OpCode::*;
    let mem = |b: u8, m: &concordium_wasm::types::MemArg| format!("{:02x}:{}:{}", b, m.offset, m.align);
    match o {
        End => "0b".into(), Nop => "01".into(), Unreachable => "00".into(),
        Block(b) => format!("02:{}", bt(b)), Loop(b) => format!("03:{}", bt(b)), If { ty } => format!("04:{}", bt(ty)), Else => "05".into(),
        Br(l) => format!("0c:{}", l), BrIf(l) => format!("0d:{}", l),
        BrTable { labels, default } => { let mut s = format!("0e:{}", labels.len()); for l in labels { s += &format!(":{}", l); } s + &format!(":{}", default) }
        Return => "0f".into(), Call(f) => format!("10:{}", f), CallIndirect(t) => format!("11:{}", t),
        Drop => "1a".into(), Select => "1b".into(),
        LocalGet(i) => format!("20:{}", i), LocalSet(i) => format!("21:{}", i), LocalTee(i) => format!("22:{}", i),
        GlobalGet(i) => format!("23:{}", i), GlobalSet(i) => format!("24:{}", i),
        I32Load(m) => mem(0x28, m), I64Load(m) => mem(0x29, m), I32Load8S(m) => mem(0x2c, m), I32Load8U(m) => mem(0x2d, m),
        I32Load16S(m) => mem(0x2e, m), I32Load16U(m) => mem(0x2f, m), I64Load8S(m) => mem(0x30, m), I64Load8U(m) => mem(0x31, m),
        I64Load16S(m) => mem(0x32, m), I64Load16U(m) => mem(0x33, m), I64Load32S(m) => mem(0x34, m), I64Load32U(m) => mem(0x35, m),
        I32Store(m) => mem(0x36, m), I64Store(m) => mem(0x37, m), I32Store8(m) => mem(0x3a, m), I32Store16(m) => mem(0x3b, m),
        I64Store8(m) => mem(0x3c, m), I64Store16(m) => mem(0x3d, m), I64Store32(m) => mem(0x3e, m),
        MemorySize => "3f".into(), MemoryGrow => "40".into(),
        I32Const(c) => format!("41:{}", c), I64Const(c) => format!("42:{}", c),
        I32Eqz => "45".into(), I32Eq => "46".into(), I32Ne => "47".into(), I32LtS => "48".into(), I32LtU => "49".into(), I32GtS => "4a".into(),
        I32GtU => "4b".into(), I32LeS => "4c".into(), I32LeU => "4d".into(), I32GeS => "4e".into(), I32GeU => "4f".into(),
        I64Eqz => "50".into(), I64Eq => "51".into(), I64Ne => "52".into(), I64LtS => "53".into(), I64LtU => "54".into(), I64GtS => "55".into(),
        I64GtU => "56".into(), I64LeS => "57".into(), I64LeU => "58".into(), I64GeS => "59".into(), I64GeU => "5a".into(),
        I32Clz => "67".into(), I32Ctz => "68".into(), I32Popcnt => "69".into(), I32Add => "6a".into(), I32Sub => "6b".into(), I32Mul => "6c".into(),
        I32DivS => "6d".into(), I32DivU => "6e".into(), I32RemS => "6f".into(), I32RemU => "70".into(), I32And => "71".into(), I32Or => "72".into(),
        I32Xor => "73".into(), I32Shl => "74".into(), I32ShrS => "75".into(), I32ShrU => "76".into(), I32Rotl => "77".into(), I32Rotr => "78".into(),
        I64Clz => "79".into(), I64Ctz => "7a".into(), I64Popcnt => "7b".into(), I64Add => "7c".into(), I64Sub => "7d".into(), I64Mul => "7e".into(),
        I64DivS => "7f".into(), I64DivU => "80".into(), I64RemS => "81".into(), I64RemU => "82".into(), I64And => "83".into(), I64Or => "84".into(),
        I64Xor => "85".into(), I64Shl => "86".into(), I64ShrS => "87".into(), I64ShrU => "88".into(), I64Rotl => "89".into(), I64Rotr => "8a".into(),
        I32WrapI64 => "a7".into(), I64ExtendI32S => "ac".into(), I64ExtendI32U => "ad".into(),
        I32Extend8S => "c0".into(), I32Extend16S => "c1".into(), I64Extend8S => "c2".into(), I64Extend16S => "c3".into(), I64Extend32S => "c4".into(),
        TickEnergy(n) => format!("fe:{}", n),
    }
}

/// The real `inject_metering` applied to the validated module, dumped.
fn metered_module(cfg: &str, bytes: &[u8]) -> Result<J, String> {
    let sk = parse_skeleton(bytes).map_err(|e| e.to_string())?;
    let mut module = validate_module(ValidationConfig::V1, &AllowAll, &sk).map_err(|e| e.to_string())?;
    match cfg {
        "m0" => module.inject_metering(CostConfigurationV0).map_err(|e| e.to_string())?,
        _ => module.inject_metering(CostConfigurationV1).map_err(|e| e.to_string())?,
    }
    let code: Vec<String> = module.code.impls.iter().map(|c| c.expr.instrs.iter().map(opcode_tok).collect::<Vec<_>>().join(" ")).collect();
    let vt = |t: &ValueType| match t { ValueType::I32 => "7f", ValueType::I64 => "7e" };
    let types: Vec<String> = module.ty.types.iter().map(|t| format!("{}>{}", t.parameters.iter().map(vt).collect::<Vec<_>>().join(","), t.result.as_ref().map(vt).unwrap_or(""))).collect();
    let imports: Vec<J> = module.import.imports.iter().map(|i| json!({"mod": i.mod_name.name, "item": i.item_name.name, "ty": match i.description { ImportDescription::Func { type_idx } => type_idx }})).collect();
    let elems: Vec<J> = module.element.elements.iter().map(|e| json!([e.offset, e.inits])).collect();
    let mut exports = serde_json::Map::new();
    for e in module.export.exports.iter() {
        if let ExportDescription::Func { index } = e.description { exports.insert(e.name.name.clone(), json!(index)); }
    }
    Ok(json!({"code": code, "types": types, "imports": imports, "elems": elems, "exports": exports}))
}

/// Source module with `i32.const id; call $trace` before every instruction; `trace` is appended as the
/// LAST import, so local function indices move up by one.
fn traced_module(m: &Module) -> Module {
    let ni = m.imports.len() as u32;
    let mut t = m.clone();
    let sig = Sig { params: vec![VT::I32], result: None };
    let ti = match t.types.iter().position(|x| *x == sig) { Some(i) => i, None => { t.types.push(sig); t.types.len() - 1 } };
    t.imports.push(ti as u32);
    t.trace_last = true;
    let shift = |j: u32| if j >= ni { j + 1 } else { j };
    for (_, fs) in t.elems.iter_mut() { for f in fs.iter_mut() { *f = shift(*f); } }
    let mut id: i32 = 0;
    for f in t.funcs.iter_mut() {
        let mut out = Vec::with_capacity(f.body.len() * 3);
        for op in f.body.iter() {
            out.push(Op::I32Const(id));
            out.push(Op::Call(ni));
            id += 1;
            out.push(match op { Op::Call(j) => Op::Call(shift(*j)), o => o.clone() });
        }
        f.body = out;
    }
    t
}

fn process(id: &str, case: &Case, extra: J, dynamic: bool) {
    let line = case.to_line();
    let bytes = case.module.encode();
    let ni = case.module.imports.len() as u32;
    let entry = case.entries[0];
    let entry_name = format!("f{}", entry - ni);
    let mut res = serde_json::Map::new();
    for cfg in ["m0", "m1"].iter() {
        PROGRESS.fetch_add(1, Ordering::SeqCst);
        let mm = guarded(|| metered_module(cfg, &bytes));
        let mut o = serde_json::Map::new();
        match mm {
            Err(p) => { o.insert("inject".into(), json!({"PANIC": p})); }
            Ok(Err(e)) => { o.insert("inject".into(), json!({"rejected": e})); }
            Ok(Ok(j)) => { o.insert("inject".into(), j); }
        }
        if dynamic {
            match guarded(|| instantiate(cfg, &bytes)) {
                Err(p) => { o.insert("inst".into(), json!({"PANIC": p})); }
                Ok(Err(e)) => { o.insert("inst".into(), json!({"rejected": e})); }
                Ok(Ok(art)) => {
                    let (ev, out, rem) = run_once(&art, &entry_name, &case.args, BIG);
                    let need = BIG - rem;
                    let (ev2, out2, rem2) = run_once(&art, &entry_name, &case.args, BIG);
                    let repeat_same = ev == ev2 && out == out2 && rem == rem2;
                    let mut budgets = vec![];
                    if out != "ooe" && !out.starts_with("PANIC") {
                        let mut bs = vec![need, 0, need + 12345, need / 2, need + 1];
                        if need > 0 { bs.push(need - 1); }
                        for b in bs {
                            let (evb, outb, remb) = run_once(&art, &entry_name, &case.args, b);
                            // the events of a budgeted run must be a prefix of the unbounded run's events
                            let prefix = evb.len() <= ev.len() && evb[..] == ev[..evb.len()];
                            budgets.push(json!({"b": b.to_string(), "out": outb, "rem": remb.to_string(), "prefix": prefix, "nev": evb.len()}));
                        }
                    }
                    o.insert("run".into(), json!({"ev": ev.join(" "), "out": out, "need": need.to_string(), "repeat_same": repeat_same, "budgets": budgets}));
                }
            }
        }
        res.insert(cfg.to_string(), J::Object(o));
    }
    let mut traced = J::Null;
    if dynamic {
        let t = traced_module(&case.module);
        let tb = guarded(|| t.encode());
        traced = match tb {
            Err(p) => json!({"PANIC": p}),
            Ok(tb) => match guarded(|| instantiate("plain", &tb)) {
                Err(p) => json!({"PANIC": p}),
                Ok(Err(e)) => json!({"rejected": e}),
                Ok(Ok(art)) => {
                    let (ev, out, _) = run_once(&art, &entry_name, &case.args, BIG);
                    json!({"ev": ev.join(" "), "out": out})
                }
            },
        };
    }
    println!("{}", json!({"id": id, "prog": line, "res": res, "traced": traced, "x": extra}));
}

fn watchdog() {
    std::thread::spawn(|| {
        let mut last = u64::MAX;
        let mut stale = 0;
        loop {
            std::thread::sleep(std::time::Duration::from_millis(500));
            let p = PROGRESS.load(Ordering::SeqCst);
            if p == last { stale += 1 } else { stale = 0; last = p }
            if stale >= 40 {
                println!("{}", json!({"HANG": 1}));
                std::process::exit(3);
            }
        }
    });
}

/// one small program per opcode: operands are constants, results are dropped
fn single_cases() -> Vec<(String, Case)> {
    let mut out = vec![];
    let i32t = Sig { params: vec![], result: None };
    let mk = |name: String, body: Vec<Op>, locals: Vec<VT>, mem: bool, extra_funcs: Vec<Func>, types: Vec<Sig>, table: Option<(u32, Vec<u32>)>, globals: Vec<(bool, VT, i64)>| -> (String, Case) {
        let mut m = Module::default();
        m.types = types;
        if mem { m.mem = Some((1, Some(3))); }
        m.globals = globals;
        let mut funcs = extra_funcs;
        funcs.push(Func { ty: 0, locals, body });
        let main = funcs.len() as u32 - 1;
        m.funcs = funcs;
        if let Some((n, fs)) = table { m.table = Some(n); m.elems.push((0, fs)); }
        (name, Case { module: m, entries: vec![main], args: vec![] })
    };
    let c32 = |v: i32| Op::I32Const(v);
    let c64 = |v: i64| Op::I64Const(v);
    let d = Op::Plain(0x1a);
    let e = Op::End;
    let base_types = vec![i32t.clone()];
    // numeric ops
    for b in 0x45u8..=0xc4 {
        let (ops, name): (Vec<Op>, String) = match b {
            0x45 => (vec![c32(5), Op::Plain(b), d.clone()], "i32.eqz".into()),
            0x46..=0x4f => (vec![c32(5), c32(7), Op::Plain(b), d.clone()], format!("i32.rel{:02x}", b)),
            0x50 => (vec![c64(5), Op::Plain(b), d.clone()], "i64.eqz".into()),
            0x51..=0x5a => (vec![c64(5), c64(7), Op::Plain(b), d.clone()], format!("i64.rel{:02x}", b)),
            0x67..=0x69 => (vec![c32(5), Op::Plain(b), d.clone()], format!("i32.un{:02x}", b)),
            0x6a..=0x78 => (vec![c32(50), c32(7), Op::Plain(b), d.clone()], format!("i32.bin{:02x}", b)),
            0x79..=0x7b => (vec![c64(5), Op::Plain(b), d.clone()], format!("i64.un{:02x}", b)),
            0x7c..=0x8a => (vec![c64(50), c64(7), Op::Plain(b), d.clone()], format!("i64.bin{:02x}", b)),
            0xa7 => (vec![c64(5), Op::Plain(b), d.clone()], "i32.wrap".into()),
            0xac | 0xad => (vec![c32(5), Op::Plain(b), d.clone()], format!("i64.extend{:02x}", b)),
            0xc0 | 0xc1 => (vec![c32(5), Op::Plain(b), d.clone()], format!("i32.ext{:02x}", b)),
            0xc2..=0xc4 => (vec![c64(5), Op::Plain(b), d.clone()], format!("i64.ext{:02x}", b)),
            _ => continue,
        };
        let mut body = ops; body.push(e.clone());
        out.push(mk(name, body, vec![], false, vec![], base_types.clone(), None, vec![]));
    }
    // memory ops
    for b in 0x28u8..=0x35 {
        if b == 0x2a || b == 0x2b { continue; }
        out.push(mk(format!("load{:02x}", b), vec![c32(16), Op::Mem(b, 4, 0), d.clone(), e.clone()], vec![], true, vec![], base_types.clone(), None, vec![]));
    }
    for b in 0x36u8..=0x3e {
        if b == 0x38 || b == 0x39 { continue; }
        let v = if b == 0x36 || b == 0x3a || b == 0x3b { c32(9) } else { c64(9) };
        out.push(mk(format!("store{:02x}", b), vec![c32(16), v, Op::Mem(b, 4, 0), e.clone()], vec![], true, vec![], base_types.clone(), None, vec![]));
    }
    out.push(mk("memory.size".into(), vec![Op::Plain(0x3f), d.clone(), e.clone()], vec![], true, vec![], base_types.clone(), None, vec![]));
    for n in [0, 1, 2, 5] {
        out.push(mk(format!("memory.grow{}", n), vec![c32(n), Op::Plain(0x40), d.clone(), e.clone()], vec![], true, vec![], base_types.clone(), None, vec![]));
    }
    // parametric / variable
    out.push(mk("nop".into(), vec![Op::Plain(0x01), e.clone()], vec![], false, vec![], base_types.clone(), None, vec![]));
    out.push(mk("unreachable".into(), vec![Op::Plain(0x00), e.clone()], vec![], false, vec![], base_types.clone(), None, vec![]));
    out.push(mk("drop".into(), vec![c32(1), d.clone(), e.clone()], vec![], false, vec![], base_types.clone(), None, vec![]));
    out.push(mk("select".into(), vec![c32(1), c32(2), c32(0), Op::Plain(0x1b), d.clone(), e.clone()], vec![], false, vec![], base_types.clone(), None, vec![]));
    out.push(mk("local.get".into(), vec![Op::LocalGet(0), d.clone(), e.clone()], vec![VT::I32], false, vec![], base_types.clone(), None, vec![]));
    out.push(mk("local.set".into(), vec![c32(3), Op::LocalSet(0), e.clone()], vec![VT::I32], false, vec![], base_types.clone(), None, vec![]));
    out.push(mk("local.tee".into(), vec![c32(3), Op::LocalTee(0), d.clone(), e.clone()], vec![VT::I32], false, vec![], base_types.clone(), None, vec![]));
    for nl in [0usize, 1, 15, 16, 17, 33] {
        out.push(mk(format!("locals{}", nl), vec![Op::Plain(0x01), e.clone()], vec![VT::I64; nl], false, vec![], base_types.clone(), None, vec![]));
    }
    out.push(mk("global.get".into(), vec![Op::GlobalGet(0), d.clone(), e.clone()], vec![], false, vec![], base_types.clone(), None, vec![(true, VT::I32, 4)]));
    out.push(mk("global.set".into(), vec![c32(3), Op::GlobalSet(0), e.clone()], vec![], false, vec![], base_types.clone(), None, vec![(true, VT::I32, 4)]));
    // control
    for bt in [None, Some(VT::I32)] {
        let v: Vec<Op> = if bt.is_some() { vec![c32(1)] } else { vec![] };
        let dd: Vec<Op> = if bt.is_some() { vec![d.clone()] } else { vec![] };
        let mut b = vec![Op::Block(bt)]; b.extend(v.clone()); b.push(e.clone()); b.extend(dd.clone()); b.push(e.clone());
        out.push(mk(format!("block{:?}", bt), b, vec![], false, vec![], base_types.clone(), None, vec![]));
        let mut b = vec![Op::Loop(bt)]; b.extend(v.clone()); b.push(e.clone()); b.extend(dd.clone()); b.push(e.clone());
        out.push(mk(format!("loop{:?}", bt), b, vec![], false, vec![], base_types.clone(), None, vec![]));
        for c in [0, 1] {
            let mut b = vec![c32(c), Op::If(bt)]; b.extend(v.clone()); b.push(Op::Else); b.extend(v.clone()); b.push(Op::Plain(0x01)); b.push(e.clone()); b.extend(dd.clone()); b.push(e.clone());
            out.push(mk(format!("if{:?}-{}", bt, c), b, vec![], false, vec![], base_types.clone(), None, vec![]));
            let mut b = vec![Op::Block(bt)]; b.extend(v.clone()); b.push(c32(c)); b.push(Op::BrIf(0)); b.push(e.clone()); b.extend(dd.clone()); b.push(e.clone());
            out.push(mk(format!("br_if{:?}-{}", bt, c), b, vec![], false, vec![], base_types.clone(), None, vec![]));
            let mut b = vec![Op::Block(bt)]; b.extend(v.clone()); b.push(c32(c)); b.push(Op::BrTable(vec![0], 0)); b.push(e.clone()); b.extend(dd.clone()); b.push(e.clone());
            out.push(mk(format!("br_table{:?}-{}", bt, c), b, vec![], false, vec![], base_types.clone(), None, vec![]));
        }
        let mut b = vec![Op::Block(bt)]; b.extend(v.clone()); b.push(Op::Br(0)); b.push(e.clone()); b.extend(dd.clone()); b.push(e.clone());
        out.push(mk(format!("br{:?}", bt), b, vec![], false, vec![], base_types.clone(), None, vec![]));
    }
    out.push(mk("return".into(), vec![Op::Plain(0x0f), e.clone()], vec![], false, vec![], base_types.clone(), None, vec![]));
    // br_if to the function label (arity 0) and nested deeper
    out.push(mk("br_if-func".into(), vec![c32(1), Op::BrIf(0), Op::Plain(0x01), e.clone()], vec![], false, vec![], base_types.clone(), None, vec![]));
    out.push(mk("br_if-outer".into(), vec![Op::Block(None), Op::Block(None), c32(1), Op::BrIf(1), Op::Plain(0x01), e.clone(), Op::Plain(0x01), e.clone(), e.clone()], vec![], false, vec![], base_types.clone(), None, vec![]));
    // calls with different arities
    for (np, res) in [(0usize, false), (1, false), (2, true), (3, true), (12, true)] {
        let callee_sig = Sig { params: vec![VT::I32; np], result: if res { Some(VT::I32) } else { None } };
        let types = vec![i32t.clone(), callee_sig];
        let callee = Func { ty: 1, locals: vec![VT::I32; np % 3], body: if res { vec![c32(7), e.clone()] } else { vec![e.clone()] } };
        let mut b: Vec<Op> = (0..np).map(|i| c32(i as i32)).collect();
        b.push(Op::Call(0)); if res { b.push(d.clone()); } b.push(e.clone());
        out.push(mk(format!("call{}-{}", np, res), b, vec![], false, vec![callee.clone()], types.clone(), None, vec![]));
        let mut b: Vec<Op> = (0..np).map(|i| c32(i as i32)).collect();
        b.push(c32(0)); b.push(Op::CallIndirect(1)); if res { b.push(d.clone()); } b.push(e.clone());
        out.push(mk(format!("call_indirect{}-{}", np, res), b, vec![], false, vec![callee], types, Some((2, vec![0])), vec![]));
    }
    out
}

fn main() {
    quiet_panics();
    let a: Vec<String> = std::env::args().collect();
    let mode = a.get(1).map(|s| s.as_str()).unwrap_or("gen");
    watchdog();
    match mode {
        "gen" | "static" => {
            let seed: u64 = a[2].parse().unwrap();
            let n: u64 = a[3].parse().unwrap();
            let start: u64 = a.get(4).map(|s| s.parse().unwrap()).unwrap_or(0);
            let clean = mode == "gen";
            let mut st = gen::Stats::default();
            for i in start..n {
                let mut r = Rng::new(seed.wrapping_mul(1_000_003).wrapping_add(i).wrapping_add(if clean { 0 } else { 0x5151_0000 }));
                let (case, k) = gen::gen_case(&mut r, &mut st, clean);
                process(&format!("{}{}-{}", if clean { "g" } else { "s" }, seed, i), &case, json!({"f1": k.allow_f1, "f2": k.allow_f2, "f3": k.allow_f3}), clean);
            }
            println!("{}", json!({"stats": st.0}));
        }
        "single" => {
            for (name, case) in single_cases() {
                process(&format!("single:{}", name), &case, json!({}), true);
            }
        }
        "spin" => {
            // programs that never terminate by themselves: under a finite budget they must stop with
            // out-of-energy after at most `budget` ticks (every cycle passes a tick >= 1)
            let budget: u64 = a.get(2).map(|s| s.parse().unwrap()).unwrap_or(20_000);
            let t0 = Sig { params: vec![], result: None };
            let bodies: Vec<(&str, Vec<Op>)> = vec![
                ("loop-br", vec![Op::Loop(None), Op::Br(0), Op::End, Op::End]),
                ("loop-br_if", vec![Op::Loop(None), Op::I32Const(1), Op::BrIf(0), Op::End, Op::End]),
                ("loop-br_table", vec![Op::Loop(None), Op::I32Const(7), Op::BrTable(vec![0], 0), Op::End, Op::End]),
                ("loop-block-br", vec![Op::Loop(None), Op::Block(None), Op::Br(1), Op::End, Op::End, Op::End]),
                ("loop-if-br", vec![Op::Loop(None), Op::I32Const(1), Op::If(None), Op::Br(1), Op::End, Op::End, Op::End]),
                ("loop-locals", vec![Op::Loop(None), Op::I32Const(1), Op::LocalSet(0), Op::LocalGet(0), Op::Plain(0x1a), Op::Br(0), Op::End, Op::End]),
                ("recursion", vec![Op::Call(0), Op::End]),
                ("recursion-indirect", vec![Op::I32Const(0), Op::CallIndirect(0), Op::End]),
            ];
            for (name, body) in bodies {
                let mut m = Module::default();
                m.types = vec![t0.clone()];
                m.funcs = vec![Func { ty: 0, locals: vec![VT::I32], body }];
                if name == "recursion-indirect" { m.table = Some(1); m.elems.push((0, vec![0])); }
                let case = Case { module: m, entries: vec![0], args: vec![] };
                let bytes = case.module.encode();
                for cfg in ["m0", "m1"].iter() {
                    println!("{}", json!({"START": name, "cfg": cfg, "prog": case.to_line()}));
                    match guarded(|| instantiate(cfg, &bytes)) {
                        Ok(Ok(art)) => {
                            let (ev, out, rem) = run_once(&art, "f0", &[], budget);
                            let ticks = ev.iter().filter(|e| e.starts_with('t')).count();
                            println!("{}", json!({"spin": name, "cfg": cfg, "prog": case.to_line(), "out": out, "rem": rem.to_string(), "nev": ev.len(), "ticks": ticks, "budget": budget.to_string()}));
                        }
                        other => println!("{}", json!({"spin": name, "cfg": cfg, "prog": case.to_line(), "out": format!("not instantiated: {:?}", other.map(|r| r.map(|_| ()))), "nev": 0, "ticks": 0, "budget": budget.to_string()})),
                    }
                }
            }
        }
        "run" => {
            use std::io::BufRead;
            let stdin = std::io::stdin();
            for (i, l) in stdin.lock().lines().enumerate() {
                let l = l.unwrap();
                let l = l.trim();
                if l.is_empty() || l.starts_with('#') { continue; }
                match Case::from_line(l) {
                    Some(c) => process(&format!("in{}", i), &c, json!({}), true),
                    None => println!("{}", json!({"id": format!("in{}", i), "parse_error": 1})),
                }
            }
        }
        _ => eprintln!("unknown mode"),
    }
}
