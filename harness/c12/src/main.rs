//! C12 harness: chunking correspondence cases and direct oracles on encrypted transfers.
#![allow(deprecated)]
use concordium_base::{
    common::types::Amount,
    curve_arithmetic::arkworks_instances::ArkGroup,
    elgamal::{BabyStepGiantStep, ChunkSize, PublicKey, SecretKey},
    encrypted_transfers::{self as et, types::*},
    id::types::GlobalContext,
};
use hlib::{guarded, quiet_panics, Rng};
use rand::{rngs::StdRng, SeedableRng};
use serde_json::json;

type G1 = ArkGroup<ark_bls12_381::G1Projective>;

fn size_of(s: u64) -> ChunkSize {
    match s { 1 => ChunkSize::One, 2 => ChunkSize::Two, 4 => ChunkSize::Four, 8 => ChunkSize::Eight,
        16 => ChunkSize::Sixteen, 32 => ChunkSize::ThirtyTwo, _ => ChunkSize::SixtyFour }
}
const SIZES: [u64; 7] = [1, 2, 4, 8, 16, 32, 64];

fn chunks(seed: u64, n: u64) {
    let mut r = Rng::new(seed);
    // mask of every size first
    for &s in SIZES.iter() {
        println!("{}", json!({"k":"mask","s":s,"r":size_of(s).mask().to_string()}));
    }
    for i in 0..n {
        let s = SIZES[(i % 7) as usize];
        let x = r.u64_edge();
        let res = guarded(|| size_of(s).u64_to_chunks(x));
        let rj = match &res { Ok(v) => json!(v.iter().map(|c| c.to_string()).collect::<Vec<_>>()), Err(_) => json!("PANIC") };
        println!("{}", json!({"k":"to","s":s,"x":x.to_string(),"r":rj}));
        // chunks -> u64: well-formed chunk lists (from the encoder) and hostile ones
        let xs: Vec<u64> = match r.below(4) {
            0 | 1 => match &res { Ok(v) => v.clone(), Err(_) => vec![x] },
            2 => { let len = r.below(70); (0..len).map(|_| r.u64_edge() & size_of(s).mask()).collect() }
            _ => { let len = r.below(6); (0..len).map(|_| r.u64_edge()).collect() }
        };
        let back = guarded(|| size_of(s).chunks_to_u64(xs.iter().copied()));
        let bj = match &back { Ok(v) => json!(v.to_string()), Err(_) => json!("PANIC") };
        println!("{}", json!({"k":"from","s":s,"xs":xs.iter().map(|c| c.to_string()).collect::<Vec<_>>(),"r":bj}));
    }
}

fn ser<T: concordium_base::common::Serial>(x: &T) -> Vec<u8> { concordium_base::common::to_bytes(x) }

/// A copy of `x` with one bit flipped that still deserialises and differs from `x` (None if 40 tries fail).
fn flip_still_parses<T: concordium_base::common::Serial + concordium_base::common::Deserial>(x: &T, r: &mut Rng) -> Option<T> {
    let b = ser(x);
    for _ in 0..40 {
        let mut b2 = b.clone();
        let pos = r.below(b.len() as u64) as usize;
        b2[pos] ^= 1 << r.below(8);
        let mut cur = std::io::Cursor::new(&b2);
        if let Ok(y) = concordium_base::common::from_bytes::<T, _>(&mut cur) {
            if cur.position() as usize == b2.len() && ser(&y) != b { return Some(y); }
        }
    }
    None
}

fn oracle(seed: u64, n: u64) {
    let mut r = Rng::new(seed);
    let mut csprng = StdRng::seed_from_u64(seed);
    let context = GlobalContext::<G1>::generate(String::from("verif-c12"));
    let table = BabyStepGiantStep::new(context.encryption_in_exponent_generator(), 1 << 16);
    for i in 0..n {
        let sk = SecretKey::generate(context.elgamal_generator(), &mut csprng);
        let pk = PublicKey::from(&sk);
        let sk2 = SecretKey::generate(context.elgamal_generator(), &mut csprng);
        let pk2 = PublicKey::from(&sk2);
        // 1. encrypt/decrypt round trip
        let a = r.u64_edge();
        let (enc, _) = et::encrypt_amount(&context, &pk, Amount::from_micro_ccd(a), &mut csprng);
        let dec = et::decrypt_amount(&table, &sk, &enc).micro_ccd();
        println!("{}", json!({"k":"encdec","a":a.to_string(),"dec":dec.to_string(),"ok":dec==a}));
        // 2. aggregation: chunk sums below 2^32 + 2^32 stay in the table range (BSGS handles up to ~2^33 quickly)
        let b = r.u64_edge();
        let (encb, _) = et::encrypt_amount(&context, &pk, Amount::from_micro_ccd(b), &mut csprng);
        let agg = et::aggregate(&enc, &encb);
        let lo = sk.decrypt_exponent(&agg.encryptions[0], &table);
        let hi = sk.decrypt_exponent(&agg.encryptions[1], &table);
        let want_lo = (a & 0xffff_ffff) + (b & 0xffff_ffff);
        let want_hi = (a >> 32) + (b >> 32);
        println!("{}", json!({"k":"agg","a":a.to_string(),"b":b.to_string(),"lo":lo.to_string(),"hi":hi.to_string(),
            "ok": lo==want_lo && hi==want_hi}));
        // 3. transfers
        let bal = match i % 4 { 0 => r.u64_edge(), 1 => 0, 2 => u64::MAX, _ => r.next() };
        let amt = match r.below(6) { 0 => bal, 1 => 0, 2 => bal.wrapping_add(1), 3 => bal / 2, 4 => bal.saturating_sub(1), _ => r.u64_edge() };
        let enc_bal = et::encrypt_amount_with_fixed_randomness(&context, Amount::from_micro_ccd(bal));
        let input = AggregatedDecryptedAmount { agg_encrypted_amount: enc_bal.clone(), agg_amount: Amount::from_micro_ccd(bal),
            agg_index: EncryptedAmountAggIndex::from(r.below(1000)) };
        let td = guarded(|| et::make_transfer_data(&context, &pk2, &sk, &input, Amount::from_micro_ccd(amt), &mut csprng));
        match td {
            Err(e) => println!("{}", json!({"k":"transfer","bal":bal.to_string(),"amt":amt.to_string(),"ok":false,"why":format!("PANIC {}", e)})),
            Ok(None) => println!("{}", json!({"k":"transfer","bal":bal.to_string(),"amt":amt.to_string(),"made":false,"ok": amt > bal})),
            Ok(Some(td)) => {
                let ver = et::verify_transfer_data(&context, &pk2, &pk, &enc_bal, &td);
                let rem = et::decrypt_amount(&table, &sk, &td.remaining_amount).micro_ccd();
                let tr = et::decrypt_amount(&table, &sk2, &td.transfer_amount).micro_ccd();
                let cons = amt <= bal && tr == amt && rem == bal - amt;
                // perturbations: each must be rejected
                use concordium_base::curve_arithmetic::Curve as _;
                let bump = *context.elgamal_generator();
                let vt = |rpk: &PublicKey<G1>, spk: &PublicKey<G1>, before: &EncryptedAmount<G1>, t: &EncryptedAmountTransferData<G1>| -> bool {
                    guarded(|| et::verify_transfer_data(&context, rpk, spk, before, t)).unwrap_or(false) };
                let mut rejected: Vec<(String, bool)> = Vec::new();
                let mut t2 = td.clone(); t2.index = EncryptedAmountAggIndex::from(td.index.index + 1);
                rejected.push(("index".into(), !vt(&pk2, &pk, &enc_bal, &t2)));
                let mut t3 = td.clone(); t3.remaining_amount = td.transfer_amount.clone();
                rejected.push(("remaining".into(), !vt(&pk2, &pk, &enc_bal, &t3)));
                let mut t4 = td.clone(); t4.transfer_amount = td.remaining_amount.clone();
                rejected.push(("transfer".into(), !vt(&pk2, &pk, &enc_bal, &t4)));
                rejected.push(("receiver_pk".into(), !vt(&pk, &pk, &enc_bal, &td)));
                rejected.push(("sender_pk".into(), !vt(&pk2, &pk2, &enc_bal, &td)));
                // every component of every key separately (generator only, key element only)
                rejected.push(("receiver_pk.generator".into(), !vt(&PublicKey { generator: pk2.generator.plus_point(&bump), key: pk2.key }, &pk, &enc_bal, &td)));
                rejected.push(("receiver_pk.key".into(), !vt(&PublicKey { generator: pk2.generator, key: pk2.key.plus_point(&bump) }, &pk, &enc_bal, &td)));
                rejected.push(("sender_pk.generator".into(), !vt(&pk2, &PublicKey { generator: pk.generator.plus_point(&bump), key: pk.key }, &enc_bal, &td)));
                rejected.push(("sender_pk.key".into(), !vt(&pk2, &PublicKey { generator: pk.generator, key: pk.key.plus_point(&bump) }, &enc_bal, &td)));
                let other = et::encrypt_amount_with_fixed_randomness(&context, Amount::from_micro_ccd(bal.wrapping_add(1)));
                rejected.push(("before_amount".into(), !vt(&pk2, &pk, &other, &td)));
                // every component of every ciphertext separately
                for c in 0..2usize { for half in 0..2usize {
                    let tweak = |e: &EncryptedAmount<G1>| -> EncryptedAmount<G1> { let mut e = e.clone();
                        if half == 0 { e.encryptions[c].0 = e.encryptions[c].0.plus_point(&bump) } else { e.encryptions[c].1 = e.encryptions[c].1.plus_point(&bump) }; e };
                    let mut t = td.clone(); t.remaining_amount = tweak(&td.remaining_amount);
                    rejected.push((format!("remaining[{}].{}", c, half), !vt(&pk2, &pk, &enc_bal, &t)));
                    let mut t = td.clone(); t.transfer_amount = tweak(&td.transfer_amount);
                    rejected.push((format!("transfer[{}].{}", c, half), !vt(&pk2, &pk, &enc_bal, &t)));
                    rejected.push((format!("before[{}].{}", c, half), !vt(&pk2, &pk, &tweak(&enc_bal), &td)));
                }}
                // every proof component: (a) taken from ANOTHER valid transfer (same keys and balance), (b) bit-flipped copy that still deserialises
                let amt2 = if amt == bal { bal / 2 } else { bal };
                if let Ok(Some(od)) = guarded(|| et::make_transfer_data(&context, &pk2, &sk, &input, Amount::from_micro_ccd(amt2), &mut csprng)) {
                    if vt(&pk2, &pk, &enc_bal, &od) {
                        let mut t = td.clone(); t.proof.accounting = od.proof.accounting.clone();
                        rejected.push(("proof.accounting<-other".into(), !vt(&pk2, &pk, &enc_bal, &t)));
                        let mut t = td.clone(); t.proof.transfer_amount_correct_encryption = od.proof.transfer_amount_correct_encryption.clone();
                        rejected.push(("proof.transfer_range<-other".into(), !vt(&pk2, &pk, &enc_bal, &t)));
                        let mut t = td.clone(); t.proof.remaining_amount_correct_encryption = od.proof.remaining_amount_correct_encryption.clone();
                        rejected.push(("proof.remaining_range<-other".into(), !vt(&pk2, &pk, &enc_bal, &t)));
                    } else { rejected.push(("second-transfer-verifies".into(), false)); }
                }
                {
                    let mut t = td.clone();
                    if let Some(p) = flip_still_parses(&td.proof.accounting, &mut r) { t.proof.accounting = p;
                        rejected.push(("proof.accounting^bit".into(), !vt(&pk2, &pk, &enc_bal, &t))); }
                    let mut t = td.clone();
                    if let Some(p) = flip_still_parses(&td.proof.transfer_amount_correct_encryption, &mut r) { t.proof.transfer_amount_correct_encryption = p;
                        rejected.push(("proof.transfer_range^bit".into(), !vt(&pk2, &pk, &enc_bal, &t))); }
                    let mut t = td.clone();
                    if let Some(p) = flip_still_parses(&td.proof.remaining_amount_correct_encryption, &mut r) { t.proof.remaining_amount_correct_encryption = p;
                        rejected.push(("proof.remaining_range^bit".into(), !vt(&pk2, &pk, &enc_bal, &t))); }
                }
                // proof bytes: flip one byte, must fail to parse or be rejected
                let pb = ser(&td.proof);
                let pos = r.below(pb.len() as u64) as usize;
                let mut pb2 = pb.clone(); pb2[pos] ^= 1 << r.below(8);
                let rej = match concordium_base::common::from_bytes::<EncryptedAmountTransferProof<G1>, _>(&mut std::io::Cursor::new(&pb2)) {
                    Ok(p) => { let mut t5 = td.clone(); t5.proof = p; !vt(&pk2, &pk, &enc_bal, &t5) }
                    Err(_) => true };
                rejected.push(("proof_byte".into(), rej));
                let all_rej = rejected.iter().all(|x| x.1);
                println!("{}", json!({"k":"transfer","bal":bal.to_string(),"amt":amt.to_string(),"made":true,"verifies":ver,
                    "rem":rem.to_string(),"tr":tr.to_string(),"rejected":rejected.iter().map(|(a,b)| json!([a,b])).collect::<Vec<_>>(),
                    "ok": ver && cons && all_rej}));
            }
        }
        // 4. secret to public
        let sd = guarded(|| et::make_sec_to_pub_transfer_data(&context, &sk, &input, Amount::from_micro_ccd(amt), &mut csprng));
        match sd {
            Err(e) => println!("{}", json!({"k":"sec2pub","bal":bal.to_string(),"amt":amt.to_string(),"ok":false,"why":format!("PANIC {}", e)})),
            Ok(None) => println!("{}", json!({"k":"sec2pub","bal":bal.to_string(),"amt":amt.to_string(),"made":false,"ok": amt > bal})),
            Ok(Some(sd)) => {
                let ver = et::verify_sec_to_pub_transfer_data(&context, &pk, &enc_bal, &sd);
                let rem = et::decrypt_amount(&table, &sk, &sd.remaining_amount).micro_ccd();
                let cons = amt <= bal && sd.transfer_amount.micro_ccd() == amt && rem == bal - amt;
                use concordium_base::curve_arithmetic::Curve as _;
                let bump = *context.elgamal_generator();
                let vs = |k: &PublicKey<G1>, before: &EncryptedAmount<G1>, t: &SecToPubAmountTransferData<G1>| -> bool {
                    guarded(|| et::verify_sec_to_pub_transfer_data(&context, k, before, t)).unwrap_or(false) };
                let mut rejected: Vec<(String, bool)> = Vec::new();
                let mut s2 = sd.clone(); s2.transfer_amount = Amount::from_micro_ccd(amt.wrapping_add(1));
                rejected.push(("amount".into(), !vs(&pk, &enc_bal, &s2)));
                let mut s3 = sd.clone(); s3.index = EncryptedAmountAggIndex::from(sd.index.index + 1);
                rejected.push(("index".into(), !vs(&pk, &enc_bal, &s3)));
                rejected.push(("pk".into(), !vs(&pk2, &enc_bal, &sd)));
                rejected.push(("pk.generator".into(), !vs(&PublicKey { generator: pk.generator.plus_point(&bump), key: pk.key }, &enc_bal, &sd)));
                rejected.push(("pk.key".into(), !vs(&PublicKey { generator: pk.generator, key: pk.key.plus_point(&bump) }, &enc_bal, &sd)));
                for c in 0..2usize { for half in 0..2usize {
                    let tweak = |e: &EncryptedAmount<G1>| -> EncryptedAmount<G1> { let mut e = e.clone();
                        if half == 0 { e.encryptions[c].0 = e.encryptions[c].0.plus_point(&bump) } else { e.encryptions[c].1 = e.encryptions[c].1.plus_point(&bump) }; e };
                    let mut t = sd.clone(); t.remaining_amount = tweak(&sd.remaining_amount);
                    rejected.push((format!("remaining[{}].{}", c, half), !vs(&pk, &enc_bal, &t)));
                    rejected.push((format!("before[{}].{}", c, half), !vs(&pk, &tweak(&enc_bal), &sd)));
                }}
                let amt2 = if amt == bal { bal / 2 } else { bal };
                if let Ok(Some(od)) = guarded(|| et::make_sec_to_pub_transfer_data(&context, &sk, &input, Amount::from_micro_ccd(amt2), &mut csprng)) {
                    if vs(&pk, &enc_bal, &od) {
                        let mut t = sd.clone(); t.proof.accounting = od.proof.accounting.clone();
                        rejected.push(("proof.accounting<-other".into(), !vs(&pk, &enc_bal, &t)));
                        let mut t = sd.clone(); t.proof.remaining_amount_correct_encryption = od.proof.remaining_amount_correct_encryption.clone();
                        rejected.push(("proof.remaining_range<-other".into(), !vs(&pk, &enc_bal, &t)));
                    } else { rejected.push(("second-transfer-verifies".into(), false)); }
                }
                let mut t = sd.clone();
                if let Some(p) = flip_still_parses(&sd.proof.accounting, &mut r) { t.proof.accounting = p;
                    rejected.push(("proof.accounting^bit".into(), !vs(&pk, &enc_bal, &t))); }
                let mut t = sd.clone();
                if let Some(p) = flip_still_parses(&sd.proof.remaining_amount_correct_encryption, &mut r) { t.proof.remaining_amount_correct_encryption = p;
                    rejected.push(("proof.remaining_range^bit".into(), !vs(&pk, &enc_bal, &t))); }
                let all_rej = rejected.iter().all(|x| x.1);
                println!("{}", json!({"k":"sec2pub","bal":bal.to_string(),"amt":amt.to_string(),"made":true,"verifies":ver,
                    "rem":rem.to_string(),"rejected":rejected.iter().map(|(a,b)| json!([a,b])).collect::<Vec<_>>(),"ok": ver && cons && all_rej}));
            }
        }
    }
}


mod attack {
    //! Crafted-prover attacks on transfer verification ("any alteration of ... proof fails verification"
    //! must also hold for proofs no honest prover produces).  `Truncated` hashes the public data of the
    //! full statement but commits/responds for a statement with one chunk left out: a verifier that
    //! does not check that the response has one component per chunk accepts it.
    #![allow(non_snake_case)]
    use super::*;
    use concordium_base::{
        bulletproofs::range_proof::prove_given_scalars as bulletprove,
        curve_arithmetic::{Curve, Value},
        encrypted_transfers::proofs::*,
        id::id_proof_types::ProofVersion,
        pedersen_commitment::{CommitmentKey, Randomness as PedersenRandomness},
        random_oracle::{RandomOracle, TranscriptProtocol, Challenge},
        sigma_protocols::{com_eq::ComEqSecret, common::*, enc_trans::*},
        elgamal::Randomness,
    };
    use std::rc::Rc;

    struct Truncated<C: Curve> { full: EncTrans<C>, cut: EncTrans<C> }
    impl<C: Curve> SigmaProtocol for Truncated<C> {
        type CommitMessage = <EncTrans<C> as SigmaProtocol>::CommitMessage;
        type ProtocolChallenge = <EncTrans<C> as SigmaProtocol>::ProtocolChallenge;
        type ProverState = <EncTrans<C> as SigmaProtocol>::ProverState;
        type Response = <EncTrans<C> as SigmaProtocol>::Response;
        type SecretData = <EncTrans<C> as SigmaProtocol>::SecretData;
        fn public(&self, ro: &mut impl TranscriptProtocol) { self.full.public(ro) }
        fn compute_commit_message<R: rand::Rng>(&self, csprng: &mut R) -> Option<(Self::CommitMessage, Self::ProverState)> {
            self.cut.compute_commit_message(csprng)
        }
        fn get_challenge(&self, challenge: &Challenge) -> Self::ProtocolChallenge { self.cut.get_challenge(challenge) }
        fn compute_response(&self, secret: Self::SecretData, state: Self::ProverState, challenge: &Self::ProtocolChallenge) -> Option<Self::Response> {
            self.cut.compute_response(secret, state, challenge)
        }
        fn extract_commit_message(&self, challenge: &Self::ProtocolChallenge, response: &Self::Response) -> Option<Self::CommitMessage> {
            self.cut.extract_commit_message(challenge, response)
        }
        #[cfg(test)]
        fn with_valid_data<R: rand::Rng>(_: usize, _: &mut R, _: impl FnOnce(Self, Self::SecretData, &mut R)) { unimplemented!() }
    }

    /// Returns Some(accepted) for a forged transfer; None if the forgery could not even be built.
    pub fn truncated_forgery(seed: u64, cut_transfer: bool) -> Option<bool> {
        let mut csprng = StdRng::seed_from_u64(seed);
        let context = GlobalContext::<G1>::generate_size(String::from("verif-c12"), 64);
        let h = context.encryption_in_exponent_generator();
        let gens = context.bulletproof_generators().take(64);
        let sk_sender: SecretKey<G1> = SecretKey::generate(context.elgamal_generator(), &mut csprng);
        let pk_sender = PublicKey::from(&sk_sender);
        let sk_receiver: SecretKey<G1> = SecretKey::generate(context.elgamal_generator(), &mut csprng);
        let pk_receiver = PublicKey::from(&sk_receiver);
        let balance = 5u64;
        let (enc_balance, _) = et::encrypt_amount(&context, &pk_sender, Amount::from_micro_ccd(balance), &mut csprng);
        let S = enc_balance.join();
        // value out of thin air in the high chunk of either the transferred or the remaining amount
        let (a_chunks, s_prime_chunks) = if cut_transfer { ([balance, 1000u64], [0u64, 0u64]) } else { ([0u64, 0u64], [balance, 1000u64]) };
        let (A, A_rand): (Vec<_>, Vec<_>) = a_chunks.iter().map(|&x| pk_receiver.encrypt_exponent_rand_given_generator(&Value::<G1>::from(x), h, &mut csprng)).unzip();
        let (S_prime, S_prime_rand): (Vec<_>, Vec<_>) = s_prime_chunks.iter().map(|&x| pk_sender.encrypt_exponent_rand_given_generator(&Value::<G1>::from(x), h, &mut csprng)).unzip();
        let mut ro = RandomOracle::domain("EncryptedTransfer");
        ro.append_message(b"ctx", &&context);
        ro.append_message(b"receiver_pk", &&pk_receiver);
        ro.append_message(b"sender_pk", &&pk_sender);
        let full = gen_enc_trans_proof_info(&pk_sender, &pk_receiver, &S, &A, &S_prime, h);
        let cut = if cut_transfer { gen_enc_trans_proof_info(&pk_sender, &pk_receiver, &S, &A[..1], &S_prime, h) }
                  else { gen_enc_trans_proof_info(&pk_sender, &pk_receiver, &S, &A, &S_prime[..1], h) };
        let mk = |xs: &[u64], rs: &[Randomness<G1>]| -> Vec<ComEqSecret<G1>> {
            xs.iter().zip(rs.iter()).map(|(x, r)| ComEqSecret::<G1> { r: PedersenRandomness::from_u64(*x), a: r.to_value() }).collect()
        };
        let secret = EncTransSecret {
            dlog_secret: Rc::new(sk_sender.scalar),
            encexp1_secrets: if cut_transfer { mk(&a_chunks[..1], &A_rand[..1]) } else { mk(&a_chunks, &A_rand) },
            encexp2_secrets: if cut_transfer { mk(&s_prime_chunks, &S_prime_rand) } else { mk(&s_prime_chunks[..1], &S_prime_rand[..1]) },
        };
        let accounting = prove(&mut ro, &Truncated { full, cut }, secret, &mut csprng)?;
        let to_scalars = |xs: &[u64]| -> Vec<<G1 as Curve>::Scalar> { xs.iter().copied().map(G1::scalar_from_u64).collect() };
        let to_pedrand = |rs: &[Randomness<G1>]| -> Vec<PedersenRandomness<G1>> { rs.iter().map(|x| PedersenRandomness::from_value(&x.to_value())).collect() };
        let bp_a = bulletprove(ProofVersion::Version1, &mut ro, &mut csprng, 32, 2, &to_scalars(&a_chunks), &gens,
            &CommitmentKey { g: *h, h: pk_receiver.key }, &to_pedrand(&A_rand))?;
        let bp_s = bulletprove(ProofVersion::Version1, &mut ro, &mut csprng, 32, 2, &to_scalars(&s_prime_chunks), &gens,
            &CommitmentKey { g: *h, h: pk_sender.key }, &to_pedrand(&S_prime_rand))?;
        let forged = EncryptedAmountTransferData {
            remaining_amount: EncryptedAmount { encryptions: [S_prime[0], S_prime[1]] },
            transfer_amount: EncryptedAmount { encryptions: [A[0], A[1]] },
            index: 0u64.into(),
            proof: EncryptedAmountTransferProof { accounting, transfer_amount_correct_encryption: bp_a, remaining_amount_correct_encryption: bp_s },
        };
        Some(et::verify_transfer_data(&context, &pk_receiver, &pk_sender, &enc_balance, &forged))
    }

    /// Truncated-response forgery against secret-to-public transfers.  `cut_amount`: the sigma response omits
    /// the (single) chunk of the public amount, so a balance of 5 "pays out" 1_000_000 and keeps 5;
    /// otherwise it omits the high chunk of the remaining amount, which then holds 1000*2^32 out of thin air.
    pub fn truncated_forgery_sec_to_pub(seed: u64, cut_amount: bool) -> Option<bool> {
        use concordium_base::elgamal::Cipher;
        let mut csprng = StdRng::seed_from_u64(seed ^ 0x52b);
        let context = GlobalContext::<G1>::generate_size(String::from("verif-c12"), 64);
        let h = context.encryption_in_exponent_generator();
        let gens = context.bulletproof_generators().take(64);
        let sk: SecretKey<G1> = SecretKey::generate(context.elgamal_generator(), &mut csprng);
        let pk = PublicKey::from(&sk);
        let balance = 5u64;
        let (enc_balance, _) = et::encrypt_amount(&context, &pk, Amount::from_micro_ccd(balance), &mut csprng);
        let S = enc_balance.join();
        let (amount, s_prime_chunks) = if cut_amount { (1_000_000u64, [balance, 0u64]) } else { (0u64, [balance, 1000u64]) };
        let A = [Cipher(G1::zero_point(), h.mul_by_scalar(&G1::scalar_from_u64(amount)))];
        let (S_prime, S_prime_rand): (Vec<_>, Vec<_>) = s_prime_chunks.iter().map(|&x| pk.encrypt_exponent_rand_given_generator(&Value::<G1>::from(x), h, &mut csprng)).unzip();
        let mut ro = RandomOracle::domain("SecToPubTransfer");
        ro.append_message(b"ctx", &&context);
        ro.append_message(b"pk", &&pk);
        let full = gen_enc_trans_proof_info(&pk, &pk, &S, &A, &S_prime, h);
        let cut = if cut_amount { gen_enc_trans_proof_info(&pk, &pk, &S, &A[..0], &S_prime, h) }
                  else { gen_enc_trans_proof_info(&pk, &pk, &S, &A, &S_prime[..1], h) };
        let mk = |xs: &[u64], rs: &[Randomness<G1>]| -> Vec<ComEqSecret<G1>> {
            xs.iter().zip(rs.iter()).map(|(x, r)| ComEqSecret::<G1> { r: PedersenRandomness::from_u64(*x), a: r.to_value() }).collect()
        };
        let secret = EncTransSecret {
            dlog_secret: Rc::new(sk.scalar),
            encexp1_secrets: if cut_amount { vec![] } else { vec![ComEqSecret::<G1> { r: PedersenRandomness::from_u64(amount), a: Value::from(0u64) }] },
            encexp2_secrets: if cut_amount { mk(&s_prime_chunks, &S_prime_rand) } else { mk(&s_prime_chunks[..1], &S_prime_rand[..1]) },
        };
        let accounting = prove(&mut ro, &Truncated { full, cut }, secret, &mut csprng)?;
        let scalars: Vec<<G1 as Curve>::Scalar> = s_prime_chunks.iter().copied().map(G1::scalar_from_u64).collect();
        let pedrand: Vec<PedersenRandomness<G1>> = S_prime_rand.iter().map(|x| PedersenRandomness::from_value(&x.to_value())).collect();
        let bp_s = bulletprove(ProofVersion::Version1, &mut ro, &mut csprng, 32, 2, &scalars, &gens,
            &CommitmentKey { g: *h, h: pk.key }, &pedrand)?;
        let forged = SecToPubAmountTransferData {
            remaining_amount: EncryptedAmount { encryptions: [S_prime[0], S_prime[1]] },
            transfer_amount: Amount::from_micro_ccd(amount),
            index: 0u64.into(),
            proof: SecToPubAmountTransferProof { accounting, remaining_amount_correct_encryption: bp_s },
        };
        Some(et::verify_sec_to_pub_transfer_data(&context, &pk, &enc_balance, &forged))
    }

    /// Overspending forgery: balance 5, transfer 10.  The remaining amount is s' = 5 - 10 = -5 in the field
    /// (low chunk r - 5, far outside [0, 2^32)); the accounting sigma proof is HONEST for it (the relation
    /// S = a + s' holds in the exponent), the range proof on the transferred amount is honest, and the range
    /// proof on the remaining amount is necessarily bogus (a valid proof for [0, 0] with the same randomness).
    /// Only the remaining-amount range proof stands between this transfer and acceptance.
    pub fn overspend_forgery(seed: u64) -> Option<bool> {
        use concordium_base::curve_arithmetic::Field;
        let mut csprng = StdRng::seed_from_u64(seed ^ 0x0e5);
        let context = GlobalContext::<G1>::generate_size(String::from("verif-c12"), 64);
        let h = context.encryption_in_exponent_generator();
        let gens = context.bulletproof_generators().take(64);
        let sk_sender: SecretKey<G1> = SecretKey::generate(context.elgamal_generator(), &mut csprng);
        let pk_sender = PublicKey::from(&sk_sender);
        let sk_receiver: SecretKey<G1> = SecretKey::generate(context.elgamal_generator(), &mut csprng);
        let pk_receiver = PublicKey::from(&sk_receiver);
        let (enc_balance, _) = et::encrypt_amount(&context, &pk_sender, Amount::from_micro_ccd(5), &mut csprng);
        let S = enc_balance.join();
        let a_chunks = [10u64, 0u64];
        let mut minus5 = G1::scalar_from_u64(5); minus5.negate();
        let sp_scalars = [minus5, G1::scalar_from_u64(0)];
        let (A, A_rand): (Vec<_>, Vec<_>) = a_chunks.iter().map(|&x| pk_receiver.encrypt_exponent_rand_given_generator(&Value::<G1>::from(x), h, &mut csprng)).unzip();
        let (S_prime, S_prime_rand): (Vec<_>, Vec<_>) = sp_scalars.iter().map(|x| pk_sender.encrypt_exponent_rand_given_generator(&Value::<G1>::new(*x), h, &mut csprng)).unzip();
        let mut ro = RandomOracle::domain("EncryptedTransfer");
        ro.append_message(b"ctx", &&context);
        ro.append_message(b"receiver_pk", &&pk_receiver);
        ro.append_message(b"sender_pk", &&pk_sender);
        let protocol = gen_enc_trans_proof_info(&pk_sender, &pk_receiver, &S, &A, &S_prime, h);
        let secret = EncTransSecret {
            dlog_secret: Rc::new(sk_sender.scalar),
            encexp1_secrets: a_chunks.iter().zip(A_rand.iter()).map(|(x, r)| ComEqSecret::<G1> { r: PedersenRandomness::from_u64(*x), a: r.to_value() }).collect(),
            encexp2_secrets: sp_scalars.iter().zip(S_prime_rand.iter()).map(|(x, r)| ComEqSecret::<G1> { r: PedersenRandomness::new(*x), a: r.to_value() }).collect(),
        };
        let accounting = prove(&mut ro, &protocol, secret, &mut csprng)?;
        let to_pedrand = |rs: &[Randomness<G1>]| -> Vec<PedersenRandomness<G1>> { rs.iter().map(|x| PedersenRandomness::from_value(&x.to_value())).collect() };
        let a_sc: Vec<<G1 as Curve>::Scalar> = a_chunks.iter().copied().map(G1::scalar_from_u64).collect();
        let bp_a = bulletprove(ProofVersion::Version1, &mut ro, &mut csprng, 32, 2, &a_sc, &gens,
            &CommitmentKey { g: *h, h: pk_receiver.key }, &to_pedrand(&A_rand))?;
        let zeros: Vec<<G1 as Curve>::Scalar> = vec![G1::scalar_from_u64(0), G1::scalar_from_u64(0)];
        let bp_s = bulletprove(ProofVersion::Version1, &mut ro, &mut csprng, 32, 2, &zeros, &gens,
            &CommitmentKey { g: *h, h: pk_sender.key }, &to_pedrand(&S_prime_rand))?;
        let forged = EncryptedAmountTransferData {
            remaining_amount: EncryptedAmount { encryptions: [S_prime[0], S_prime[1]] },
            transfer_amount: EncryptedAmount { encryptions: [A[0], A[1]] },
            index: 0u64.into(),
            proof: EncryptedAmountTransferProof { accounting, transfer_amount_correct_encryption: bp_a, remaining_amount_correct_encryption: bp_s },
        };
        // sanity: the forgery is only stopped by the remaining range proof - the sigma proof alone verifies
        let mut ro2 = RandomOracle::domain("EncryptedTransfer");
        ro2.append_message(b"ctx", &&context);
        ro2.append_message(b"receiver_pk", &&pk_receiver);
        ro2.append_message(b"sender_pk", &&pk_sender);
        if !verify(&mut ro2, &protocol, &forged.proof.accounting) { return None; }
        Some(et::verify_transfer_data(&context, &pk_receiver, &pk_sender, &enc_balance, &forged))
    }
}

fn attacks(seed: u64) {
    match guarded(|| attack::overspend_forgery(seed)) {
        Ok(Some(acc)) => println!("{}", json!({"k":"attack","name":"overspend-remaining-out-of-range","built":true,"accepted":acc,"ok":!acc,
            "what":"balance 5, transfer 10: honest sigma proof for remaining = -5 mod r, honest transfer range proof, bogus remaining range proof"})),
        Ok(None) => println!("{}", json!({"k":"attack","name":"overspend-remaining-out-of-range","built":false,"ok":false,"why":"forgery could not be built (its sigma proof must verify)"})),
        Err(e) => println!("{}", json!({"k":"attack","name":"overspend-remaining-out-of-range","built":false,"ok":false,"panic":e})),
    }
    for (name, cut) in [("sec2pub-truncated-response-public-amount", true), ("sec2pub-truncated-response-remaining-chunk", false)] {
        match guarded(|| attack::truncated_forgery_sec_to_pub(seed, cut)) {
            Ok(Some(acc)) => println!("{}", json!({"k":"attack","name":name,"built":true,"accepted":acc,"ok":!acc,
                "what":"balance 5: forged sec-to-pub transfer pays out 1_000_000 (or keeps 1000*2^32); sigma response omits that chunk"})),
            Ok(None) => println!("{}", json!({"k":"attack","name":name,"built":false,"ok":true})),
            Err(e) => println!("{}", json!({"k":"attack","name":name,"built":false,"ok":true,"panic":e})),
        }
    }
    for (name, cut) in [("truncated-response-transfer-chunk", true), ("truncated-response-remaining-chunk", false)] {
        match guarded(|| attack::truncated_forgery(seed, cut)) {
            Ok(Some(acc)) => println!("{}", json!({"k":"attack","name":name,"built":true,"accepted":acc,"ok":!acc,
                "what":"balance 5, forged transfer creates 1000*2^32 out of thin air; sigma response omits that chunk"})),
            Ok(None) => println!("{}", json!({"k":"attack","name":name,"built":false,"ok":true})),
            Err(e) => println!("{}", json!({"k":"attack","name":name,"built":false,"ok":true,"panic":e})),
        }
    }
}

type Fr = <G1 as concordium_base::curve_arithmetic::Curve>::Scalar;
fn scalar_of_hex(h: &str) -> Option<Fr> {
    concordium_base::common::from_bytes::<Fr, _>(&mut std::io::Cursor::new(hlib::unhex(h))).ok()
}
fn limbs_hex(l: [u64; 4]) -> String { format!("{:016x}{:016x}{:016x}{:016x}", l[3], l[2], l[1], l[0]) }
fn sc_short(x: &Fr) -> String { let h = sc_hex(x); let t = h.trim_start_matches('0'); if t.is_empty() { "0".into() } else { t.to_string() } }

/// value_to_chunks / chunks_to_value on multi-limb scalars: boundary scalars x all chunk sizes, chunk lists
/// from the encoder, masked lists of odd lengths (short last section, more than four sections: wraps mod r)
/// and hostile lists (chunks at or above 2^size, above 2^64).
fn vchunks(seed: u64, n: u64) {
    use concordium_base::{curve_arithmetic::Value, elgamal::{chunks_to_value, value_to_chunks}};
    let mut r = Rng::new(seed);
    let fixed: Vec<String> = vec![
        limbs_hex([0, 0, 0, 0]), limbs_hex([1, 0, 0, 0]), limbs_hex([u64::MAX, 0, 0, 0]), limbs_hex([0, 1, 0, 0]),
        limbs_hex([u64::MAX, u64::MAX, 0, 0]), limbs_hex([0, 0, 1, 0]), limbs_hex([0, 0, 0, 1]),
        limbs_hex([u64::MAX, u64::MAX, u64::MAX, 0]),
        "73eda753299d7d483339d80809a1d80553bda402fffe5bfeffffffff00000000".into(), // r - 1
        "73eda753299d7d483339d80809a1d80553bda402fffe5bfefffffffeffffffff".into(), // r - 2
        "73eda753299d7d483339d80809a1d80553bda402fffe5bfeffffffff00000001".into(), // r itself: not a scalar
    ];
    let mut cases: Vec<String> = Vec::new();
    for f in &fixed { for _ in 0..SIZES.len() { cases.push(f.clone()); } }
    while (cases.len() as u64) < n {
        let mut l = [0u64; 4];
        for i in 0..4 { l[i] = match r.below(4) { 0 => 0, 1 => u64::MAX, _ => r.u64_edge() }; }
        l[3] = match r.below(3) { 0 => 0, 1 => l[3] % 0x73eda753299d7d48, _ => 0x73eda753299d7d47 };
        cases.push(limbs_hex(l));
    }
    for (i, xh) in cases.iter().enumerate() {
        let s = SIZES[i % 7];
        let x = match scalar_of_hex(xh) { Some(x) => x, None => { println!("{}", json!({"k":"vskip","x":xh})); continue } };
        let res = guarded(|| value_to_chunks::<G1>(&x, size_of(s)));
        let rj = match &res { Ok(v) => json!(v.iter().map(|c| sc_short(c.as_ref())).collect::<Vec<_>>()), Err(_) => json!("PANIC") };
        println!("{}", json!({"k":"vto","s":s,"x":xh,"r":rj}));
        let per = (64 / s) as usize;
        let msk = size_of(s).mask();
        let xs: Vec<Value<G1>> = match r.below(5) {
            0 | 1 => match &res { Ok(v) => v.clone(), Err(_) => vec![Value::new(x)] },
            2 => { // masked, arbitrary length (short last section / more than 4 sections)
                let len = match r.below(4) { 0 => r.below(3) as usize, 1 => per * 4 + 1 + r.below(per as u64 + 2) as usize, 2 => per * 4, _ => r.below((per * 6) as u64 + 1) as usize };
                (0..len.min(300)).map(|_| Value::<G1>::from(r.u64_edge() & msk)).collect() }
            3 => { // hostile: chunks that are u64 but not below 2^size
                let len = r.below(per as u64 * 2 + 2) as usize;
                (0..len.min(40)).map(|_| Value::<G1>::from(if r.below(3) == 0 { r.u64_edge() } else { r.u64_edge() & msk })).collect() }
            _ => { // hostile: chunks above 64 bits (only limb 0 is read)
                let len = 1 + r.below(per as u64 + 1) as usize;
                (0..len.min(40)).map(|j| if j == 0 { Value::new(x) } else { Value::<G1>::from(r.u64_edge() & msk) }).collect() }
        };
        let back = guarded(|| chunks_to_value::<G1>(&xs, size_of(s)));
        let bj = match &back { Ok(v) => json!(sc_short(v.as_ref())), Err(_) => json!("PANIC") };
        println!("{}", json!({"k":"vfrom","s":s,"xs":xs.iter().map(|c| sc_short(c.as_ref())).collect::<Vec<_>>(),"r":bj}));
    }
}

/// BabyStepGiantStep::{new, discrete_log} on small tables; values around multiples of the table size.
fn bsgs(seed: u64, n: u64) {
    use concordium_base::curve_arithmetic::Curve;
    let mut r = Rng::new(seed);
    let context = GlobalContext::<G1>::generate(String::from("verif-c12"));
    let h = *context.encryption_in_exponent_generator();
    for &m in [1u64, 2, 16, 65536].iter() {
        let table = BabyStepGiantStep::new(&h, m);
        let kmax: u64 = match m { 1 => 700, 2 => 400, 16 => 200, _ => 5 };
        let per = if m == 65536 { n.min(14) } else { n };
        let mut xs: Vec<u64> = vec![0, 1, m.saturating_sub(1), m, m + 1, 2 * m - 1, 2 * m, 2 * m + 1];
        while (xs.len() as u64) < per {
            let k = r.below(kmax + 1);
            let x = match r.below(4) { 0 => k * m, 1 => (k * m).saturating_sub(1), 2 => k * m + 1, _ => k * m + r.below(m) };
            xs.push(x);
        }
        for x in xs {
            let v = h.mul_by_scalar(&G1::scalar_from_u64(x));
            { use std::io::Write; println!("{}", json!({"k":"bsgs_try","m":m,"x":x.to_string()})); std::io::stdout().flush().ok(); }
            let res = guarded(|| table.discrete_log(&v));
            let full = if m <= 16 { guarded(|| BabyStepGiantStep::discrete_log_full(&h, m, &v)).ok() } else { None };
            let rj = match &res { Ok(d) => json!(d.to_string()), Err(_) => json!("PANIC") };
            println!("{}", json!({"k":"bsgs","m":m,"x":x.to_string(),"r":rj,"full":full.map(|d| d.to_string())}));
        }
    }
}

/// aggregate + decrypt_amount with chunk carries: per-chunk sums 2^32-1, 2^32, 2^33-2 (needs a larger table).
fn aggcarry(seed: u64, n: u64, log_m: u64) {
    let mut r = Rng::new(seed);
    let mut csprng = StdRng::seed_from_u64(seed ^ 0xa66);
    let context = GlobalContext::<G1>::generate(String::from("verif-c12"));
    let table = BabyStepGiantStep::new(context.encryption_in_exponent_generator(), 1 << log_m);
    let sk = SecretKey::generate(context.elgamal_generator(), &mut csprng);
    let pk = PublicKey::from(&sk);
    let m32 = 0xffff_ffffu64;
    let mut cases: Vec<(u64, u64)> = vec![
        (m32, 0), (m32, 1), (m32, m32), (m32 - 1, 1), (1 << 31, 1 << 31),                      // low sums 2^32-1, 2^32, 2^33-2
        (m32 | (5 << 32), 1 | (7 << 32)), (m32 | (m32 << 32), 0), (m32 | ((m32 - 1) << 32), 1), // carry into a full high chunk
        ((1 << 63) | m32, (1 << 62) | m32),
        (u64::MAX, 1), (u64::MAX, u64::MAX), ((1 << 63), (1 << 63)), ((m32 << 32), (1 << 32)),   // total >= 2^64
    ];
    while (cases.len() as u64) < n {
        let lo_a = match r.below(3) { 0 => m32, 1 => m32 - r.below(3), _ => r.next() & m32 };
        let lo_b = match r.below(3) { 0 => m32, 1 => r.below(3), _ => r.next() & m32 };
        let hi_a = match r.below(3) { 0 => r.below(1000), 1 => m32 - r.below(1000), _ => r.next() & m32 };
        let hi_b = match r.below(3) { 0 => r.below(1000), 1 => r.below(3), _ => m32 - hi_a.min(m32) };
        cases.push((lo_a | (hi_a << 32), lo_b | (hi_b << 32)));
    }
    for (a, b) in cases {
        let (ea, _) = et::encrypt_amount(&context, &pk, Amount::from_micro_ccd(a), &mut csprng);
        let (eb, _) = et::encrypt_amount(&context, &pk, Amount::from_micro_ccd(b), &mut csprng);
        let agg = et::aggregate(&ea, &eb);
        // (the chunk-wise decryptions of aggregates are compared in `oracle`; here the whole decrypt_amount, once)
        let dec = guarded(|| et::decrypt_amount(&table, &sk, &agg).micro_ccd());
        let dj = match &dec { Ok(d) => json!(d.to_string()), Err(_) => json!("PANIC") };
        println!("{}", json!({"k":"aggcarry","a":a.to_string(),"b":b.to_string(),"dec":dj}));
    }
}

/// Wiring of the statement built by the real gen_enc_trans_proof_info: for every field of the EncTrans
/// statement, the index of the input point it is equal to (inputs are distinct random points).
fn wiring(seed: u64) {
    use concordium_base::{curve_arithmetic::Curve, elgamal::Cipher, encrypted_transfers::proofs::gen_enc_trans_proof_info};
    let mut csprng = StdRng::seed_from_u64(seed ^ 0x31);
    for (na, ns) in [(2usize, 2usize), (1, 2), (0, 0), (3, 1)] {
        let mut pts: Vec<G1> = Vec::new();
        let mut fresh = |pts: &mut Vec<G1>| { let p = G1::generate(&mut csprng); pts.push(p); p };
        // token order: 1 g, 2 h, 3 pk_s, 4 pk_r, 5 S.0, 6 S.1, then A[i].0, A[i].1, then S'[i].0, S'[i].1
        let g = fresh(&mut pts); let h = fresh(&mut pts); let pks = fresh(&mut pts); let pkr = fresh(&mut pts);
        let s = Cipher(fresh(&mut pts), fresh(&mut pts));
        let a: Vec<Cipher<G1>> = (0..na).map(|_| Cipher(fresh(&mut pts), fresh(&mut pts))).collect();
        let sp: Vec<Cipher<G1>> = (0..ns).map(|_| Cipher(fresh(&mut pts), fresh(&mut pts))).collect();
        let pk_sender = PublicKey { generator: g, key: pks };
        let pk_receiver = PublicKey { generator: g, key: pkr };
        let st = gen_enc_trans_proof_info(&pk_sender, &pk_receiver, &s, &a, &sp, &h);
        let tok = |p: &G1| -> i64 { pts.iter().position(|q| q == p).map(|i| i as i64 + 1).unwrap_or(-1) };
        let ce = |c: &concordium_base::sigma_protocols::com_eq::ComEq<G1, G1>| vec![tok(&c.commitment.0), tok(&c.y), tok(&c.cmm_key.g), tok(&c.cmm_key.h), tok(&c.g)];
        println!("{}", json!({"k":"wiring","na":na,"ns":ns,
            "head":[tok(&st.dlog.public), tok(&st.dlog.coeff), tok(&st.elg_dec.public), tok(&st.elg_dec.coeff[0]), tok(&st.elg_dec.coeff[1])],
            "e1": st.encexp1.iter().map(ce).collect::<Vec<_>>(), "e2": st.encexp2.iter().map(ce).collect::<Vec<_>>()}));
    }
}

/// Serial/Deserial round trip of decryption tables, including sizes above 2^16 (the preallocation cap of
/// `deserial`): restored table == original, serialized length, and discrete_log on the RESTORED table for a
/// spread of residues under a watchdog (a truncated table makes discrete_log loop forever).
fn bsgsser(seed: u64, big: u64) {
    use concordium_base::curve_arithmetic::Curve;
    use std::sync::{mpsc, Arc};
    let mut r = Rng::new(seed);
    let context = GlobalContext::<G1>::generate(String::from("verif-c12"));
    let h = *context.encryption_in_exponent_generator();
    let mut sizes: Vec<u64> = vec![1, 2, 16, 1000, 65536, 65537];
    if big >= 1 { sizes.push(1 << 17); }
    if big >= 2 { sizes.push((1 << 18) + 3); }
    for m in sizes {
        let table = BabyStepGiantStep::new(&h, m);
        let bytes = ser(&table);
        let restored = guarded(|| concordium_base::common::from_bytes::<BabyStepGiantStep<G1>, _>(&mut std::io::Cursor::new(&bytes)));
        let restored = match restored { Ok(Ok(t)) => t, Ok(Err(e)) => { println!("{}", json!({"k":"bsgsser","m":m,"len":bytes.len(),"deserial":format!("ERR {}", e)})); continue }
            Err(e) => { println!("{}", json!({"k":"bsgsser","m":m,"len":bytes.len(),"deserial":format!("PANIC {}", e)})); continue } };
        let equal = restored == table;
        let again = ser(&restored).len();
        println!("{}", json!({"k":"bsgsser","m":m,"len":bytes.len(),"deserial":"ok","equal":equal,"len_again":again}));
        // one byte short must be refused
        let short = concordium_base::common::from_bytes::<BabyStepGiantStep<G1>, _>(&mut std::io::Cursor::new(&bytes[..bytes.len() - 1])).is_ok();
        println!("{}", json!({"k":"bsgsser_short","m":m,"accepted":short}));
        let restored = Arc::new(restored);
        let mut xs: Vec<u64> = vec![0, m / 4, m / 2, m / 2 + 1, (3 * m) / 4, m - 1, m, m + (3 * m) / 4, 2 * m + m - 1, 3 * m];
        for _ in 0..6 { xs.push(r.below(4 * m)); }
        for x in xs {
            let v = h.mul_by_scalar(&G1::scalar_from_u64(x));
            let (tx, rx) = mpsc::channel();
            let t = restored.clone();
            std::thread::spawn(move || { let d = t.discrete_log(&v); let _ = tx.send(d); });
            match rx.recv_timeout(std::time::Duration::from_secs(15)) {
                Ok(d) => println!("{}", json!({"k":"bsgsser_dlog","m":m,"x":x.to_string(),"r":d.to_string()})),
                Err(_) => { println!("{}", json!({"k":"bsgsser_dlog","m":m,"x":x.to_string(),"r":"TIMEOUT"})); break }
            }
        }
    }
    use std::io::Write; std::io::stdout().flush().ok();
    std::process::exit(0);
}

/// Real transfers with everything the verifier hashes for the FIRST challenge (the sigma proof's): the check
/// rebuilds the frame with the Coq model of the transcript initialisation + EncTrans `public` + commit message
/// and compares sha3-256(frame) with the real challenge.
fn frames(seed: u64) {
    use concordium_base::{curve_arithmetic::Curve, elgamal::Cipher, encrypted_transfers::proofs::gen_enc_trans_proof_info,
        sigma_protocols::common::SigmaProtocol};
    let mut r = Rng::new(seed);
    let mut csprng = StdRng::seed_from_u64(seed ^ 0xf4a);
    let context = GlobalContext::<G1>::generate_size(String::from("verif-c12"), 64);
    let h = *context.encryption_in_exponent_generator();
    let px = |p: &G1| hlib::hex(&ser(p));
    let cx = |c: &Cipher<G1>| json!([px(&c.0), px(&c.1)]);
    for i in 0..3u64 {
        let sk = SecretKey::generate(context.elgamal_generator(), &mut csprng);
        let pk = PublicKey::from(&sk);
        let sk2 = SecretKey::generate(context.elgamal_generator(), &mut csprng);
        let pk2 = PublicKey::from(&sk2);
        let bal = if i == 0 { (1u64 << 33) + 5 } else { r.u64_edge() | 1 };
        let amt = if i == 0 { (1u64 << 32) + 7 } else { r.below(bal) };
        let (enc_bal, _) = et::encrypt_amount(&context, &pk, Amount::from_micro_ccd(bal), &mut csprng);
        let input = AggregatedDecryptedAmount { agg_encrypted_amount: enc_bal.clone(), agg_amount: Amount::from_micro_ccd(bal), agg_index: EncryptedAmountAggIndex::from(3) };
        let s_joined = enc_bal.join();
        if let Some(td) = et::make_transfer_data(&context, &pk2, &sk, &input, Amount::from_micro_ccd(amt), &mut csprng) {
            let a: &[Cipher<G1>; 2] = td.transfer_amount.as_ref();
            let sp: &[Cipher<G1>; 2] = td.remaining_amount.as_ref();
            let st = gen_enc_trans_proof_info(&pk, &pk2, &s_joined, a, sp, &h);
            let c = st.get_challenge(&td.proof.accounting.challenge);
            let cm = st.extract_commit_message(&c, &td.proof.accounting.response).map(|m| hlib::hex(&ser(&m)));
            println!("{}", json!({"k":"frame","kind":"transfer","gc":hlib::hex(&ser(&context)),"g":px(&pk.generator),"h":px(&h),
                "pk_s":px(&pk.key),"pk_r":px(&pk2.key),"S":cx(&s_joined),"A":[cx(&a[0]),cx(&a[1])],"Sp":[cx(&sp[0]),cx(&sp[1])],
                "challenge":hlib::hex(td.proof.accounting.challenge.as_ref()),"cm":cm,
                "verifies":et::verify_transfer_data(&context, &pk2, &pk, &enc_bal, &td)}));
        }
        if let Some(sd) = et::make_sec_to_pub_transfer_data(&context, &sk, &input, Amount::from_micro_ccd(amt), &mut csprng) {
            let sp: &[Cipher<G1>; 2] = sd.remaining_amount.as_ref();
            let a = [Cipher(G1::zero_point(), h.mul_by_scalar(&G1::scalar_from_u64(amt)))];
            let st = gen_enc_trans_proof_info(&pk, &pk, &s_joined, &a, sp, &h);
            let c = st.get_challenge(&sd.proof.accounting.challenge);
            let cm = st.extract_commit_message(&c, &sd.proof.accounting.response).map(|m| hlib::hex(&ser(&m)));
            println!("{}", json!({"k":"frame","kind":"sec2pub","gc":hlib::hex(&ser(&context)),"g":px(&pk.generator),"h":px(&h),
                "pk_s":px(&pk.key),"pk_r":px(&pk.key),"S":cx(&s_joined),"A":[cx(&a[0])],"Sp":[cx(&sp[0]),cx(&sp[1])],
                "challenge":hlib::hex(sd.proof.accounting.challenge.as_ref()),"cm":cm,
                "verifies":et::verify_sec_to_pub_transfer_data(&context, &pk, &enc_bal, &sd)}));
        }
    }
}

fn sc_hex(x: &<G1 as concordium_base::curve_arithmetic::Curve>::Scalar) -> String { hlib::hex(&ser(x)) }

/// Encryption cases for the in-the-exponent correspondence: prints secret key, amounts,
/// the randomness the implementation used, and every group element it produced (hex).
fn encgen(seed: u64, n: u64) {
    use concordium_base::curve_arithmetic::Curve;
    let mut r = Rng::new(seed);
    let mut csprng = StdRng::seed_from_u64(seed ^ 0x5eed);
    let context = GlobalContext::<G1>::generate(String::from("verif-c12"));
    println!("{}", json!({"k":"gens","g":hlib::hex(&ser(context.elgamal_generator())),"h":hlib::hex(&ser(context.encryption_in_exponent_generator()))}));
    for _ in 0..n {
        let sk = SecretKey::generate(context.elgamal_generator(), &mut csprng);
        let pk = PublicKey::from(&sk);
        let x = r.u64_edge();
        let y = r.u64_edge();
        let (ex, rx) = et::encrypt_amount(&context, &pk, Amount::from_micro_ccd(x), &mut csprng);
        let (ey, ry) = et::encrypt_amount(&context, &pk, Amount::from_micro_ccd(y), &mut csprng);
        let ag = et::aggregate(&ex, &ey);
        let j = ag.join();
        let pts = vec![ex.encryptions[0].0, ex.encryptions[0].1, ex.encryptions[1].0, ex.encryptions[1].1,
                       ag.encryptions[0].0, ag.encryptions[0].1, ag.encryptions[1].0, ag.encryptions[1].1, j.0, j.1];
        let decs = vec![sk.decrypt(&ag.encryptions[0]).value, sk.decrypt(&ag.encryptions[1]).value, sk.decrypt(&j).value];
        println!("{}", json!({"k":"enc","sk":sc_hex(&sk.scalar),"x":x.to_string(),"y":y.to_string(),
            "rand":[sc_hex(rx.randomness[0].as_ref()),sc_hex(rx.randomness[1].as_ref()),sc_hex(ry.randomness[0].as_ref()),sc_hex(ry.randomness[1].as_ref())],
            "pts":pts.iter().map(|p| hlib::hex(&ser(p))).collect::<Vec<_>>(),
            "decs":decs.iter().map(|p| hlib::hex(&ser(p))).collect::<Vec<_>>()}));
        let _ = G1::zero_point();
    }
}

/// stdin: one JSON object per line {"pt": hex, "a": hex32, "b": hex32}; checks pt == a*g + b*h.
fn lincheck() {
    use concordium_base::curve_arithmetic::Curve;
    use std::io::BufRead;
    let context = GlobalContext::<G1>::generate(String::from("verif-c12"));
    let g = *context.elgamal_generator();
    let h = *context.encryption_in_exponent_generator();
    for line in std::io::stdin().lock().lines() {
        let line = line.unwrap();
        let v: serde_json::Value = serde_json::from_str(&line).unwrap();
        let pt: G1 = concordium_base::common::from_bytes(&mut std::io::Cursor::new(hlib::unhex(v["pt"].as_str().unwrap()))).unwrap();
        let a: <G1 as Curve>::Scalar = concordium_base::common::from_bytes(&mut std::io::Cursor::new(hlib::unhex(v["a"].as_str().unwrap()))).unwrap();
        let b: <G1 as Curve>::Scalar = concordium_base::common::from_bytes(&mut std::io::Cursor::new(hlib::unhex(v["b"].as_str().unwrap()))).unwrap();
        let want = g.mul_by_scalar(&a).plus_point(&h.mul_by_scalar(&b));
        println!("{}", if want == pt { "ok" } else { "MISMATCH" });
    }
}

/// END-TO-END correspondence cases for the composed transfer model (EncTransferFSExec.v).
/// The global context is built from KNOWN multiples of one base point, the prover's random scalars are
/// recovered by replaying a clone of the deterministic RNG through the same generator calls, in the order of
/// gen_enc_trans / gen_sec_to_pub_trans (encryption randomness, ComEq (alpha, R) per chunk, common, then per
/// bulletproof: (s_L, s_R) x 64, (a~, s~) per value, (t1~, t2~) per value).  Each produced transfer is printed
/// as a "view" (what a verifier sees + the real verdict of verify_enc_trans); `npert` perturbed copies
/// (+1 on a scalar / + base point on a group element at a flat position) follow.
fn e2e(seed: u64, n: u64, npert: u64) {
    use concordium_base::{bulletproofs::{range_proof::RangeProof, utils::Generators}, curve_arithmetic::{Curve, Field}, elgamal::Cipher,
        encrypted_transfers::proofs::{gen_enc_trans_proof_info, verify_enc_trans, verify_sec_to_pub_trans, VerificationError},
        pedersen_commitment::CommitmentKey, random_oracle::{RandomOracle, TranscriptProtocol}, sigma_protocols::common::SigmaProtocol};
    type Fr = <G1 as Curve>::Scalar;
    let mut r = Rng::new(seed);
    let mut csprng = StdRng::seed_from_u64(seed ^ 0xe2e0);
    let base = G1::one_point();
    let dg = G1::generate_non_zero_scalar(&mut csprng);
    let dh = G1::generate_non_zero_scalar(&mut csprng);
    let dgs: Vec<Fr> = (0..64).map(|_| G1::generate_non_zero_scalar(&mut csprng)).collect();
    let dhs: Vec<Fr> = (0..64).map(|_| G1::generate_non_zero_scalar(&mut csprng)).collect();
    let g = base.mul_by_scalar(&dg);
    let h = base.mul_by_scalar(&dh);
    let context = GlobalContext::<G1> {
        on_chain_commitment_key: CommitmentKey { g, h },
        bulletproof_generators: Generators { G_H: dgs.iter().zip(dhs.iter()).map(|(a, b)| (base.mul_by_scalar(a), base.mul_by_scalar(b))).collect() },
        genesis_string: String::from("verif-c12-e2e"),
    };
    let px = |p: &G1| hlib::hex(&ser(p));
    let cx = |c: &Cipher<G1>| json!([px(&c.0), px(&c.1)]);
    let scs = |v: &[Fr]| json!(v.iter().map(sc_hex).collect::<Vec<_>>());
    println!("{}", json!({"k":"e2e-gens","dg":sc_hex(&dg),"dh":sc_hex(&dh),"dGs":scs(&dgs),"dHs":scs(&dhs),"gc":hlib::hex(&ser(&context)),
        "g":px(&g),"h":px(&h),"zero":px(&G1::zero_point())}));
    let code = |res: Result<Result<(), VerificationError>, String>| -> serde_json::Value { match res {
        Ok(Ok(())) => json!(0), Ok(Err(VerificationError::SigmaProofError)) => json!(1),
        Ok(Err(VerificationError::FirstBulletproofError(_))) => json!(2), Ok(Err(VerificationError::SecondBulletproofError(_))) => json!(3),
        Err(_) => json!("PANIC") } };
    let draw_sig = |k: usize, rp: &mut StdRng| -> Vec<(Fr, Fr)> { (0..k).map(|_| { let a = G1::generate_non_zero_scalar(rp); let rr = G1::generate_scalar(rp); (a, rr) }).collect() };
    let sigj = |v: &[(Fr, Fr)]| json!(v.iter().map(|(a, b)| json!([sc_hex(a), sc_hex(b)])).collect::<Vec<_>>());
    let draw_bp = |rp: &mut StdRng| -> serde_json::Value {
        let (mut sl, mut sr) = (vec![], vec![]);
        for _ in 0..64 { sl.push(G1::generate_scalar(rp)); sr.push(G1::generate_scalar(rp)); }
        let (mut at, mut st, mut t1, mut t2) = (vec![], vec![], vec![], vec![]);
        for _ in 0..2 { at.push(G1::generate_scalar(rp)); st.push(G1::generate_scalar(rp)); }
        for _ in 0..2 { t1.push(G1::generate_scalar(rp)); t2.push(G1::generate_scalar(rp)); }
        json!({"sL":scs(&sl),"sR":scs(&sr),"at":scs(&at),"st":scs(&st),"t1":scs(&t1),"t2":scs(&t2)}) };
    // + base point / + 1 at flat position `i` of a serialised RangeProof (6 rounds)
    let bump_bp = |p: &RangeProof<G1>, i: usize| -> Option<RangeProof<G1>> {
        let mut b = ser(p);
        let (off, is_pt) = if i < 4 { (48 * i, true) } else if i < 7 { (192 + 32 * (i - 4), false) } else if i < 19 { (292 + 48 * (i - 7), true) } else { (292 + 576 + 32 * (i - 19), false) };
        if is_pt {
            let q: G1 = concordium_base::common::from_bytes(&mut std::io::Cursor::new(&b[off..off + 48])).ok()?;
            let q2 = q.plus_point(&base); b[off..off + 48].copy_from_slice(&ser(&q2));
        } else {
            let mut x: Fr = concordium_base::common::from_bytes(&mut std::io::Cursor::new(&b[off..off + 32])).ok()?;
            x.add_assign(&Fr::one()); b[off..off + 32].copy_from_slice(&ser(&x));
        }
        concordium_base::common::from_bytes(&mut std::io::Cursor::new(&b)).ok() };
    let bump_c = |e: &EncryptedAmount<G1>, i: usize| -> EncryptedAmount<G1> {
        let mut e2 = e.clone();
        let c = &mut e2.encryptions[i / 2];
        if i % 2 == 0 { c.0 = c.0.plus_point(&base) } else { c.1 = c.1.plus_point(&base) }
        e2 };
    for i in 0..n {
        let sk = SecretKey::generate(&g, &mut csprng);
        let pk = PublicKey::from(&sk);
        let sk2 = SecretKey::generate(&g, &mut csprng);
        let pk2 = PublicKey::from(&sk2);
        let mut dpkr = sk2.scalar; dpkr.mul_assign(&dg);
        let (bal, amt) = match i % 6 {
            0 => ((1u64 << 33) + 5, (1u64 << 32) + 7),
            1 => { let b = r.u64_edge(); (b, b) }                       // whole balance
            2 => (r.u64_edge(), 0),                                      // nothing
            3 => (u64::MAX, r.u64_edge()),
            4 => { let b = r.u64_edge() | (1 << 32); (b, (b & 0xffff_ffff) + 1) }   // borrow from the high chunk
            _ => { let b = r.u64_edge() | 1; (b, r.below(b)) } };
        let idx = r.below(1000);
        let (enc_bal, brand) = et::encrypt_amount(&context, &pk, Amount::from_micro_ccd(bal), &mut csprng);
        let input = AggregatedDecryptedAmount { agg_encrypted_amount: enc_bal.clone(), agg_amount: Amount::from_micro_ccd(bal), agg_index: EncryptedAmountAggIndex::from(idx) };
        let s_joined = enc_bal.join();
        let common_in = json!({"sk":sc_hex(&sk.scalar),"dpk_r":sc_hex(&dpkr),"pk_s":px(&pk.key),"pk_r":px(&pk2.key),"bal":bal.to_string(),"amt":amt.to_string(),"idx":idx,
            "bal_ks":[sc_hex(brand.randomness[0].as_ref()), sc_hex(brand.randomness[1].as_ref())]});
        // ---- encrypted transfer
        let mut rp = csprng.clone();
        let td = guarded(|| et::make_transfer_data(&context, &pk2, &sk, &input, Amount::from_micro_ccd(amt), &mut csprng));
        let ka: Vec<Fr> = (0..2).map(|_| G1::generate_scalar(&mut rp)).collect();
        let ks: Vec<Fr> = (0..2).map(|_| G1::generate_scalar(&mut rp)).collect();
        let sig1 = draw_sig(2, &mut rp); let sig2 = draw_sig(2, &mut rp);
        let common = G1::generate_non_zero_scalar(&mut rp);
        let bpa = draw_bp(&mut rp); let bps = draw_bp(&mut rp);
        let view_t = |td: &EncryptedAmountTransferData<G1>, bump: i64| -> serde_json::Value {
            let a: &[Cipher<G1>; 2] = td.transfer_amount.as_ref();
            let sp: &[Cipher<G1>; 2] = td.remaining_amount.as_ref();
            let st = gen_enc_trans_proof_info(&pk, &pk2, &s_joined, a, sp, &h);
            let c = st.get_challenge(&td.proof.accounting.challenge);
            let cm = st.extract_commit_message(&c, &td.proof.accounting.response).map(|m| hlib::hex(&ser(&m)));
            let mut ro = RandomOracle::domain("EncryptedTransfer");
            ro.append_message(b"ctx", &&context); ro.append_message(b"receiver_pk", &&pk2); ro.append_message(b"sender_pk", &&pk);
            let v = code(guarded(|| verify_enc_trans(&context, &mut ro, td, &pk, &pk2, &s_joined)));
            json!({"bump":bump,"S":cx(&s_joined),"A":[cx(&a[0]),cx(&a[1])],"Sp":[cx(&sp[0]),cx(&sp[1])],"challenge":hlib::hex(td.proof.accounting.challenge.as_ref()),
                "resp":hlib::hex(&ser(&td.proof.accounting.response)),"cm":cm,"bps":[hlib::hex(&ser(&td.proof.transfer_amount_correct_encryption)),hlib::hex(&ser(&td.proof.remaining_amount_correct_encryption))],
                "verdict":v,"index":td.index.index,"verifies":et::verify_transfer_data(&context, &pk2, &pk, &enc_bal, td)}) };
        match &td {
            Err(_) => println!("{}", json!({"k":"e2e","kind":"transfer","in":common_in,"made":"PANIC"})),
            Ok(None) => println!("{}", json!({"k":"e2e","kind":"transfer","in":common_in,"made":false})),
            Ok(Some(td)) => {
                let mut views = vec![view_t(td, -1)];
                for _ in 0..npert {
                    let pos = r.below(50) as usize;
                    let mut t2 = td.clone();
                    if pos < 4 { t2.remaining_amount = bump_c(&td.remaining_amount, pos) }
                    else if pos < 8 { t2.transfer_amount = bump_c(&td.transfer_amount, pos - 4) }
                    else if pos < 29 { match bump_bp(&td.proof.transfer_amount_correct_encryption, pos - 8) { Some(p) => t2.proof.transfer_amount_correct_encryption = p, None => continue } }
                    else { match bump_bp(&td.proof.remaining_amount_correct_encryption, pos - 29) { Some(p) => t2.proof.remaining_amount_correct_encryption = p, None => continue } }
                    views.push(view_t(&t2, pos as i64));
                }
                println!("{}", json!({"k":"e2e","kind":"transfer","in":common_in,"made":true,"kA":scs(&ka),"kS":scs(&ks),"sig1":sigj(&sig1),"sig2":sigj(&sig2),"common":sc_hex(&common),
                    "bpa":bpa,"bps":bps,"views":views}));
            }
        }
        // ---- secret to public transfer
        let mut rp = csprng.clone();
        let sd = guarded(|| et::make_sec_to_pub_transfer_data(&context, &sk, &input, Amount::from_micro_ccd(amt), &mut csprng));
        let ks: Vec<Fr> = (0..2).map(|_| G1::generate_scalar(&mut rp)).collect();
        let sig1 = draw_sig(1, &mut rp); let sig2 = draw_sig(2, &mut rp);
        let common = G1::generate_non_zero_scalar(&mut rp);
        let bps = draw_bp(&mut rp);
        let view_s = |sd: &SecToPubAmountTransferData<G1>, bump: i64| -> serde_json::Value {
            let sp: &[Cipher<G1>; 2] = sd.remaining_amount.as_ref();
            let a = [Cipher(G1::zero_point(), h.mul_by_scalar(&G1::scalar_from_u64(sd.transfer_amount.micro_ccd())))];
            let st = gen_enc_trans_proof_info(&pk, &pk, &s_joined, &a, sp, &h);
            let c = st.get_challenge(&sd.proof.accounting.challenge);
            let cm = st.extract_commit_message(&c, &sd.proof.accounting.response).map(|m| hlib::hex(&ser(&m)));
            let mut ro = RandomOracle::domain("SecToPubTransfer");
            ro.append_message(b"ctx", &&context); ro.append_message(b"pk", &&pk);
            let v = code(guarded(|| verify_sec_to_pub_trans(&context, &mut ro, sd, &pk, &s_joined)));
            json!({"bump":bump,"S":cx(&s_joined),"A":[cx(&a[0])],"Sp":[cx(&sp[0]),cx(&sp[1])],"challenge":hlib::hex(sd.proof.accounting.challenge.as_ref()),
                "resp":hlib::hex(&ser(&sd.proof.accounting.response)),"cm":cm,"bps":[hlib::hex(&ser(&sd.proof.remaining_amount_correct_encryption))],
                "verdict":v,"index":sd.index.index,"amount":sd.transfer_amount.micro_ccd().to_string(),
                "verifies":et::verify_sec_to_pub_transfer_data(&context, &pk, &enc_bal, sd)}) };
        match &sd {
            Err(_) => println!("{}", json!({"k":"e2e","kind":"sec2pub","in":common_in,"made":"PANIC"})),
            Ok(None) => println!("{}", json!({"k":"e2e","kind":"sec2pub","in":common_in,"made":false})),
            Ok(Some(sd)) => {
                let mut views = vec![view_s(sd, -1)];
                for _ in 0..npert {
                    let pos = r.below(26) as usize;
                    let mut s2 = sd.clone();
                    if pos < 4 { s2.remaining_amount = bump_c(&sd.remaining_amount, pos) }
                    else if pos < 5 { if sd.transfer_amount.micro_ccd() == u64::MAX { continue } s2.transfer_amount = Amount::from_micro_ccd(sd.transfer_amount.micro_ccd() + 1) }
                    else { match bump_bp(&sd.proof.remaining_amount_correct_encryption, pos - 5) { Some(p) => s2.proof.remaining_amount_correct_encryption = p, None => continue } }
                    views.push(view_s(&s2, pos as i64));
                }
                println!("{}", json!({"k":"e2e","kind":"sec2pub","in":common_in,"made":true,"kS":scs(&ks),"sig1":sigj(&sig1),"sig2":sigj(&sig2),"common":sc_hex(&common),
                    "bps":bps,"views":views}));
            }
        }
    }
}

/// stdin: one 32-byte scalar (hex) per line; prints the compressed encoding of scalar * base point.
fn expand() {
    use concordium_base::curve_arithmetic::Curve;
    use std::io::BufRead;
    let base = G1::one_point();
    for line in std::io::stdin().lock().lines() {
        let line = line.unwrap();
        let a: <G1 as Curve>::Scalar = concordium_base::common::from_bytes(&mut std::io::Cursor::new(hlib::unhex(line.trim()))).unwrap();
        println!("{}", hlib::hex(&ser(&base.mul_by_scalar(&a))));
    }
}

fn main() {
    quiet_panics();
    if std::env::args().nth(1).as_deref() == Some("lincheck") { lincheck(); return; }
    if std::env::args().nth(1).as_deref() == Some("expand") { expand(); return; }
    let a: Vec<String> = std::env::args().collect();
    let seed: u64 = a[2].parse().unwrap();
    let n: u64 = a[3].parse().unwrap();
    match a[1].as_str() { "chunks" => chunks(seed, n), "oracle" => oracle(seed, n), "encgen" => encgen(seed, n), "attack" => attacks(seed),
        "vchunks" => vchunks(seed, n), "bsgs" => bsgs(seed, n), "wiring" => wiring(seed), "bsgsser" => bsgsser(seed, n), "frames" => frames(seed), "e2e" => e2e(seed, n, a.get(4).and_then(|x| x.parse().ok()).unwrap_or(2)),
        "aggcarry" => aggcarry(seed, n, a.get(4).and_then(|x| x.parse().ok()).unwrap_or(18)), _ => panic!("mode") }
}
