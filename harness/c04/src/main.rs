//! C04 harness: the state hash is canonical; persistence preserves contents and hash.
//!
//!   c04 hist <seed> <n> [maxlen]   generate n histories, run them on the implementation; prints per history
//!                                     C <id> <ops>     the history (input of the extracted Coq model)
//!                                     R <id> <outs>    observations of the implementation (hash, collected bytes,
//!                                                      contents, digests of the stored / serialised bytes, flags of
//!                                                      the direct oracles)
//!                                  and finally  S <json>  the distribution
//!   c04 replay                     the same for "C <id> <ops>" lines read from stdin (C04_VERBOSE=1: full bytes)
//!   c04 directed                   fixed cases: D <name> <json>
//!   c04 status <seed> <n>          CachedRef status census (hook verif_hooks_status): n small states, each with a random
//!                                  sequence of persistence operations; prints
//!                                     K <id> <key:value,...>;<ops>   (ops over S L C X Z: compared with the Coq status
//!                                                                     machine s_run; with M = thaw + modify + freeze: direct only)
//!                                     R <id> <census>|...            after each op: nodes Disk,Memory,Cached, values
//!                                                                     Disk,Memory,Cached,inline, store length, flags
//!
//! Operations:  I k v  insert          D k  delete            P k  delete_prefix      G k  lookup
//!              M k v  get_mut+write   T k  iterate prefix    +    new generation     - r  normalize
//!              F  freeze (SizeCollector)  S  store_update    L  store_update + load_from_location
//!              C  cache               Z  serialize + deserialize                     X  migrate to a fresh store
//! The persistent operations freeze first when a mutable trie is alive; the modifying operations thaw
//! (`into_trie`) when none is.
use concordium_smart_contract_engine::v1::trie::{
    low_level::CachedRef, EmptyCollector, Loadable, Loader, MutableTrie, PersistentState, SizeCollector,
};
use hlib::{guarded, hex, quiet_panics, unhex, Rng};
use sha2::{Digest, Sha256};
use std::collections::BTreeMap;
use std::io::BufRead;

#[derive(Clone, Debug)]
enum Op {
    Insert(Vec<u8>, Vec<u8>),
    Delete(Vec<u8>),
    DeletePrefix(Vec<u8>),
    Get(Vec<u8>),
    Mut(Vec<u8>, Vec<u8>),
    Iter(Vec<u8>),
    NewGen,
    Normalize(usize),
    Freeze,
    Store,
    Load,
    Cache,
    Serial,
    Migrate,
}

fn x(b: &[u8]) -> String { format!("x{}", hex(b)) }
fn unx(s: &str) -> Vec<u8> { unhex(&s[1..]) }

impl Op {
    fn show(&self) -> String {
        match self {
            Op::Insert(k, v) => format!("I {} {}", x(k), x(v)),
            Op::Delete(k) => format!("D {}", x(k)),
            Op::DeletePrefix(k) => format!("P {}", x(k)),
            Op::Get(k) => format!("G {}", x(k)),
            Op::Mut(k, v) => format!("M {} {}", x(k), x(v)),
            Op::Iter(k) => format!("T {}", x(k)),
            Op::NewGen => "+".into(),
            Op::Normalize(r) => format!("- {}", r),
            Op::Freeze => "F".into(),
            Op::Store => "S".into(),
            Op::Load => "L".into(),
            Op::Cache => "C".into(),
            Op::Serial => "Z".into(),
            Op::Migrate => "X".into(),
        }
    }

    fn parse(s: &str) -> Op {
        let t: Vec<&str> = s.split(' ').collect();
        match t[0] {
            "I" => Op::Insert(unx(t[1]), unx(t[2])),
            "D" => Op::Delete(unx(t[1])),
            "P" => Op::DeletePrefix(unx(t[1])),
            "G" => Op::Get(unx(t[1])),
            "M" => Op::Mut(unx(t[1]), unx(t[2])),
            "T" => Op::Iter(unx(t[1])),
            "+" => Op::NewGen,
            "-" => Op::Normalize(t[1].parse().unwrap()),
            "F" => Op::Freeze,
            "S" => Op::Store,
            "L" => Op::Load,
            "C" => Op::Cache,
            "Z" => Op::Serial,
            "X" => Op::Migrate,
            _ => panic!("bad op {}", s),
        }
    }

    fn tag(&self) -> &'static str {
        match self {
            Op::Insert(..) => "insert",
            Op::Delete(..) => "delete",
            Op::DeletePrefix(..) => "delete_prefix",
            Op::Get(..) => "lookup",
            Op::Mut(..) => "get_mut",
            Op::Iter(..) => "iterate",
            Op::NewGen => "new_generation",
            Op::Normalize(..) => "normalize",
            Op::Freeze => "freeze",
            Op::Store => "store_update",
            Op::Load => "store_update+load",
            Op::Cache => "cache",
            Op::Serial => "serialize+deserialize",
            Op::Migrate => "migrate",
        }
    }
}

fn digest16(b: &[u8]) -> String { hex(&Sha256::digest(b)[..8]) }

fn verbose() -> bool { std::env::var("C04_VERBOSE").is_ok() }

fn root_ref(ps: &PersistentState) -> String {
    match ps {
        PersistentState::Root(CachedRef::Disk { reference }) => format!("{}", u64::from(*reference)),
        PersistentState::Root(CachedRef::Cached { reference, .. }) => format!("{}", u64::from(*reference)),
        _ => "-".into(),
    }
}

fn hash_of(ps: &PersistentState, store: &[u8]) -> String {
    let mut loader = Loader::new(store);
    hex(ps.hash(&mut loader).as_ref())
}

/// Full contents through the iterator, cross-checked with `lookup` on every key and on neighbours.
fn contents(ps: &PersistentState, store: &[u8]) -> (Vec<(Vec<u8>, Vec<u8>)>, bool) {
    let mut loader = Loader::new(store);
    let items: Vec<(Vec<u8>, Vec<u8>)> = ps.clone().into_iterator(&mut loader).collect();
    let mut ok = true;
    for (k, v) in items.iter() {
        let mut loader = Loader::new(store);
        if ps.lookup(&mut loader, k).as_ref() != Some(v) {
            ok = false;
        }
    }
    for w in items.windows(2) {
        if w[0].0 >= w[1].0 {
            ok = false;
        }
    }
    for (k, _) in items.iter().take(6) {
        let mut k2 = k.clone();
        k2.push(0x5a);
        let mut loader = Loader::new(store);
        if !items.iter().any(|(kk, _)| kk == &k2) && ps.lookup(&mut loader, &k2).is_some() {
            ok = false;
        }
        if !k.is_empty() {
            let k3 = k[..k.len() - 1].to_vec();
            let mut loader = Loader::new(store);
            if !items.iter().any(|(kk, _)| kk == &k3) && ps.lookup(&mut loader, &k3).is_some() {
                ok = false;
            }
        }
    }
    (items, ok)
}

fn dump_str(l: &[(Vec<u8>, Vec<u8>)]) -> String {
    format!("{{{}}}", l.iter().map(|(k, v)| format!("{}={}", hex(k), hex(v))).collect::<Vec<_>>().join(","))
}

/// Direct oracle "equal contents => equal hash": rebuild the same contents through different histories
/// and return the hashes.  The histories are derived deterministically from the contents.
fn rebuild_hashes(items: &[(Vec<u8>, Vec<u8>)]) -> Vec<String> {
    let mut seed = 0x9e37u64;
    for (k, v) in items {
        for b in k.iter().chain(v.iter().take(4)) {
            seed = seed.wrapping_mul(1099511628211).wrapping_add(*b as u64);
        }
    }
    let mut rng = Rng::new(seed);
    let mut out = Vec::new();
    // (a) from_iterator over a random permutation
    let mut perm: Vec<usize> = (0..items.len()).collect();
    for i in (1..perm.len()).rev() {
        let j = rng.below(i as u64 + 1) as usize;
        perm.swap(i, j);
    }
    let ps = PersistentState::from_iterator(perm.iter().map(|&i| (&items[i].0[..], items[i].1.clone())));
    out.push(hash_of(&ps, &[]));
    // (b) a noisy history: junk keys inserted and deleted, wrong values overwritten, a rolled-back generation,
    //     a freeze/thaw cycle through the backing store in the middle
    let mut store: Vec<u8> = Vec::new();
    let mut trie = MutableTrie::empty();
    let mut perm2: Vec<usize> = (0..items.len()).collect();
    for i in (1..perm2.len()).rev() {
        let j = rng.below(i as u64 + 1) as usize;
        perm2.swap(i, j);
    }
    let mut junk: Vec<Vec<u8>> = Vec::new();
    let half = perm2.len() / 2;
    for (n, &i) in perm2.iter().enumerate() {
        let (k, v) = &items[i];
        {
            let mut loader = Loader::new(&store[..]);
            if rng.chance(1, 2) {
                // a junk key next to the real one
                let mut j = k.clone();
                match rng.below(3) {
                    0 => j.push(rng.next() as u8),
                    1 => {
                        if let Some(l) = j.last_mut() {
                            *l ^= if rng.chance(1, 2) { 0x01 } else { 0x10 };
                        } else {
                            j.push(0);
                        }
                    }
                    _ => {
                        let n = rng.below(j.len() as u64 + 1) as usize;
                        j.truncate(n);
                    }
                }
                if !items.iter().any(|(kk, _)| kk == &j) {
                    trie.insert(&mut loader, &j, rng.bytes(3)).unwrap();
                    junk.push(j);
                }
            }
            if rng.chance(1, 3) {
                trie.insert(&mut loader, k, rng.bytes(70)).unwrap();
            }
            trie.insert(&mut loader, k, v.clone()).unwrap();
            if rng.chance(1, 4) {
                trie.verif_new_generation();
                let _ = trie.delete(&mut loader, k);
                trie.insert(&mut loader, b"rolled back", vec![1]).unwrap();
                trie.verif_normalize(0);
            }
        }
        if n == half {
            let mut loader = Loader::new(&store[..]);
            let mut ps = match std::mem::replace(&mut trie, MutableTrie::empty()).freeze(&mut loader, &mut EmptyCollector) {
                Some(nd) => PersistentState::from(nd),
                None => PersistentState::Empty,
            };
            let r = ps.store_update(&mut store).unwrap();
            let mut loader = Loader::new(&store[..]);
            let ps2 = PersistentState::load_from_location(&mut loader, r).unwrap();
            trie = ps2.into_trie(&mut loader);
        }
    }
    {
        let mut loader = Loader::new(&store[..]);
        for j in junk.iter() {
            let _ = trie.delete(&mut loader, j);
        }
        let ps = match trie.freeze(&mut loader, &mut EmptyCollector) {
            Some(nd) => PersistentState::from(nd),
            None => PersistentState::Empty,
        };
        out.push(hash_of(&ps, &store));
    }
    out
}

struct Mach {
    store: Vec<u8>,
    ps: PersistentState,
    trie: Option<MutableTrie>,
    modified: bool,
    last_hash: Option<String>,
}

struct Snapshot {
    hash: String,
    items: Vec<(Vec<u8>, Vec<u8>)>,
}

impl Mach {
    fn new() -> Self { Mach { store: Vec::new(), ps: PersistentState::Empty, trie: None, modified: false, last_hash: None } }

    fn with_trie<X>(&mut self, f: impl FnOnce(&mut MutableTrie, &mut Loader<&[u8]>) -> X) -> X {
        let Mach { store, ps, trie, modified, .. } = self;
        let mut loader = Loader::new(&store[..]);
        if trie.is_none() {
            *trie = Some(ps.clone().into_trie(&mut loader));
            *modified = false;
        }
        f(trie.as_mut().unwrap(), &mut loader)
    }

    /// Freeze the mutable trie (thawing first if there is none).  Returns the collected size.
    fn freeze(&mut self) -> u64 {
        self.with_trie(|_, _| ());
        let Mach { store, ps, trie, .. } = self;
        let mut loader = Loader::new(&store[..]);
        let t = trie.take().unwrap();
        let mut coll = SizeCollector::default();
        *ps = match t.freeze(&mut loader, &mut coll) {
            Some(n) => PersistentState::from(n),
            None => PersistentState::Empty,
        };
        coll.collect()
    }

    fn settle(&mut self) {
        if self.trie.is_some() {
            self.freeze();
            self.modified = false;
            self.last_hash = None;
        }
    }

    fn snapshot(&self) -> (Snapshot, bool) {
        let (items, ok) = contents(&self.ps, &self.store);
        (Snapshot { hash: hash_of(&self.ps, &self.store), items }, ok)
    }

    fn compare(&self, before: &Snapshot) -> String {
        let (after, ok) = self.snapshot();
        let mut s = String::new();
        if after.hash != before.hash {
            s.push_str("!HASH");
        }
        if after.items != before.items {
            s.push_str("!CONTENTS");
        }
        if !ok {
            s.push_str("!LOOKUP");
        }
        s
    }

    fn step(&mut self, op: &Op) -> String {
        match op {
            Op::Insert(k, v) => {
                self.modified = true;
                let r = self.with_trie(|t, l| t.insert(l, k, v.clone()).map(|(_, e)| e));
                self.modified = true;
                match r {
                    Ok(e) => format!("{}", e as u8),
                    Err(_) => "L".into(),
                }
            }
            Op::Delete(k) => {
                let r = self.with_trie(|t, l| t.delete(l, k));
                match r {
                    Ok(b) => {
                        if b {
                            self.modified = true;
                        }
                        format!("{}", b as u8)
                    }
                    Err(_) => "L".into(),
                }
            }
            Op::DeletePrefix(k) => {
                let r = self.with_trie(|t, l| t.verif_delete_prefix(l, k));
                match r {
                    Ok(b) => {
                        if b {
                            self.modified = true;
                        }
                        format!("{}", b as u8)
                    }
                    Err(_) => "L".into(),
                }
            }
            Op::Get(k) => self.with_trie(|t, l| match t.get_entry(l, k) {
                None => "-".into(),
                Some(e) => match t.with_entry(e, l, |x| x.to_vec()) {
                    Some(v) => format!("={}", hex(&v)),
                    None => "=~".into(),
                },
            }),
            Op::Mut(k, v) => {
                let r = self.with_trie(|t, l| match t.get_entry(l, k) {
                    None => None,
                    Some(e) => t.verif_get_mut(e, l).map(|r| std::mem::replace(r, v.clone())),
                });
                match r {
                    Some(old) => {
                        self.modified = true;
                        format!("={}", hex(&old))
                    }
                    None => "-".into(),
                }
            }
            Op::Iter(k) => self.with_trie(|t, l| match t.verif_iter(l, k) {
                Err(_) => "E".into(),
                Ok(None) => "n0".into(),
                Ok(Some(mut it)) => {
                    let mut n = 0;
                    while t.verif_next(l, &mut it).is_some() {
                        n += 1;
                    }
                    t.verif_delete_iter(&it);
                    format!("n{}", n)
                }
            }),
            Op::NewGen => self.with_trie(|t, _| {
                t.verif_new_generation();
                format!("g{}", t.verif_num_generations())
            }),
            Op::Normalize(r) => self.with_trie(|t, _| {
                t.verif_normalize(*r as u32);
                format!("g{}", t.verif_num_generations())
            }),
            Op::Freeze => {
                let was_alive = self.trie.is_some();
                let modified = self.modified && was_alive;
                let collected = self.freeze();
                self.modified = false;
                let (snap, ok) = self.snapshot();
                let mut s = format!("h{},c{},{}", snap.hash, collected, dump_str(&snap.items));
                if !ok {
                    s.push_str("!LOOKUP");
                }
                // direct oracles on the implementation alone
                if !modified {
                    if collected != 0 {
                        s.push_str("!CHARGED");
                    }
                    if let Some(h) = &self.last_hash {
                        if h != &snap.hash {
                            s.push_str("!REHASH");
                        }
                    }
                }
                let hs = rebuild_hashes(&snap.items);
                if hs.iter().any(|h| h != &snap.hash) {
                    s.push_str(&format!("!ORDER[{}]", hs.join("/")));
                }
                self.last_hash = Some(snap.hash);
                s
            }
            Op::Store | Op::Load => {
                self.settle();
                let (before, _) = self.snapshot();
                let r = self.ps.store_update(&mut self.store).expect("store_update");
                if let Op::Load = op {
                    let mut loader = Loader::new(&self.store[..]);
                    self.ps = PersistentState::load_from_location(&mut loader, r).expect("load_from_location");
                }
                let mut s = format!("s{}:{}:{}:{}", root_ref(&self.ps), u64::from(r), self.store.len(), digest16(&self.store));
                s.push_str(&self.compare(&before));
                if verbose() {
                    s.push_str(&format!("|{}", hex(&self.store)));
                }
                s
            }
            Op::Cache => {
                self.settle();
                let (before, _) = self.snapshot();
                {
                    let Mach { store, ps, .. } = self;
                    let mut loader = Loader::new(&store[..]);
                    ps.cache(&mut loader);
                }
                format!("c{}", self.compare(&before))
            }
            Op::Serial => {
                self.settle();
                let (before, _) = self.snapshot();
                let mut out = Vec::new();
                {
                    let mut loader = Loader::new(&self.store[..]);
                    self.ps.serialize(&mut loader, &mut out).expect("serialize");
                }
                let mut src = &out[..];
                let ps2 = PersistentState::deserialize(&mut src).expect("deserialize");
                let trailing = !src.is_empty();
                self.ps = ps2;
                let mut s = format!("z{}:{}", out.len(), digest16(&out));
                // the deserialised state lives in memory: it must not need the store
                let (mem_items, mem_ok) = contents(&self.ps, &[]);
                if mem_items != before.items || !mem_ok || hash_of(&self.ps, &[]) != before.hash {
                    s.push_str("!INMEMORY");
                }
                if trailing {
                    s.push_str("!TRAILING");
                }
                s.push_str(&self.compare(&before));
                if verbose() {
                    s.push_str(&format!("|{}", hex(&out)));
                }
                s
            }
            Op::Migrate => {
                self.settle();
                let (before, _) = self.snapshot();
                let mut ns: Vec<u8> = Vec::new();
                let ps2 = {
                    let mut loader = Loader::new(&self.store[..]);
                    self.ps.migrate(&mut ns, &mut loader).expect("migrate")
                };
                // the source state must still be readable with its own store (migrate must not clobber shared links)
                let src_ok = guarded(|| {
                    let (items, ok) = contents(&self.ps, &self.store);
                    ok && items == before.items && hash_of(&self.ps, &self.store) == before.hash
                })
                .unwrap_or(false);
                self.ps = ps2;
                self.store = ns;
                let mut s = format!("x{}:{}:{}", root_ref(&self.ps), self.store.len(), digest16(&self.store));
                if !src_ok {
                    s.push_str("!SOURCE");
                }
                s.push_str(&self.compare(&before));
                if verbose() {
                    s.push_str(&format!("|{}", hex(&self.store)));
                }
                s
            }
        }
    }
}

fn run_history(ops: &[Op]) -> (Vec<String>, Option<String>) {
    let mut m = Mach::new();
    let mut outs = Vec::new();
    for op in ops {
        match guarded(|| m.step(op)) {
            Ok(s) => outs.push(s),
            Err(e) => {
                outs.push("PANIC".into());
                return (outs, Some(e));
            }
        }
    }
    (outs, None)
}

// ------------------------------------------------------------------------------------ generator
// (key universe and value lengths as in the C03 harness)

struct KeyUniverse {
    keys: Vec<Vec<u8>>,
}

const SPECIAL: [u8; 10] = [0x00, 0xff, 0x10, 0x01, 0x0f, 0xf0, 0x11, 0xab, 0x80, 0x7f];

impl KeyUniverse {
    fn new(rng: &mut Rng) -> Self {
        let mut keys: Vec<Vec<u8>> = Vec::new();
        let nbase = 1 + rng.below(3);
        for _ in 0..nbase {
            let blen = match rng.below(10) {
                0 => 0,
                1..=5 => 1 + rng.below(3) as usize,
                6..=7 => 4 + rng.below(6) as usize,
                8 => 30 + rng.below(6) as usize,
                _ => 60 + rng.below(10) as usize,
            };
            let base: Vec<u8> = (0..blen).map(|_| if rng.chance(2, 3) { *rng.pick(&SPECIAL) } else { rng.next() as u8 }).collect();
            keys.push(base.clone());
            let b = if rng.chance(1, 2) { *rng.pick(&SPECIAL) } else { rng.next() as u8 };
            let nvar = 1 + rng.below(5);
            for _ in 0..nvar {
                let mut k = base.clone();
                match rng.below(8) {
                    0 => k.push(b),
                    1 => k.push(b ^ 0x01),
                    2 => k.push(b ^ 0x10),
                    3 => {
                        k.push(b);
                        k.push(*rng.pick(&SPECIAL));
                    }
                    4 => {
                        k.push(b);
                        let n = 1 + rng.below(4);
                        for _ in 0..n {
                            k.push(*rng.pick(&SPECIAL));
                        }
                    }
                    5 => {
                        let n = rng.below(k.len() as u64 + 1) as usize;
                        k.truncate(n);
                    }
                    6 => {
                        if let Some(l) = k.last_mut() {
                            *l ^= if rng.chance(1, 2) { 0x01 } else { 0x10 };
                        } else {
                            k.push(0);
                        }
                    }
                    _ => {
                        k.push(b ^ 0x11);
                        k.push(b);
                    }
                }
                keys.push(k);
            }
        }
        // fan-out: up to 16 children below one node (branching on the high or on the low nibble)
        if rng.chance(1, 3) {
            let base = rng.pick(&keys).clone();
            let high = rng.chance(1, 2);
            let fixed = rng.next() as u8;
            let n = 3 + rng.below(14);
            for _ in 0..n {
                let i = rng.below(16) as u8;
                let mut k = base.clone();
                k.push(if high { (i << 4) | (fixed & 0x0f) } else { (fixed & 0xf0) | i });
                if rng.chance(1, 4) {
                    k.push(*rng.pick(&SPECIAL));
                }
                keys.push(k);
            }
        }
        if rng.chance(1, 3) {
            keys.push(vec![]);
        }
        keys.sort();
        keys.dedup();
        KeyUniverse { keys }
    }

    fn key(&self, rng: &mut Rng) -> Vec<u8> {
        if rng.chance(9, 10) {
            rng.pick(&self.keys).clone()
        } else {
            let mut k = rng.pick(&self.keys).clone();
            match rng.below(4) {
                0 => k.push(rng.next() as u8),
                1 => {
                    let n = rng.below(k.len() as u64 + 1) as usize;
                    k.truncate(n);
                }
                2 => {
                    if let Some(l) = k.last_mut() {
                        *l = l.wrapping_add(1);
                    }
                }
                _ => k = rng.bytes(rng.clone().below(4) as usize),
            }
            k
        }
    }

    fn prefix(&self, rng: &mut Rng) -> Vec<u8> {
        let mut k = self.key(rng);
        match rng.below(6) {
            0 => k.clear(),
            1 | 2 => {
                let n = rng.below(k.len() as u64 + 1) as usize;
                k.truncate(n);
            }
            _ => {}
        }
        k
    }
}

fn value(rng: &mut Rng) -> Vec<u8> {
    let len = match rng.below(12) {
        0 => 0,
        1 | 2 => 1,
        3 => 64,
        4 => 65,
        5 => 300,
        6 => 63,
        7 => 66,
        _ => rng.below(12) as usize,
    };
    rng.bytes(len)
}

fn gen_history(rng: &mut Rng, maxlen: u64) -> Vec<Op> {
    let uni = KeyUniverse::new(rng);
    let n = (match rng.below(10) {
        0..=3 => 2 + rng.below(15),
        4..=7 => 15 + rng.below(50),
        _ => 60 + rng.below(maxlen.saturating_sub(60).max(1)),
    })
    .min(maxlen) as usize;
    // insert delete delprefix get mut iter newgen normalize freeze store load cache serial migrate
    let w: [u64; 14] = [30, 12, 4, 5, 6, 3, 4, 4, 10, 5, 5, 3, 3, 3];
    let total: u64 = w.iter().sum();
    let warm = rng.below(8) as usize;
    let mut ops: Vec<Op> = Vec::with_capacity(n + 4);
    let mut present: Vec<Vec<u8>> = Vec::new();
    let mut gens = 1usize;
    while ops.len() < n {
        let mut pick = rng.below(total);
        let mut c = 0;
        for (i, x) in w.iter().enumerate() {
            if pick < *x {
                c = i;
                break;
            }
            pick -= x;
        }
        if ops.len() < warm {
            c = 0;
        }
        let known = |rng: &mut Rng, present: &Vec<Vec<u8>>, uni: &KeyUniverse| -> Vec<u8> {
            if !present.is_empty() && rng.chance(3, 4) { rng.pick(present).clone() } else { uni.key(rng) }
        };
        match c {
            0 => {
                let k = uni.key(rng);
                present.push(k.clone());
                ops.push(Op::Insert(k, value(rng)));
            }
            1 => ops.push(Op::Delete(known(rng, &present, &uni))),
            2 => ops.push(Op::DeletePrefix(uni.prefix(rng))),
            3 => ops.push(Op::Get(known(rng, &present, &uni))),
            4 => ops.push(Op::Mut(known(rng, &present, &uni), value(rng))),
            5 => ops.push(Op::Iter(uni.prefix(rng))),
            6 => {
                gens += 1;
                ops.push(Op::NewGen);
            }
            7 => {
                let r = if rng.chance(1, 10) { gens + rng.below(2) as usize } else { rng.below(gens as u64) as usize };
                gens = gens.min(r + 1);
                ops.push(Op::Normalize(r));
            }
            8 => {
                gens = 1;
                ops.push(Op::Freeze);
                // refreeze patterns: nothing / only reads / one key modified
                match rng.below(5) {
                    0 => ops.push(Op::Freeze),
                    1 => {
                        for _ in 0..1 + rng.below(3) {
                            if rng.chance(1, 2) {
                                ops.push(Op::Get(known(rng, &present, &uni)));
                            } else {
                                ops.push(Op::Iter(uni.prefix(rng)));
                            }
                        }
                        ops.push(Op::Freeze);
                    }
                    2 => {
                        let k = known(rng, &present, &uni);
                        match rng.below(3) {
                            0 => ops.push(Op::Insert(k, value(rng))),
                            1 => ops.push(Op::Mut(k, value(rng))),
                            _ => ops.push(Op::Delete(k)),
                        }
                        ops.push(Op::Freeze);
                    }
                    _ => {}
                }
            }
            9 => {
                gens = 1;
                ops.push(Op::Store)
            }
            10 => {
                gens = 1;
                ops.push(Op::Load)
            }
            11 => {
                gens = 1;
                ops.push(Op::Cache)
            }
            12 => {
                gens = 1;
                ops.push(Op::Serial)
            }
            _ => {
                gens = 1;
                ops.push(Op::Migrate)
            }
        }
    }
    // every history ends with a freeze; half of them with a persistence round and another freeze
    ops.push(Op::Freeze);
    if rng.chance(1, 2) {
        ops.push(match rng.below(5) {
            0 => Op::Store,
            1 => Op::Load,
            2 => Op::Serial,
            3 => Op::Migrate,
            _ => Op::Cache,
        });
        ops.push(Op::Freeze);
    }
    ops
}

fn emit(id: &str, ops: &[Op], stats: &mut BTreeMap<String, u64>) {
    let (outs, panic) = run_history(ops);
    println!("C {} {}", id, ops.iter().map(|o| o.show()).collect::<Vec<_>>().join(";"));
    println!("R {} {}", id, outs.join(";"));
    if let Some(p) = panic {
        println!("O {} {}", id, serde_json::json!({"panic": p}));
    }
    for op in ops {
        *stats.entry(format!("op_{}", op.tag())).or_insert(0) += 1;
    }
    let mut nf = 0;
    for (op, out) in ops.iter().zip(outs.iter()) {
        if let Op::Freeze = op {
            nf += 1;
            if out.contains(",c0,") {
                *stats.entry("freeze_collected_0".into()).or_insert(0) += 1;
            }
            let entries = if out.contains("{}") { 0 } else { out.matches('=').count() };
            let b = match entries {
                0 => "frozen_entries_0",
                1..=3 => "frozen_entries_1_3",
                4..=10 => "frozen_entries_4_10",
                _ => "frozen_entries_11_plus",
            };
            *stats.entry(b.into()).or_insert(0) += 1;
        }
        if out.contains('!') || out == "PANIC" {
            *stats.entry("flagged_outputs".into()).or_insert(0) += 1;
        }
    }
    let lb = match ops.len() {
        0..=17 => "len_1_17",
        18..=66 => "len_18_66",
        _ => "len_67_plus",
    };
    *stats.entry(lb.into()).or_insert(0) += 1;
    *stats.entry("freezes".into()).or_insert(0) += nf;
}

fn census_of(ps: &PersistentState) -> [u64; 7] {
    match ps {
        PersistentState::Empty => [0; 7],
        PersistentState::Root(r) => concordium_smart_contract_engine::v1::trie::low_level::verif_hooks_status::verif_status_census(r),
    }
}

/// One case of the status run.  Values are one byte repeated (short text for the Coq side).
fn status_case(id: &str, rng: &mut Rng, stats: &mut BTreeMap<String, u64>) {
    let uni = KeyUniverse::new(rng);
    let nkeys = 1 + rng.below(7) as usize;
    let mut items: BTreeMap<Vec<u8>, (u8, usize)> = BTreeMap::new();
    for _ in 0..nkeys {
        let mut k = uni.key(rng);
        k.truncate(12);
        let len = match rng.below(8) {
            0 => 0,
            1 => 64,
            2 => 65,
            3 => 70,
            4 => 63,
            _ => rng.below(6) as usize,
        };
        items.insert(k, (rng.next() as u8, len));
    }
    let direct_only = rng.chance(1, 4);
    let nops = 3 + rng.below(8);
    let mut ops = String::new();
    for _ in 0..nops {
        let c = match rng.below(if direct_only { 12 } else { 10 }) {
            0..=2 => 'S',
            3..=4 => 'L',
            5..=6 => 'C',
            7 => 'X',
            8 => 'Z',
            9 => 'S',
            _ => 'M',
        };
        ops.push(c);
    }
    let desc: Vec<String> =
        items.iter().map(|(k, (b, n))| format!("{}:{}*{}", hex(k), b, n)).collect();
    println!("K {} {};{}", id, desc.join(","), ops);
    let res = guarded(|| {
        let kv: Vec<(Vec<u8>, Vec<u8>)> = items.iter().map(|(k, (b, n))| (k.clone(), vec![*b; *n])).collect();
        let mut ps = PersistentState::from_iterator(kv.iter().map(|(k, v)| (&k[..], v.clone())));
        let mut store: Vec<u8> = Vec::new();
        let mut hash = hash_of(&ps, &store);
        let mut outs: Vec<String> = Vec::new();
        let mut mcount = 0u8;
        for c in ops.chars() {
            let before = census_of(&ps);
            let before_len = store.len();
            let mut flags = String::new();
            match c {
                'S' | 'L' => {
                    let r = ps.store_update(&mut store).expect("store_update");
                    let settled = before[1] <= 1 && before[4] == 0 && !matches!(ps, PersistentState::Empty);
                    if settled {
                        // nothing in memory below the root: only the root record (Memory root) and the top record
                        let n = store.len();
                        let x = u64::from_be_bytes(store[n - 8..].try_into().unwrap()) as usize;
                        let root_mem = before[1] == 1;
                        if root_mem {
                            let reclen = u64::from_be_bytes(store[x..x + 8].try_into().unwrap()) as usize;
                            if x != before_len || x + 8 + reclen + 17 != n {
                                flags.push_str("!REWRITE");
                            }
                        } else if n != before_len + 17 {
                            flags.push_str("!REWRITE");
                        }
                    }
                    if c == 'L' {
                        let mut loader = Loader::new(&store[..]);
                        ps = PersistentState::load_from_location(&mut loader, r).expect("load_from_location");
                    }
                    let a = census_of(&ps);
                    if a[1] > 1 || a[4] != 0 {
                        flags.push_str("!SETTLED");
                    }
                }
                'C' => {
                    let mut loader = Loader::new(&store[..]);
                    ps.cache(&mut loader);
                    let a = census_of(&ps);
                    if a[0] != 0 || a[3] != 0 {
                        flags.push_str("!NOTCACHED");
                    }
                    if a[0] + a[1] + a[2] < before[0] + before[1] + before[2] {
                        flags.push_str("!LOST");
                    }
                }
                'X' => {
                    let mut ns: Vec<u8> = Vec::new();
                    let ps2 = {
                        let mut loader = Loader::new(&store[..]);
                        ps.migrate(&mut ns, &mut loader).expect("migrate")
                    };
                    if census_of(&ps) != before {
                        flags.push_str("!SOURCESTATUS");
                    }
                    ps = ps2;
                    store = ns;
                }
                'Z' => {
                    let mut out = Vec::new();
                    {
                        let mut loader = Loader::new(&store[..]);
                        ps.serialize(&mut loader, &mut out).expect("serialize");
                    }
                    if census_of(&ps) != before {
                        flags.push_str("!SOURCESTATUS");
                    }
                    let mut src = &out[..];
                    ps = PersistentState::deserialize(&mut src).expect("deserialize");
                }
                _ => {
                    // thaw, modify one key, freeze (not part of the Coq status machine)
                    mcount = mcount.wrapping_add(1);
                    let mut loader = Loader::new(&store[..]);
                    let mut t = ps.clone().into_trie(&mut loader);
                    let k = kv[(mcount as usize) % kv.len()].0.clone();
                    if mcount % 3 == 0 {
                        let _ = t.delete(&mut loader, &k);
                    } else {
                        let _ = t.insert(&mut loader, &k, vec![mcount; if mcount % 2 == 0 { 70 } else { 3 }]);
                    }
                    ps = match t.freeze(&mut loader, &mut EmptyCollector) {
                        Some(n) => PersistentState::from(n),
                        None => PersistentState::Empty,
                    };
                    hash = hash_of(&ps, &store);
                }
            }
            // reading (hash / iteration / lookup) must not change any status, and the hash must be kept
            let a = census_of(&ps);
            if hash_of(&ps, &store) != hash {
                flags.push_str("!HASH");
            }
            let _ = contents(&ps, &store);
            if census_of(&ps) != a {
                flags.push_str("!READCHANGES");
            }
            outs.push(format!("{},{},{},{},{},{},{},{}{}", a[0], a[1], a[2], a[3], a[4], a[5], a[6], store.len(), flags));
        }
        outs
    });
    *stats.entry(if direct_only { "direct_only_cases".into() } else { "model_cases".into() }).or_insert(0) += 1;
    *stats.entry("status_ops".into()).or_insert(0) += nops;
    for c in ops.chars() {
        *stats.entry(format!("status_op_{}", c)).or_insert(0) += 1;
    }
    match res {
        Ok(outs) => println!("R {} {}", id, outs.join("|")),
        Err(e) => {
            println!("R {} PANIC", id);
            println!("O {} {}", id, e.replace('\n', " "));
        }
    }
}

fn directed() {
    // 0. the stem-length tag at the u32 boundary (write_node_path_and_value_tag writes `stem_len as u32`)
    {
        use concordium_smart_contract_engine::v1::trie::low_level::verif_hooks_status::verif_path_tag;
        let mut m = serde_json::Map::new();
        for n in [0u64, 1, 63, 64, 65, 255, 65535, 65536, 4294967294, 4294967295, 4294967296, 4294967297, 4294967301, 8589934592] {
            for nv in [false, true] {
                let r = guarded(|| hex(&verif_path_tag(n as usize, nv))).unwrap_or_else(|_| "PANIC".into());
                m.insert(format!("{}:{}", n, if nv { 0 } else { 1 }), serde_json::Value::String(r));
            }
        }
        println!("D path_tag {}", serde_json::Value::Object(m));
    }
    // 1. refreeze of an unmodified thawed state: same root, nothing collected; one modified key: only its path
    let items: Vec<(Vec<u8>, Vec<u8>)> = vec![
        (b"aa".to_vec(), vec![1]),
        (b"ab".to_vec(), vec![2; 70]),
        (b"abc".to_vec(), vec![3]),
        (b"b".to_vec(), vec![4]),
        (b"ba".to_vec(), vec![5]),
    ];
    let ps = PersistentState::from_iterator(items.iter().map(|(k, v)| (&k[..], v.clone())));
    let store: Vec<u8> = Vec::new();
    let mut loader = Loader::new(&store[..]);
    let mut t = ps.clone().into_trie(&mut loader);
    for (k, _) in items.iter() {
        let _ = t.get_entry(&mut loader, k);
    }
    let mut c = SizeCollector::default();
    let ps2 = match t.freeze(&mut loader, &mut c) {
        Some(n) => PersistentState::from(n),
        None => PersistentState::Empty,
    };
    let unchanged = c.collect();
    let mut t = ps2.clone().into_trie(&mut loader);
    t.insert(&mut loader, b"abc", vec![9]).unwrap();
    let mut c = SizeCollector::default();
    let ps3 = match t.freeze(&mut loader, &mut c) {
        Some(n) => PersistentState::from(n),
        None => PersistentState::Empty,
    };
    let one_key = c.collect();
    println!(
        "D refreeze {}",
        serde_json::json!({"unchanged_collected": unchanged, "same_hash": hash_of(&ps, &store) == hash_of(&ps2, &store),
                           "one_key_collected": one_key, "hash_changed": hash_of(&ps3, &store) != hash_of(&ps2, &store)})
    );
    // 1b. the public MutableState API: thaw / get_inner / make_fresh_generation (rolled back) / freeze with a collector
    let r = guarded(|| {
        use concordium_smart_contract_engine::v1::trie::MutableState;
        let store: Vec<u8> = Vec::new();
        let mut loader = Loader::new(&store[..]);
        let mut ms = ps.thaw();
        {
            let inner = ms.get_inner(&mut loader);
            inner.lock().insert(&mut loader, b"zz", vec![7; 65]).unwrap();
        }
        {
            let mut inner_gen: MutableState = ms.make_fresh_generation(&mut loader);
            let inner = inner_gen.get_inner(&mut loader);
            inner.lock().insert(&mut loader, b"dropped", vec![1]).unwrap();
            let _ = inner.lock().delete(&mut loader, b"aa");
        }
        let mut c = SizeCollector::default();
        let frozen = ms.freeze(&mut loader, &mut c);
        let collected = c.collect();
        let mut expect = items.clone();
        expect.push((b"zz".to_vec(), vec![7; 65]));
        let reference = PersistentState::from_iterator(expect.iter().map(|(k, v)| (&k[..], v.clone())));
        let same = hash_of(&frozen, &store) == hash_of(&reference, &store) && contents(&frozen, &store).0 == contents(&reference, &store).0;
        // refreeze through the API without touching anything
        let mut ms2 = frozen.thaw();
        let _ = ms2.get_inner(&mut loader);
        let mut c2 = SizeCollector::default();
        let again = ms2.freeze(&mut loader, &mut c2);
        (same, collected, c2.collect(), hash_of(&again, &store) == hash_of(&frozen, &store))
    });
    match r {
        Ok((same, collected, again, same_hash)) => println!(
            "D api {}",
            serde_json::json!({"rollback_invisible_and_hash_canonical": same, "collected": collected,
                               "refreeze_collected": again, "refreeze_same_hash": same_hash})
        ),
        Err(e) => println!("D api {}", serde_json::json!({"panic": e})),
    }
    // 2. `migrate` must leave the source state readable with its own store (fixed finding: it used to overwrite the
    //    shared child links with references into the new store); three shapes of source: in memory, stored, cached
    for (name, shape) in [("memory", 0), ("stored", 1), ("cached", 2)] {
        let r = guarded(|| {
            let mut old_store: Vec<u8> = Vec::new();
            let mut ps = PersistentState::from_iterator(items.iter().map(|(k, v)| (&k[..], v.clone())));
            if shape >= 1 {
                let r = ps.store_update(&mut old_store).unwrap();
                let mut loader = Loader::new(&old_store[..]);
                ps = PersistentState::load_from_location(&mut loader, r).unwrap();
                if shape == 2 {
                    ps.cache(&mut loader);
                }
            }
            let before = contents(&ps, &old_store).0;
            let hash_before = hash_of(&ps, &old_store);
            let mut new_store: Vec<u8> = Vec::new();
            let migrated = {
                let mut loader = Loader::new(&old_store[..]);
                ps.migrate(&mut new_store, &mut loader).unwrap()
            };
            let new_ok = contents(&migrated, &new_store).0 == before && hash_of(&migrated, &new_store) == hash_before;
            let src_ok = guarded(|| contents(&ps, &old_store).0 == before && hash_of(&ps, &old_store) == hash_before).unwrap_or(false);
            (new_ok, src_ok)
        });
        match r {
            Ok((new_ok, src_ok)) => println!(
                "D migrate_source_{} {}",
                name,
                serde_json::json!({"migrated_state_ok": new_ok, "source_readable_with_old_store": src_ok})
            ),
            Err(e) => println!("D migrate_source_{} {}", name, serde_json::json!({"panic": e})),
        }
    }
}

fn main() {
    quiet_panics();
    let args: Vec<String> = std::env::args().collect();
    let mode = args.get(1).map(|s| s.as_str()).unwrap_or("");
    match mode {
        "hist" => {
            let seed: u64 = args[2].parse().unwrap();
            let n: u64 = args[3].parse().unwrap();
            let maxlen: u64 = args.get(4).map(|s| s.parse().unwrap()).unwrap_or(180);
            let mut rng = Rng::new(seed ^ 0xC04);
            let mut stats: BTreeMap<String, u64> = BTreeMap::new();
            for i in 0..n {
                let ops = gen_history(&mut rng, maxlen);
                emit(&format!("c{}", i), &ops, &mut stats);
            }
            stats.insert("histories".into(), n);
            println!("S {}", serde_json::to_string(&stats).unwrap());
        }
        "replay" => {
            let mut stats = BTreeMap::new();
            for line in std::io::stdin().lock().lines() {
                let line = line.unwrap();
                if let Some(rest) = line.strip_prefix("C ") {
                    let (id, body) = rest.split_once(' ').unwrap_or((rest, ""));
                    let ops: Vec<Op> = body.split(';').filter(|s| !s.is_empty()).map(Op::parse).collect();
                    emit(id, &ops, &mut stats);
                }
            }
        }
        "directed" => directed(),
        "bigkey" => {
            // NOT part of the check (needs ~10 GiB): one key of `n` bytes (default 2^31: a stem of 2^32 nibbles, one more
            // than `stem_len as u32` can hold); store_update, load_from_location, lookup.
            let n: usize = args.get(2).map(|s| s.parse().unwrap()).unwrap_or(1usize << 31);
            let key = vec![0xabu8; n];
            let r = guarded(|| {
                let empty: &[u8] = &[];
                let mut l0 = Loader::new(empty);
                let mut t = PersistentState::Empty.into_trie(&mut l0);
                t.insert(&mut l0, &key, vec![7u8; 3]).unwrap();
                let mut ps = match t.freeze(&mut l0, &mut EmptyCollector) {
                    Some(n) => PersistentState::from(n),
                    None => PersistentState::Empty,
                };
                let h0 = hash_of(&ps, empty);
                let look0 = ps.lookup(&mut l0, &key);
                let mut store: Vec<u8> = Vec::new();
                let r = ps.store_update(&mut store).expect("store_update");
                let head = hex(&store[8..8 + 48.min(store.len() - 8)]);
                let slen = store.len();
                let after = guarded(|| {
                    let mut loader = Loader::new(&store[..]);
                    let ps2 = PersistentState::load_from_location(&mut loader, r).expect("load_from_location");
                    let h2 = hex(ps2.hash(&mut loader).as_ref());
                    let look2 = ps2.lookup(&mut loader, &key);
                    (h2, look2)
                });
                serde_json::json!({"key_bytes": n, "hash_before": h0, "lookup_before": look0.map(|v| hex(&v)),
                    "store_len": slen, "root_record_head": head,
                    "after_reload": match after {
                        Ok((h2, l2)) => serde_json::json!({"hash": h2, "lookup": l2.map(|v| hex(&v))}),
                        Err(e) => serde_json::json!({"panic": e}),
                    }})
            });
            match r {
                Ok(j) => println!("D bigkey {}", j),
                Err(e) => println!("D bigkey {}", serde_json::json!({"panic": e})),
            }
        }
        "status" => {
            let seed: u64 = args[2].parse().unwrap();
            let n: u64 = args[3].parse().unwrap();
            let mut rng = Rng::new(seed ^ 0xC04_57A7);
            let mut stats: BTreeMap<String, u64> = BTreeMap::new();
            for i in 0..n {
                status_case(&format!("k{}", i), &mut rng, &mut stats);
            }
            println!("S {}", serde_json::to_string(&stats).unwrap());
        }
        _ => {
            eprintln!("usage: c04 hist|replay|directed ...");
            std::process::exit(2);
        }
    }
}
