//! C07 harness: sigma protocols "in the exponent".
//!
//! Every public group element is built as a KNOWN multiple of the generator; the real Rust
//! `prove` / `verify` run on real BLS12-381 points; the output carries the discrete logs, the
//! witness, the challenge, the serialized response and the reconstructed commit message, so that
//! the Coq model (Z mod r) can predict every commit-message element, the transcript bytes and
//! acceptance.  A perturbation stream (every public field, context, challenge, every response
//! component, transcript kind) is evaluated on the implementation alone (must reject).
#![allow(deprecated)]
use concordium_base::{
    common::{from_bytes, to_bytes, Serial},
    curve_arithmetic::{arkworks_instances::ArkGroup, Curve, Field, Pairing, Secret, Value},
    id::constants::IpPairing,
    ps_sig::{BlindedSignature, BlindingRandomness, PublicKey as PsPk, Signature as PsSig},
    elgamal::{Cipher, PublicKey as ElgPk, Randomness as ElgRand},
    pedersen_commitment::{Commitment, CommitmentKey, Randomness as PedRand},
    random_oracle::{RandomOracle, TranscriptProtocol, TranscriptProtocolV1},
    sigma_protocols::{
        aggregate_dlog::AggregateDlog,
        com_enc_eq::{ComEncEq, ComEncEqSecret},
        com_eq::{ComEq, ComEqSecret},
        com_eq_different_groups::{ComEqDiffGroups, ComEqDiffGroupsSecret},
        com_eq_sig::{ComEqSig, ComEqSigSecret},
        ps_sig_known::{PsSigKnown, PsSigMsg, PsSigWitness, PsSigWitnessMsg},
        com_ineq::{prove_com_ineq, verify_com_ineq},
        com_lin::{ComLin, ComLinSecret},
        com_mult::{ComMult, ComMultSecret},
        common::{prove, verify, AndAdapter, ReplicateAdapter, SigmaProof, SigmaProtocol},
        dlog::{Dlog, DlogSecret},
        enc_trans::{ElgDec, EncTrans, EncTransSecret},
        vcom_eq::VecComEq,
        verif_dlogaggequal::DlogAndAggregateDlogsEqual,
    },
};
use hlib::{guarded, hex, quiet_panics, unhex, Rng};
use rand::{rngs::StdRng, SeedableRng};
use serde_json::{json, Value as J};
use std::{collections::BTreeMap, io::BufRead, rc::Rc};

type C = ArkGroup<ark_bls12_381::G1Projective>;
type S = <C as Curve>::Scalar;

fn pt(a: &S) -> C { C::one_point().mul_by_scalar(a) }
type G2 = <IpPairing as Pairing>::G2;
fn pt2(a: &S) -> G2 { G2::one_point().mul_by_scalar(a) }
fn sh(x: &S) -> String { hex(&to_bytes(x)) }
fn s_of_hex(h: &str) -> S { from_bytes::<S, _>(&mut std::io::Cursor::new(unhex(h))).expect("scalar") }
fn add(a: &S, b: &S) -> S { let mut x = *a; x.add_assign(b); x }
fn mul(a: &S, b: &S) -> S { let mut x = *a; x.mul_assign(b); x }
fn su(n: u64) -> S { C::scalar_from_u64(n) }

/// append one element to the vector described by `e` inside the serialized response `rb`
fn extend_vec(rb: &[u8], e: &(String, usize, usize, usize, Vec<u8>)) -> Vec<u8> {
    let (_, poff, plen, at, extra) = e;
    let mut out = rb[..*at].to_vec(); out.extend_from_slice(extra); out.extend_from_slice(&rb[*at..]);
    let mut cnt: u64 = 0; for b in &rb[*poff..*poff + *plen] { cnt = (cnt << 8) | *b as u64; }
    cnt += 1;
    for i in 0..*plen { out[*poff + i] = (cnt >> (8 * (*plen - 1 - i))) as u8; }
    out
}
fn junk32() -> Vec<u8> { to_bytes(&su(0x1234567)) }

#[derive(Clone)]
struct Ctx { dom: Vec<u8>, ops: Vec<(Vec<u8>, Option<Vec<u8>>)> }
impl Ctx {
    fn json(&self) -> J {
        json!({"dom": hex(&self.dom), "ops": self.ops.iter().map(|(l, m)| json!([hex(l), m.as_ref().map(|m| hex(m))])).collect::<Vec<_>>()})
    }
}
trait Tk: TranscriptProtocol + Sized { fn mk(dom: &[u8]) -> Self; const NAME: &'static str; }
impl Tk for TranscriptProtocolV1 { fn mk(d: &[u8]) -> Self { TranscriptProtocolV1::with_domain(d) } const NAME: &'static str = "v1"; }
impl Tk for RandomOracle { fn mk(d: &[u8]) -> Self { RandomOracle::domain(d) } const NAME: &'static str = "legacy"; }
fn mk_ro<T: Tk>(c: &Ctx) -> T {
    let mut ro = T::mk(&c.dom);
    for (l, m) in &c.ops {
        match m { Some(m) => ro.append_message(l, m), None => ro.append_label(l) }
    }
    ro
}
fn gen_ctx(r: &mut Rng) -> Ctx {
    let dom = match r.below(4) { 0 => vec![], 1 => b"c07".to_vec(), _ => { let n = r.below(12) as usize; r.bytes(n) } };
    let n = r.below(3);
    let ops = (0..n).map(|_| {
        let ll = r.below(9) as usize;
        let l = r.bytes(ll);
        let m = if r.chance(2, 3) { let ml = r.below(20) as usize; Some(r.bytes(ml)) } else { None };
        (l, m)
    }).collect();
    Ctx { dom, ops }
}

/// One protocol family: statement and secret are rebuilt from flat scalar vectors, so that every
/// public field can be perturbed one at a time.
struct Fam<P: SigmaProtocol> {
    name: String,
    n: usize,
    variant: String,
    pubs: Vec<S>,   // discrete logs of the public group elements (and public scalars), flat
    wit: Vec<S>,
    mk: Box<dyn Fn(&[S]) -> P>,
    mkw: Box<dyn Fn(&[S]) -> P::SecretData>,
    offs: Vec<usize>, // byte offsets of the scalars inside the serialized response
    expect_panic: bool,
    /// truncated-response attack: a statement with one more vector item (junk the prover knows nothing
    /// about); the crafted prover hashes the FULL statement but commits/responds for the small one.
    attack: Option<(Vec<S>, Box<dyn Fn(&[S]) -> P>)>,
    /// the vectors inside the serialized response: (name, offset of the count, bytes of the count, where the
    /// vector ends, one more serialized element).  Used to append a SURPLUS element to one vector at a time.
    ext: Vec<(String, usize, usize, usize, Vec<u8>)>,
}

fn run_kind<P: SigmaProtocol, T: Tk, U: Tk>(f: &Fam<P>, r: &mut Rng, seed: u64) {
    let ctx = gen_ctx(r);
    let stmt = (f.mk)(&f.pubs);
    let mut csprng = StdRng::seed_from_u64(seed ^ r.next());
    let mut base = json!({"p": f.name, "n": f.n, "variant": f.variant, "k": T::NAME, "ctx": ctx.json(),
        "pub": f.pubs.iter().map(sh).collect::<Vec<_>>(),
        "pts": f.pubs.iter().map(|a| hex(&to_bytes(&pt(a)))).collect::<Vec<_>>(),
        "wit": f.wit.iter().map(sh).collect::<Vec<_>>(), "offs": f.offs, "expect_panic": f.expect_panic});
    let o = base.as_object_mut().unwrap();
    let res = guarded(|| {
        let mut ro: T = mk_ro(&ctx);
        let pr = prove(&mut ro, &stmt, (f.mkw)(&f.wit), &mut csprng);
        let post = hex(ro.extract_raw_challenge().as_ref());
        (pr, post)
    });
    let (proof, post) = match res {
        Err(e) => { o.insert("made".into(), json!("PANIC")); o.insert("why".into(), json!(e.clone())); println!("{}", base); return; }
        Ok((None, _)) => { o.insert("made".into(), json!(false)); println!("{}", base); return; }
        Ok((Some(p), post)) => (p, post),
    };
    o.insert("made".into(), json!(true));
    o.insert("chal".into(), json!(hex(proof.challenge.as_ref())));
    let rb = to_bytes(&proof.response);
    o.insert("resp".into(), json!(hex(&rb)));
    o.insert("post".into(), json!(post));
    let c = stmt.get_challenge(&proof.challenge);
    // the commit message as the verifier reconstructs it
    let cm = guarded(|| stmt.extract_commit_message(&c, &proof.response).map(|m| hex(&to_bytes(&m))));
    let cm_hex: Option<String> = match &cm { Ok(Some(h)) => Some(h.clone()), _ => None };
    o.insert("cm".into(), match cm { Ok(Some(h)) => json!(h), Ok(None) => json!(null), Err(_) => json!("PANIC") });
    let vfy = |ctx: &Ctx, pubs: &[S], pr: &SigmaProof<P::Response>| -> J {
        match guarded(|| { let mut ro: T = mk_ro(ctx); let s = (f.mk)(pubs); let ok = verify(&mut ro, &s, pr); (ok, hex(ro.extract_raw_challenge().as_ref())) }) {
            Ok((ok, post)) => json!([ok, post]), Err(_) => json!(["PANIC", ""]) }
    };
    let v = vfy(&ctx, &f.pubs, &proof);
    o.insert("ver".into(), v[0].clone());
    o.insert("vpost".into(), v[1].clone());
    // ---- perturbations: each must be rejected
    let mut pert: Vec<J> = Vec::new();
    let rej = |v: J| -> J { json!(v[0] == json!(false)) };
    for i in 0..f.pubs.len() {
        let mut p2 = f.pubs.clone(); p2[i] = add(&p2[i], &su(1));
        pert.push(json!([format!("pub{}", i), rej(vfy(&ctx, &p2, &proof))]));
    }
    { let mut c2 = ctx.clone(); c2.dom.push(0x41); pert.push(json!(["ctx_domain", rej(vfy(&c2, &f.pubs, &proof))])); }
    { let mut c2 = ctx.clone(); c2.ops.push((b"x".to_vec(), None)); pert.push(json!(["ctx_extra_label", rej(vfy(&c2, &f.pubs, &proof))])); }
    if let Some(i) = ctx.ops.iter().position(|(_, m)| m.as_ref().map_or(false, |m| !m.is_empty())) {
        let mut c2 = ctx.clone(); c2.ops[i].1.as_mut().unwrap()[0] ^= 1; pert.push(json!(["ctx_message_byte", rej(vfy(&c2, &f.pubs, &proof))]));
    }
    if !ctx.ops.is_empty() { let mut c2 = ctx.clone(); c2.ops.remove(0); pert.push(json!(["ctx_drop_op", rej(vfy(&c2, &f.pubs, &proof))])); }
    { // other transcript kind
        let ok = guarded(|| { let mut ro: U = mk_ro(&ctx); verify(&mut ro, &stmt, &proof) });
        pert.push(json!(["other_transcript_kind", json!(ok == Ok(false))]));
    }
    { // challenge: one flipped bit
        let mut cb = proof.challenge.as_ref().to_vec(); let pos = r.below(32) as usize; cb[pos] ^= 1 << r.below(8);
        let mut pb = cb.clone(); pb.extend_from_slice(&rb);
        match from_bytes::<SigmaProof<P::Response>, _>(&mut std::io::Cursor::new(&pb)) {
            Ok(p2) => pert.push(json!([format!("challenge_bit@{}", pos), rej(vfy(&ctx, &f.pubs, &p2))])),
            Err(_) => pert.push(json!(["challenge_bit", true])) }
    }
    for (j, &off) in f.offs.iter().enumerate() {
        let mut rb2 = rb.clone();
        let x = s_of_hex(&hex(&rb[off..off + 32]));
        rb2[off..off + 32].copy_from_slice(&to_bytes(&add(&x, &su(1))));
        let mut pb = proof.challenge.as_ref().to_vec(); pb.extend_from_slice(&rb2);
        match from_bytes::<SigmaProof<P::Response>, _>(&mut std::io::Cursor::new(&pb)) {
            Ok(p2) => {
                // does the verifier's reconstruction change at all?  (it cannot when the base of this
                // response component is the identity point: phi is not injective then)
                let cm2 = guarded(|| stmt.extract_commit_message(&c, &p2.response).map(|m| hex(&to_bytes(&m))));
                let same = match (&cm2, &cm_hex) { (Ok(Some(a)), Some(b)) => a == b, _ => false };
                pert.push(json!([format!("resp{}", j), rej(vfy(&ctx, &f.pubs, &p2)), same])) }
            Err(_) => pert.push(json!([format!("resp{}", j), true, false])) }
    }
    for e in &f.ext { // a SURPLUS element appended to one response vector: must be rejected
        let mut pb = proof.challenge.as_ref().to_vec(); pb.extend_from_slice(&extend_vec(&rb, e));
        match from_bytes::<SigmaProof<P::Response>, _>(&mut std::io::Cursor::new(&pb)) {
            Ok(p2) => pert.push(json!([format!("extend_{}", e.0), rej(vfy(&ctx, &f.pubs, &p2)), false])),
            Err(_) => pert.push(json!([format!("extend_{}", e.0), true, false])) }
    }
    o.insert("pert".into(), json!(pert));
    if let Some((pubs_full, mk_full)) = &f.attack {
        let res = guarded(|| {
            let full = mk_full(pubs_full);
            let (cm, st) = stmt.compute_commit_message(&mut csprng)?;
            let mut ro: T = mk_ro(&ctx);
            full.public(&mut ro);
            ro.append_message("point", &cm);
            let ch = ro.extract_raw_challenge();
            let c = stmt.get_challenge(&ch);
            let resp = stmt.compute_response((f.mkw)(&f.wit), st, &c)?;
            let crafted = SigmaProof { challenge: ch, response: resp };
            let mut ro2: T = mk_ro(&ctx);
            let acc = verify(&mut ro2, &full, &crafted);
            // the same crafted proof with ONE response vector padded back to the full length (the others stay short):
            // catches a verifier that checks only some of the vector lengths and zips the rest
            let cb = to_bytes(&crafted.response);
            let mut padded = vec![];
            for e in &f.ext {
                let mut pb = ch.as_ref().to_vec(); pb.extend_from_slice(&extend_vec(&cb, e));
                let a2 = match from_bytes::<SigmaProof<P::Response>, _>(&mut std::io::Cursor::new(&pb)) {
                    Ok(p2) => { let mut ro3: T = mk_ro(&ctx); json!(verify(&mut ro3, &full, &p2)) } Err(_) => json!(false) };
                padded.push(json!([e.0, a2]));
            }
            Some((acc, padded, hex(ch.as_ref()), hex(&cb)))
        });
        let full_pub: Vec<String> = pubs_full.iter().map(sh).collect();
        o.insert("trunc_attack".into(), match res { Ok(Some((acc, padded, ch, cb))) => json!({"accepted": acc, "padded": padded, "chal": ch, "resp": cb, "pub": full_pub}), Ok(None) => json!({"accepted": false, "note": "prover None"}), Err(e) => json!({"accepted": "PANIC", "why": e}) });
    }
    println!("{}", base);
}

fn run<P: SigmaProtocol>(f: Fam<P>, r: &mut Rng, seed: u64) {
    run_kind::<P, TranscriptProtocolV1, RandomOracle>(&f, r, seed);
    run_kind::<P, RandomOracle, TranscriptProtocolV1>(&f, r, seed);
}

// ---------------------------------------------------------------- scalar generators
#[derive(Clone, Copy, PartialEq)]
enum Var { Random, ZeroWitness, EqualGens, IdentityGen, Small }
impl Var { fn name(self) -> &'static str { match self { Var::Random => "random", Var::ZeroWitness => "zero_witness", Var::EqualGens => "equal_generators", Var::IdentityGen => "identity_generator", Var::Small => "small" } } }
struct Gen<'a> { r: &'a mut Rng, csprng: StdRng, var: Var, first_gen: Option<S> }
impl<'a> Gen<'a> {
    fn rnd(&mut self) -> S { C::generate_scalar(&mut self.csprng) }
    /// discrete log of a generator
    fn gen(&mut self) -> S {
        match self.var {
            Var::EqualGens => { if self.first_gen.is_none() { self.first_gen = Some(self.rnd()); } self.first_gen.unwrap() }
            Var::IdentityGen => { if self.r.chance(1, 3) { su(0) } else { self.rnd() } }
            Var::Small => su(1 + self.r.below(5)),
            _ => self.rnd(),
        }
    }
    /// a witness scalar
    fn w(&mut self) -> S {
        match self.var { Var::ZeroWitness => su(0), Var::Small => su(self.r.below(4)), _ => if self.r.chance(1, 8) { su(self.r.below(3)) } else { self.rnd() } }
    }
}

fn cmm(a: &S) -> Commitment<C> { Commitment(pt(a)) }
fn val(x: &S) -> Value<C> { Value::new(*x) }
fn prand(x: &S) -> PedRand<C> { PedRand::new(*x) }

fn fam_dlog(g: &mut Gen) -> Fam<Dlog<C>> {
    let coeff = g.gen(); let w = g.w();
    Fam { name: "dlog".into(), n: 1, variant: g.var.name().into(), pubs: vec![mul(&w, &coeff), coeff], wit: vec![w],
        mk: Box::new(|p| Dlog { public: pt(&p[0]), coeff: pt(&p[1]) }),
        mkw: Box::new(|w| DlogSecret { secret: val(&w[0]) }), offs: vec![0], expect_panic: false, attack: None, ext: vec![] }
}
fn fam_aggdlog(g: &mut Gen, n: usize) -> Fam<AggregateDlog<C>> {
    let coeff: Vec<S> = (0..n).map(|_| g.gen()).collect(); let ws: Vec<S> = (0..n).map(|_| g.w()).collect();
    let mut public = su(0); for i in 0..n { public = add(&public, &mul(&ws[i], &coeff[i])); }
    let mut pubs = vec![public]; pubs.extend(coeff);
    let pubs_a = pubs.clone(); let junk = g.rnd();
    Fam { name: "aggregate_dlog".into(), n, variant: g.var.name().into(), pubs, wit: ws,
        mk: Box::new(|p| AggregateDlog { public: pt(&p[0]), coeff: p[1..].iter().map(pt).collect() }),
        mkw: Box::new(|w| w.iter().map(|x| Rc::new(*x)).collect()), offs: (0..n).map(|i| 4 + 32 * i).collect(), expect_panic: false,
        attack: Some(({ let mut f = pubs_a.clone(); f.push(junk); f }, Box::new(|p| AggregateDlog { public: pt(&p[0]), coeff: p[1..].iter().map(pt).collect() }))),
        ext: vec![("response".into(), 0, 4, 4 + 32 * n, junk32())] }
}
fn fam_comeq(g: &mut Gen) -> Fam<ComEq<C, C>> {
    let (gk, hk, gg) = (g.gen(), g.gen(), g.gen()); let (a, rr) = (g.w(), g.w());
    let commitment = add(&mul(&a, &gk), &mul(&rr, &hk)); let y = mul(&a, &gg);
    Fam { name: "com_eq".into(), n: 1, variant: g.var.name().into(), pubs: vec![commitment, y, gk, hk, gg], wit: vec![rr, a],
        mk: Box::new(|p| ComEq { commitment: cmm(&p[0]), y: pt(&p[1]), cmm_key: CommitmentKey { g: pt(&p[2]), h: pt(&p[3]) }, g: pt(&p[4]) }),
        mkw: Box::new(|w| ComEqSecret { r: prand(&w[0]), a: val(&w[1]) }), offs: vec![0, 32], expect_panic: false, attack: None, ext: vec![] }
}
fn fam_comenceq(g: &mut Gen) -> Fam<ComEncEq<C>> {
    let (pg, pk, ckg, ckh, hin) = (g.gen(), g.gen(), g.gen(), g.gen(), g.gen()); let (x, er, pr) = (g.w(), g.w(), g.w());
    let e1 = mul(&er, &pg); let e2 = add(&mul(&x, &hin), &mul(&er, &pk)); let cm = add(&mul(&x, &ckg), &mul(&pr, &ckh));
    Fam { name: "com_enc_eq".into(), n: 1, variant: g.var.name().into(), pubs: vec![e1, e2, cm, pg, pk, ckg, ckh, hin], wit: vec![x, er, pr],
        mk: Box::new(|p| ComEncEq { cipher: Cipher(pt(&p[0]), pt(&p[1])), commitment: cmm(&p[2]), pub_key: ElgPk { generator: pt(&p[3]), key: pt(&p[4]) },
            cmm_key: CommitmentKey { g: pt(&p[5]), h: pt(&p[6]) }, encryption_in_exponent_generator: pt(&p[7]) }),
        mkw: Box::new(|w| ComEncEqSecret { value: val(&w[0]), elgamal_rand: ElgRand::new(w[1]), pedersen_rand: prand(&w[2]) }),
        offs: vec![0, 32, 64], expect_panic: false, attack: None, ext: vec![] }
}
fn fam_commult(g: &mut Gen) -> Fam<ComMult<C>> {
    let (gg, hh) = (g.gen(), g.gen()); let (x1, x2, r1, r2, r3) = (g.w(), g.w(), g.w(), g.w(), g.w());
    let c = |x: &S, r: &S| add(&mul(x, &gg), &mul(r, &hh));
    let pubs = vec![c(&x1, &r1), c(&x2, &r2), c(&mul(&x1, &x2), &r3), gg, hh];
    Fam { name: "com_mult".into(), n: 1, variant: g.var.name().into(), pubs, wit: vec![x1, x2, r1, r2, r3],
        mk: Box::new(|p| ComMult { cmms: [cmm(&p[0]), cmm(&p[1]), cmm(&p[2])], cmm_key: CommitmentKey { g: pt(&p[3]), h: pt(&p[4]) } }),
        mkw: Box::new(|w| ComMultSecret { values: [val(&w[0]), val(&w[1])], rands: [prand(&w[2]), prand(&w[3]), prand(&w[4])] }),
        offs: vec![0, 32, 64, 96, 128], expect_panic: false, attack: None, ext: vec![] }
}
fn mk_comlin(n: usize) -> Box<dyn Fn(&[S]) -> ComLin<C>> {
    Box::new(move |p| ComLin { us: p[..n].to_vec(), cmms: p[n..2 * n].iter().map(cmm).collect(), cmm: cmm(&p[2 * n]),
        cmm_key: CommitmentKey { g: pt(&p[2 * n + 1]), h: pt(&p[2 * n + 2]) } })
}
fn fam_comlin(g: &mut Gen, n: usize) -> Fam<ComLin<C>> {
    let (gg, hh) = (g.gen(), g.gen());
    let us: Vec<S> = (0..n).map(|_| g.w()).collect(); let xs: Vec<S> = (0..n).map(|_| g.w()).collect();
    let rs: Vec<S> = (0..n).map(|_| g.w()).collect(); let rr = g.w();
    let c = |x: &S, r: &S| add(&mul(x, &gg), &mul(r, &hh));
    let mut lin = su(0); for i in 0..n { lin = add(&lin, &mul(&us[i], &xs[i])); }
    let mut pubs = us.clone(); for i in 0..n { pubs.push(c(&xs[i], &rs[i])); } pubs.push(c(&lin, &rr)); pubs.push(gg); pubs.push(hh);
    let mut wit = xs.clone(); wit.extend(rs); wit.push(rr);
    // full statement for the truncated-response attack: one more coefficient and one more commitment nobody can open
    let full: Vec<S> = { let mut f = pubs[..n].to_vec(); f.push(g.rnd()); f.extend_from_slice(&pubs[n..2 * n]); f.push(g.rnd()); f.extend_from_slice(&pubs[2 * n..]); f };
    let mut offs: Vec<usize> = (0..n).map(|i| 4 + 32 * i).collect(); offs.extend((0..n).map(|i| 8 + 32 * n + 32 * i)); offs.push(8 + 64 * n);
    Fam { name: "com_lin".into(), n, variant: g.var.name().into(), pubs, wit,
        mk: mk_comlin(n),
        mkw: Box::new(move |w| ComLinSecret::verif_new(w[..n].iter().map(val).collect(), w[n..2 * n].iter().map(prand).collect(), prand(&w[2 * n]))),
        offs, expect_panic: false, attack: Some((full, mk_comlin(n + 1))),
        ext: vec![("zs".into(), 0, 4, 4 + 32 * n, junk32()), ("ss".into(), 4 + 32 * n, 4, 8 + 64 * n, junk32())] }
}
fn fam_comeqdiff(g: &mut Gen) -> Fam<ComEqDiffGroups<C, C>> {
    let (g1, h1, g2, h2) = (g.gen(), g.gen(), g.gen(), g.gen()); let (x, r1, r2) = (g.w(), g.w(), g.w());
    let c1 = add(&mul(&x, &g1), &mul(&r1, &h1)); let c2 = add(&mul(&x, &g2), &mul(&r2, &h2));
    Fam { name: "com_eq_different_groups".into(), n: 1, variant: g.var.name().into(), pubs: vec![c1, c2, g1, h1, g2, h2], wit: vec![x, r1, r2],
        mk: Box::new(|p| ComEqDiffGroups { commitment_1: cmm(&p[0]), commitment_2: cmm(&p[1]), cmm_key_1: CommitmentKey { g: pt(&p[2]), h: pt(&p[3]) }, cmm_key_2: CommitmentKey { g: pt(&p[4]), h: pt(&p[5]) } }),
        mkw: Box::new(|w| ComEqDiffGroupsSecret { value: val(&w[0]), rand_cmm_1: prand(&w[1]), rand_cmm_2: prand(&w[2]) }),
        offs: vec![0, 32, 64], expect_panic: false, attack: None, ext: vec![] }
}
fn mk_vcomeq(n: usize, idx: Vec<usize>) -> Box<dyn Fn(&[S]) -> VecComEq<C>> {
    let m = idx.len();
    Box::new(move |p| VecComEq { comm: cmm(&p[0]), comms: idx.iter().enumerate().map(|(j, &i)| (i as u8, cmm(&p[1 + j]))).collect::<BTreeMap<_, _>>(),
        gis: p[1 + m..1 + m + n].iter().map(pt).collect(), h: pt(&p[1 + m + n]), g_bar: pt(&p[2 + m + n]), h_bar: pt(&p[3 + m + n]) })
}
/// vcom_eq with n generators; indices with i % 2 == 0 carry an individual commitment.
fn fam_vcomeq(g: &mut Gen, n: usize) -> Fam<VecComEq<C>> {
    let gis: Vec<S> = (0..n).map(|_| g.gen()).collect(); let (h, gbar, hbar) = (g.gen(), g.gen(), g.gen());
    let xs: Vec<S> = (0..n).map(|_| g.w()).collect(); let r = g.w();
    let idx: Vec<usize> = (0..n).filter(|i| i % 2 == 0).collect();
    let ris: Vec<S> = idx.iter().map(|_| g.w()).collect();
    let mut comm = mul(&r, &h); for i in 0..n { comm = add(&comm, &mul(&xs[i], &gis[i])); }
    let mut pubs = vec![comm]; for (j, &i) in idx.iter().enumerate() { pubs.push(add(&mul(&xs[i], &gbar), &mul(&ris[j], &hbar))); }
    pubs.extend(gis.clone()); pubs.push(h); pubs.push(gbar); pubs.push(hbar);
    let mut wit = xs.clone(); wit.push(r); wit.extend(ris.clone());
    let m = idx.len(); let idx2 = idx.clone(); let idx3 = idx.clone();
    // full statement for the truncated-response attack: one more generator (index n, no individual commitment)
    let full: Vec<S> = { let mut f = pubs[..1 + m + n].to_vec(); f.push(g.rnd()); f.extend_from_slice(&pubs[1 + m + n..]); f };
    let mut offs: Vec<usize> = (0..n).map(|i| 2 + 32 * i).collect(); offs.push(2 + 32 * n);
    offs.extend((0..m).map(|j| 2 + 32 * n + 32 + 2 + 33 * j + 1));
    Fam { name: "vcom_eq".into(), n, variant: g.var.name().into(), pubs, wit,
        mk: mk_vcomeq(n, idx2.clone()),
        mkw: Box::new(move |w| (w[..n].to_vec(), val(&w[n]), idx3.iter().enumerate().map(|(j, &i)| (i as u8, val(&w[n + 1 + j]))).collect::<BTreeMap<_, _>>())),
        offs, expect_panic: false, attack: Some((full, mk_vcomeq(n + 1, idx.clone()))),
        ext: vec![("sis".into(), 0, 2, 2 + 32 * n, junk32()),
                  ("tis".into(), 2 + 32 * n + 32, 2, 2 + 32 * n + 32 + 2 + 33 * m, { let mut e = vec![200u8]; e.extend(junk32()); e })] }
}
fn fam_and(g: &mut Gen) -> Fam<AndAdapter<Dlog<C>, ComEq<C, C>>> {
    let a = fam_dlog(g); let b = fam_comeq(g);
    let mut pubs = a.pubs.clone(); pubs.extend(b.pubs.clone()); let mut wit = a.wit.clone(); wit.extend(b.wit.clone());
    let (amk, bmk, amw, bmw) = (a.mk, b.mk, a.mkw, b.mkw);
    Fam { name: "and(dlog,com_eq)".into(), n: 2, variant: g.var.name().into(), pubs, wit,
        mk: Box::new(move |p| AndAdapter { first: amk(&p[..2]), second: bmk(&p[2..]) }),
        mkw: Box::new(move |w| (amw(&w[..1]), bmw(&w[1..]))), offs: vec![0, 32, 64], expect_panic: false, attack: None, ext: vec![] }
}
fn fam_rep(g: &mut Gen, n: usize) -> Fam<ReplicateAdapter<Dlog<C>>> {
    let mut pubs = vec![]; let mut wit = vec![];
    for _ in 0..n { let d = fam_dlog(g); pubs.extend(d.pubs); wit.extend(d.wit); }
    let full: Vec<S> = { let mut f = pubs.clone(); f.push(g.rnd()); f.push(g.rnd()); f };
    Fam { name: "replicate(dlog)".into(), n, variant: g.var.name().into(), pubs, wit,
        mk: Box::new(|p| ReplicateAdapter { protocols: p.chunks(2).map(|q| Dlog { public: pt(&q[0]), coeff: pt(&q[1]) }).collect() }),
        mkw: Box::new(|w| w.iter().map(|x| DlogSecret { secret: val(x) }).collect()),
        offs: (0..n).map(|i| 4 + 32 * i).collect(), expect_panic: n == 0,
        attack: if n == 0 { None } else { Some((full, Box::new(|p| ReplicateAdapter { protocols: p.chunks(2).map(|q| Dlog { public: pt(&q[0]), coeff: pt(&q[1]) }).collect() }))) },
        ext: if n == 0 { vec![] } else { vec![("responses".into(), 0, 4, 4 + 32 * n, junk32())] } }
}

/// DlogAndAggregateDlogsEqual (private reference module, reached through the cfg hook `verif_dlogaggequal`):
/// k aggregates, aggregate i has 1 + (i mod 3) coefficients (so the sizes are a function of k);
/// pubs = [dlog.public; dlog.coeff] ++ per aggregate (public :: coeffs); wit = common :: remaining exponents per aggregate;
/// the serialized response is u32 k, per aggregate (u64 len, scalars), then response_common.
fn dae_sizes(k: usize) -> Vec<usize> { (0..k).map(|i| 1 + i % 3).collect() }
fn mk_dae(k: usize) -> Box<dyn Fn(&[S]) -> DlogAndAggregateDlogsEqual<C>> {
    Box::new(move |p| {
        let mut pos = 2; let mut aggs = vec![];
        for n in dae_sizes(k) { aggs.push(AggregateDlog { public: pt(&p[pos]), coeff: p[pos + 1..pos + 1 + n].iter().map(pt).collect() }); pos += 1 + n; }
        DlogAndAggregateDlogsEqual { dlog: Dlog { public: pt(&p[0]), coeff: pt(&p[1]) }, aggregate_dlogs: aggs }
    })
}
fn fam_dae(g: &mut Gen, k: usize) -> Fam<DlogAndAggregateDlogsEqual<C>> {
    let coeff = g.gen(); let x = g.w();
    let mut pubs = vec![mul(&x, &coeff), coeff]; let mut wit = vec![x];
    let mut offs = vec![]; let mut ext = vec![]; let mut pos = 4usize;
    for (i, n) in dae_sizes(k).into_iter().enumerate() {
        let cs: Vec<S> = (0..n).map(|_| g.gen()).collect(); let ws: Vec<S> = (1..n).map(|_| g.w()).collect();
        let mut public = mul(&x, &cs[0]); for j in 1..n { public = add(&public, &mul(&ws[j - 1], &cs[j])); }
        pubs.push(public); pubs.extend(cs); wit.extend(ws);
        let cnt_at = pos; pos += 8; for _ in 1..n { offs.push(pos); pos += 32; }
        ext.push((format!("responses[{}]", i), cnt_at, 8, pos, junk32()));
    }
    offs.push(pos);
    // a surplus inner vector (empty) appended to the outer vector
    ext.push(("responses".into(), 0, 4, pos, vec![0u8; 8]));
    // truncated-response attack: one more aggregate (junk the prover knows nothing about)
    let full: Vec<S> = { let mut f = pubs.clone(); let n = 1 + k % 3; for _ in 0..(1 + n) { f.push(g.rnd()); } f };
    Fam { name: "dlogaggequal".into(), n: k, variant: g.var.name().into(), pubs, wit, mk: mk_dae(k),
        mkw: Box::new(move |w| { let mut pos = 1; let mut v = vec![];
            for n in dae_sizes(k) { v.push(w[pos..pos + n - 1].iter().map(|x| Rc::new(*x)).collect::<Vec<_>>()); pos += n - 1; }
            (Rc::new(w[0]), v) }),
        offs, expect_panic: false, attack: Some((full, mk_dae(k + 1))), ext }
}

fn mk_comeq_item(p: &[S]) -> ComEq<C, C> {
    ComEq { commitment: cmm(&p[0]), y: pt(&p[1]), cmm_key: CommitmentKey { g: pt(&p[2]), h: pt(&p[3]) }, g: pt(&p[4]) }
}
fn mk_enc(n1: usize, n2: usize) -> Box<dyn Fn(&[S]) -> EncTrans<C>> {
    Box::new(move |p| EncTrans {
        dlog: Dlog { public: pt(&p[0]), coeff: pt(&p[1]) },
        elg_dec: ElgDec { public: pt(&p[2]), coeff: [pt(&p[3]), pt(&p[4])] },
        encexp1: (0..n1).map(|i| mk_comeq_item(&p[5 + 5 * i..10 + 5 * i])).collect(),
        encexp2: (0..n2).map(|i| mk_comeq_item(&p[5 + 5 * n1 + 5 * i..10 + 5 * n1 + 5 * i])).collect() })
}
/// enc_trans with n1 = n2 = n ComEq chunks; layout [dlog.public, dlog.coeff, elg.public, elg.c0, elg.c1, items1.., items2..],
/// item = [commitment, y, cmm_g, cmm_h, g]; witness [sk, (r, a) per item].
fn fam_enctrans(g: &mut Gen, n: usize) -> Fam<EncTrans<C>> {
    let (dc, c0, c1) = (g.gen(), g.gen(), g.gen()); let sk = g.w();
    let two32 = su(1u64 << 32);
    let mut items: Vec<S> = vec![]; let mut wit = vec![sk];
    let mut lin = su(0);
    for _half in 0..2 {
        let mut pw = su(1);
        for _ in 0..n {
            let (kg, kh, gg) = (g.gen(), g.gen(), g.gen()); let (a, rr) = (g.w(), g.w());
            items.extend([add(&mul(&a, &kg), &mul(&rr, &kh)), mul(&a, &gg), kg, kh, gg]);
            wit.push(rr); wit.push(a);
            lin = add(&lin, &mul(&rr, &pw)); pw = mul(&pw, &two32);
        }
    }
    let mut pubs = vec![mul(&sk, &dc), dc, add(&mul(&sk, &c0), &mul(&lin, &c1)), c0, c1]; pubs.extend(items);
    // full statement for the truncated-response attack: one more chunk in encexp1 that nobody can open
    let full: Vec<S> = { let mut f = pubs[..5 + 5 * n].to_vec(); for _ in 0..5 { f.push(g.rnd()); } f.extend_from_slice(&pubs[5 + 5 * n..]); f };
    let mut offs = vec![0usize]; for i in 0..n { offs.push(36 + 64 * i); offs.push(68 + 64 * i); }
    for i in 0..n { offs.push(40 + 64 * n + 64 * i); offs.push(72 + 64 * n + 64 * i); }
    Fam { name: "enc_trans".into(), n, variant: g.var.name().into(), pubs, wit,
        mk: mk_enc(n, n),
        mkw: Box::new(move |w| EncTransSecret { dlog_secret: Rc::new(w[0]),
            encexp1_secrets: (0..n).map(|i| ComEqSecret { r: prand(&w[1 + 2 * i]), a: val(&w[2 + 2 * i]) }).collect(),
            encexp2_secrets: (0..n).map(|i| ComEqSecret { r: prand(&w[1 + 2 * n + 2 * i]), a: val(&w[2 + 2 * n + 2 * i]) }).collect() }),
        offs, expect_panic: false, attack: Some((full, mk_enc(n + 1, n))),
        ext: vec![("encexp1".into(), 32, 4, 36 + 64 * n, { let mut e = junk32(); e.extend(junk32()); e }),
                  ("encexp2".into(), 36 + 64 * n, 4, 40 + 128 * n, { let mut e = junk32(); e.extend(junk32()); e })] }
}

fn mk_ces(n: usize, l: usize) -> Box<dyn Fn(&[S]) -> ComEqSig<IpPairing, C>> {
    // layout: [a_hat, b_hat, cmts(n), pk.g, pk.g_tilda, ys(l), y_tildas(l), x_tilda, cmm_g, cmm_h]
    Box::new(move |p| ComEqSig {
        blinded_sig: BlindedSignature { sig: PsSig(pt(&p[0]), pt(&p[1])) },
        commitments: p[2..2 + n].iter().map(cmm).collect(),
        ps_pub_key: PsPk { g: pt(&p[2 + n]), g_tilda: pt2(&p[3 + n]), ys: p[4 + n..4 + n + l].iter().map(pt).collect(),
            y_tildas: p[4 + n + l..4 + n + 2 * l].iter().map(pt2).collect(), x_tilda: pt2(&p[4 + n + 2 * l]) },
        comm_key: CommitmentKey { g: pt(&p[5 + n + 2 * l]), h: pt(&p[6 + n + 2 * l]) } })
}
/// com_eq_sig with n committed values and a key for l = n + extra values
fn fam_comeqsig(g: &mut Gen, n: usize, extra: usize) -> Fam<ComEqSig<IpPairing, C>> {
    let l = n + extra;
    let (a, gt, x, pkg, cg, ch) = (g.gen(), g.gen(), g.rnd(), g.gen(), g.gen(), g.gen());
    let ysk: Vec<S> = (0..l).map(|_| g.rnd()).collect();
    let ms: Vec<S> = (0..n).map(|_| g.w()).collect(); let rs: Vec<S> = (0..n).map(|_| g.w()).collect(); let rp = g.w();
    let mut e = add(&x, &rp); for i in 0..n { e = add(&e, &mul(&ysk[i], &ms[i])); }
    let mut pubs = vec![a, mul(&a, &e)];
    for i in 0..n { pubs.push(add(&mul(&ms[i], &cg), &mul(&rs[i], &ch))); }
    pubs.push(pkg); pubs.push(gt);
    for i in 0..l { pubs.push(mul(&ysk[i], &pkg)); }
    for i in 0..l { pubs.push(mul(&ysk[i], &gt)); }
    pubs.push(mul(&x, &gt)); pubs.push(cg); pubs.push(ch);
    let mut wit = vec![rp]; for i in 0..n { wit.push(ms[i]); wit.push(rs[i]); }
    // truncated-response attack: one more commitment nobody can open (key long enough)
    let full: Vec<S> = { let mut f = pubs[..2 + n].to_vec(); f.push(g.rnd()); f.extend_from_slice(&pubs[2 + n..]); f };
    let mut offs = vec![0usize]; for i in 0..n { offs.push(36 + 64 * i); offs.push(68 + 64 * i); }
    Fam { name: "com_eq_sig".into(), n, variant: g.var.name().into(), pubs, wit,
        mk: mk_ces(n, l),
        mkw: Box::new(move |w| ComEqSigSecret { blind_rand: BlindingRandomness(Secret::new(su(1)), Secret::new(w[0])),
            values_and_rands: (0..n).map(|i| (val(&w[1 + 2 * i]), prand(&w[2 + 2 * i]))).collect() }),
        offs, expect_panic: false, attack: if extra >= 1 { Some((full, mk_ces(n + 1, l))) } else { None },
        ext: vec![("response_commit".into(), 32, 4, 36 + 64 * n, { let mut e = junk32(); e.extend(junk32()); e })] }
}

/// ps_sig_known with n messages of kinds i % 3 = 0: EqualToCommitment, 1: Public, 2: Known, key length l = n + extra.
/// layout: [a_hat, b_hat, per message (commitment dlog | public value | nothing), pk.g, pk.g_tilda, ys(l), y_tildas(l), x_tilda, cmm_g, cmm_h]
fn mk_pssig(n: usize, l: usize) -> Box<dyn Fn(&[S]) -> PsSigKnown<IpPairing, C>> {
    Box::new(move |p| {
        let mut msgs = vec![]; let mut j = 2;
        for i in 0..n { match i % 3 { 0 => { msgs.push(PsSigMsg::EqualToCommitment(cmm(&p[j]))); j += 1; } 1 => { msgs.push(PsSigMsg::Public(val(&p[j]))); j += 1; } _ => msgs.push(PsSigMsg::Known) } }
        PsSigKnown { blinded_sig: BlindedSignature { sig: PsSig(pt(&p[0]), pt(&p[1])) }, msgs,
            ps_pub_key: PsPk { g: pt(&p[j]), g_tilda: pt2(&p[j + 1]), ys: p[j + 2..j + 2 + l].iter().map(pt).collect(),
                y_tildas: p[j + 2 + l..j + 2 + 2 * l].iter().map(pt2).collect(), x_tilda: pt2(&p[j + 2 + 2 * l]) },
            cmm_key: CommitmentKey { g: pt(&p[j + 3 + 2 * l]), h: pt(&p[j + 4 + 2 * l]) } } })
}
fn fam_pssig(g: &mut Gen, n: usize, extra: usize) -> Fam<PsSigKnown<IpPairing, C>> {
    let l = n + extra;
    let (a, gt, x, pkg, cg, ch) = (g.gen(), g.gen(), g.rnd(), g.gen(), g.gen(), g.gen());
    let ysk: Vec<S> = (0..l).map(|_| g.rnd()).collect();
    let ms: Vec<S> = (0..n).map(|_| g.w()).collect(); let rs: Vec<S> = (0..n).map(|_| g.w()).collect(); let rp = g.w();
    let mut e = add(&x, &rp); for i in 0..n { e = add(&e, &mul(&ysk[i], &ms[i])); }
    let mut pubs = vec![a, mul(&a, &e)];
    for i in 0..n { match i % 3 { 0 => pubs.push(add(&mul(&ms[i], &cg), &mul(&rs[i], &ch))), 1 => pubs.push(ms[i]), _ => {} } }
    let hdr = pubs.len();
    pubs.push(pkg); pubs.push(gt);
    for i in 0..l { pubs.push(mul(&ysk[i], &pkg)); }
    for i in 0..l { pubs.push(mul(&ysk[i], &gt)); }
    pubs.push(mul(&x, &gt)); pubs.push(cg); pubs.push(ch);
    let mut wit = vec![rp]; for i in 0..n { wit.push(ms[i]); wit.push(rs[i]); }
    // truncated-response attack: one more message (kind of index n) the prover knows nothing about
    let full: Vec<S> = { let mut f = pubs[..hdr].to_vec(); if n % 3 != 2 { f.push(g.rnd()); } f.extend_from_slice(&pubs[hdr..]); f };
    // response: r' (32), u32 count, then per message: tag byte + (2 | 0 | 1) scalars
    let mut offs = vec![0usize]; let mut o = 36;
    for i in 0..n { match i % 3 { 0 => { offs.push(o + 1); offs.push(o + 33); o += 65; } 1 => { o += 1; } _ => { offs.push(o + 1); o += 33; } } }
    Fam { name: "ps_sig_known".into(), n, variant: g.var.name().into(), pubs, wit,
        mk: mk_pssig(n, l),
        mkw: Box::new(move |w| PsSigWitness { r_prime: Secret::new(w[0]),
            msgs: (0..n).map(|i| match i % 3 { 0 => PsSigWitnessMsg::EqualToCommitment(val(&w[1 + 2 * i]), prand(&w[2 + 2 * i])), 1 => PsSigWitnessMsg::Public, _ => PsSigWitnessMsg::Known(val(&w[1 + 2 * i])) }).collect() }),
        offs, expect_panic: false, attack: if extra >= 1 { Some((full, mk_pssig(n + 1, l))) } else { None },
        ext: vec![("resp_msgs_known".into(), 32, 4, o, { let mut e = vec![2u8]; e.extend(junk32()); e }), ("resp_msgs_public".into(), 32, 4, o, vec![1u8])] }
}

fn cases(seed: u64, budget: u64) {
    let mut r = Rng::new(seed);
    let vars = [Var::Random, Var::ZeroWitness, Var::EqualGens, Var::IdentityGen, Var::Small];
    let sizes = [0usize, 1, 2, 17];
    for round in 0..budget {
        for (vi, &var) in vars.iter().enumerate() {
            let mut r2 = Rng::new(seed.wrapping_mul(1000003) ^ (round * 16 + vi as u64));
            let mut g = Gen { r: &mut r2, csprng: StdRng::seed_from_u64(seed ^ (round << 8) ^ vi as u64), var, first_gen: None };
            let s = seed ^ (round << 16) ^ ((vi as u64) << 8);
            run(fam_dlog(&mut g), &mut r, s);
            run(fam_comeq(&mut g), &mut r, s);
            run(fam_comenceq(&mut g), &mut r, s);
            run(fam_commult(&mut g), &mut r, s);
            run(fam_comeqdiff(&mut g), &mut r, s);
            run(fam_and(&mut g), &mut r, s);
            // size-parameterised protocols: rotate the size with the round so that every (variant, size) occurs
            let szs: Vec<usize> = if round == 0 { sizes.to_vec() } else { vec![sizes[((round as usize) + vi) % 4], 3 + (r.below(6) as usize)] };
            for &n in &szs {
                run(fam_aggdlog(&mut g, n), &mut r, s);
                run(fam_comlin(&mut g, n), &mut r, s);
                run(fam_vcomeq(&mut g, n), &mut r, s);
                run(fam_rep(&mut g, n), &mut r, s);
                if n <= 2 || n == 17 { run(fam_dae(&mut g, if n == 17 { 3 } else { n }), &mut r, s); } else if round % 2 == 0 { run(fam_dae(&mut g, 4 + n % 3), &mut r, s); }
                // boundary sizes: number of commitments == key length (extra 0), key length - 1 (extra 1), and a longer key
                if n <= 2 { run(fam_comeqsig(&mut g, n, 0), &mut r, s); run(fam_comeqsig(&mut g, n, 1), &mut r, s); run(fam_pssig(&mut g, n, 0), &mut r, s); run(fam_pssig(&mut g, n + 2, 1), &mut r, s); }
                else if round % 2 == 0 { run(fam_comeqsig(&mut g, 3, (vi % 2) * 2), &mut r, s); run(fam_pssig(&mut g, 6, vi % 2), &mut r, s); }
                if n <= 2 || round % 2 == 0 { run(fam_enctrans(&mut g, if n == 17 { 4 } else { n }), &mut r, s); }
            }
        }
    }
    // com_ineq (fixed legacy transcript inside the library): completeness + perturbations
    let mut csprng = StdRng::seed_from_u64(seed);
    for i in 0..(4 * budget) {
        let (gg, hh) = (C::generate_scalar(&mut csprng), C::generate_scalar(&mut csprng));
        let key = CommitmentKey { g: pt(&gg), h: pt(&hh) };
        let v = if i % 4 == 1 { su(0) } else { C::generate_scalar(&mut csprng) };
        let vt = C::generate_scalar(&mut csprng);
        let pv = if i % 4 == 2 { v } else if i % 4 == 3 { su(0) } else { C::generate_scalar(&mut csprng) };
        let mut rng_copy = csprng.clone();
        let res = guarded(|| prove_com_ineq(&key, &val(&v), &prand(&vt), pv, &mut csprng));
        let c = key.hide(&val(&v), &prand(&vt));
        let equal = v == pv;
        match res {
            Err(e) => println!("{}", json!({"p":"com_ineq","made":"PANIC","why":e,"equal":equal})),
            Ok(None) => println!("{}", json!({"p":"com_ineq","made":false,"equal":equal})),
            Ok(Some(pr)) => {
                let ver = verify_com_ineq(&key, &c, pv, &pr);
                let mut pert = vec![];
                pert.push(json!(["pub_value", !verify_com_ineq(&key, &c, add(&pv, &su(1)), &pr)]));
                pert.push(json!(["commitment", !verify_com_ineq(&key, &Commitment(c.0.plus_point(&key.g)), pv, &pr)]));
                pert.push(json!(["key_g", !verify_com_ineq(&CommitmentKey { g: key.g.plus_point(&key.h), h: key.h }, &c, pv, &pr)]));
                pert.push(json!(["key_h", !verify_com_ineq(&CommitmentKey { g: key.g, h: key.h.plus_point(&key.g) }, &c, pv, &pr)]));
                let pb = to_bytes(&pr);
                for k in 0..6 { // challenge, five response scalars, aux commitment (re-parsed)
                    let mut pb2 = pb.clone();
                    if k == 0 { pb2[3] ^= 4; } else if k < 6 { let off = 32 + 32 * (k - 1); let x = s_of_hex(&hex(&pb[off..off + 32])); pb2[off..off + 32].copy_from_slice(&to_bytes(&add(&x, &su(1)))); }
                    let rej = match from_bytes::<concordium_base::sigma_protocols::com_ineq::Response<C>, _>(&mut std::io::Cursor::new(&pb2)) { Ok(p2) => !verify_com_ineq(&key, &c, pv, &p2), Err(_) => true };
                    pert.push(json!([format!("proof_part{}", k), rej]));
                }
                { let mut pb2 = pb.clone(); let l = pb2.len(); let other = to_bytes(&pt(&su(7))); pb2[l - 48..].copy_from_slice(&other);
                  let rej = match from_bytes::<concordium_base::sigma_protocols::com_ineq::Response<C>, _>(&mut std::io::Cursor::new(&pb2)) { Ok(p2) => !verify_com_ineq(&key, &c, pv, &p2), Err(_) => true };
                  pert.push(json!(["aux_com", rej])); }
                println!("{}", json!({"p":"com_ineq","made":true,"equal":equal,"ver":ver,"pert":pert}));
                // model tie: the inner ComMult proof in the exponent.  The auxiliary commitment's randomness is the
                // first RNG draw of prove_com_ineq; it is re-derived from a copy of the RNG and CHECKED against the proof.
                let r2 = PedRand::<C>::generate(&mut rng_copy);
                let neg = |x: &S| { let mut y = *x; y.negate(); y };
                let diff = add(&v, &neg(&pv));
                if let Some(dinv) = diff.inverse() {
                    let l = pb.len();
                    let aux_dlog = add(&mul(&dinv, &gg), &mul(&r2, &hh));
                    if to_bytes(&pt(&aux_dlog)) == pb[l - 48..].to_vec() {
                        let cdl = add(&mul(&v, &gg), &mul(&vt, &hh));
                        let pubs = vec![add(&mul(&diff, &gg), &mul(&vt, &hh)), aux_dlog, gg, gg, hh];
                        let wit = vec![diff, dinv, vt, *r2, su(0)];
                        println!("{}", json!({"p":"com_ineq/com_mult","n":1,"variant":"random","k":"legacy","ctx":{"dom":hex(b"InequalityProof"),"ops":[]},
                            "ineq":[sh(&gg), sh(&hh), sh(&cdl), sh(&pv)], "pub": pubs.iter().map(sh).collect::<Vec<_>>(), "wit": wit.iter().map(sh).collect::<Vec<_>>(),
                            "chal": hex(&pb[..32]), "resp": hex(&pb[32..192]), "offs":[0,32,64,96,128], "made":true, "ver":ver, "post":null, "vpost":null,
                            "cm":null, "pert":[], "expect_panic":false}));
                    } else {
                        println!("{}", json!({"p":"com_ineq/com_mult","made":"skipped","why":"auxiliary randomness not recovered (RNG draw order changed)"}));
                    }
                }
            }
        }
    }
}

/// dlog -> compressed point, one per input line ("g1 <hex scalar>")
fn points() {
    let stdin = std::io::stdin();
    for line in stdin.lock().lines() {
        let line = line.unwrap(); let h = line.trim();
        if h.is_empty() { continue; }
        let mut it = h.split_whitespace();
        let (a, b) = (it.next().unwrap(), it.next());
        match b {
            None => println!("{} {}", a, hex(&to_bytes(&pt(&s_of_hex(a))))),
            Some(x) if a == "g1" => println!("g1 {} {}", x, hex(&to_bytes(&pt(&s_of_hex(x))))),
            Some(x) if a == "g2" => println!("g2 {} {}", x, hex(&to_bytes(&pt2(&s_of_hex(x))))),
            Some(x) => println!("gt {} {}", x, hex(&to_bytes(&<IpPairing as Pairing>::pair(&pt(&s_of_hex(x)), &G2::one_point())))),
        }
    }
}

/// Known-finding witnesses replayed on the real code.
fn findings() {
    // KF-C07-1: legacy RandomOracle absorbs labels raw: ["ab";"c"] vs ["a";"bc"]
    let ch = |ls: &[&str]| { let mut ro = RandomOracle::empty(); for l in ls { ro.append_label(l); } hex(ro.extract_raw_challenge().as_ref()) };
    let ch1 = |ls: &[&str]| { let mut ro = TranscriptProtocolV1::with_domain(""); for l in ls { ro.append_label(l); } hex(ro.extract_raw_challenge().as_ref()) };
    println!("{}", json!({"k":"legacy_label_split","legacy_a": ch(&["ab", "c"]), "legacy_b": ch(&["a", "bc"]), "v1_a": ch1(&["ab", "c"]), "v1_b": ch1(&["a", "bc"])}));
    // message level: label "ab" + message byte 'c' vs label "a" + bytes "bc"
    let m = |l: &str, m: &[u8]| { let mut ro = RandomOracle::empty(); ro.append_message(l, &m[0]); for b in &m[1..] { ro.add_bytes([*b]); } hex(ro.extract_raw_challenge().as_ref()) };
    println!("{}", json!({"k":"legacy_message_split","a": m("ab", b"c"), "b": m("a", b"bc")}));
    // KF-C07-2: ComEncEq::public omits encryption_in_exponent_generator; a proof whose response z_2 is 0
    // verifies for every value of that field.  Build it with the real transcript: witness value x = 0, beta = 0.
    let mut csprng = StdRng::seed_from_u64(7);
    let sc = |c: &mut StdRng| C::generate_scalar(c);
    let (pg, pk, ckg, ckh, hin, hin2) = (sc(&mut csprng), sc(&mut csprng), sc(&mut csprng), sc(&mut csprng), sc(&mut csprng), sc(&mut csprng));
    let (er, pr) = (sc(&mut csprng), sc(&mut csprng));
    let (alpha, gamma) = (sc(&mut csprng), sc(&mut csprng));
    let mkst = |h: &S| ComEncEq::<C> { cipher: Cipher(pt(&mul(&er, &pg)), pt(&mul(&er, &pk))), commitment: cmm(&mul(&pr, &ckh)),
        pub_key: ElgPk { generator: pt(&pg), key: pt(&pk) }, cmm_key: CommitmentKey { g: pt(&ckg), h: pt(&ckh) }, encryption_in_exponent_generator: pt(h) };
    let st = mkst(&hin);
    for v1 in [true, false] {
        let commit = (Cipher(pt(&mul(&alpha, &pg)), pt(&mul(&alpha, &pk))), cmm(&mul(&gamma, &ckh)));
        let chal = if v1 { let mut ro = TranscriptProtocolV1::with_domain("kf2"); st.public(&mut ro); ro.append_message("point", &commit); ro.extract_raw_challenge() }
                   else { let mut ro = RandomOracle::domain("kf2"); st.public(&mut ro); ro.append_message("point", &commit); ro.extract_raw_challenge() };
        let c = st.get_challenge(&chal);
        let neg = |x: &S| { let mut y = *x; y.negate(); y };
        let z1 = add(&alpha, &neg(&mul(&c, &er))); let z3 = add(&gamma, &neg(&mul(&c, &pr)));
        let mut pb = chal.as_ref().to_vec(); pb.extend(to_bytes(&z1)); pb.extend(to_bytes(&su(0))); pb.extend(to_bytes(&z3));
        let proof = from_bytes::<SigmaProof<concordium_base::sigma_protocols::com_enc_eq::Response<C>>, _>(&mut std::io::Cursor::new(&pb)).unwrap();
        let v = |h: &S| if v1 { verify(&mut TranscriptProtocolV1::with_domain("kf2"), &mkst(h), &proof) } else { verify(&mut RandomOracle::domain("kf2"), &mkst(h), &proof) };
        let kind = if v1 { "v1" } else { "legacy" };
        let mut s2 = mkst(&hin); s2.pub_key.key = pt(&hin2);
        let alt_pk = if v1 { verify(&mut TranscriptProtocolV1::with_domain("kf2"), &s2, &proof) } else { verify(&mut RandomOracle::domain("kf2"), &s2, &proof) };
        let (a0, a1) = (v(&hin), v(&hin2));
        println!("{}", json!({"k":"com_enc_eq_generator_unbound","kind": kind, "accept_original": a0, "accept_altered_generator": a1, "accept_altered_pubkey": alt_pk}));
    }
}

/// vcom_eq: the verifier pairs `comms` and the response map `tis` by key and silently skips keys that
/// are missing on either side; only the SIZES are compared.  A crafted prover who cannot open the
/// individual commitment C_0 answers with a map keyed {1} instead of {0}.
fn vcom_key_mismatch() {
    let mut csprng = StdRng::seed_from_u64(11);
    let sc = |c: &mut StdRng| C::generate_scalar(c);
    let n = 3usize;
    let gis: Vec<S> = (0..n).map(|_| sc(&mut csprng)).collect();
    let (h, gbar, hbar) = (sc(&mut csprng), sc(&mut csprng), sc(&mut csprng));
    let xs: Vec<S> = (0..n).map(|_| sc(&mut csprng)).collect(); let r = sc(&mut csprng);
    let mut comm = mul(&r, &h); for i in 0..n { comm = add(&comm, &mul(&xs[i], &gis[i])); }
    let junk = sc(&mut csprng); // C_0: a commitment the prover cannot open consistently (it is NOT x_0*g_bar + r_0*h_bar for any known r_0)
    let mut comms = BTreeMap::new(); comms.insert(0u8, cmm(&junk));
    let st = VecComEq::<C> { comm: cmm(&comm), comms, gis: gis.iter().map(pt).collect(), h: pt(&h), g_bar: pt(&gbar), h_bar: pt(&hbar) };
    for v1 in [true, false] {
        let alphas: Vec<S> = (0..n).map(|_| sc(&mut csprng)).collect(); let rt = sc(&mut csprng);
        let mut a = mul(&rt, &h); for i in 0..n { a = add(&a, &mul(&alphas[i], &gis[i])); }
        let commit: (C, Vec<C>) = (pt(&a), vec![]); // no individual point at all
        let chal = if v1 { let mut ro = TranscriptProtocolV1::with_domain("kf4"); st.public(&mut ro); ro.append_message("point", &commit); ro.extract_raw_challenge() }
                   else { let mut ro = RandomOracle::domain("kf4"); st.public(&mut ro); ro.append_message("point", &commit); ro.extract_raw_challenge() };
        let c = st.get_challenge(&chal);
        let neg = |x: &S| { let mut y = *x; y.negate(); y };
        let mut pb = chal.as_ref().to_vec();
        pb.extend((n as u16).to_be_bytes());
        for i in 0..n { pb.extend(to_bytes(&add(&alphas[i], &neg(&mul(&c, &xs[i]))))); }
        pb.extend(to_bytes(&add(&rt, &neg(&mul(&c, &r)))));
        pb.extend(1u16.to_be_bytes()); pb.push(1u8); pb.extend(to_bytes(&su(0))); // tis = {1: 0}: same SIZE as comms, different key
        let res = match from_bytes::<SigmaProof<concordium_base::sigma_protocols::vcom_eq::Response<C>>, _>(&mut std::io::Cursor::new(&pb)) {
            Err(e) => json!({"parse_error": format!("{}", e)}),
            Ok(proof) => { let acc = if v1 { verify(&mut TranscriptProtocolV1::with_domain("kf4"), &st, &proof) } else { verify(&mut RandomOracle::domain("kf4"), &st, &proof) }; json!({"accepted": acc}) } };
        println!("{}", json!({"k":"vcom_eq_key_mismatch","kind": if v1 {"v1"} else {"legacy"}, "result": res}));
    }
}

fn main() {
    quiet_panics();
    let a: Vec<String> = std::env::args().collect();
    let seed: u64 = a.get(2).and_then(|s| s.parse().ok()).unwrap_or(1);
    let n: u64 = a.get(3).and_then(|s| s.parse().ok()).unwrap_or(1);
    match a.get(1).map(|s| s.as_str()) {
        Some("cases") => cases(seed, n),
        Some("points") => points(),
        Some("findings") => { findings(); vcom_key_mismatch() }
        _ => { eprintln!("usage: c07 cases|points|findings seed n"); std::process::exit(2) }
    }
}
