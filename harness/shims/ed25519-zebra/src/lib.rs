//! Offline shim of `ed25519-zebra` 4: the API the engine uses, implemented with
//! ed25519-dalek (non-strict verification; ZIP-215 edge cases may differ).
use ed25519_dalek::Verifier;
#[derive(Debug, Clone, Copy, PartialEq, Eq)]
pub struct Error;
impl core::fmt::Display for Error {
    fn fmt(&self, f: &mut core::fmt::Formatter<'_>) -> core::fmt::Result { write!(f, "ed25519 shim error") }
}
impl std::error::Error for Error {}
#[derive(Debug, Clone, Copy)]
pub struct Signature([u8; 64]);
impl Signature { pub fn from_bytes(b: &[u8; 64]) -> Self { Signature(*b) } }
impl From<[u8; 64]> for Signature { fn from(b: [u8; 64]) -> Self { Signature(b) } }
impl TryFrom<&[u8]> for Signature {
    type Error = Error;
    fn try_from(b: &[u8]) -> Result<Self, Error> {
        let a: [u8; 64] = b.try_into().map_err(|_| Error)?;
        Ok(Signature(a))
    }
}
#[derive(Debug, Clone, Copy)]
pub struct VerificationKey(ed25519_dalek::VerifyingKey);
impl TryFrom<[u8; 32]> for VerificationKey {
    type Error = Error;
    fn try_from(b: [u8; 32]) -> Result<Self, Error> {
        ed25519_dalek::VerifyingKey::from_bytes(&b).map(VerificationKey).map_err(|_| Error)
    }
}
impl TryFrom<&[u8]> for VerificationKey {
    type Error = Error;
    fn try_from(b: &[u8]) -> Result<Self, Error> {
        let a: [u8; 32] = b.try_into().map_err(|_| Error)?;
        Self::try_from(a)
    }
}
impl VerificationKey {
    pub fn verify(&self, sig: &Signature, msg: &[u8]) -> Result<(), Error> {
        let s = ed25519_dalek::Signature::from_bytes(&sig.0);
        self.0.verify(msg, &s).map_err(|_| Error)
    }
}
