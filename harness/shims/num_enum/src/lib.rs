//! Offline shim of `num_enum` 0.6: only `TryFromPrimitive` for fieldless `#[repr(u8)]` enums.
pub use num_enum_derive::TryFromPrimitive;

pub struct TryFromPrimitiveError<Enum: TryFromPrimitive> {
    pub number: Enum::Primitive,
}

// Manual impls: a derive would demand `Enum: Debug/Clone/...`, which the real crate does not.
impl<Enum: TryFromPrimitive> core::fmt::Debug for TryFromPrimitiveError<Enum> {
    fn fmt(&self, f: &mut core::fmt::Formatter<'_>) -> core::fmt::Result {
        f.debug_struct("TryFromPrimitiveError").field("number", &self.number).finish()
    }
}
impl<Enum: TryFromPrimitive> Clone for TryFromPrimitiveError<Enum> {
    fn clone(&self) -> Self { *self }
}
impl<Enum: TryFromPrimitive> Copy for TryFromPrimitiveError<Enum> {}
impl<Enum: TryFromPrimitive> PartialEq for TryFromPrimitiveError<Enum> {
    fn eq(&self, o: &Self) -> bool { self.number == o.number }
}
impl<Enum: TryFromPrimitive> Eq for TryFromPrimitiveError<Enum> {}

impl<Enum: TryFromPrimitive> core::fmt::Display for TryFromPrimitiveError<Enum> {
    fn fmt(&self, f: &mut core::fmt::Formatter<'_>) -> core::fmt::Result {
        write!(f, "No discriminant in enum `{}` matches the value `{:?}`", Enum::NAME, self.number)
    }
}
impl<Enum: TryFromPrimitive> std::error::Error for TryFromPrimitiveError<Enum> {}

pub trait TryFromPrimitive: Sized {
    type Primitive: Copy + Eq + core::fmt::Debug;
    const NAME: &'static str;
    fn try_from_primitive(number: Self::Primitive) -> Result<Self, TryFromPrimitiveError<Self>>;
}
