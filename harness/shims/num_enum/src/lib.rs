//! Offline shim of `num_enum` 0.6: only `TryFromPrimitive` for fieldless `#[repr(u8)]` enums.
pub use num_enum_derive::TryFromPrimitive;

#[derive(Debug, Clone, Copy, PartialEq, Eq)]
pub struct TryFromPrimitiveError<Enum: TryFromPrimitive> {
    pub number: Enum::Primitive,
}

impl<Enum: TryFromPrimitive> core::fmt::Display for TryFromPrimitiveError<Enum> {
    fn fmt(&self, f: &mut core::fmt::Formatter<'_>) -> core::fmt::Result {
        write!(f, "No discriminant in enum `{}` matches the value `{:?}`", Enum::NAME, self.number)
    }
}
impl<Enum: TryFromPrimitive> std::error::Error for TryFromPrimitiveError<Enum> {}

pub trait TryFromPrimitive: Sized {
    type Primitive: Copy + Eq + core::fmt::Debug;
    const NAME: &'static str;
    fn try_from_primitive(number: Self::Primitive) -> Result<Self, TryFromPrimitiveError<Self>>;
}
