//! empty offline shim
