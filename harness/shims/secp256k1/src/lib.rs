//! Offline shim of `secp256k1` 0.22: parses nothing, verifies nothing (every call is an error).
#[derive(Debug, Clone, Copy, PartialEq, Eq)]
pub struct Error;
impl core::fmt::Display for Error {
    fn fmt(&self, f: &mut core::fmt::Formatter<'_>) -> core::fmt::Result { write!(f, "secp256k1 shim") }
}
impl std::error::Error for Error {}
pub struct Message;
impl Message { pub fn from_slice(_d: &[u8]) -> Result<Message, Error> { Err(Error) } }
pub struct PublicKey;
impl PublicKey { pub fn from_slice(_d: &[u8]) -> Result<PublicKey, Error> { Err(Error) } }
pub struct SecretKey;
impl SecretKey { pub fn from_slice(_d: &[u8]) -> Result<SecretKey, Error> { Err(Error) } }
pub mod ecdsa {
    pub struct Signature;
    impl Signature { pub fn from_compact(_d: &[u8]) -> Result<Signature, super::Error> { Err(super::Error) } }
}
pub struct VerifyOnly;
pub struct All;
pub struct Secp256k1<C>(core::marker::PhantomData<C>);
impl Secp256k1<VerifyOnly> { pub fn verification_only() -> Self { Secp256k1(core::marker::PhantomData) } }
impl Secp256k1<All> { pub fn new() -> Self { Secp256k1(core::marker::PhantomData) } }
impl<C> Secp256k1<C> {
    pub fn verify_ecdsa(&self, _m: &Message, _s: &ecdsa::Signature, _p: &PublicKey) -> Result<(), Error> { Err(Error) }
}
