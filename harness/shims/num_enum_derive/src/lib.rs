use proc_macro::TokenStream;
use quote::quote;
use syn::{parse_macro_input, Data, DeriveInput};

#[proc_macro_derive(TryFromPrimitive, attributes(num_enum))]
pub fn derive_try_from_primitive(input: TokenStream) -> TokenStream {
    let input = parse_macro_input!(input as DeriveInput);
    let name = &input.ident;
    let mut repr: Option<syn::Ident> = None;
    for a in &input.attrs {
        if a.path().is_ident("repr") {
            let _ = a.parse_nested_meta(|m| {
                if let Some(i) = m.path.get_ident() {
                    repr = Some(i.clone());
                }
                Ok(())
            });
        }
    }
    let repr = repr.expect("TryFromPrimitive shim requires #[repr(<int>)]");
    let variants = match &input.data {
        Data::Enum(e) => e.variants.iter().map(|v| v.ident.clone()).collect::<Vec<_>>(),
        _ => panic!("TryFromPrimitive shim: enums only"),
    };
    let name_str = name.to_string();
    let consts = variants.iter().map(|v| {
        let c = syn::Ident::new(&format!("__V_{}", v), v.span());
        quote! { const #c: #repr = #name::#v as #repr; }
    });
    let arms = variants.iter().map(|v| {
        let c = syn::Ident::new(&format!("__V_{}", v), v.span());
        quote! { #c => Ok(#name::#v), }
    });
    let out = quote! {
        impl ::num_enum::TryFromPrimitive for #name {
            type Primitive = #repr;
            const NAME: &'static str = #name_str;
            #[allow(non_upper_case_globals)]
            fn try_from_primitive(number: #repr) -> ::core::result::Result<Self, ::num_enum::TryFromPrimitiveError<Self>> {
                #(#consts)*
                match number {
                    #(#arms)*
                    _ => Err(::num_enum::TryFromPrimitiveError { number }),
                }
            }
        }
        impl ::core::convert::TryFrom<#repr> for #name {
            type Error = ::num_enum::TryFromPrimitiveError<Self>;
            fn try_from(number: #repr) -> ::core::result::Result<Self, Self::Error> {
                <Self as ::num_enum::TryFromPrimitive>::try_from_primitive(number)
            }
        }
    };
    out.into()
}
