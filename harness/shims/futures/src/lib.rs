//! empty offline shim
