//! C18 harness: attribute encodings, atomic statements at every boundary (id-level prove/verify),
//! perturbation streams, and verifiable presentations (web3id v0 and v1, request anchors).
//! One JSON object per line; every implementation call runs under `guarded`.
#![allow(deprecated)]
#![allow(clippy::too_many_arguments)]
use concordium_base::{
    common::{to_bytes, Serial},
    curve_arithmetic::{Curve, Field},
    id::{
        constants::{ArCurve, AttributeKind},
        id_proof_types::*,
        types::*,
    },
    pedersen_commitment::{Commitment, Randomness as PedersenRandomness, Value},
    random_oracle::{RandomOracle, TranscriptProtocol, TranscriptProtocolV1},
    sigma_protocols::{common::SigmaProtocol, dlog::Dlog},
    web3id::Web3IdAttribute,
};
use hlib::{guarded, hex, quiet_panics, Rng};
use rand::{rngs::StdRng, SeedableRng};
use serde_json::{json, Value as J};
use std::collections::{BTreeMap, BTreeSet};
use std::marker::PhantomData;

mod v0;
mod v1;

pub type Scalar = <ArCurve as Curve>::Scalar;

/// Harness-level attribute value.
#[derive(Clone, Debug, PartialEq, Eq)]
pub enum A {
    S(String),
    N(u64),
    T(u64),
}

pub fn a_json(a: &A) -> J {
    match a {
        A::S(s) => json!({"t":"s","b":hex(s.as_bytes())}),
        A::N(n) => json!({"t":"n","v":n.to_string()}),
        A::T(n) => json!({"t":"t","v":n.to_string()}),
    }
}

pub trait Mk: Attribute<Scalar> + Clone + std::fmt::Debug + PartialEq {
    const NAME: &'static str;
    fn mk(a: &A) -> Option<Self>;
    fn back(&self) -> A;
}
impl Mk for AttributeKind {
    const NAME: &'static str = "kind";
    fn mk(a: &A) -> Option<Self> {
        match a {
            A::S(s) => AttributeKind::try_new(s.clone()).ok(),
            _ => None,
        }
    }
    fn back(&self) -> A { A::S(self.as_ref().to_string()) }
}
impl Mk for Web3IdAttribute {
    const NAME: &'static str = "web3";
    fn mk(a: &A) -> Option<Self> {
        match a {
            A::S(s) => AttributeKind::try_new(s.clone()).ok().map(Web3IdAttribute::String),
            A::N(n) => Some(Web3IdAttribute::Numeric(*n)),
            A::T(n) => Some(Web3IdAttribute::Timestamp(concordium_base::common::types::Timestamp::from_timestamp_millis(*n))),
        }
    }
    fn back(&self) -> A {
        match self {
            Web3IdAttribute::String(k) => A::S(k.as_ref().to_string()),
            Web3IdAttribute::Numeric(n) => A::N(*n),
            Web3IdAttribute::Timestamp(t) => A::T(t.timestamp_millis()),
        }
    }
}

pub fn fe_hex<T: Mk>(a: &T) -> String { hex(&to_bytes(&a.to_field_element())) }

// ---------------------------------------------------------------------------------- generators

/// A string of `len` BYTES: ASCII mostly, sometimes multi-byte UTF-8 (still `len` bytes in total).
pub fn gen_string(r: &mut Rng, len: usize) -> String {
    let mut s = String::new();
    while s.len() < len {
        let left = len - s.len();
        let c = match r.below(12) {
            0 if left >= 2 => '\u{e9}',    // 2 bytes
            1 if left >= 3 => '\u{20ac}',  // 3 bytes
            2 if left >= 4 => '\u{1f600}', // 4 bytes
            3 => '\u{0}',
            4 => '\u{7f}',
            5 => ' ',
            6 => (b'0' + r.below(10) as u8) as char,
            _ => (0x21 + r.below(0x5e) as u8) as char,
        };
        s.push(c);
    }
    s
}
pub fn gen_len(r: &mut Rng) -> usize {
    match r.below(10) {
        0 => 0,
        1 => 1,
        2 => 31,
        3 => 30,
        4 => 8,
        5 => 2,
        _ => r.below(32) as usize,
    }
}
pub fn gen_attr(r: &mut Rng, web3: bool) -> A {
    if web3 {
        match r.below(5) {
            0 | 1 => A::N(r.u64_edge()),
            2 => A::T(r.u64_edge()),
            _ => { let l = gen_len(r); A::S(gen_string(r, l)) }
        }
    } else {
        let l = gen_len(r);
        A::S(gen_string(r, l))
    }
}
/// fixed-width decimal string
fn dec(v: u128, len: usize) -> String { format!("{:0width$}", v, width = len) }
fn pow10(len: usize) -> u128 { 10u128.pow(len as u32) }

// ---------------------------------------------------------------------------------- enc mode

fn enc_mode(seed: u64, n: u64) {
    let mut r = Rng::new(seed);
    // fixed boundary values first
    let mut fixed: Vec<A> = vec![A::S(String::new()), A::S("a".into()), A::S("\u{0}".into()), A::S("\u{7f}".repeat(31)),
        A::S("a".repeat(31)), A::S("DK".into()), A::S("19970505".into()), A::N(0), A::N(1), A::N(u64::MAX), A::T(0), A::T(u64::MAX),
        A::S("\u{0}".repeat(31)), A::S("\u{1f600}".repeat(7))];
    for i in 0..n { let w = i % 3 != 0; fixed.push(gen_attr(&mut r, w)); }
    for a in fixed.iter() {
        let res = guarded(|| {
            let w = Web3IdAttribute::mk(a).map(|x| fe_hex(&x));
            let k = AttributeKind::mk(a).map(|x| fe_hex(&x));
            (w, k)
        });
        match res {
            Ok((w, k)) => println!("{}", json!({"k":"enc","a":a_json(a),"web3":w,"kind":k})),
            Err(_) => println!("{}", json!({"k":"enc","a":a_json(a),"web3":"PANIC","kind":"PANIC"})),
        }
    }
    // too long strings must be refused by the constructor
    for len in [32usize, 33, 64, 255, 256] {
        let s = gen_string(&mut r, len);
        let ok = AttributeKind::try_new(s.clone()).is_ok();
        println!("{}", json!({"k":"toolong","len":len,"accepted":ok}));
    }
    // derived Ord against the scalar order
    for i in 0..n {
        let a = gen_attr(&mut r, true);
        let b = match i % 4 {
            0 => a.clone(),
            1 => match &a { A::S(s) => { let mut t = s.clone(); if t.len() < 31 { t.push('a'); } A::S(t) }, A::N(x) => A::T(*x), A::T(x) => A::N(x.wrapping_add(1)) },
            _ => gen_attr(&mut r, true),
        };
        let (x, y) = (Web3IdAttribute::mk(&a).unwrap(), Web3IdAttribute::mk(&b).unwrap());
        let ord = match x.cmp(&y) { std::cmp::Ordering::Less => -1, std::cmp::Ordering::Equal => 0, _ => 1 };
        println!("{}", json!({"k":"cmp","a":a_json(&a),"b":a_json(&b),"ord":ord,"fa":fe_hex(&x),"fb":fe_hex(&y)}));
    }
}

// ---------------------------------------------------------------------------------- statements

#[derive(Clone, Debug)]
pub enum St {
    Reveal(u8),
    Range(u8, A, A),
    In(u8, Vec<A>),
    NotIn(u8, Vec<A>),
}
impl St {
    pub fn tag(&self) -> u8 { match self { St::Reveal(t) | St::Range(t, _, _) | St::In(t, _) | St::NotIn(t, _) => *t } }
}

pub fn mk_stmt<T: Mk, Tag: Clone + concordium_base::common::Serialize>(s: &St, tag: Tag) -> AtomicStatement<ArCurve, Tag, T> {
    match s {
        St::Reveal(_) => AtomicStatement::RevealAttribute { statement: RevealAttributeStatement { attribute_tag: tag } },
        St::Range(_, lo, hi) => AtomicStatement::AttributeInRange { statement: AttributeInRangeStatement {
            attribute_tag: tag, lower: T::mk(lo).unwrap(), upper: T::mk(hi).unwrap(), _phantom: PhantomData } },
        St::In(_, set) => AtomicStatement::AttributeInSet { statement: AttributeInSetStatement {
            attribute_tag: tag, set: set.iter().map(|x| T::mk(x).unwrap()).collect(), _phantom: PhantomData } },
        St::NotIn(_, set) => AtomicStatement::AttributeNotInSet { statement: AttributeNotInSetStatement {
            attribute_tag: tag, set: set.iter().map(|x| T::mk(x).unwrap()).collect(), _phantom: PhantomData } },
    }
}

/// JSON of a statement as the implementation sees it (sets in BTreeSet order, deduplicated),
/// with the field element of every attribute value involved.
pub fn stmt_json<T: Mk>(s: &St) -> J {
    let av = |a: &A| { let x = T::mk(a).unwrap(); json!({"a": a_json(a), "fe": fe_hex(&x)}) };
    match s {
        St::Reveal(t) => json!({"s":"reveal","tag":t}),
        St::Range(t, lo, hi) => json!({"s":"range","tag":t,"lo":av(lo),"hi":av(hi)}),
        St::In(t, set) | St::NotIn(t, set) => {
            let bs: BTreeSet<T> = set.iter().map(|x| T::mk(x).unwrap()).collect();
            let l: Vec<J> = bs.iter().map(|x| json!({"a": a_json(&x.back()), "fe": fe_hex(x)})).collect();
            json!({"s": if matches!(s, St::In(..)) {"in"} else {"notin"}, "tag": t, "set": l})
        }
    }
}

pub fn succ_attr(a: &A, k: u64) -> Option<A> {
    match a {
        A::N(n) => n.checked_add(k).map(A::N),
        A::T(n) => n.checked_add(k).map(A::T),
        A::S(s) => {
            if s.is_empty() || !s.bytes().all(|b| b.is_ascii_digit()) { return None; }
            let v: u128 = s.parse().ok()?;
            let w = v.checked_add(k as u128)?;
            if w >= pow10(s.len()) { None } else { Some(A::S(dec(w, s.len()))) }
        }
    }
}
pub fn pred_attr(a: &A, k: u64) -> Option<A> {
    match a {
        A::N(n) => n.checked_sub(k).map(A::N),
        A::T(n) => n.checked_sub(k).map(A::T),
        A::S(s) => {
            if s.is_empty() || !s.bytes().all(|b| b.is_ascii_digit()) { return None; }
            let v: u128 = s.parse().ok()?;
            let w = v.checked_sub(k as u128)?;
            Some(A::S(dec(w, s.len())))
        }
    }
}

/// A value suited to range statements: numeric / timestamp, or a fixed-width decimal string.
fn gen_range_value(r: &mut Rng, web3: bool) -> A {
    if web3 && r.chance(3, 5) {
        let v = match r.below(6) { 0 => 0, 1 => u64::MAX, 2 => 1, 3 => u64::MAX - 1, _ => r.u64_edge() };
        if r.chance(1, 4) { A::T(v) } else { A::N(v) }
    } else {
        let len = *r.pick(&[1usize, 2, 8, 8, 8, 9, 16, 20, 31]);
        let m = pow10(len.min(38));
        let v = match r.below(5) { 0 => 0, 1 => m - 1, _ => ((r.next() as u128) << 64 | r.next() as u128) % m };
        A::S(dec(v, len))
    }
}

pub fn gen_range_stmt(r: &mut Rng, tag: u8, v: &A, web3: bool) -> St {
    let k = 1 + r.below(1000);
    let mx = |a: Option<A>, d: &A| a.unwrap_or_else(|| d.clone());
    let (lo, hi) = match r.below(16) {
        0 => (v.clone(), mx(succ_attr(v, 1), v)),               // lower = value = upper - 1
        1 => (v.clone(), mx(succ_attr(v, k), v)),               // lower = value
        2 => (mx(pred_attr(v, k), v), mx(succ_attr(v, 1), v)),  // value = upper - 1
        3 => (mx(pred_attr(v, k), v), v.clone()),               // value = upper      (false)
        4 => (mx(succ_attr(v, 1), v), mx(succ_attr(v, k + 1), v)), // value = lower - 1 (false)
        5 => (v.clone(), v.clone()),                            // empty range        (false)
        6 => (mx(succ_attr(v, k), v), mx(pred_attr(v, k), v)),  // upper < lower      (false)
        7 => (mx(pred_attr(v, k), v), mx(succ_attr(v, k), v)),  // strictly inside
        8 => match v {                                          // the whole domain of the kind
            A::N(_) => (A::N(0), A::N(u64::MAX)),
            A::T(_) => (A::T(0), A::T(u64::MAX)),
            A::S(s) => (A::S("0".repeat(s.len())), A::S("9".repeat(s.len()))),
        },
        9 => match v {                                          // wide ranges (true unless at the end)
            A::S(s) if !s.is_empty() => (A::S(" ".repeat(s.len())), A::S("~".repeat(s.len()))),
            _ => (mx(pred_attr(v, u64::MAX / 2), v), mx(succ_attr(v, u64::MAX / 2), v)),
        },
        10 if web3 => match v {                                 // mixed kinds
            A::S(_) => (A::N(r.u64_edge()), v.clone()),
            _ => { let l = 1 + r.below(31) as usize; (A::N(0), A::S(gen_string(r, l))) }
        },
        11 if web3 => match v {                                 // numeric vs timestamp bounds
            A::N(n) | A::T(n) => (A::T(n.saturating_sub(k)), A::N(n.saturating_add(k))),
            A::S(_) => (A::S(String::new()), v.clone()),
        },
        12 => match v {                                         // bounds of another string length
            A::S(s) => (A::S(dec(0, s.len().saturating_sub(1).max(1))), A::S(dec(0, (s.len() + 1).min(31)))),
            _ => (mx(pred_attr(v, 1), v), mx(succ_attr(v, 2), v)),
        },
        13 => (mx(pred_attr(v, 1), v), mx(succ_attr(v, 1), v)), // [v-1, v+1)
        14 => (mx(pred_attr(v, 1), v), v.clone()),              // [v-1, v)  (false)
        _ => {
            let a = gen_range_value(r, web3); let b = gen_range_value(r, web3);
            (a, b)
        }
    };
    St::Range(tag, lo, hi)
}

pub fn gen_set_stmt(r: &mut Rng, tag: u8, v: &A, web3: bool, others: &[A]) -> St {
    let size = *r.pick(&[0usize, 0, 1, 1, 1, 2, 2, 3, 4, 5, 7, 8, 9, 15, 16, 17, 33]);
    let contains = r.chance(1, 2);
    let mut set: Vec<A> = Vec::new();
    let mut guard = 0;
    while set.len() < size && guard < 1000 {
        guard += 1;
        let c = match r.below(6) {
            0 if !others.is_empty() => r.pick(others).clone(),
            1 => succ_attr(v, 1 + r.below(3)).unwrap_or_else(|| gen_attr(r, web3)),
            2 => match v { A::S(s) => { let mut t = s.clone(); if t.len() < 31 { t.push('x'); } else { t.pop(); } A::S(t) }, _ => gen_attr(r, web3) },
            _ => gen_attr(r, web3),
        };
        if &c != v && !set.contains(&c) { set.push(c); }
    }
    if contains && size > 0 {
        let i = r.below(set.len() as u64) as usize;
        // the value itself, or (web3) another kind with the same scalar
        set[i] = match v {
            A::N(n) if web3 && r.chance(1, 4) => A::T(*n),
            A::T(n) if web3 && r.chance(1, 4) => A::N(*n),
            A::S(s) if web3 && s.is_empty() && r.chance(1, 2) => A::N(0),
            _ => v.clone(),
        };
    }
    if r.chance(1, 2) { St::In(tag, set) } else { St::NotIn(tag, set) }
}

pub struct World<T: Mk> {
    pub global: GlobalContext<ArCurve>,
    pub values: BTreeMap<AttributeTag, T>,
    pub rand: BTreeMap<AttributeTag, PedersenRandomness<ArCurve>>,
    pub coms: BTreeMap<AttributeTag, Commitment<ArCurve>>,
    pub al: Vec<(u8, A)>,
}

pub fn build_world<T: Mk>(global: &GlobalContext<ArCurve>, al: &[(u8, A)], csprng: &mut StdRng) -> World<T> {
    let mut values = BTreeMap::new();
    let mut rand = BTreeMap::new();
    let mut coms = BTreeMap::new();
    for (t, a) in al {
        let x = T::mk(a).unwrap();
        let (c, rr) = global.on_chain_commitment_key.commit(&Value::<ArCurve>::new(x.to_field_element()), csprng);
        values.insert(AttributeTag(*t), x);
        rand.insert(AttributeTag(*t), rr);
        coms.insert(AttributeTag(*t), c);
    }
    World { global: global.clone(), values, rand, coms, al: al.to_vec() }
}

fn dep_coms(coms: &BTreeMap<AttributeTag, Commitment<ArCurve>>, filler: Commitment<ArCurve>) -> CredentialDeploymentCommitments<ArCurve> {
    CredentialDeploymentCommitments {
        cmm_prf: filler, cmm_cred_counter: filler, cmm_max_accounts: filler,
        cmm_attributes: coms.clone(), cmm_id_cred_sec_sharing_coeff: vec![],
    }
}

fn ver_of(v: u8) -> ProofVersion { if v == 1 { ProofVersion::Version1 } else { ProofVersion::Version2 } }

fn b2s(b: Result<bool, String>) -> J { match b { Ok(x) => json!(x), Err(_) => json!("PANIC") } }

/// One id-level case: prove, verify, revealed values, perturbations.
fn stmt_case<T: Mk>(r: &mut Rng, csprng: &mut StdRng, global: &GlobalContext<ArCurve>, global2: &[GlobalContext<ArCurve>; 2],
                    al: &[(u8, A)], ss: &[St], ver: u8, tie: bool) -> bool {
    let w: World<T> = build_world(global, al, csprng);
    let filler = Commitment(ArCurve::hash_to_group(b"filler").unwrap());
    let cred: ArCurve = ArCurve::hash_to_group(&r.bytes(8)).unwrap();
    let clen = *r.pick(&[0usize, 1, 32, 32, 32, 33]);
    let challenge = r.bytes(clen);
    let stmts: Vec<AtomicStatement<ArCurve, AttributeTag, T>> = ss.iter().map(|s| mk_stmt::<T, _>(s, AttributeTag(s.tag()))).collect();
    let full = StatementWithContext { credential: cred, statement: Statement { statements: stmts.clone() } };
    let coms = dep_coms(&w.coms, filler);
    let proof = guarded(|| full.prove(ver_of(ver), global, &challenge, &w.values, &w.rand));
    let mut out = json!({"k":"stmt","ty":T::NAME,"ver":ver,
        "al": al.iter().map(|(t, a)| { let x = T::mk(a).unwrap(); json!([t, a_json(a), fe_hex(&x)]) }).collect::<Vec<_>>(),
        "ss": ss.iter().map(|s| stmt_json::<T>(s)).collect::<Vec<_>>(), "clen": challenge.len()});
    let proof = match proof {
        Err(_) => { out["prove"] = json!("PANIC"); println!("{}", out); return false; }
        Ok(None) => { out["prove"] = json!("None"); println!("{}", out); return false; }
        Ok(Some(p)) => p,
    };
    let mut tied = false;
    out["prove"] = json!("Some");
    let ok = guarded(|| full.verify(ver_of(ver), &challenge, global, &coms, &proof));
    out["verify"] = b2s(ok.clone());
    // the proof survives serialisation
    let bytes = to_bytes(&proof);
    let back: Result<Proof<ArCurve, T>, _> = concordium_base::common::from_bytes(&mut std::io::Cursor::new(&bytes));
    out["reser"] = match back { Ok(p2) => b2s(guarded(|| full.verify(ver_of(ver), &challenge, global, &coms, &p2))), Err(_) => json!("DESER-ERR") };
    // revealed values
    let mut revealed = Vec::new();
    for (i, p) in proof.proofs.iter().enumerate() {
        if let AtomicProof::RevealAttribute { attribute, .. } = p {
            revealed.push(json!([i, a_json(&attribute.back()), fe_hex(attribute)]));
        }
    }
    out["revealed"] = json!(revealed);
    out["nproofs"] = json!(proof.proofs.len());
    if ok == Ok(true) {
        let mut pert: Vec<J> = Vec::new();
        let mut push = |name: &str, res: Result<bool, String>| pert.push(json!([name, b2s(res)]));
        // --- challenge
        let mut c2 = challenge.clone();
        if c2.is_empty() { c2.push(0) } else { let i = r.below(c2.len() as u64) as usize; c2[i] ^= 1 << r.below(8); }
        push("challenge_bitflip", guarded(|| full.verify(ver_of(ver), &c2, global, &coms, &proof)));
        let mut c3 = challenge.clone(); c3.push(0);
        push("challenge_extended", guarded(|| full.verify(ver_of(ver), &c3, global, &coms, &proof)));
        if !challenge.is_empty() {
            let c4 = challenge[..challenge.len() - 1].to_vec();
            push("challenge_truncated", guarded(|| full.verify(ver_of(ver), &c4, global, &coms, &proof)));
        }
        // --- global context (other generators and keys)
        push("global_genesis_string", guarded(|| full.verify(ver_of(ver), &challenge, &global2[0], &coms, &proof)));
        push("global_generators", guarded(|| full.verify(ver_of(ver), &challenge, &global2[1], &coms, &proof)));
        // --- credential id
        let full_c = StatementWithContext { credential: ArCurve::hash_to_group(b"other credential").unwrap(), statement: full.statement.clone() };
        push("cred_id", guarded(|| full_c.verify(ver_of(ver), &challenge, global, &coms, &proof)));
        // --- proof version
        if !ss.is_empty() {
            let ov = if ver == 1 { 2 } else { 1 };
            // a statement list consisting only of set statements is version independent only in V1->V1; all versions differ for the others
            push("proof_version", guarded(|| full.verify(ver_of(ov), &challenge, global, &coms, &proof)));
        }
        // --- commitments: per statement tag
        for (i, s) in ss.iter().enumerate() {
            let t = AttributeTag(s.tag());
            // same value, fresh randomness
            let x = w.values.get(&t).unwrap();
            let (cnew, _) = global.on_chain_commitment_key.commit(&Value::<ArCurve>::new(x.to_field_element()), csprng);
            let mut cm = w.coms.clone(); cm.insert(t, cnew);
            push(&format!("commitment_rerandomised#{}", i), guarded(|| full.verify(ver_of(ver), &challenge, global, &dep_coms(&cm, filler), &proof)));
            // commitment to value + 1 with the same randomness
            let mut xs = x.to_field_element(); xs.add_assign(&ArCurve::scalar_from_u64(1));
            let c1 = global.on_chain_commitment_key.hide(&Value::<ArCurve>::new(xs), w.rand.get(&t).unwrap());
            let mut cm = w.coms.clone(); cm.insert(t, c1);
            push(&format!("commitment_value_plus_1#{}", i), guarded(|| full.verify(ver_of(ver), &challenge, global, &dep_coms(&cm, filler), &proof)));
            let mut cm = w.coms.clone(); cm.remove(&t);
            push(&format!("commitment_missing#{}", i), guarded(|| full.verify(ver_of(ver), &challenge, global, &dep_coms(&cm, filler), &proof)));
        }
        // --- statements
        for (i, s) in ss.iter().enumerate() {
            let v = al.iter().find(|(t, _)| *t == s.tag()).map(|(_, a)| a.clone()).unwrap();
            let mut alts: Vec<(String, St)> = Vec::new();
            // another tag whose commitment differs
            if let Some((t2, _)) = al.iter().find(|(t, a)| *t != s.tag() && *a != v) {
                let s2 = match s { St::Reveal(_) => St::Reveal(*t2), St::Range(_, a, b) => St::Range(*t2, a.clone(), b.clone()),
                    St::In(_, x) => St::In(*t2, x.clone()), St::NotIn(_, x) => St::NotIn(*t2, x.clone()) };
                alts.push(("stmt_tag".into(), s2));
            }
            match s {
                St::Range(t, lo, hi) => {
                    if let Some(l2) = pred_attr(lo, 1) { alts.push(("stmt_lower_minus_1".into(), St::Range(*t, l2, hi.clone()))); }
                    if let Some(l2) = succ_attr(lo, 1) { alts.push(("stmt_lower_plus_1".into(), St::Range(*t, l2, hi.clone()))); }
                    if let Some(h2) = succ_attr(hi, 1) { alts.push(("stmt_upper_plus_1".into(), St::Range(*t, lo.clone(), h2))); }
                    if let Some(h2) = pred_attr(hi, 1) { alts.push(("stmt_upper_minus_1".into(), St::Range(*t, lo.clone(), h2))); }
                    alts.push(("stmt_bounds_swapped".into(), St::Range(*t, hi.clone(), lo.clone())));
                }
                St::In(t, set) | St::NotIn(t, set) => {
                    let is_in = matches!(s, St::In(..));
                    let mk = |x: Vec<A>| if is_in { St::In(*t, x) } else { St::NotIn(*t, x) };
                    let web3 = T::NAME == "web3";
                    let mut extra = gen_attr(r, web3);
                    let mut g = 0;
                    while (set.contains(&extra) || extra == v) && g < 100 { extra = gen_attr(r, web3); g += 1; }
                    let mut s_add = set.clone(); s_add.push(extra.clone());
                    alts.push(("stmt_set_element_added".into(), mk(s_add)));
                    if set.len() > 1 {
                        // remove an element that is not the value (statement stays of the same truth)
                        if let Some(j) = set.iter().position(|x| x != &v) {
                            let mut s_rm = set.clone(); s_rm.remove(j);
                            alts.push(("stmt_set_element_removed".into(), mk(s_rm)));
                            let mut s_rep = set.clone(); s_rep[j] = extra;
                            alts.push(("stmt_set_element_replaced".into(), mk(s_rep)));
                        }
                    }
                    alts.push(("stmt_set_kind_flipped".into(), if is_in { St::NotIn(*t, set.clone()) } else { St::In(*t, set.clone()) }));
                }
                St::Reveal(t) => {
                    alts.push(("stmt_reveal_to_range".into(), St::Range(*t, v.clone(), succ_attr(&v, 1).unwrap_or(v.clone()))));
                }
            }
            for (name, s2) in alts {
                // skip alterations that leave the implementation-level statement unchanged
                if format!("{}", stmt_json::<T>(&s2)) == format!("{}", stmt_json::<T>(s)) { continue; }
                let mut st2 = stmts.clone();
                st2[i] = mk_stmt::<T, _>(&s2, AttributeTag(s2.tag()));
                let f2 = StatementWithContext { credential: cred, statement: Statement { statements: st2 } };
                push(&format!("{}#{}", name, i), guarded(|| f2.verify(ver_of(ver), &challenge, global, &coms, &proof)));
            }
        }
        // --- revealed value
        for (i, p) in proof.proofs.iter().enumerate() {
            if let AtomicProof::RevealAttribute { attribute, proof: dl } = p {
                let web3 = T::NAME == "web3";
                let mut other = gen_attr(r, web3);
                let mut g = 0;
                while T::mk(&other).unwrap().to_field_element() == attribute.to_field_element() && g < 100 { other = gen_attr(r, web3); g += 1; }
                let mut p2 = Proof { proofs: proof.proofs.clone() };
                p2.proofs[i] = AtomicProof::RevealAttribute { attribute: T::mk(&other).unwrap(), proof: dl.clone() };
                push(&format!("revealed_value#{}", i), guarded(|| full.verify(ver_of(ver), &challenge, global, &coms, &p2)));
                if let Some(nb) = succ_attr(&attribute.back(), 1) {
                    let mut p3 = Proof { proofs: proof.proofs.clone() };
                    p3.proofs[i] = AtomicProof::RevealAttribute { attribute: T::mk(&nb).unwrap(), proof: dl.clone() };
                    push(&format!("revealed_value_plus_1#{}", i), guarded(|| full.verify(ver_of(ver), &challenge, global, &coms, &p3)));
                }
            }
        }
        // --- proof list shape
        if proof.proofs.len() >= 1 {
            let mut p2 = Proof { proofs: proof.proofs.clone() }; p2.proofs.pop();
            push("proof_dropped", guarded(|| full.verify(ver_of(ver), &challenge, global, &coms, &p2)));
            let mut p3 = Proof { proofs: proof.proofs.clone() }; p3.proofs.push(proof.proofs[0].clone());
            push("proof_duplicated", guarded(|| full.verify(ver_of(ver), &challenge, global, &coms, &p3)));
        }
        if proof.proofs.len() >= 2 && format!("{}", stmt_json::<T>(&ss[0])) != format!("{}", stmt_json::<T>(&ss[1])) {
            let mut p4 = Proof { proofs: proof.proofs.clone() }; p4.proofs.swap(0, 1);
            push("proofs_swapped", guarded(|| full.verify(ver_of(ver), &challenge, global, &coms, &p4)));
            let mut st2 = stmts.clone(); st2.swap(0, 1);
            let f2 = StatementWithContext { credential: cred, statement: Statement { statements: st2 } };
            let mut p5 = Proof { proofs: proof.proofs.clone() }; p5.proofs.swap(0, 1);
            push("statements_and_proofs_swapped", guarded(|| f2.verify(ver_of(ver), &challenge, global, &coms, &p5)));
        }
        // --- byte-level mutation of the serialised proof
        for _ in 0..3 {
            let mut b2 = bytes.clone();
            if b2.len() > 4 {
                let i = 4 + r.below((b2.len() - 4) as u64) as usize; b2[i] ^= 1 << r.below(8);
                let back: Result<Proof<ArCurve, T>, _> = concordium_base::common::from_bytes(&mut std::io::Cursor::new(&b2));
                match back {
                    Ok(pm) => {
                        if to_bytes(&pm) != bytes {
                            push("proof_bytes_bitflip", guarded(|| full.verify(ver_of(ver), &challenge, global, &coms, &pm)))
                        }
                    }
                    Err(_) => push("proof_bytes_bitflip(undecodable)", Ok(false)),
                }
            }
        }
        out["pert"] = json!(pert);
        // --- transcript tie: first statement is a reveal -> predict the first Fiat-Shamir challenge
        if tie {
            if let (Some(St::Reveal(t)), Some(AtomicProof::RevealAttribute { attribute, proof: dl })) = (ss.first(), proof.proofs.first()) {
                let com = w.coms.get(&AttributeTag(*t)).unwrap();
                let x = attribute.to_field_element();
                let mut mx = x; mx.negate();
                let public = com.0.plus_point(&global.on_chain_commitment_key.g.mul_by_scalar(&mx));
                let d = Dlog::<ArCurve> { public, coeff: global.on_chain_commitment_key.h };
                let ch = d.get_challenge(&dl.challenge);
                if let Some(point) = d.extract_commit_message(&ch, &dl.response) {
                    out["tie"] = json!({"flow": "id", "v2": ver == 2, "global": hex(&to_bytes(global)), "challenge": hex(&challenge), "cred": hex(&to_bytes(&cred)),
                        "x": hex(&to_bytes(&x)), "keys": hex(&to_bytes(&global.on_chain_commitment_key)), "C": hex(&to_bytes(com)),
                        "public": hex(&to_bytes(&public)), "coeff": hex(&to_bytes(&global.on_chain_commitment_key.h)), "point": hex(&to_bytes(&point)),
                        "fs": hex(dl.challenge.as_ref())});
                    tied = true;
                }
            }
        }
    }
    println!("{}", out);
    tied
}

pub fn gen_alist(r: &mut Rng, web3: bool) -> Vec<(u8, A)> {
    let n = 2 + r.below(4) as usize;
    let mut tags: Vec<u8> = Vec::new();
    while tags.len() < n { let t = *r.pick(&[0u8, 1, 2, 3, 4, 5, 10, 13, 254, 255]); if !tags.contains(&t) { tags.push(t); } }
    tags.iter().map(|t| (*t, if r.chance(1, 2) { gen_range_value(r, web3) } else { gen_attr(r, web3) })).collect()
}

pub fn gen_stmts(r: &mut Rng, al: &[(u8, A)], web3: bool) -> Vec<St> {
    let k = match r.below(10) { 0 => 0, 1..=5 => 1, 6 | 7 => 2, 8 => 3, _ => 4 };
    let others: Vec<A> = al.iter().map(|(_, a)| a.clone()).collect();
    (0..k).map(|_| {
        let (t, v) = r.pick(al).clone();
        match r.below(10) {
            0 | 1 => St::Reveal(t),
            2..=5 => gen_range_stmt(r, t, &v, web3),
            _ => gen_set_stmt(r, t, &v, web3, &others),
        }
    }).collect()
}

fn stmt_mode(seed: u64, n: u64) {
    let mut r = Rng::new(seed);
    let mut csprng = StdRng::seed_from_u64(seed);
    let global = GlobalContext::<ArCurve>::generate(String::from("verif-c18"));
    let global2 = [GlobalContext::<ArCurve>::generate(String::from("verif-c18-other")),
        GlobalContext::<ArCurve>::generate_from_seed(String::from("verif-c18"), 256, b"another seed for the generators")];
    // fixed corpus: the Coq witnesses and the classic boundary cases
    let corpus: Vec<(bool, Vec<(u8, A)>, Vec<St>)> = vec![
        (true, vec![(0, A::N(5))], vec![St::NotIn(0, vec![])]),
        (true, vec![(0, A::N(5))], vec![St::In(0, vec![])]),
        (false, vec![(0, A::S("b".repeat(16)))], vec![St::Range(0, A::S("a".repeat(16)), A::S("c".repeat(16)))]),
        (false, vec![(3, A::S("19970505".into()))], vec![St::Range(3, A::S("19950505".into()), A::S("19990505".into()))]),
        (false, vec![(3, A::S("19970505".into()))], vec![St::Range(3, A::S("19970505".into()), A::S("19970506".into()))]),
        (false, vec![(3, A::S("19970505".into()))], vec![St::Range(3, A::S("19970404".into()), A::S("19970505".into()))]),
        (true, vec![(3, A::N(137))], vec![St::Range(3, A::N(137), A::N(138))]),
        (true, vec![(3, A::N(137))], vec![St::Range(3, A::N(80), A::N(137))]),
        (true, vec![(3, A::N(137))], vec![St::Range(3, A::N(138), A::N(1000))]),
        (true, vec![(3, A::N(u64::MAX))], vec![St::Range(3, A::N(0), A::N(u64::MAX))]),
        (true, vec![(3, A::N(u64::MAX - 1))], vec![St::Range(3, A::N(0), A::N(u64::MAX))]),
        (true, vec![(3, A::N(0))], vec![St::Range(3, A::N(0), A::N(u64::MAX))]),
        (true, vec![(3, A::N(5))], vec![St::In(3, vec![A::T(5)])]),
        (true, vec![(3, A::S(String::new()))], vec![St::NotIn(3, vec![A::N(0)])]),
        (true, vec![(3, A::N(7)), (4, A::S("DK".into()))], vec![St::Reveal(3), St::Reveal(4)]),
        (false, vec![(4, A::S("DK".into()))], vec![St::In(4, vec![A::S("DK".into()), A::S("NO".into()), A::S("SE".into()), A::S("DE".into()), A::S("UK".into())])]),
        (false, vec![(4, A::S("DK".into()))], vec![St::NotIn(4, vec![A::S("DE".into()), A::S("UK".into())])]),
        (false, vec![(4, A::S("DK".into()))], vec![St::Reveal(9)]),
    ];
    let mut idx = 0u64;
    for (web3, al, ss) in corpus.iter() {
        for ver in [1u8, 2u8] {
            let tie = matches!(ss.first(), Some(St::Reveal(_))) && ss.len() == 2;
            if *web3 { stmt_case::<Web3IdAttribute>(&mut r, &mut csprng, &global, &global2, al, ss, ver, tie); }
            else { stmt_case::<AttributeKind>(&mut r, &mut csprng, &global, &global2, al, ss, ver, tie); }
        }
        idx += 1;
    }
    let mut ties = 0;
    for i in 0..n {
        let web3 = i % 3 != 0;
        let al = gen_alist(&mut r, web3);
        let mut ss = gen_stmts(&mut r, &al, web3);
        let ver = if r.chance(1, 3) { 1 } else { 2 };
        let want_tie = ties < 4 && i % 5 == 0;
        if want_tie { ss.insert(0, St::Reveal(al[0].0)); }
        if r.chance(1, 40) { ss.push(St::Reveal(77)); } // missing attribute
        let t = if web3 { stmt_case::<Web3IdAttribute>(&mut r, &mut csprng, &global, &global2, &al, &ss, ver, want_tie) }
        else { stmt_case::<AttributeKind>(&mut r, &mut csprng, &global, &global2, &al, &ss, ver, want_tie) };
        if t { ties += 1; }
    }
    // sets beyond the number of generators (256): the padded vector does not fit
    if n >= 20 {
        let al = vec![(0u8, A::N(1))];
        let big: Vec<A> = (0..257u64).map(|i| A::N(1000 + i)).collect();
        let mut with = big.clone(); with[3] = A::N(1);
        stmt_case::<Web3IdAttribute>(&mut r, &mut csprng, &global, &global2, &al, &[St::NotIn(0, big.clone())], 2, false);
        stmt_case::<Web3IdAttribute>(&mut r, &mut csprng, &global, &global2, &al, &[St::In(0, with)], 2, false);
        let full: Vec<A> = (0..256u64).map(|i| A::N(1 + i)).collect();
        stmt_case::<Web3IdAttribute>(&mut r, &mut csprng, &global, &global2, &al, &[St::In(0, full.clone())], 2, false);
        stmt_case::<Web3IdAttribute>(&mut r, &mut csprng, &global, &global2, &[(0u8, A::N(1000))], &[St::NotIn(0, full)], 2, false);
    }
}

/// Presentation modes go through the JSON forms, which cannot represent every u64 timestamp
/// (chrono range): keep timestamps below 2^53 there.
fn clamp(a: &A) -> A { match a { A::T(n) => A::T((*n % (1u64 << 53)).max(1u64 << 36)), x => x.clone() } }
pub fn gen_alist_pub(r: &mut Rng, web3: bool) -> Vec<(u8, A)> { gen_alist(r, web3).iter().map(|(t, a)| (if *t >= 254 { *t - 248 } else { *t }, clamp(a))).collect() }
pub fn gen_stmts_pub(r: &mut Rng, al: &[(u8, A)], web3: bool) -> Vec<St> {
    gen_stmts(r, al, web3).iter().map(|s| match s {
        St::Reveal(t) => St::Reveal(*t),
        St::Range(t, a, b) => St::Range(*t, clamp(a), clamp(b)),
        St::In(t, x) => St::In(*t, x.iter().map(clamp).collect()),
        St::NotIn(t, x) => St::NotIn(*t, x.iter().map(clamp).collect()),
    }).collect()
}
pub fn succ_attr_pub(a: &A, k: u64) -> Option<A> { succ_attr(a, k) }
pub fn pred_attr_pub(a: &A, k: u64) -> Option<A> { pred_attr(a, k) }

fn fe_int(a: &A) -> Vec<u8> { to_bytes(&Web3IdAttribute::mk(a).unwrap().to_field_element()) }
fn sub_be(a: &[u8], b: &[u8]) -> Option<Vec<u8>> {
    // a - b for 32-byte big-endian numbers, None when negative
    if a < b { return None; }
    let mut out = vec![0u8; 32]; let mut borrow = 0i16;
    for i in (0..32).rev() { let mut d = a[i] as i16 - b[i] as i16 - borrow; if d < 0 { d += 256; borrow = 1 } else { borrow = 0 } out[i] = d as u8; }
    Some(out)
}
/// The statement is true over the implementation's scalars AND inside the class the implementation can
/// prove (used only to GENERATE mostly-true presentations; the check re-derives everything itself).
pub fn impl_truth_supported(al: &[(u8, A)], s: &St) -> bool {
    let v = match al.iter().find(|(t, _)| *t == s.tag()) { Some((_, a)) => fe_int(a), None => return false };
    match s {
        St::Reveal(_) => true,
        St::Range(_, lo, hi) => {
            let (l, h) = (fe_int(lo), fe_int(hi));
            let small = |d: Option<Vec<u8>>, incl: bool| match d { None => false, Some(x) => {
                let top_zero = x[..24].iter().all(|b| *b == 0);
                if top_zero { true } else { incl && x[..23].iter().all(|b| *b == 0) && x[23] == 1 && x[24..].iter().all(|b| *b == 0) } } };
            l <= v && v < h && small(sub_be(&v, &l), false) && small(sub_be(&h, &v), true)
        }
        St::In(_, set) => set.len() <= 256 && set.iter().any(|x| fe_int(x) == v),
        St::NotIn(_, set) => !set.is_empty() && set.len() <= 256 && !set.iter().any(|x| fe_int(x) == v),
    }
}

// ---------------------------------------------------------------------------------- JSON layer

fn opposite_statement(st: &J) -> J {
    let mut s = st.clone();
    let ty = s.get("type").and_then(|t| t.as_str()).unwrap_or("").to_string();
    match ty.as_str() {
        "AttributeInRange" => { let lo = s["lower"].clone(); let hi = s["upper"].clone(); s["lower"] = hi; s["upper"] = lo; }
        "AttributeInSet" => { s["type"] = json!("AttributeNotInSet"); }
        "AttributeNotInSet" => { s["type"] = json!("AttributeInSet"); }
        _ => {}
    }
    s
}

fn bump_digit(x: &str) -> Option<String> {
    let mut cs: Vec<char> = x.chars().collect();
    for i in (0..cs.len()).rev() {
        if let Some(d) = cs[i].to_digit(10) { cs[i] = std::char::from_digit((d + 1) % 10, 10).unwrap(); return Some(cs.into_iter().collect()); }
    }
    None
}

/// Every single structural mutation of a presentation / request JSON: statement and proof arrays are
/// extended, shortened and reordered INDEPENDENTLY of each other, scalar fields are altered.
pub fn json_mutations(root: &J) -> Vec<(String, J)> {
    fn walk(v: &J, path: &mut Vec<String>, out: &mut Vec<(Vec<String>, String)>) {
        match v {
            J::Object(m) => {
                for (k, x) in m.iter() {
                    path.push(k.clone());
                    if let J::Array(a) = x {
                        if k == "statement" || k == "statements" || (k == "proofValue" && !a.is_empty()) || k == "verifiableCredential" || k == "given" || k == "requested" || k == "credentialStatements" || k == "subjectClaims" {
                            for op in ["append_dup", "append_opposite", "remove_last", "swap_first_two"] { out.push((path.clone(), op.to_string())); }
                        }
                    }
                    if let J::String(_) = x {
                        if ["issuer", "id", "created", "validFrom", "validUntil", "context", "label", "lower", "upper", "presentationContext", "challenge", "attributeTag", "attributeValue"].contains(&k.as_str()) {
                            out.push((path.clone(), "bump_digit".to_string()));
                        }
                    }
                    if let J::Number(_) = x { out.push((path.clone(), "bump_number".to_string())); }
                    walk(x, path, out);
                    path.pop();
                }
            }
            J::Array(a) => { for (i, x) in a.iter().enumerate() { path.push(i.to_string()); walk(x, path, out); path.pop(); } }
            _ => {}
        }
    }
    fn at<'a>(v: &'a mut J, path: &[String]) -> &'a mut J {
        let mut cur = v;
        for p in path { cur = if cur.is_array() { let i: usize = p.parse().unwrap(); &mut cur[i] } else { &mut cur[p.as_str()] }; }
        cur
    }
    let mut locs = Vec::new();
    walk(root, &mut Vec::new(), &mut locs);
    let mut res = Vec::new();
    for (path, op) in locs {
        let mut m = root.clone();
        let slot = at(&mut m, &path);
        let changed = match (op.as_str(), &mut *slot) {
            ("append_dup", J::Array(a)) if !a.is_empty() => { let x = a[0].clone(); a.push(x); true }
            ("append_opposite", J::Array(a)) if !a.is_empty() => { let x = opposite_statement(&a[0]); if x != a[0] { a.push(x); true } else { false } }
            ("remove_last", J::Array(a)) if !a.is_empty() => { a.pop(); true }
            ("swap_first_two", J::Array(a)) if a.len() >= 2 && a[0] != a[1] => { a.swap(0, 1); true }
            ("bump_digit", J::String(x)) => match bump_digit(x) { Some(y) => { *x = y; true } None => false },
            ("bump_number", J::Number(n)) => match n.as_u64() { Some(u) => { *slot = json!(u.wrapping_add(1)); true } None => false },
            _ => false,
        };
        if changed { res.push((format!("json:{}:{}", path.join("."), op), m)); }
    }
    res
}

// ---------------------------------------------------------------------------------- framing

struct RawBytes(Vec<u8>);
impl Serial for RawBytes {
    fn serial<B: concordium_base::common::Buffer>(&self, out: &mut B) { out.write_all(&self.0).unwrap(); }
}

fn frame_mode(seed: u64, n: u64) {
    let mut r = Rng::new(seed);
    for _ in 0..n {
        let k = r.below(6) as usize;
        let dl = r.below(20) as usize;
        let dom = r.bytes(dl);
        let items: Vec<(Vec<u8>, Vec<u8>)> = (0..k).map(|_| { let a = r.below(12) as usize; let b = r.below(40) as usize; (r.bytes(a), r.bytes(b)) }).collect();
        let mut t1 = TranscriptProtocolV1::with_domain(&dom);
        let mut t0 = RandomOracle::domain(&dom);
        for (l, m) in items.iter() {
            if m.is_empty() && r.chance(1, 2) { t1.append_label(l); t0.append_label(l); }
            else { t1.append_message(l, &RawBytes(m.clone())); t0.append_message(l, &RawBytes(m.clone())); }
        }
        let c1 = t1.extract_raw_challenge();
        let c0 = t0.extract_raw_challenge();
        println!("{}", json!({"k":"frame","dom":hex(&dom),"items":items.iter().map(|(l, m)| json!([hex(l), hex(m)])).collect::<Vec<_>>(),
            "v1":hex(c1.as_ref()),"v0":hex(c0.as_ref())}));
    }
}

fn main() {
    if std::env::var("C18_LOUD").is_err() { quiet_panics(); }
    let args: Vec<String> = std::env::args().collect();
    let mode = args.get(1).map(|s| s.as_str()).unwrap_or("");
    let seed: u64 = args.get(2).and_then(|s| s.parse().ok()).unwrap_or(1);
    let n: u64 = args.get(3).and_then(|s| s.parse().ok()).unwrap_or(10);
    match mode {
        "enc" => enc_mode(seed, n),
        "stmt" => stmt_mode(seed, n),
        "frame" => frame_mode(seed, n),
        "v0" => v0::run(seed, n),
        "v1" => v1::run(seed, n),
        _ => { eprintln!("usage: c18 enc|stmt|frame|v0|v1 SEED N"); std::process::exit(2); }
    }
}
