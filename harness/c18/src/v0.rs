//! web3id v0: `Request::prove_with_rng` / `Presentation::verify` over account and web3 credentials,
//! linking signatures with real ed25519 keys, perturbation stream.
use crate::*;
use concordium_base::base::CredentialRegistrationID;
use concordium_base::contracts_common::ContractAddress;
use concordium_base::web3id::did::Network;
use concordium_base::web3id::{
    Challenge, CommitmentInputs, CredentialHolderId, CredentialProof, CredentialStatement, CredentialsInputs,
    Presentation, Request, SignedCommitments,
};
use ed25519_dalek::{Signer, SigningKey};
use sha2::Digest;

type W = Web3IdAttribute;
type Pres = Presentation<ArCurve, W>;

/// A signer that claims one identity and signs with another key / other bytes.
struct RogueSigner { id: SigningKey, signs_with: SigningKey, flip: bool }
impl concordium_base::web3id::Web3IdSigner for RogueSigner {
    fn id(&self) -> ed25519_dalek::VerifyingKey { self.id.verifying_key() }
    fn sign(&self, msg: &impl AsRef<[u8]>) -> ed25519_dalek::Signature {
        let mut m = msg.as_ref().to_vec();
        if self.flip { let n = m.len(); m[n - 1] ^= 1; }
        Signer::sign(&self.signs_with, &m)
    }
}

enum Cred {
    Account {
        al: Vec<(u8, A)>, ss: Vec<St>, cred_id: CredentialRegistrationID, issuer: IpIdentity, network: Network,
        values: BTreeMap<AttributeTag, W>, rand: BTreeMap<AttributeTag, PedersenRandomness<ArCurve>>,
        coms: BTreeMap<AttributeTag, Commitment<ArCurve>>,
    },
    Web3 {
        al: Vec<(u8, A)>, ss: Vec<St>, signer: SigningKey, issuer_key: SigningKey, contract: ContractAddress, network: Network,
        ty: BTreeSet<String>, values: BTreeMap<String, W>, rand: BTreeMap<String, PedersenRandomness<ArCurve>>,
        signature: ed25519_dalek::Signature,
    },
}

fn gen_cred(r: &mut Rng, csprng: &mut StdRng, global: &GlobalContext<ArCurve>, web3cred: bool, all_true: bool) -> Cred {
    let al = crate::gen_alist_pub(r, true);
    let mut ss = crate::gen_stmts_pub(r, &al, true);
    if all_true {
        // keep only statements that are true and provable (decided on the implementation's scalars)
        ss.retain(|s| crate::impl_truth_supported(&al, s));
        if ss.is_empty() { ss.push(St::Reveal(al[0].0)); }
    }
    let network = if r.chance(1, 2) { Network::Testnet } else { Network::Mainnet };
    if web3cred {
        let signer = SigningKey::generate(csprng);
        let issuer_key = SigningKey::generate(csprng);
        let contract = ContractAddress::new(r.below(5000), r.below(3));
        let mut values = BTreeMap::new();
        let mut rand = BTreeMap::new();
        for (t, a) in al.iter() {
            values.insert(t.to_string(), W::mk(a).unwrap());
            rand.insert(t.to_string(), PedersenRandomness::<ArCurve>::generate(csprng));
        }
        let holder = CredentialHolderId::new(signer.verifying_key());
        let signed = SignedCommitments::from_secrets(global, &values, &rand, &holder, &issuer_key, contract).unwrap();
        let ty: BTreeSet<String> = ["VerifiableCredential".to_string(), "ConcordiumVerifiableCredential".to_string(), format!("Ty{}", r.below(4))].into_iter().collect();
        Cred::Web3 { al, ss, signer, issuer_key, contract, network, ty, values, rand, signature: signed.signature }
    } else {
        let w: World<W> = build_world(global, &al, csprng);
        let cred_id = CredentialRegistrationID::from_exponent(global, ArCurve::generate_scalar(csprng));
        Cred::Account { al, ss, cred_id, issuer: IpIdentity(r.below(20) as u32), network, values: w.values, rand: w.rand, coms: w.coms }
    }
}

fn statement_of(c: &Cred) -> CredentialStatement<ArCurve, W> {
    match c {
        Cred::Account { ss, cred_id, network, .. } => CredentialStatement::Account {
            network: *network, cred_id: *cred_id,
            statement: ss.iter().map(|s| mk_stmt::<W, _>(s, AttributeTag(s.tag()))).collect(),
        },
        Cred::Web3 { ss, signer, contract, network, ty, .. } => CredentialStatement::Web3Id {
            ty: ty.clone(), network: *network, contract: *contract, credential: CredentialHolderId::new(signer.verifying_key()),
            statement: ss.iter().map(|s| mk_stmt::<W, _>(s, s.tag().to_string())).collect(),
        },
    }
}

fn public_of(c: &Cred) -> CredentialsInputs<ArCurve> {
    match c {
        Cred::Account { coms, .. } => CredentialsInputs::Account { commitments: coms.clone() },
        Cred::Web3 { issuer_key, .. } => CredentialsInputs::Web3 { issuer_pk: issuer_key.verifying_key().into() },
    }
}

fn verify(p: &Pres, global: &GlobalContext<ArCurve>, public: &[CredentialsInputs<ArCurve>]) -> Result<Option<Request<ArCurve, W>>, String> {
    guarded(|| p.verify(global, public.iter()).ok())
}
fn vb(p: &Pres, global: &GlobalContext<ArCurve>, public: &[CredentialsInputs<ArCurve>]) -> J {
    match verify(p, global, public) { Ok(x) => json!(x.is_some()), Err(_) => json!("PANIC") }
}

fn linking_message(challenge: &Challenge, proofs: &Vec<CredentialProof<ArCurve, W>>) -> Vec<u8> {
    let mut h = sha2::Sha512::new();
    h.update(to_bytes(challenge));
    h.update(to_bytes(proofs));
    let mut msg = b"WEB3ID:LINKING".to_vec();
    msg.extend_from_slice(&h.finalize());
    msg
}

/// Rebuild a presentation with the given body and linking signatures (through the public JSON form,
/// the signature list itself is private).
fn with_signatures(ctx: Challenge, creds: Vec<CredentialProof<ArCurve, W>>, created: chrono::DateTime<chrono::Utc>, sigs: &[ed25519_dalek::Signature]) -> Option<Pres> {
    // (serialising a Timestamp attribute outside chrono's range panics inside the crate: JSON forms are C05/C17 matters)
    let v = guarded(|| json!({"type":"VerifiablePresentation","presentationContext":ctx,"verifiableCredential":creds,
        "proof":{"type":"ConcordiumWeakLinkingProofV1","created":created,"proofValue":sigs.iter().map(|s| hex(&s.to_bytes())).collect::<Vec<_>>()}})).ok()?;
    Pres::try_from(v).ok()
}
fn resign(ctx: Challenge, creds: Vec<CredentialProof<ArCurve, W>>, created: chrono::DateTime<chrono::Utc>, signers: &[&SigningKey]) -> Option<Pres> {
    let msg = linking_message(&ctx, &creds);
    let sigs: Vec<_> = signers.iter().map(|k| k.sign(&msg)).collect();
    with_signatures(ctx, creds, created, &sigs)
}
fn rebuild(p: &Pres, creds: Vec<CredentialProof<ArCurve, W>>) -> Pres {
    Presentation { presentation_context: p.presentation_context, verifiable_credential: creds, linking_proof: p.linking_proof.clone() }
}

fn alter_stmt(r: &mut Rng, s: &St, v: &A, al: &[(u8, A)]) -> Option<St> {
    match s {
        St::Range(t, lo, hi) => succ_attr_pub(hi, 1).map(|h2| St::Range(*t, lo.clone(), h2)).or_else(|| pred_attr_pub(lo, 1).map(|l2| St::Range(*t, l2, hi.clone()))),
        St::In(t, set) | St::NotIn(t, set) => {
            let mut extra = A::N(r.next());
            let mut g = 0;
            while (set.contains(&extra) || &extra == v) && g < 100 { extra = A::N(r.next()); g += 1; }
            let mut s2 = set.clone(); s2.push(extra);
            Some(if matches!(s, St::In(..)) { St::In(*t, s2) } else { St::NotIn(*t, s2) })
        }
        St::Reveal(t) => al.iter().find(|(t2, a)| t2 != t && a != v).map(|(t2, _)| St::Reveal(*t2)),
    }
}

pub fn run(seed: u64, n: u64) {
    let mut r = Rng::new(seed ^ 0x7630);
    let mut csprng = StdRng::seed_from_u64(seed ^ 0x7630);
    let global = GlobalContext::<ArCurve>::generate(String::from("verif-c18"));
    let global2 = GlobalContext::<ArCurve>::generate(String::from("verif-c18-other"));
    let now = chrono::DateTime::parse_from_rfc3339("2024-02-29T12:00:00Z").unwrap().to_utc();
    let mut ties = 0;
    for i in 0..n {
        let ncred = match i % 5 { 0 => 1, 1 => 1, 2 => 2, 3 => 2, _ => 3 } as usize;
        let all_true = i % 3 != 2;
        let mut creds: Vec<Cred> = (0..ncred).map(|j| {
            let web3cred = match i % 5 { 0 => false, 1 => true, _ => (i as usize + j) % 2 == 0 };
            gen_cred(&mut r, &mut csprng, &global, web3cred, all_true)
        }).collect();
        // transcript tie: an account credential whose first statement is a reveal, first in the request
        let want_tie = ties < 3 && matches!(creds[0], Cred::Account { .. });
        if want_tie { if let Cred::Account { ss, al, .. } = &mut creds[0] { ss.insert(0, St::Reveal(al[0].0)); ties += 1; } }
        let challenge = Challenge::new({ let b = r.bytes(32); let mut a = [0u8; 32]; a.copy_from_slice(&b); a });
        let request = Request { challenge, credential_statements: creds.iter().map(statement_of).collect() };
        let public: Vec<CredentialsInputs<ArCurve>> = creds.iter().map(public_of).collect();
        let inputs = || creds.iter().map(|c| match c {
            Cred::Account { values, rand, issuer, .. } => CommitmentInputs::Account::<ArCurve, W, SigningKey> { issuer: *issuer, values, randomness: rand },
            Cred::Web3 { values, rand, signer, signature, .. } => CommitmentInputs::Web3Issuer { signature: *signature, signer, values, randomness: rand },
        }).collect::<Vec<_>>();
        let cj: Vec<J> = creds.iter().map(|c| {
            let (kind, al, ss) = match c { Cred::Account { al, ss, .. } => ("account", al, ss), Cred::Web3 { al, ss, .. } => ("web3", al, ss) };
            json!({"kind": kind, "ty": "web3",
                "al": al.iter().map(|(t, a)| json!([t, a_json(a), fe_hex(&W::mk(a).unwrap())])).collect::<Vec<_>>(),
                "ss": ss.iter().map(|s| stmt_json::<W>(s)).collect::<Vec<_>>()})
        }).collect();
        let mut out = json!({"k":"pres","flow":"v0","creds":cj,"i":i});
        let pres = guarded(|| request.clone().prove_with_rng(&global, inputs().into_iter(), &mut StdRng::seed_from_u64(seed + i), now));
        let pres = match pres {
            Err(_) => { out["prove"] = json!("PANIC"); println!("{}", out); continue; }
            Ok(Err(e)) => { out["prove"] = json!("Err"); out["err"] = json!(format!("{}", e)); println!("{}", out); continue; }
            Ok(Ok(p)) => p,
        };
        out["prove"] = json!("Some");
        let res = verify(&pres, &global, &public);
        match &res {
            Err(_) => { out["verify"] = json!("PANIC"); }
            Ok(None) => { out["verify"] = json!(false); }
            Ok(Some(req)) => { out["verify"] = json!(true); out["same_request"] = json!(*req == request); }
        }
        if let Ok(Some(_)) = res {
            // revealed values = committed values
            let mut revealed_ok = true;
            for (c, cp) in creds.iter().zip(pres.verifiable_credential.iter()) {
                match (c, cp) {
                    (Cred::Account { al, ss, .. }, CredentialProof::Account { proofs, .. }) => {
                        for (s, (_, p)) in ss.iter().zip(proofs.iter()) {
                            if let (St::Reveal(t), AtomicProof::RevealAttribute { attribute, .. }) = (s, p) {
                                revealed_ok &= al.iter().any(|(t2, a)| t2 == t && *a == attribute.back());
                            } else if matches!(s, St::Reveal(_)) { revealed_ok = false; }
                        }
                    }
                    (Cred::Web3 { al, ss, .. }, CredentialProof::Web3Id { proofs, .. }) => {
                        for (s, (_, p)) in ss.iter().zip(proofs.iter()) {
                            if let (St::Reveal(t), AtomicProof::RevealAttribute { attribute, .. }) = (s, p) {
                                revealed_ok &= al.iter().any(|(t2, a)| t2 == t && *a == attribute.back());
                            } else if matches!(s, St::Reveal(_)) { revealed_ok = false; }
                        }
                    }
                    _ => revealed_ok = false,
                }
            }
            out["revealed_ok"] = json!(revealed_ok);
            // JSON round trip
            let rt = guarded(|| serde_json::to_value(&pres).map_err(|e| format!("{}", e)).and_then(|v| Pres::try_from(v).map_err(|e| format!("{:#}", e))));
            out["json_roundtrip"] = match rt { Ok(Ok(p2)) => vb(&p2, &global, &public), Ok(Err(e)) => json!(format!("PARSE-ERR {}", e)), Err(_) => json!("SERIALIZE-PANIC") };

            // ---- JSON layer: every structural mutation of the serialised presentation that still parses
            if let Some(j0) = guarded(|| serde_json::to_value(&pres).ok()).ok().flatten() {
                let mut jm: Vec<J> = Vec::new();
                let mut unparse = 0u32;
                for (name, m) in json_mutations(&j0) {
                    match guarded(|| Pres::try_from(m.clone()).ok()) {
                        Err(_) => jm.push(json!([name, "PANIC"])),
                        Ok(None) => unparse += 1,
                        Ok(Some(p2)) => {
                            let back = guarded(|| serde_json::to_value(&p2).ok()).ok().flatten();
                            let faithful = back.as_ref() == Some(&m);
                            let same = p2 == pres;
                            let mut lp = p2.linking_proof.clone(); lp.created = pres.linking_proof.created;
                            let same_mod_meta = p2.presentation_context == pres.presentation_context && lp == pres.linking_proof
                                && p2.verifiable_credential.len() == pres.verifiable_credential.len()
                                && p2.verifiable_credential.iter().zip(pres.verifiable_credential.iter()).all(|(a, b)| match (a, b) {
                                    (CredentialProof::Account { proofs: pa, .. }, CredentialProof::Account { proofs: pb, .. }) => pa == pb,
                                    _ => a == b });
                            jm.push(json!([name, faithful, same, same_mod_meta, vb(&p2, &global, &public)]));
                        }
                    }
                }
                out["json"] = json!(jm);
                out["json_unparseable"] = json!(unparse);
            }
            if let Some(r0) = guarded(|| serde_json::to_value(&request).ok()).ok().flatten() {
                let mut jr: Vec<J> = Vec::new();
                let rt = serde_json::from_value::<Request<ArCurve, W>>(r0.clone()).ok();
                jr.push(json!(["roundtrip", true, rt.as_ref() == Some(&request)]));
                for (name, m) in json_mutations(&r0) {
                    if let Ok(Some(q2)) = guarded(|| serde_json::from_value::<Request<ArCurve, W>>(m.clone()).ok()) {
                        let back = guarded(|| serde_json::to_value(&q2).ok()).ok().flatten();
                        jr.push(json!([name, back.as_ref() == Some(&m), q2 == request]));
                    }
                }
                out["json_request"] = json!(jr);
            }
            let mut pert: Vec<J> = Vec::new();
            let mut accept: Vec<J> = Vec::new();
            let body = pres.verifiable_credential.clone();
            let signers: Vec<&SigningKey> = creds.iter().filter_map(|c| if let Cred::Web3 { signer, .. } = c { Some(signer) } else { None }).collect();
            let created = pres.linking_proof.created;
            // control: re-signing the unchanged body verifies (so the re-signed perturbations are meaningful)
            match resign(challenge, body.clone(), created, &signers) {
                Some(p2) => accept.push(json!(["resigned_unchanged", vb(&p2, &global, &public)])),
                None => accept.push(json!(["resigned_unchanged", "UNSERIALISABLE"])),
            }
            // --- challenge / context
            let mut cb = [0u8; 32]; cb.copy_from_slice(challenge.as_ref()); cb[r.below(32) as usize] ^= 1 << r.below(8);
            let p2 = Presentation { presentation_context: Challenge::new(cb), verifiable_credential: body.clone(), linking_proof: pres.linking_proof.clone() };
            pert.push(json!(["challenge_bitflip", vb(&p2, &global, &public)]));
            if let Some(p3) = resign(Challenge::new(cb), body.clone(), created, &signers) {
                // the holder re-signs for the other challenge: the ZK proofs must still fail (unless nothing is proven)
                let nstm: usize = creds.iter().map(|c| match c { Cred::Account { ss, .. } | Cred::Web3 { ss, .. } => ss.len() }).sum();
                if nstm > 0 { pert.push(json!(["challenge_bitflip_resigned", vb(&p3, &global, &public)])); }
            }
            {
                let nstm: usize = creds.iter().map(|c| match c { Cred::Account { ss, .. } | Cred::Web3 { ss, .. } => ss.len() }).sum();
                if nstm > 0 { pert.push(json!(["global_genesis_string", vb(&pres, &global2, &public)])); }
            }
            // --- public data
            if public.len() > 1 {
                pert.push(json!(["public_data_dropped", vb(&pres, &global, &public[..public.len() - 1])]));
                let differs = match (&creds[0], &creds[1]) { (Cred::Account { .. }, Cred::Account { coms: c2, .. }) => { if let Cred::Account { coms: c1, .. } = &creds[0] { c1 != c2 } else { true } }, _ => true };
                if differs {
                    let mut sw: Vec<CredentialsInputs<ArCurve>> = creds.iter().map(public_of).collect(); sw.swap(0, 1);
                    let has_stmt = creds.iter().take(2).any(|c| match c { Cred::Account { ss, .. } => !ss.is_empty(), Cred::Web3 { .. } => true });
                    if has_stmt { pert.push(json!(["public_data_swapped", vb(&pres, &global, &sw)])); }
                }
            }
            for (j, c) in creds.iter().enumerate() {
                match (c, &body[j]) {
                    (Cred::Account { al, ss, coms, .. }, CredentialProof::Account { created: cr, network, cred_id, issuer, proofs }) => {
                        // metadata of an account credential proof (commitments unchanged)
                        let mk = |cr, network, cred_id, issuer| { let mut b = body.clone(); b[j] = CredentialProof::Account { created: cr, network, cred_id, issuer, proofs: proofs.clone() }; b };
                        let on = if *network == Network::Testnet { Network::Mainnet } else { Network::Testnet };
                        let b1 = mk(*cr, *network, *cred_id, IpIdentity(issuer.0 + 1));
                        let b2 = mk(*cr + chrono::Duration::seconds(1), *network, *cred_id, *issuer);
                        let b3 = mk(*cr, on, *cred_id, *issuer);
                        let b4 = mk(*cr, *network, CredentialRegistrationID::from_exponent(&global, ArCurve::generate_scalar(&mut csprng)), *issuer);
                        for (name, b) in [("account_meta_issuer", b1), ("account_meta_created", b2), ("account_meta_network", b3), ("account_meta_cred_id", b4)] {
                            // with web3 credentials present the linking signature covers the whole body; test both plain and re-signed
                            if signers.is_empty() { pert.push(json!([format!("{}#{}", name, j), vb(&rebuild(&pres, b), &global, &public)])); }
                            else {
                                pert.push(json!([format!("linked_{}#{}", name, j), vb(&rebuild(&pres, b.clone()), &global, &public)]));
                                if let Some(p) = resign(challenge, b, created, &signers) { pert.push(json!([format!("{}_resigned#{}", name, j), vb(&p, &global, &public)])); }
                            }
                        }
                        // public commitments
                        if !ss.is_empty() {
                            let t = AttributeTag(ss[0].tag());
                            let v = W::mk(&al.iter().find(|(t2, _)| *t2 == t.0).unwrap().1).unwrap();
                            let (cnew, _) = global.on_chain_commitment_key.commit(&Value::<ArCurve>::new(v.to_field_element()), &mut csprng);
                            let mut cm = coms.clone(); cm.insert(t, cnew);
                            let mut pb: Vec<CredentialsInputs<ArCurve>> = creds.iter().map(public_of).collect();
                            pb[j] = CredentialsInputs::Account { commitments: cm };
                            pert.push(json!([format!("account_commitment_rerandomised#{}", j), vb(&pres, &global, &pb)]));
                            let mut cm = coms.clone(); cm.remove(&t);
                            pb[j] = CredentialsInputs::Account { commitments: cm };
                            pert.push(json!([format!("account_commitment_missing#{}", j), vb(&pres, &global, &pb)]));
                            pb[j] = CredentialsInputs::Web3 { issuer_pk: SigningKey::generate(&mut csprng).verifying_key().into() };
                            pert.push(json!([format!("account_public_wrong_type#{}", j), vb(&pres, &global, &pb)]));
                        }
                        // statements / revealed values (re-signed when there are holders: the attacker may be a holder)
                        for (k, s) in ss.iter().enumerate() {
                            let v = al.iter().find(|(t, _)| *t == s.tag()).map(|(_, a)| a.clone()).unwrap();
                            if let Some(s2) = alter_stmt(&mut r, s, &v, al) {
                                if format!("{}", stmt_json::<W>(&s2)) == format!("{}", stmt_json::<W>(s)) { continue; }
                                let mut pr = proofs.clone(); pr[k].0 = mk_stmt::<W, _>(&s2, AttributeTag(s2.tag()));
                                let mut b = body.clone(); b[j] = CredentialProof::Account { created: *cr, network: *network, cred_id: *cred_id, issuer: *issuer, proofs: pr };
                                if let Some(p) = resign(challenge, b, created, &signers) { pert.push(json!([format!("account_statement_altered#{}", j), vb(&p, &global, &public)])); }
                            }
                            if let AtomicProof::RevealAttribute { attribute, proof: dl } = &proofs[k].1 {
                                let mut other = A::N(r.next());
                                let mut g = 0;
                                while W::mk(&other).unwrap().to_field_element() == attribute.to_field_element() && g < 100 { other = A::N(r.next()); g += 1; }
                                let mut pr = proofs.clone(); pr[k].1 = AtomicProof::RevealAttribute { attribute: W::mk(&other).unwrap(), proof: dl.clone() };
                                let mut b = body.clone(); b[j] = CredentialProof::Account { created: *cr, network: *network, cred_id: *cred_id, issuer: *issuer, proofs: pr };
                                if let Some(p) = resign(challenge, b, created, &signers) { pert.push(json!([format!("account_revealed_value#{}", j), vb(&p, &global, &public)])); }
                            }
                        }
                    }
                    (Cred::Web3 { al, ss, signer, .. }, CredentialProof::Web3Id { created: cr, holder, network, contract, ty, commitments, proofs }) => {
                        let mk = |cr, holder, network, contract, ty: BTreeSet<String>, commitments: SignedCommitments<ArCurve>, proofs| {
                            let mut b = body.clone(); b[j] = CredentialProof::Web3Id { created: cr, holder, network, contract, ty, commitments, proofs }; b };
                        let on = if *network == Network::Testnet { Network::Mainnet } else { Network::Testnet };
                        let other_key = SigningKey::generate(&mut csprng);
                        let mut ty2 = ty.clone(); ty2.insert("Extra".into());
                        // without re-signing: every field of the body is covered by the linking signature
                        let plain = vec![
                            ("web3_meta_created", mk(*cr + chrono::Duration::milliseconds(1), *holder, *network, *contract, ty.clone(), commitments.clone(), proofs.clone())),
                            ("web3_meta_network", mk(*cr, *holder, on, *contract, ty.clone(), commitments.clone(), proofs.clone())),
                            ("web3_meta_contract", mk(*cr, *holder, *network, ContractAddress::new(contract.index + 1, contract.subindex), ty.clone(), commitments.clone(), proofs.clone())),
                            ("web3_meta_type", mk(*cr, *holder, *network, *contract, ty2, commitments.clone(), proofs.clone())),
                            ("web3_meta_holder", mk(*cr, CredentialHolderId::new(other_key.verifying_key()), *network, *contract, ty.clone(), commitments.clone(), proofs.clone())),
                        ];
                        for (name, b) in plain { pert.push(json!([format!("{}#{}", name, j), vb(&rebuild(&pres, b), &global, &public)])); }
                        // re-signed by the (possibly malicious) holder: issuer signature / ZK proofs must still protect
                        fn sig_for_impl<'x>(creds: &'x [Cred], j: usize, replace: Option<&'x SigningKey>) -> Vec<&'x SigningKey> {
                            let mut v = Vec::new();
                            for (jj, c2) in creds.iter().enumerate() { if let Cred::Web3 { signer: s2, .. } = c2 { v.push(if jj == j { replace.unwrap_or(s2) } else { s2 }); } }
                            v
                        }
                        let sig_for = |replace| sig_for_impl(&creds, j, replace);
                        let b = mk(*cr, *holder, *network, ContractAddress::new(contract.index + 1, contract.subindex), ty.clone(), commitments.clone(), proofs.clone());
                        if let Some(p) = resign(challenge, b, created, &sig_for(None)) { pert.push(json!([format!("web3_contract_resigned#{}", j), vb(&p, &global, &public)])); }
                        let b = mk(*cr, CredentialHolderId::new(other_key.verifying_key()), *network, *contract, ty.clone(), commitments.clone(), proofs.clone());
                        if let Some(p) = resign(challenge, b, created, &sig_for(Some(&other_key))) { pert.push(json!([format!("web3_holder_replaced_resigned#{}", j), vb(&p, &global, &public)])); }
                        // commitments: alter one commitment (issuer signature must fail), re-signed by the holder
                        if let Some((k0, c0)) = commitments.commitments.iter().next() {
                            let mut cm = commitments.clone();
                            cm.commitments.insert(k0.clone(), Commitment(c0.0.plus_point(&global.on_chain_commitment_key.g)));
                            let b = mk(*cr, *holder, *network, *contract, ty.clone(), cm, proofs.clone());
                            if let Some(p) = resign(challenge, b, created, &sig_for(None)) { pert.push(json!([format!("web3_commitment_altered_resigned#{}", j), vb(&p, &global, &public)])); }
                            if commitments.commitments.len() >= 2 {
                                let ks: Vec<String> = commitments.commitments.keys().cloned().collect();
                                let (ca, cb2) = (commitments.commitments[&ks[0]], commitments.commitments[&ks[1]]);
                                if ca != cb2 {
                                    let mut cm = commitments.clone(); cm.commitments.insert(ks[0].clone(), cb2); cm.commitments.insert(ks[1].clone(), ca);
                                    let b = mk(*cr, *holder, *network, *contract, ty.clone(), cm, proofs.clone());
                                    if let Some(p) = resign(challenge, b, created, &sig_for(None)) { pert.push(json!([format!("web3_commitments_swapped_resigned#{}", j), vb(&p, &global, &public)])); }
                                }
                            }
                            let mut cm = commitments.clone(); let mut sb = cm.signature.to_bytes(); sb[5] ^= 4; cm.signature = ed25519_dalek::Signature::from_bytes(&sb);
                            let b = mk(*cr, *holder, *network, *contract, ty.clone(), cm, proofs.clone());
                            if let Some(p) = resign(challenge, b, created, &sig_for(None)) { pert.push(json!([format!("web3_issuer_signature_altered_resigned#{}", j), vb(&p, &global, &public)])); }
                        }
                        // issuer public key
                        let mut pb: Vec<CredentialsInputs<ArCurve>> = creds.iter().map(public_of).collect();
                        pb[j] = CredentialsInputs::Web3 { issuer_pk: other_key.verifying_key().into() };
                        pert.push(json!([format!("web3_issuer_key#{}", j), vb(&pres, &global, &pb)]));
                        pb[j] = CredentialsInputs::Account { commitments: BTreeMap::new() };
                        pert.push(json!([format!("web3_public_wrong_type#{}", j), vb(&pres, &global, &pb)]));
                        // statements / revealed values, re-signed
                        for (k, s) in ss.iter().enumerate() {
                            let v = al.iter().find(|(t, _)| *t == s.tag()).map(|(_, a)| a.clone()).unwrap();
                            if let Some(s2) = alter_stmt(&mut r, s, &v, al) {
                                if format!("{}", stmt_json::<W>(&s2)) == format!("{}", stmt_json::<W>(s)) { continue; }
                                let mut pr = proofs.clone(); pr[k].0 = mk_stmt::<W, _>(&s2, s2.tag().to_string());
                                let b = mk(*cr, *holder, *network, *contract, ty.clone(), commitments.clone(), pr.clone());
                                pert.push(json!([format!("web3_statement_altered#{}", j), vb(&rebuild(&pres, b.clone()), &global, &public)]));
                                if let Some(p) = resign(challenge, b, created, &sig_for(None)) { pert.push(json!([format!("web3_statement_altered_resigned#{}", j), vb(&p, &global, &public)])); }
                            }
                            if let AtomicProof::RevealAttribute { attribute, proof: dl } = &proofs[k].1 {
                                let mut other = A::N(r.next());
                                let mut g = 0;
                                while W::mk(&other).unwrap().to_field_element() == attribute.to_field_element() && g < 100 { other = A::N(r.next()); g += 1; }
                                let mut pr = proofs.clone(); pr[k].1 = AtomicProof::RevealAttribute { attribute: W::mk(&other).unwrap(), proof: dl.clone() };
                                let b = mk(*cr, *holder, *network, *contract, ty.clone(), commitments.clone(), pr);
                                if let Some(p) = resign(challenge, b, created, &sig_for(None)) { pert.push(json!([format!("web3_revealed_value_resigned#{}", j), vb(&p, &global, &public)])); }
                            }
                        }
                        let _ = signer;
                    }
                    _ => {}
                }
            }
            // --- linking proof shape and keys
            if !signers.is_empty() {
                let msg = linking_message(&challenge, &body);
                let good: Vec<_> = signers.iter().map(|k| k.sign(&msg)).collect();
                if let Some(p) = with_signatures(challenge, body.clone(), created, &good[..good.len() - 1]) { pert.push(json!(["linking_signature_missing", vb(&p, &global, &public)])); }
                let mut extra = good.clone(); extra.push(good[0]);
                if let Some(p) = with_signatures(challenge, body.clone(), created, &extra) { pert.push(json!(["linking_signature_excess", vb(&p, &global, &public)])); }
                let mut bad = good.clone(); let mut sb = bad[0].to_bytes(); sb[40] ^= 1; bad[0] = ed25519_dalek::Signature::from_bytes(&sb);
                if let Some(p) = with_signatures(challenge, body.clone(), created, &bad) { pert.push(json!(["linking_signature_bitflip", vb(&p, &global, &public)])); }
                let wrong_key = SigningKey::generate(&mut csprng);
                let mut wk = good.clone(); wk[0] = wrong_key.sign(&msg);
                if let Some(p) = with_signatures(challenge, body.clone(), created, &wk) { pert.push(json!(["linking_signature_wrong_key", vb(&p, &global, &public)])); }
                // signature over other bytes: the body without the domain string, the body of another challenge
                let mut other_msg = msg.clone(); other_msg[20] ^= 1;
                let mut wm = good.clone(); wm[0] = signers[0].sign(&other_msg);
                if let Some(p) = with_signatures(challenge, body.clone(), created, &wm) { pert.push(json!(["linking_signature_other_message", vb(&p, &global, &public)])); }
                let mut wm = good.clone(); wm[0] = signers[0].sign(&msg[14..].to_vec());
                if let Some(p) = with_signatures(challenge, body.clone(), created, &wm) { pert.push(json!(["linking_signature_without_domain", vb(&p, &global, &public)])); }
                if good.len() >= 2 && good[0] != good[1] {
                    let mut sw = good.clone(); sw.swap(0, 1);
                    if let Some(p) = with_signatures(challenge, body.clone(), created, &sw) { pert.push(json!(["linking_signatures_swapped", vb(&p, &global, &public)])); }
                }
            }
            out["pert"] = json!(pert);
            out["must_accept"] = json!(accept);
            // --- transcript tie
            if want_tie {
                if let (Cred::Account { al, coms, .. }, CredentialProof::Account { proofs, .. }) = (&creds[0], &body[0]) {
                    if let Some((_, AtomicProof::RevealAttribute { attribute, proof: dl })) = proofs.first() {
                        let com = coms.get(&AttributeTag(al[0].0)).unwrap();
                        let x = attribute.to_field_element();
                        let mut mx = x; mx.negate();
                        let public_pt = com.0.plus_point(&global.on_chain_commitment_key.g.mul_by_scalar(&mx));
                        let d = Dlog::<ArCurve> { public: public_pt, coeff: global.on_chain_commitment_key.h };
                        let ch = d.get_challenge(&dl.challenge);
                        if let Some(point) = d.extract_commit_message(&ch, &dl.response) {
                            out["tie"] = json!({"flow":"web3v0","challenge":hex(challenge.as_ref()),"global":hex(&to_bytes(&global)),
                                "x":hex(&to_bytes(&x)),"keys":hex(&to_bytes(&global.on_chain_commitment_key)),"C":hex(&to_bytes(com)),
                                "public":hex(&to_bytes(&public_pt)),"coeff":hex(&to_bytes(&global.on_chain_commitment_key.h)),"point":hex(&to_bytes(&point)),
                                "fs":hex(dl.challenge.as_ref())});
                        }
                    }
                }
            }
        }
        println!("{}", out);
        // ---- consistent lies: presentations built FROM THE START with metadata that differs from the public data
        // the verifier resolves (single-credential cases whose honest presentation verifies)
        if creds.len() == 1 && out["verify"] == json!(true) {
            let lie_row = |name: &str, proved: &str, res: J| println!("{}", json!({"k":"lie","flow":"v0","name":name,"i":i,"seed":seed,"kind":cj[0]["kind"],"cred":cj[0],"prove":proved,"verify":res}));
            let try_lie = |name: &str, req: Request<ArCurve, W>, inp: CommitmentInputs<'_, ArCurve, W, SigningKey>, public: &[CredentialsInputs<ArCurve>]| {
                let p = guarded(|| req.prove_with_rng(&global, vec![inp].into_iter(), &mut StdRng::seed_from_u64(seed + i + 99), now));
                match p {
                    Ok(Ok(p)) => lie_row(name, "Some", vb(&p, &global, public)),
                    Ok(Err(_)) => lie_row(name, "Err", J::Null),
                    Err(_) => lie_row(name, "PANIC", J::Null),
                }
            };
            match &creds[0] {
                Cred::Account { al, ss, cred_id, issuer, network, values, rand, .. } => {
                    let stm: Vec<_> = ss.iter().map(|s| mk_stmt::<W, _>(s, AttributeTag(s.tag()))).collect();
                    let on = if *network == Network::Testnet { Network::Mainnet } else { Network::Testnet };
                    let mk = |n: Network, cid: CredentialRegistrationID| Request { challenge, credential_statements: vec![CredentialStatement::Account { network: n, cred_id: cid, statement: stm.clone() }] };
                    try_lie("account_meta_issuer_from_start", mk(*network, *cred_id), CommitmentInputs::Account { issuer: IpIdentity(issuer.0 + 1), values, randomness: rand }, &public);
                    try_lie("account_meta_network_from_start", mk(on, *cred_id), CommitmentInputs::Account { issuer: *issuer, values, randomness: rand }, &public);
                    if !ss.is_empty() {
                        // names another registered credential: the verifier resolves THAT credential's commitments
                        let w2: World<W> = build_world(&global, al, &mut csprng);
                        let cid2 = CredentialRegistrationID::from_exponent(&global, ArCurve::generate_scalar(&mut csprng));
                        try_lie("account_cred_id_of_other_credential", mk(*network, cid2), CommitmentInputs::Account { issuer: *issuer, values, randomness: rand },
                                &[CredentialsInputs::Account { commitments: w2.coms }]);
                    }
                    try_lie("account_presented_against_web3_public_data", mk(*network, *cred_id), CommitmentInputs::Account { issuer: *issuer, values, randomness: rand },
                            &[CredentialsInputs::Web3 { issuer_pk: SigningKey::generate(&mut csprng).verifying_key().into() }]);
                }
                Cred::Web3 { ss, signer, issuer_key, contract, network, ty, values, rand, signature, .. } => {
                    let stm: Vec<_> = ss.iter().map(|s| mk_stmt::<W, _>(s, s.tag().to_string())).collect();
                    let on = if *network == Network::Testnet { Network::Mainnet } else { Network::Testnet };
                    let mk = |n: Network, ct: ContractAddress, holder: &SigningKey, t: BTreeSet<String>| Request { challenge, credential_statements: vec![CredentialStatement::Web3Id {
                        ty: t, network: n, contract: ct, credential: CredentialHolderId::new(holder.verifying_key()), statement: stm.clone() }] };
                    fn inp_of<'x>(signature: &ed25519_dalek::Signature, sg: &'x SigningKey, values: &'x BTreeMap<String, W>, rand: &'x BTreeMap<String, PedersenRandomness<ArCurve>>) -> CommitmentInputs<'x, ArCurve, W, SigningKey> {
                        CommitmentInputs::Web3Issuer { signature: *signature, signer: sg, values, randomness: rand }
                    }
                    let inp = |sg| inp_of(signature, sg, values, rand);
                    let other_contract = ContractAddress::new(contract.index + 1, contract.subindex);
                    try_lie("web3_contract_from_start", mk(*network, other_contract, signer, ty.clone()), inp(signer), &public);
                    let other_issuer = SigningKey::generate(&mut csprng);
                    try_lie("web3_contract_from_start_vs_its_registry_key", mk(*network, other_contract, signer, ty.clone()), inp(signer),
                            &[CredentialsInputs::Web3 { issuer_pk: other_issuer.verifying_key().into() }]);
                    let other_holder = SigningKey::generate(&mut csprng);
                    try_lie("web3_holder_from_start", mk(*network, *contract, &other_holder, ty.clone()), inp(&other_holder), &public);
                    try_lie("web3_presented_against_account_public_data", mk(*network, *contract, signer, ty.clone()), inp(signer),
                            &[CredentialsInputs::Account { commitments: BTreeMap::new() }]);
                    // asserted by the holder only (not covered by the issuer's signature)
                    try_lie("web3_holder_asserted_network_from_start", mk(on, *contract, signer, ty.clone()), inp(signer), &public);
                    let mut ty2 = ty.clone(); ty2.insert("SomeOtherCredentialType".into());
                    try_lie("web3_holder_asserted_type_from_start", mk(*network, *contract, signer, ty2), inp(signer), &public);
                    let _ = issuer_key;
                }
            }
        }
    }
    // rogue signers: the honest prover API with a signer that signs with another key / other bytes
    for (name, flip, other) in [("rogue_signer_other_key", false, true), ("rogue_signer_other_bytes", true, false)] {
        let al = vec![(1u8, A::N(42))];
        let ss = vec![St::Reveal(1)];
        let id = SigningKey::generate(&mut csprng);
        let issuer_key = SigningKey::generate(&mut csprng);
        let contract = ContractAddress::new(7, 0);
        let mut values = BTreeMap::new(); let mut rand = BTreeMap::new();
        values.insert("1".to_string(), W::Numeric(42)); rand.insert("1".to_string(), PedersenRandomness::<ArCurve>::generate(&mut csprng));
        let holder = CredentialHolderId::new(id.verifying_key());
        let signed = SignedCommitments::from_secrets(&global, &values, &rand, &holder, &issuer_key, contract).unwrap();
        let rogue = RogueSigner { id: id.clone(), signs_with: if other { SigningKey::generate(&mut csprng) } else { id.clone() }, flip };
        let challenge = Challenge::new([7u8; 32]);
        let request = Request::<ArCurve, W> { challenge, credential_statements: vec![CredentialStatement::Web3Id {
            ty: BTreeSet::new(), network: Network::Testnet, contract, credential: holder, statement: ss.iter().map(|s| mk_stmt::<W, _>(s, s.tag().to_string())).collect() }] };
        let public = vec![CredentialsInputs::Web3 { issuer_pk: issuer_key.verifying_key().into() }];
        let honest_inputs = vec![CommitmentInputs::Web3Issuer { signature: signed.signature, signer: &id, values: &values, randomness: &rand }];
        let honest = guarded(|| request.clone().prove_with_rng(&global, honest_inputs.into_iter(), &mut StdRng::seed_from_u64(seed), now));
        let (hp, hv) = match honest { Ok(Ok(p)) => (json!("Some"), vb(&p, &global, &public)), Ok(Err(_)) => (json!("Err"), J::Null), Err(_) => (json!("PANIC"), J::Null) };
        let inputs = vec![CommitmentInputs::Web3Issuer { signature: signed.signature, signer: &rogue, values: &values, randomness: &rand }];
        let pres = guarded(|| request.prove_with_rng(&global, inputs.into_iter(), &mut StdRng::seed_from_u64(seed), now));
        let res = match pres { Ok(Ok(p)) => vb(&p, &global, &public), Ok(Err(_)) => json!(false), Err(_) => json!("PANIC") };
        let cj = json!([{"kind":"web3","ty":"web3","al":[[1, a_json(&al[0].1), fe_hex(&W::Numeric(42))]],"ss":[stmt_json::<W>(&ss[0])]}]);
        // reported as a perturbation of an (implicit) verifying presentation
        println!("{}", json!({"k":"pres","flow":"v0","variant":name,"creds":cj,"prove":hp,"verify":hv,"pert":[[name, res]]}));
    }
}
