//! web3id v1: `RequestV1::prove_with_rng` / `PresentationV1::verify` over account and identity
//! credentials (identity_attributes_credentials.rs underneath), and request-anchor verification.
use crate::*;
use concordium_base::base::CredentialRegistrationID;
use concordium_base::hashes;
use concordium_base::id::constants::IpPairing;
use concordium_base::id::{identity_provider, test as idtest};
use concordium_base::web3id::did::Network;
use concordium_base::web3id::v1::anchor::*;
use concordium_base::web3id::v1::*;

type W = Web3IdAttribute;
type Pres = PresentationV1<IpPairing, ArCurve, W>;
type Mat = CredentialVerificationMaterial<IpPairing, ArCurve>;
type StmtV1 = AtomicStatementV1<ArCurve, AttributeTag, W>;

/// v1 statements: the four of `St` with Reveal replaced by "attribute equals value".
#[derive(Clone, Debug)]
enum S1 { Base(St), Value(u8, A) }
impl S1 {
    fn tag(&self) -> u8 { match self { S1::Base(s) => s.tag(), S1::Value(t, _) => *t } }
}
fn mk1(s: &S1) -> StmtV1 {
    match s {
        S1::Value(t, a) => AtomicStatementV1::AttributeValue(AttributeValueStatement { attribute_tag: AttributeTag(*t), attribute_value: W::mk(a).unwrap(), _phantom: PhantomData }),
        S1::Base(b) => match mk_stmt::<W, _>(b, AttributeTag(b.tag())) {
            AtomicStatement::AttributeInRange { statement } => AtomicStatementV1::AttributeInRange(statement),
            AtomicStatement::AttributeInSet { statement } => AtomicStatementV1::AttributeInSet(statement),
            AtomicStatement::AttributeNotInSet { statement } => AtomicStatementV1::AttributeNotInSet(statement),
            AtomicStatement::RevealAttribute { .. } => unreachable!(),
        },
    }
}
fn s1_json(s: &S1) -> J {
    match s {
        S1::Base(b) => stmt_json::<W>(b),
        S1::Value(t, a) => json!({"s":"value","tag":t,"v":{"a":a_json(a),"fe":fe_hex(&W::mk(a).unwrap())}}),
    }
}
fn requested(s: &S1) -> RequestedStatement<AttributeTag> {
    match mk1(s) {
        AtomicStatementV1::AttributeValue(st) => RequestedStatement::RevealAttribute(RevealAttributeStatement { attribute_tag: st.attribute_tag }),
        AtomicStatementV1::AttributeInRange(st) => RequestedStatement::AttributeInRange(st),
        AtomicStatementV1::AttributeInSet(st) => RequestedStatement::AttributeInSet(st),
        AtomicStatementV1::AttributeNotInSet(st) => RequestedStatement::AttributeNotInSet(st),
    }
}

struct Idp {
    ip_info: IpInfo<IpPairing>,
    ip_secret: concordium_base::ps_sig::SecretKey<IpPairing>,
    ars: ArInfos<ArCurve>,
}

enum Cred {
    Account { al: Vec<(u8, A)>, ss: Vec<S1>, cred_id: CredentialRegistrationID, network: Network, inputs: OwnedCredentialProofPrivateInputs<IpPairing, ArCurve, W>, material: Mat, issuer: IpIdentity },
    Identity { al: Vec<(u8, A)>, ss: Vec<S1>, network: Network, inputs: OwnedCredentialProofPrivateInputs<IpPairing, ArCurve, W>, material: Mat, issuer: IpIdentity },
}
impl Cred {
    fn al(&self) -> &Vec<(u8, A)> { match self { Cred::Account { al, .. } | Cred::Identity { al, .. } => al } }
    fn ss(&self) -> &Vec<S1> { match self { Cred::Account { ss, .. } | Cred::Identity { ss, .. } => ss } }
    fn material(&self) -> &Mat { match self { Cred::Account { material, .. } | Cred::Identity { material, .. } => material } }
    fn inputs(&self) -> &OwnedCredentialProofPrivateInputs<IpPairing, ArCurve, W> { match self { Cred::Account { inputs, .. } | Cred::Identity { inputs, .. } => inputs } }
    fn kind(&self) -> &'static str { match self { Cred::Account { .. } => "account", Cred::Identity { .. } => "identity" } }
    fn claims(&self) -> SubjectClaims<ArCurve, W> {
        match self {
            Cred::Account { ss, cred_id, network, issuer, .. } => SubjectClaims::Account(AccountBasedSubjectClaims { network: *network, issuer: *issuer, cred_id: *cred_id, statements: ss.iter().map(mk1).collect() }),
            Cred::Identity { ss, network, issuer, .. } => SubjectClaims::Identity(IdentityBasedSubjectClaims { network: *network, issuer: *issuer, statements: ss.iter().map(mk1).collect() }),
        }
    }
}

fn gen_s1(r: &mut Rng, al: &[(u8, A)], all_true: bool, identity: bool) -> Vec<S1> {
    let mut base = gen_stmts_pub(r, al, true);
    if all_true { base.retain(|s| impl_truth_supported(al, s)); }
    let mut out: Vec<S1> = Vec::new();
    for s in base {
        match s {
            St::Reveal(t) => {
                let v = al.iter().find(|(t2, _)| *t2 == t).map(|(_, a)| a.clone());
                let v = match v { Some(v) => v, None => continue };
                let val = if !all_true && r.chance(1, 3) { succ_attr_pub(&v, 1).unwrap_or(A::N(r.next())) }
                          else if !identity && r.chance(1, 6) { match &v { A::N(n) => A::T((*n % (1u64 << 53)).max(1u64 << 36)), x => x.clone() } }
                          else { v };
                out.push(S1::Value(t, val));
            }
            other => out.push(S1::Base(other)),
        }
    }
    if out.is_empty() && all_true { out.push(S1::Value(al[0].0, al[0].1.clone())); }
    out
}

fn gen_cred(r: &mut Rng, csprng: &mut StdRng, global: &GlobalContext<ArCurve>, idp: &Idp, identity: bool, all_true: bool, network: Network,
            preset: Option<(Vec<(u8, A)>, Vec<S1>)>) -> Cred {
    let (al, ss) = match preset {
        Some(x) => x,
        None => { let al = gen_alist_pub(r, true); let ss = gen_s1(r, &al, all_true, identity); (al, ss) }
    };
    if identity {
        let id_use = idtest::test_create_id_use_data(csprng);
        let (_ctx, pio, _) = idtest::test_create_pio_v1(&id_use, &idp.ip_info, &idp.ars.anonymity_revokers, global, 3, csprng);
        let alist: AttributeList<Scalar, W> = AttributeList {
            valid_to: YearMonth::new(2030, 5).unwrap(), created_at: YearMonth::new(2020, 5).unwrap(), max_accounts: 237,
            alist: al.iter().map(|(t, a)| (AttributeTag(*t), W::mk(a).unwrap())).collect(), _phantom: Default::default() };
        let sig = identity_provider::sign_identity_object_v1_with_rng(&pio, &idp.ip_info, &alist, &idp.ip_secret, csprng).expect("sign");
        let id_object = IdentityObjectV1 { pre_identity_object: pio, alist, signature: sig };
        let inputs = OwnedCredentialProofPrivateInputs::Identity(Box::new(OwnedIdentityCredentialProofPrivateInputs {
            ip_info: idp.ip_info.clone(), ars_infos: idp.ars.clone(), id_object, id_object_use_data: id_use }));
        let material = CredentialVerificationMaterial::Identity(IdentityCredentialVerificationMaterial { ip_info: idp.ip_info.clone(), ars_infos: idp.ars.clone() });
        Cred::Identity { al, ss, network, inputs, material, issuer: idp.ip_info.ip_identity }
    } else {
        let w: World<W> = build_world(global, &al, csprng);
        let cred_id = CredentialRegistrationID::from_exponent(global, ArCurve::generate_scalar(csprng));
        let issuer = IpIdentity(r.below(20) as u32);
        let inputs = OwnedCredentialProofPrivateInputs::Account(OwnedAccountCredentialProofPrivateInputs { issuer, attribute_values: w.values, attribute_randomness: w.rand });
        let material = CredentialVerificationMaterial::Account(AccountCredentialVerificationMaterial { issuer, attribute_commitments: w.coms });
        Cred::Account { al, ss, cred_id, network, inputs, material, issuer }
    }
}

fn vb(p: &Pres, global: &GlobalContext<ArCurve>, mats: &[Mat]) -> J {
    match guarded(|| p.verify(global, mats.iter()).is_ok()) { Ok(x) => json!(x), Err(_) => json!("PANIC") }
}

fn block_hash(r: &mut Rng) -> hashes::BlockHash { let b = r.bytes(32); let mut a = [0u8; 32]; a.copy_from_slice(&b); hashes::BlockHash::new(a) }

fn alter_s1(r: &mut Rng, s: &S1, v: &A) -> Option<S1> {
    match s {
        S1::Value(t, a) => Some(S1::Value(*t, succ_attr_pub(a, 1).unwrap_or(A::N(r.next())))),
        S1::Base(St::Range(t, lo, hi)) => succ_attr_pub(hi, 1).map(|h2| S1::Base(St::Range(*t, lo.clone(), h2))).or_else(|| pred_attr_pub(lo, 1).map(|l2| S1::Base(St::Range(*t, l2, hi.clone())))),
        S1::Base(St::In(t, set)) | S1::Base(St::NotIn(t, set)) => {
            let mut extra = A::N(r.next());
            while set.contains(&extra) || &extra == v { extra = A::N(r.next()); }
            let mut s2 = set.clone(); s2.push(extra);
            Some(S1::Base(if matches!(s, S1::Base(St::In(..))) { St::In(*t, s2) } else { St::NotIn(*t, s2) }))
        }
        _ => None,
    }
}

pub fn run(seed: u64, n: u64) {
    let mut r = Rng::new(seed ^ 0x7631);
    let mut csprng = StdRng::seed_from_u64(seed ^ 0x7631);
    let global = GlobalContext::<ArCurve>::generate(String::from("verif-c18"));
    let global2 = GlobalContext::<ArCurve>::generate(String::from("verif-c18-other"));
    let mk_idp = |csprng: &mut StdRng, id: u32| {
        let IpData { public_ip_info: mut ip_info, ip_secret_key, .. } = idtest::test_create_ip_info(csprng, 3, 12);
        ip_info.ip_identity = IpIdentity(id);
        let (ars, _) = idtest::test_create_ars(&global.on_chain_commitment_key.g, 3, csprng);
        Idp { ip_info, ip_secret: ip_secret_key, ars: ArInfos { anonymity_revokers: ars } }
    };
    let idp = mk_idp(&mut csprng, 3);
    let idp_other = mk_idp(&mut csprng, 3);
    let now = chrono::DateTime::parse_from_rfc3339("2024-02-29T12:00:00Z").unwrap().to_utc();
    let mut ties = 0;
    // fixed corpus: attribute-value ("equals") statements, true and false, revealed and committed
    let dk = || A::S("DK".into());
    let base_al = || vec![(1u8, A::N(42)), (2u8, dk()), (3u8, A::S("19970505".into()))];
    let corpus: Vec<(bool, Vec<S1>)> = vec![
        (true, vec![S1::Value(1, A::N(42))]),
        (true, vec![S1::Value(1, A::N(43))]),
        (true, vec![S1::Value(2, A::S("DE".into()))]),
        (true, vec![S1::Value(1, A::N(43)), S1::Base(St::Range(1, A::N(40), A::N(50)))]),
        (true, vec![S1::Value(2, dk()), S1::Base(St::In(2, vec![dk(), A::S("NO".into())]))]),
        (true, vec![S1::Value(2, dk()), S1::Value(1, A::N(41))]),
        (true, vec![S1::Base(St::Range(3, A::S("19970505".into()), A::S("19970506".into()))), S1::Base(St::NotIn(2, vec![A::S("DE".into())]))]),
        (true, vec![S1::Base(St::Range(3, A::S("19970404".into()), A::S("19970505".into())))]),
        (false, vec![S1::Value(1, A::N(43))]),
        (false, vec![S1::Value(1, A::T(1u64 << 40))]),
        (false, vec![S1::Value(1, A::N(42)), S1::Value(2, A::S("dk".into()))]),
        (false, vec![S1::Base(St::Range(1, A::N(42), A::N(43))), S1::Base(St::In(2, vec![A::S("NO".into())]))]),
    ];
    let ncorpus = corpus.len() as u64;
    for i in 0..(n + ncorpus) {
        let ncred = if i >= ncorpus && i % 4 == 3 { 2 } else { 1 };
        let all_true = i % 3 != 2;
        let network = if r.chance(1, 2) { Network::Testnet } else { Network::Mainnet };
        let mut creds: Vec<Cred> = (0..ncred).map(|j| {
            if i < ncorpus { let (idc, ss) = corpus[i as usize].clone(); gen_cred(&mut r, &mut csprng, &global, &idp, idc, all_true, network, Some((base_al(), ss))) }
            else { gen_cred(&mut r, &mut csprng, &global, &idp, (i + j) % 2 == 1, all_true, network, None) }
        }).collect();
        let want_tie = i >= ncorpus && ties < 3 && matches!(creds[0], Cred::Account { .. });
        if want_tie { if let Cred::Account { ss, al, .. } = &mut creds[0] { ss.insert(0, S1::Value(al[0].0, al[0].1.clone())); ties += 1; } }
        let bh = block_hash(&mut r);
        let nonce = { let b = r.bytes(32); let mut a = [0u8; 32]; a.copy_from_slice(&b); Nonce(a) };
        let unfilled = UnfilledContextInformation {
            given: vec![LabeledContextProperty::Nonce(nonce), LabeledContextProperty::ConnectionId(format!("conn-{}", r.below(1000))), LabeledContextProperty::ContextString(gen_string(&mut r, 5))],
            requested: vec![ContextLabel::BlockHash],
        };
        let context = ContextInformation {
            given: unfilled.given.iter().map(|p| p.to_context_property()).collect(),
            requested: vec![LabeledContextProperty::BlockHash(bh).to_context_property()],
        };
        let request = RequestV1 { context: context.clone(), subject_claims: creds.iter().map(|c| c.claims()).collect() };
        let mats: Vec<Mat> = creds.iter().map(|c| c.material().clone()).collect();
        let cj: Vec<J> = creds.iter().map(|c| json!({"kind": c.kind(), "ty": "web3",
            "al": c.al().iter().map(|(t, a)| json!([t, a_json(a), fe_hex(&W::mk(a).unwrap())])).collect::<Vec<_>>(),
            "ss": c.ss().iter().map(s1_json).collect::<Vec<_>>()})).collect();
        let mut out = json!({"k":"pres","flow":"v1","creds":cj,"i":i});
        let pres = guarded(|| request.clone().prove_with_rng(&global, creds.iter().map(|c| c.inputs().borrow()).collect::<Vec<_>>().into_iter(), &mut StdRng::seed_from_u64(seed + i), now));
        let pres: Pres = match pres {
            Err(_) => { out["prove"] = json!("PANIC"); println!("{}", out); continue; }
            Ok(Err(e)) => { out["prove"] = json!("Err"); out["err"] = json!(format!("{}", e)); println!("{}", out); continue; }
            Ok(Ok(p)) => p,
        };
        out["prove"] = json!("Some");
        let res = guarded(|| pres.verify(&global, mats.iter()));
        let verified = match &res {
            Err(_) => { out["verify"] = json!("PANIC"); false }
            Ok(Err(_)) => { out["verify"] = json!(false); false }
            Ok(Ok(req)) => { out["verify"] = json!(true); out["same_request"] = json!(*req == request); true }
        };
        if verified {
            // values revealed by an identity credential are exactly the values of the identity object
            let mut revealed_ok = true;
            for (c, vc) in creds.iter().zip(pres.verifiable_credentials.iter()) {
                if let (Cred::Identity { al, .. }, CredentialV1::Identity(ic)) = (c, vc) {
                    for (tag, attr) in ic.proof.proof_value.identity_attributes.iter() {
                        if let IdentityAttribute::Revealed(a) = attr { revealed_ok &= al.iter().any(|(t, x)| *t == tag.0 && *x == a.back()); }
                    }
                    revealed_ok &= ic.validity.created_at == YearMonth::new(2020, 5).unwrap() && ic.validity.valid_to == YearMonth::new(2030, 5).unwrap();
                }
            }
            out["revealed_ok"] = json!(revealed_ok);
            let rt = guarded(|| serde_json::to_value(&pres).ok().and_then(|v| serde_json::from_value::<Pres>(v).ok()));
            out["json_roundtrip"] = match rt { Ok(Some(p2)) => vb(&p2, &global, &mats), Ok(None) => json!("PARSE-ERR"), Err(_) => json!("SERIALIZE-PANIC") };
            // ---- JSON layer (every other case: identity verification is slow)
            if let Some(j0) = if i % 2 == 0 { guarded(|| serde_json::to_value(&pres).ok()).ok().flatten() } else { None } {
                let mut jm: Vec<J> = Vec::new();
                let mut unparse = 0u32;
                for (name, m) in json_mutations(&j0) {
                    match guarded(|| serde_json::from_value::<Pres>(m.clone()).ok()) {
                        Err(_) => jm.push(json!([name, "PANIC"])),
                        Ok(None) => unparse += 1,
                        Ok(Some(p2)) => {
                            let back = guarded(|| serde_json::to_value(&p2).ok()).ok().flatten();
                            let faithful = back.as_ref() == Some(&m);
                            let same = p2 == pres;
                            // the (unused) linking proof of v1 carries an unauthenticated timestamp
                            let mut p3 = p2.clone(); p3.linking_proof = pres.linking_proof.clone();
                            jm.push(json!([name, faithful, same, p3 == pres, vb(&p2, &global, &mats)]));
                        }
                    }
                }
                out["json"] = json!(jm);
                out["json_unparseable"] = json!(unparse);
            }
            if let Some(r0) = guarded(|| serde_json::to_value(&request).ok()).ok().flatten() {
                let mut jr: Vec<J> = Vec::new();
                let rt = serde_json::from_value::<RequestV1<ArCurve, W>>(r0.clone()).ok();
                jr.push(json!(["roundtrip", true, rt.as_ref() == Some(&request)]));
                for (name, m) in json_mutations(&r0) {
                    if let Ok(Some(q2)) = guarded(|| serde_json::from_value::<RequestV1<ArCurve, W>>(m.clone()).ok()) {
                        let back = guarded(|| serde_json::to_value(&q2).ok()).ok().flatten();
                        jr.push(json!([name, back.as_ref() == Some(&m), q2 == request]));
                    }
                }
                out["json_request"] = json!(jr);
            }
            let nstm: usize = creds.iter().map(|c| c.ss().len()).sum();
            let has_identity = creds.iter().any(|c| matches!(c, Cred::Identity { .. }));
            let mut pert: Vec<J> = Vec::new();
            // --- context (bound whenever at least one Fiat-Shamir challenge is derived)
            if nstm > 0 || has_identity {
                let mut p = pres.clone(); p.presentation_context.given[0].context.push('0');
                pert.push(json!(["context_given_value", vb(&p, &global, &mats)]));
                let mut p = pres.clone(); p.presentation_context.given[1].label = "ResourceId".into();
                pert.push(json!(["context_given_label", vb(&p, &global, &mats)]));
                let mut p = pres.clone(); p.presentation_context.given.pop();
                pert.push(json!(["context_given_dropped", vb(&p, &global, &mats)]));
                let mut p = pres.clone(); p.presentation_context.requested[0].context = block_hash(&mut r).to_string();
                pert.push(json!(["context_requested_value", vb(&p, &global, &mats)]));
                let mut p = pres.clone(); let g = p.presentation_context.given.clone(); p.presentation_context.given = p.presentation_context.requested.clone(); p.presentation_context.requested = g;
                pert.push(json!(["context_given_requested_swapped", vb(&p, &global, &mats)]));
                let mut p = pres.clone(); let x = p.presentation_context.given.pop().unwrap(); p.presentation_context.requested.insert(0, x);
                pert.push(json!(["context_property_moved", vb(&p, &global, &mats)]));
                pert.push(json!(["global_genesis_string", vb(&pres, &global2, &mats)]));
            }
            pert.push(json!(["material_dropped", vb(&pres, &global, &mats[..mats.len() - 1])]));
            for (j, c) in creds.iter().enumerate() {
                let bound = !c.ss().is_empty() || matches!(c, Cred::Identity { .. });
                match (&pres.verifiable_credentials[j], c) {
                    (CredentialV1::Account(ac), Cred::Account { al, ss, .. }) => {
                        let put = |a: AccountBasedCredentialV1<ArCurve, W>| { let mut p = pres.clone(); p.verifiable_credentials[j] = CredentialV1::Account(a); p };
                        // issuer: in the credential only (material mismatch) and in both (transcript)
                        let mut a = ac.clone(); a.issuer = IpIdentity(ac.issuer.0 + 1);
                        pert.push(json!([format!("account_issuer#{}", j), vb(&put(a.clone()), &global, &mats)]));
                        if bound {
                            let mut m2 = mats.clone();
                            if let CredentialVerificationMaterial::Account(am) = &mut m2[j] { am.issuer = a.issuer; }
                            pert.push(json!([format!("account_issuer_and_material#{}", j), vb(&put(a), &global, &m2)]));
                            let mut a = ac.clone(); a.proof.created_at = ac.proof.created_at + chrono::Duration::milliseconds(1);
                            pert.push(json!([format!("account_created#{}", j), vb(&put(a), &global, &mats)]));
                            let mut a = ac.clone(); a.subject.network = if ac.subject.network == Network::Testnet { Network::Mainnet } else { Network::Testnet };
                            pert.push(json!([format!("account_network#{}", j), vb(&put(a), &global, &mats)]));
                            let mut a = ac.clone(); a.subject.cred_id = CredentialRegistrationID::from_exponent(&global, ArCurve::generate_scalar(&mut csprng));
                            pert.push(json!([format!("account_cred_id#{}", j), vb(&put(a), &global, &mats)]));
                        }
                        for (k, s) in ss.iter().enumerate() {
                            let v = al.iter().find(|(t, _)| *t == s.tag()).map(|(_, a)| a.clone()).unwrap();
                            if let Some(s2) = alter_s1(&mut r, s, &v) {
                                if format!("{}", s1_json(&s2)) == format!("{}", s1_json(s)) { continue; }
                                let mut a = ac.clone(); a.subject.statements[k] = mk1(&s2);
                                pert.push(json!([format!("account_statement_altered#{}", j), vb(&put(a), &global, &mats)]));
                            }
                            // material: the commitment of the statement's attribute
                            if let CredentialVerificationMaterial::Account(am) = &mats[j] {
                                let t = AttributeTag(s.tag());
                                let x = W::mk(&v).unwrap();
                                let (cnew, _) = global.on_chain_commitment_key.commit(&Value::<ArCurve>::new(x.to_field_element()), &mut csprng);
                                let mut am2 = am.clone(); am2.attribute_commitments.insert(t, cnew);
                                let mut m2 = mats.clone(); m2[j] = CredentialVerificationMaterial::Account(am2);
                                pert.push(json!([format!("account_commitment_rerandomised#{}", j), vb(&pres, &global, &m2)]));
                                let mut am3 = am.clone(); am3.attribute_commitments.remove(&t);
                                let mut m3 = mats.clone(); m3[j] = CredentialVerificationMaterial::Account(am3);
                                pert.push(json!([format!("account_commitment_missing#{}", j), vb(&pres, &global, &m3)]));
                            }
                        }
                        if ss.len() >= 2 && format!("{}", s1_json(&ss[0])) != format!("{}", s1_json(&ss[1])) {
                            let mut a = ac.clone(); a.subject.statements.swap(0, 1); a.proof.proof_value.statement_proofs.swap(0, 1);
                            pert.push(json!([format!("account_statements_and_proofs_swapped#{}", j), vb(&put(a), &global, &mats)]));
                        }
                        if ss.len() >= 2 {
                            // (with a single statement nothing is left to verify: an empty claim list asserts nothing)
                            let mut a = ac.clone(); a.subject.statements.pop(); a.proof.proof_value.statement_proofs.pop();
                            pert.push(json!([format!("account_statement_and_proof_dropped#{}", j), vb(&put(a), &global, &mats)]));
                        }
                        if !ss.is_empty() {
                            let mut a = ac.clone(); a.proof.proof_value.statement_proofs.pop();
                            pert.push(json!([format!("account_proof_dropped#{}", j), vb(&put(a), &global, &mats)]));
                        }
                        let mut m2 = mats.clone(); m2[j] = idp.material_identity();
                        pert.push(json!([format!("account_material_wrong_type#{}", j), vb(&pres, &global, &m2)]));
                    }
                    (CredentialV1::Identity(ic), Cred::Identity { al, ss, .. }) => {
                        let put = |a: IdentityBasedCredentialV1<IpPairing, ArCurve, W>| { let mut p = pres.clone(); p.verifiable_credentials[j] = CredentialV1::Identity(a); p };
                        let mut a = ic.clone(); a.issuer = IpIdentity(ic.issuer.0 + 1);
                        pert.push(json!([format!("identity_issuer#{}", j), vb(&put(a), &global, &mats)]));
                        let mut a = ic.clone(); a.validity.valid_to = YearMonth::new(2031, 5).unwrap();
                        pert.push(json!([format!("identity_valid_to#{}", j), vb(&put(a), &global, &mats)]));
                        let mut a = ic.clone(); a.validity.created_at = YearMonth::new(2019, 5).unwrap();
                        pert.push(json!([format!("identity_created_at#{}", j), vb(&put(a), &global, &mats)]));
                        let mut a = ic.clone(); a.proof.created_at = ic.proof.created_at + chrono::Duration::milliseconds(1);
                        pert.push(json!([format!("identity_proof_created#{}", j), vb(&put(a), &global, &mats)]));
                        let mut a = ic.clone(); a.subject.network = if ic.subject.network == Network::Testnet { Network::Mainnet } else { Network::Testnet };
                        pert.push(json!([format!("identity_network#{}", j), vb(&put(a), &global, &mats)]));
                        let mut a = ic.clone(); let l = a.subject.cred_id.0.len(); a.subject.cred_id.0[l - 1] ^= 1;
                        pert.push(json!([format!("identity_cred_id_bitflip#{}", j), vb(&put(a), &global, &mats)]));
                        // the ephemeral id of another proof of the same identity
                        // identity attributes: a revealed value / a commitment / handling changed
                        let mut done_rev = false; let mut done_cmm = false;
                        for (tag, attr) in ic.proof.proof_value.identity_attributes.iter() {
                            match attr {
                                IdentityAttribute::Revealed(x) if !done_rev => {
                                    let mut a = ic.clone();
                                    let other = succ_attr_pub(&x.back(), 1).unwrap_or(A::N(r.next()));
                                    a.proof.proof_value.identity_attributes.insert(*tag, IdentityAttribute::Revealed(W::mk(&other).unwrap()));
                                    pert.push(json!([format!("identity_revealed_value#{}", j), vb(&put(a), &global, &mats)]));
                                    let mut a = ic.clone();
                                    a.proof.proof_value.identity_attributes.insert(*tag, IdentityAttribute::Known);
                                    pert.push(json!([format!("identity_revealed_to_known#{}", j), vb(&put(a), &global, &mats)]));
                                    done_rev = true;
                                }
                                IdentityAttribute::Committed(cm) if !done_cmm => {
                                    let mut a = ic.clone();
                                    a.proof.proof_value.identity_attributes.insert(*tag, IdentityAttribute::Committed(Commitment(cm.0.plus_point(&global.on_chain_commitment_key.h))));
                                    pert.push(json!([format!("identity_commitment_altered#{}", j), vb(&put(a), &global, &mats)]));
                                    done_cmm = true;
                                }
                                _ => {}
                            }
                        }
                        for (k, s) in ss.iter().enumerate() {
                            let v = al.iter().find(|(t, _)| *t == s.tag()).map(|(_, a)| a.clone()).unwrap();
                            if let Some(s2) = alter_s1(&mut r, s, &v) {
                                if format!("{}", s1_json(&s2)) == format!("{}", s1_json(s)) { continue; }
                                let mut a = ic.clone(); a.subject.statements[k] = mk1(&s2);
                                pert.push(json!([format!("identity_statement_altered#{}", j), vb(&put(a), &global, &mats)]));
                            }
                        }
                        if !ss.is_empty() {
                            let mut a = ic.clone(); a.subject.statements.pop(); a.proof.proof_value.statement_proofs.pop();
                            pert.push(json!([format!("identity_statement_and_proof_dropped#{}", j), vb(&put(a), &global, &mats)]));
                        }
                        // verification material: another identity provider key / other anonymity revokers
                        let mut m2 = mats.clone(); m2[j] = idp_other.material_identity();
                        pert.push(json!([format!("identity_material_other_idp#{}", j), vb(&pres, &global, &m2)]));
                        let mut m3 = mats.clone();
                        m3[j] = CredentialVerificationMaterial::Identity(IdentityCredentialVerificationMaterial { ip_info: idp.ip_info.clone(), ars_infos: idp_other.ars.clone() });
                        pert.push(json!([format!("identity_material_other_ars#{}", j), vb(&pres, &global, &m3)]));
                        let mut m4 = mats.clone(); m4[j] = CredentialVerificationMaterial::Account(AccountCredentialVerificationMaterial { issuer: ic.issuer, attribute_commitments: BTreeMap::new() });
                        pert.push(json!([format!("identity_material_wrong_type#{}", j), vb(&pres, &global, &m4)]));
                    }
                    _ => {}
                }
            }
            out["pert"] = json!(pert);
            // --- transcript tie (account credential, first statement an attribute-value statement)
            if want_tie {
                if let (Cred::Account { al, material: CredentialVerificationMaterial::Account(am), .. }, CredentialV1::Account(ac)) = (&creds[0], &pres.verifiable_credentials[0]) {
                    if let Some(AtomicProofV1::AttributeValue(avp)) = ac.proof.proof_value.statement_proofs.first() {
                        let com = am.attribute_commitments.get(&AttributeTag(al[0].0)).unwrap();
                        let x = W::mk(&al[0].1).unwrap().to_field_element();
                        let mut mx = x; mx.negate();
                        let public_pt = com.0.plus_point(&global.on_chain_commitment_key.g.mul_by_scalar(&mx));
                        let d = Dlog::<ArCurve> { public: public_pt, coeff: global.on_chain_commitment_key.h };
                        let ch = d.get_challenge(&avp.proof.challenge);
                        if let Some(point) = d.extract_commit_message(&ch, &avp.proof.response) {
                            out["tie"] = json!({"flow":"v1","given":hex(&to_bytes(&context.given)),"requested":hex(&to_bytes(&context.requested)),
                                "global":hex(&to_bytes(&global)),"proof_version":hex(&to_bytes(&ac.proof.proof_version)),"created":hex(&to_bytes(&ac.proof.created_at)),
                                "issuer":hex(&to_bytes(&ac.issuer)),"statements":hex(&to_bytes(&ac.subject.statements)),"network":hex(&to_bytes(&ac.subject.network)),
                                "cred_id":hex(&to_bytes(&ac.subject.cred_id)),
                                "x":hex(&to_bytes(&x)),"keys":hex(&to_bytes(&global.on_chain_commitment_key)),"C":hex(&to_bytes(com)),
                                "public":hex(&to_bytes(&public_pt)),"coeff":hex(&to_bytes(&global.on_chain_commitment_key.h)),"point":hex(&to_bytes(&point)),
                                "fs":hex(avp.proof.challenge.as_ref())});
                        }
                    }
                }
            }
        }
        println!("{}", out);

        // ------------------------------------------------------------ two credentials: the claim LISTS have to match pairwise, in order
        if ncred == 2 && verified {
            let netn = |n: Network| if n == Network::Testnet { 0 } else { 1 };
            let ips: Vec<IpIdentity> = creds.iter().map(|c| match c { Cred::Account { issuer, .. } | Cred::Identity { issuer, .. } => *issuer }).collect();
            let cls: Vec<RequestedIdentitySubjectClaims> = creds.iter().zip(ips.iter()).map(|(c, ip)| RequestedIdentitySubjectClaims {
                statements: c.ss().iter().map(requested).collect(), issuers: vec![IdentityProviderDid::new(ip.0, network)],
                source: vec![if matches!(c, Cred::Account { .. }) { IdentityCredentialType::AccountCredential } else { IdentityCredentialType::IdentityCredential }] }).collect();
            let validity = CredentialValidityType::ValidityPeriod(CredentialValidity { valid_to: YearMonth::new(2030, 5).unwrap(), created_at: YearMonth::new(2020, 5).unwrap() });
            let mat: Vec<VerificationMaterialWithValidity> = creds.iter().map(|c| VerificationMaterialWithValidity { verification_material: c.material().clone(), validity: validity.clone() }).collect();
            let vctx = VerificationContext { network, validity_time: now };
            let orders: Vec<(&str, Vec<usize>)> = vec![("claims_in_order", vec![0, 1]), ("claims_swapped", vec![1, 0]), ("claims_first_only", vec![0]), ("claims_first_twice", vec![0, 0]), ("claims_one_extra", vec![0, 1, 0])];
            for (name, ord) in orders {
                let sel: Vec<RequestedIdentitySubjectClaims> = ord.iter().map(|k| cls[*k].clone()).collect();
                let d = VerificationRequestDataBuilder::new(unfilled.clone()).subject_claims(sel.iter().cloned().map(RequestedSubjectClaims::Identity)).build();
                let vreq = VerificationRequest { context: unfilled.clone(), subject_claims: d.subject_claims.clone(), anchor_transaction_hash: hashes::TransactionHash::new([9u8; 32]) };
                let vra = VerificationRequestAnchorAndBlockHash { verification_request_anchor: d.to_anchor(None), block_hash: bh };
                let res = guarded(|| verify_presentation_with_request_anchor(&global, &vctx, &vreq, &pres, &vra, &mat));
                let rs = match res { Ok(PresentationVerificationResult::Verified) => "Verified".to_string(), Ok(PresentationVerificationResult::Failed(f)) => format!("Failed({:?})", f), Err(_) => "PANIC".into() };
                println!("{}", json!({"k":"match2","name":name,"i":i,"result":rs,
                    "rqs": ord.iter().map(|k| json!({"issuers":[[ips[*k].0, netn(network)]],"source":[creds[*k].kind()],"ss":creds[*k].ss().iter().map(s1_json).collect::<Vec<_>>()})).collect::<Vec<_>>(),
                    "pcs": creds.iter().zip(ips.iter()).map(|(c, ip)| json!({"kind":c.kind(),"issuer":ip.0,"net":netn(network),"ss":c.ss().iter().map(s1_json).collect::<Vec<_>>()})).collect::<Vec<_>>()}));
            }
        }
        // ------------------------------------------------------------ request anchor verification
        if ncred == 1 {
            let c = &creds[0];
            let ip = match c { Cred::Account { issuer, .. } | Cred::Identity { issuer, .. } => *issuer };
            let claims = RequestedIdentitySubjectClaims {
                statements: c.ss().iter().map(requested).collect(),
                issuers: vec![IdentityProviderDid::new(ip.0, network), IdentityProviderDid::new(ip.0 + 100, network)],
                source: vec![IdentityCredentialType::IdentityCredential, IdentityCredentialType::AccountCredential],
            };
            let data = VerificationRequestDataBuilder::new(unfilled.clone()).subject_claim(claims.clone()).build();
            let anchor = data.to_anchor(None);
            let vreq = VerificationRequest { context: unfilled.clone(), subject_claims: data.subject_claims.clone(),
                anchor_transaction_hash: hashes::TransactionHash::new([9u8; 32]) };
            let vra = VerificationRequestAnchorAndBlockHash { verification_request_anchor: anchor.clone(), block_hash: bh };
            let validity = CredentialValidityType::ValidityPeriod(CredentialValidity { valid_to: YearMonth::new(2030, 5).unwrap(), created_at: YearMonth::new(2020, 5).unwrap() });
            let mat = vec![VerificationMaterialWithValidity { verification_material: c.material().clone(), validity: validity.clone() }];
            let vctx = VerificationContext { network, validity_time: now };
            let run = |name: &str, expect_ok: bool, vctx: &VerificationContext, vreq: &VerificationRequest, p: &Pres, vra: &VerificationRequestAnchorAndBlockHash, mat: &Vec<VerificationMaterialWithValidity>| {
                let res = guarded(|| verify_presentation_with_request_anchor(&global, vctx, vreq, p, vra, mat));
                let rs = match res { Ok(PresentationVerificationResult::Verified) => "Verified".to_string(), Ok(PresentationVerificationResult::Failed(f)) => format!("Failed({:?})", f), Err(_) => "PANIC".into() };
                println!("{}", json!({"k":"anchor","name":name,"i":i,"kind":c.kind(),"expect_ok":expect_ok,"result":rs}));
            };
            run("honest", verified, &vctx, &vreq, &pres, &vra, &mat);
            if verified {
                let on = if network == Network::Testnet { Network::Mainnet } else { Network::Testnet };
                run("wrong_network", false, &VerificationContext { network: on, validity_time: now }, &vreq, &pres, &vra, &mat);
                let t0 = chrono::DateTime::parse_from_rfc3339("2020-04-30T23:59:59Z").unwrap().to_utc();
                let t1 = chrono::DateTime::parse_from_rfc3339("2020-05-01T00:00:00Z").unwrap().to_utc();
                let t2 = chrono::DateTime::parse_from_rfc3339("2030-05-31T23:59:59Z").unwrap().to_utc();
                let t3 = chrono::DateTime::parse_from_rfc3339("2030-06-01T00:00:00Z").unwrap().to_utc();
                run("not_yet_valid", false, &VerificationContext { network, validity_time: t0 }, &vreq, &pres, &vra, &mat);
                run("first_valid_instant", true, &VerificationContext { network, validity_time: t1 }, &vreq, &pres, &vra, &mat);
                run("last_valid_instant", true, &VerificationContext { network, validity_time: t2 }, &vreq, &pres, &vra, &mat);
                run("expired", false, &VerificationContext { network, validity_time: t3 }, &vreq, &pres, &vra, &mat);
                let mut vra2 = vra.clone(); vra2.block_hash = block_hash(&mut r);
                run("anchor_block_hash", false, &vctx, &vreq, &pres, &vra2, &mat);
                let mut vra3 = vra.clone(); let mut hb = [0u8; 32]; hb.copy_from_slice(anchor.hash.as_ref()); hb[3] ^= 8; vra3.verification_request_anchor.hash = hashes::Hash::new(hb);
                run("anchor_hash", false, &vctx, &vreq, &pres, &vra3, &mat);
                // a request that differs from the anchored one (nonce)
                let mut vreq2 = vreq.clone(); vreq2.context.given[1] = LabeledContextProperty::ConnectionId("other".into());
                run("request_context_differs_from_anchor", false, &vctx, &vreq2, &pres, &vra, &mat);
                // a request (and matching anchor) for other context than the presentation
                let data2 = VerificationRequestDataBuilder::new(vreq2.context.clone()).subject_claim(claims.clone()).build();
                let vra4 = VerificationRequestAnchorAndBlockHash { verification_request_anchor: data2.to_anchor(None), block_hash: bh };
                run("request_context_differs_from_presentation", false, &vctx, &vreq2, &pres, &vra4, &mat);
                // issuer / credential type not allowed by the (consistently anchored) request
                let mut cl = claims.clone(); cl.issuers = vec![IdentityProviderDid::new(ip.0 + 100, network)];
                let d3 = VerificationRequestDataBuilder::new(unfilled.clone()).subject_claim(cl).build();
                let vreq3 = VerificationRequest { context: unfilled.clone(), subject_claims: d3.subject_claims.clone(), anchor_transaction_hash: vreq.anchor_transaction_hash };
                run("issuer_not_allowed", false, &vctx, &vreq3, &pres, &VerificationRequestAnchorAndBlockHash { verification_request_anchor: d3.to_anchor(None), block_hash: bh }, &mat);
                let mut cl = claims.clone(); cl.source = vec![if matches!(c, Cred::Account { .. }) { IdentityCredentialType::IdentityCredential } else { IdentityCredentialType::AccountCredential }];
                let d4 = VerificationRequestDataBuilder::new(unfilled.clone()).subject_claim(cl).build();
                let vreq4 = VerificationRequest { context: unfilled.clone(), subject_claims: d4.subject_claims.clone(), anchor_transaction_hash: vreq.anchor_transaction_hash };
                run("credential_type_not_allowed", false, &vctx, &vreq4, &pres, &VerificationRequestAnchorAndBlockHash { verification_request_anchor: d4.to_anchor(None), block_hash: bh }, &mat);
                // the request asks for other statements than the presentation proves
                if let Some(s) = c.ss().first() {
                    let v = c.al().iter().find(|(t, _)| *t == s.tag()).map(|(_, a)| a.clone()).unwrap();
                    let s2 = match s { S1::Value(t, _) => c.al().iter().find(|(t2, _)| t2 != t).map(|(t2, a)| S1::Value(*t2, a.clone())), other => alter_s1(&mut r, other, &v) };
                    if let Some(s2) = s2 {
                        if format!("{}", serde_json::to_string(&requested(&s2)).unwrap_or_default()) != format!("{}", serde_json::to_string(&requested(s)).unwrap_or_default()) {
                            let mut cl = claims.clone(); cl.statements[0] = requested(&s2);
                            let d5 = VerificationRequestDataBuilder::new(unfilled.clone()).subject_claim(cl).build();
                            let vreq5 = VerificationRequest { context: unfilled.clone(), subject_claims: d5.subject_claims.clone(), anchor_transaction_hash: vreq.anchor_transaction_hash };
                            run("requested_statement_differs", false, &vctx, &vreq5, &pres, &VerificationRequestAnchorAndBlockHash { verification_request_anchor: d5.to_anchor(None), block_hash: bh }, &mat);
                        }
                    }
                    let mut cl = claims.clone(); cl.statements.pop();
                    let d6 = VerificationRequestDataBuilder::new(unfilled.clone()).subject_claim(cl).build();
                    let vreq6 = VerificationRequest { context: unfilled.clone(), subject_claims: d6.subject_claims.clone(), anchor_transaction_hash: vreq.anchor_transaction_hash };
                    run("requested_statement_removed", false, &vctx, &vreq6, &pres, &VerificationRequestAnchorAndBlockHash { verification_request_anchor: d6.to_anchor(None), block_hash: bh }, &mat);
                }
                // presentation without the block hash in its context cannot even be produced for this request; drop it afterwards
                let mut p2 = pres.clone(); p2.presentation_context.requested.clear();
                run("presentation_without_block_hash", false, &vctx, &vreq, &p2, &vra, &mat);
                // ---- allowed-issuer / allowed-type lists with several entries: ONE entry has to match all fields
                let on = if network == Network::Testnet { Network::Mainnet } else { Network::Testnet };
                let kind_t = if matches!(c, Cred::Account { .. }) { IdentityCredentialType::AccountCredential } else { IdentityCredentialType::IdentityCredential };
                let other_t = if matches!(c, Cred::Account { .. }) { IdentityCredentialType::IdentityCredential } else { IdentityCredentialType::AccountCredential };
                let did = |i: u32, n: Network| IdentityProviderDid::new(i, n);
                let lists: Vec<(&str, Vec<IdentityProviderDid>, Vec<IdentityCredentialType>)> = vec![
                    ("issuers_first_of_two", vec![did(ip.0, network), did(ip.0 + 1, on)], vec![kind_t]),
                    ("issuers_second_of_two", vec![did(ip.0 + 1, on), did(ip.0, network)], vec![other_t, kind_t]),
                    ("issuers_third_of_three", vec![did(ip.0 + 1, network), did(ip.0, on), did(ip.0, network)], vec![kind_t, other_t]),
                    ("issuers_cross_ip_and_network", vec![did(ip.0, on), did(ip.0 + 1, network)], vec![kind_t]),
                    ("issuers_cross_three", vec![did(ip.0 + 2, network), did(ip.0, on), did(ip.0 + 1, network)], vec![kind_t, other_t]),
                    ("issuers_same_ip_other_network_twice", vec![did(ip.0, on), did(ip.0, on)], vec![kind_t]),
                    ("issuers_same_network_other_ips", vec![did(ip.0 + 1, network), did(ip.0 + 2, network)], vec![kind_t]),
                    ("issuers_empty", vec![], vec![kind_t]),
                    ("source_empty", vec![did(ip.0, network)], vec![]),
                    ("source_other_twice", vec![did(ip.0, network)], vec![other_t, other_t]),
                    ("source_duplicate_match", vec![did(ip.0, network), did(ip.0, network)], vec![kind_t, kind_t]),
                    ("type_ok_issuer_cross", vec![did(ip.0, on), did(ip.0 + 7, network)], vec![other_t, kind_t]),
                    ("type_bad_issuer_ok", vec![did(ip.0, network)], vec![other_t]),
                ];
                for (name, issuers, source) in lists {
                    let mut cl = claims.clone(); cl.issuers = issuers.clone(); cl.source = source.clone();
                    let d7 = VerificationRequestDataBuilder::new(unfilled.clone()).subject_claim(cl.clone()).build();
                    let vreq7 = VerificationRequest { context: unfilled.clone(), subject_claims: d7.subject_claims.clone(), anchor_transaction_hash: vreq.anchor_transaction_hash };
                    let vra7 = VerificationRequestAnchorAndBlockHash { verification_request_anchor: d7.to_anchor(None), block_hash: bh };
                    let res = guarded(|| verify_presentation_with_request_anchor(&global, &vctx, &vreq7, &pres, &vra7, &mat));
                    let rs = match res { Ok(PresentationVerificationResult::Verified) => "Verified".to_string(), Ok(PresentationVerificationResult::Failed(f)) => format!("Failed({:?})", f), Err(_) => "PANIC".into() };
                    let netn = |n: Network| if n == Network::Testnet { 0 } else { 1 };
                    println!("{}", json!({"k":"match","name":name,"i":i,"kind":c.kind(),"result":rs,
                        "rq":{"issuers":issuers.iter().map(|d| json!([d.identity_provider.0, netn(d.network)])).collect::<Vec<_>>(),
                              "source":source.iter().map(|t| if *t == IdentityCredentialType::AccountCredential {"account"} else {"identity"}).collect::<Vec<_>>(),
                              "ss":c.ss().iter().map(s1_json).collect::<Vec<_>>()},
                        "pc":{"kind":c.kind(),"issuer":ip.0,"net":netn(network),"ss":c.ss().iter().map(s1_json).collect::<Vec<_>>()}}));
                }
            }
            if verified && !c.ss().is_empty() {
                // statement lists: a request with one statement less / one more
                let netn = |n: Network| if n == Network::Testnet { 0 } else { 1 };
                for (name, drop) in [("statements_request_shorter", true), ("statements_request_longer", false)] {
                    let mut cl = claims.clone();
                    if drop { cl.statements.pop(); } else { cl.statements.push(RequestedStatement::RevealAttribute(RevealAttributeStatement { attribute_tag: AttributeTag(c.al()[0].0) })); }
                    let d9 = VerificationRequestDataBuilder::new(unfilled.clone()).subject_claim(cl.clone()).build();
                    let vreq9 = VerificationRequest { context: unfilled.clone(), subject_claims: d9.subject_claims.clone(), anchor_transaction_hash: vreq.anchor_transaction_hash };
                    let vra9 = VerificationRequestAnchorAndBlockHash { verification_request_anchor: d9.to_anchor(None), block_hash: bh };
                    let res = guarded(|| verify_presentation_with_request_anchor(&global, &vctx, &vreq9, &pres, &vra9, &mat));
                    let rs = match res { Ok(PresentationVerificationResult::Verified) => "Verified".to_string(), Ok(PresentationVerificationResult::Failed(f)) => format!("Failed({:?})", f), Err(_) => "PANIC".into() };
                    let mut rqss: Vec<J> = c.ss().iter().map(s1_json).collect();
                    if drop { rqss.pop(); } else { rqss.push(json!({"s":"reveal","tag":c.al()[0].0})); }
                    println!("{}", json!({"k":"match","name":name,"i":i,"kind":c.kind(),"result":rs,
                        "rq":{"issuers":cl.issuers.iter().map(|d| json!([d.identity_provider.0, netn(d.network)])).collect::<Vec<_>>(),
                              "source":["identity","account"],"ss":rqss},
                        "pc":{"kind":c.kind(),"issuer":ip.0,"net":netn(network),"ss":c.ss().iter().map(s1_json).collect::<Vec<_>>()}}));
                }
            }
            // ---- consistent lies: the prover builds the presentation FROM THE START with claimed metadata that differs
            // from the verification material / public data the verifier resolves; every one must be rejected
            if verified {
                let lie_row = |name: &str, proved: &str, res: J| println!("{}", json!({"k":"lie","flow":"v1","name":name,"i":i,"seed":seed,"kind":c.kind(),"cred":cj[0],"prove":proved,"verify":res}));
                let try_lie = |name: &str, req: RequestV1<ArCurve, W>, inp: CredentialProofPrivateInputs<'_, IpPairing, ArCurve, W>, mats: &[Mat]| {
                    let p = guarded(|| req.prove_with_rng(&global, vec![inp].into_iter(), &mut StdRng::seed_from_u64(seed + i + 77), now));
                    match p {
                        Ok(Ok(p)) => lie_row(name, "Some", vb(&p, &global, mats)),
                        Ok(Err(_)) => lie_row(name, "Err", J::Null),
                        Err(_) => lie_row(name, "PANIC", J::Null),
                    }
                };
                match c {
                    Cred::Account { ss, cred_id, network, issuer, inputs: OwnedCredentialProofPrivateInputs::Account(own), .. } => {
                        // issuer: claims and private inputs name another identity provider; material (resolved by cred id) has the true one
                        let lie_ip = IpIdentity(issuer.0 + 1);
                        let req = RequestV1 { context: context.clone(), subject_claims: vec![SubjectClaims::Account(AccountBasedSubjectClaims { network: *network, issuer: lie_ip, cred_id: *cred_id, statements: ss.iter().map(mk1).collect() })] };
                        let inp = CredentialProofPrivateInputs::Account(AccountCredentialProofPrivateInputs { issuer: lie_ip, attribute_values: &own.attribute_values, attribute_randomness: &own.attribute_randomness });
                        try_lie("account_issuer", req, inp, &mats);
                        // cred id: the presentation names another registered credential; the verifier resolves THAT credential's commitments
                        if !ss.is_empty() {
                            let other = gen_cred(&mut r, &mut csprng, &global, &idp, false, true, *network, Some((c.al().clone(), vec![])));
                            if let Cred::Account { cred_id: cid2, material: m2, .. } = &other {
                                let req = RequestV1 { context: context.clone(), subject_claims: vec![SubjectClaims::Account(AccountBasedSubjectClaims { network: *network, issuer: *issuer, cred_id: *cid2, statements: ss.iter().map(mk1).collect() })] };
                                let inp = CredentialProofPrivateInputs::Account(AccountCredentialProofPrivateInputs { issuer: *issuer, attribute_values: &own.attribute_values, attribute_randomness: &own.attribute_randomness });
                                let mut m2 = m2.clone();
                                if let CredentialVerificationMaterial::Account(am) = &mut m2 { am.issuer = *issuer; }
                                try_lie("account_cred_id_of_other_credential", req, inp, &[m2]);
                            }
                        }
                        // credential type: account credential presented where the verifier resolves identity material
                        let req = RequestV1 { context: context.clone(), subject_claims: vec![c.claims()] };
                        try_lie("account_presented_against_identity_material", req, c.inputs().borrow(), &[idp.material_identity()]);
                    }
                    Cred::Identity { ss, network, issuer, inputs: OwnedCredentialProofPrivateInputs::Identity(own), .. } => {
                        // issuer: the prover runs with an ip_info naming another identity provider; the verifier resolves the
                        // material of the CLAIMED provider (another key) or is handed the true provider's material
                        let mut ip2 = own.ip_info.clone(); ip2.ip_identity = IpIdentity(issuer.0 + 1);
                        let mk_req = |iss: IpIdentity, net: Network| RequestV1 { context: context.clone(), subject_claims: vec![SubjectClaims::Identity(IdentityBasedSubjectClaims { network: net, issuer: iss, statements: ss.iter().map(mk1).collect() })] };
                        let inp = || CredentialProofPrivateInputs::Identity(IdentityCredentialProofPrivateInputs { ip_context: IpContextOnly { ip_info: &ip2, ars_infos: &own.ars_infos.anonymity_revokers }, id_object: &own.id_object, id_object_use_data: &own.id_object_use_data });
                        try_lie("identity_issuer_vs_true_material", mk_req(ip2.ip_identity, *network), inp(), &mats);
                        let mut other_mat = idp_other.material_identity();
                        if let CredentialVerificationMaterial::Identity(im) = &mut other_mat { im.ip_info.ip_identity = ip2.ip_identity; }
                        try_lie("identity_issuer_vs_claimed_providers_material", mk_req(ip2.ip_identity, *network), inp(), &[other_mat]);
                        // validity: the identity object is altered to claim a longer validity than the provider signed
                        let cloned: Option<IdentityObjectV1<IpPairing, ArCurve, W>> = guarded(|| serde_json::to_value(&own.id_object).ok().and_then(|v| serde_json::from_value(v).ok())).ok().flatten();
                        if let Some(mut ido) = cloned {
                            ido.alist.valid_to = YearMonth::new(2040, 1).unwrap();
                            let inp2 = CredentialProofPrivateInputs::Identity(IdentityCredentialProofPrivateInputs { ip_context: IpContextOnly { ip_info: &own.ip_info, ars_infos: &own.ars_infos.anonymity_revokers }, id_object: &ido, id_object_use_data: &own.id_object_use_data });
                            try_lie("identity_validity_extended", mk_req(*issuer, *network), inp2, &mats);
                            let mut ido2: IdentityObjectV1<IpPairing, ArCurve, W> = serde_json::from_value(serde_json::to_value(&own.id_object).unwrap()).unwrap();
                            if let Some((t0, a0)) = c.al().first() {
                                ido2.alist.alist.insert(AttributeTag(*t0), W::mk(&succ_attr_pub(a0, 1).unwrap_or(A::N(77))).unwrap());
                                let inp3 = CredentialProofPrivateInputs::Identity(IdentityCredentialProofPrivateInputs { ip_context: IpContextOnly { ip_info: &own.ip_info, ars_infos: &own.ars_infos.anonymity_revokers }, id_object: &ido2, id_object_use_data: &own.id_object_use_data });
                                try_lie("identity_attribute_value_forged", mk_req(*issuer, *network), inp3, &mats);
                            }
                        }
                        // credential type: identity credential presented where the verifier resolves account material
                        let am = CredentialVerificationMaterial::Account(AccountCredentialVerificationMaterial { issuer: *issuer, attribute_commitments: BTreeMap::new() });
                        try_lie("identity_presented_against_account_material", mk_req(*issuer, *network), c.inputs().borrow(), &[am]);
                    }
                    _ => {}
                }
                // network: claimed network differs from the network the verifier works on (request-anchor flow)
                let on = if network == Network::Testnet { Network::Mainnet } else { Network::Testnet };
                let lie_claims = match c.claims() {
                    SubjectClaims::Account(mut a) => { a.network = on; SubjectClaims::Account(a) }
                    SubjectClaims::Identity(mut a) => { a.network = on; SubjectClaims::Identity(a) }
                };
                let req = RequestV1 { context: context.clone(), subject_claims: vec![lie_claims] };
                let p = guarded(|| req.prove_with_rng(&global, vec![c.inputs().borrow()].into_iter(), &mut StdRng::seed_from_u64(seed + i + 78), now));
                if let Ok(Ok(p)) = p {
                    // the allowed issuers are listed for BOTH networks, so only the network check can reject
                    let mut cl = claims.clone(); cl.issuers = vec![IdentityProviderDid::new(ip.0, network), IdentityProviderDid::new(ip.0, on)];
                    let d8 = VerificationRequestDataBuilder::new(unfilled.clone()).subject_claim(cl).build();
                    let vreq8 = VerificationRequest { context: unfilled.clone(), subject_claims: d8.subject_claims.clone(), anchor_transaction_hash: vreq.anchor_transaction_hash };
                    let vra8 = VerificationRequestAnchorAndBlockHash { verification_request_anchor: d8.to_anchor(None), block_hash: bh };
                    let res = guarded(|| verify_presentation_with_request_anchor(&global, &vctx, &vreq8, &p, &vra8, &mat));
                    let ok = matches!(res, Ok(PresentationVerificationResult::Verified));
                    lie_row("network_claimed_other_than_verification_context", "Some", if res.is_err() { json!("PANIC") } else { json!(ok) });
                    // control: the same two-network issuer list accepts the honest presentation
                    let res = guarded(|| verify_presentation_with_request_anchor(&global, &vctx, &vreq8, &pres, &vra8, &mat));
                    println!("{}", json!({"k":"anchor","name":"two_network_issuer_list_honest","i":i,"kind":c.kind(),"expect_ok":true,
                        "result": match res { Ok(PresentationVerificationResult::Verified) => "Verified".to_string(), Ok(PresentationVerificationResult::Failed(f)) => format!("Failed({:?})", f), Err(_) => "PANIC".into() }}));
                }
            }
        }
    }
    multi(seed, (n / 4).max(2), &global, &idp, &idp_other);
    crafted_sharing(seed, &global, &idp);
}

/// An identity object whose `choice_ar_parameters` differ on ONE call of `get_common_pio_fields`: the call
/// with which `prove_identity_attributes` picks the number of IdCredSec sharing coefficients.  Everything
/// else (the signed threshold, the claimed threshold, the ephemeral id) keeps the signed value.
struct CraftedIdObject<'a> {
    inner: &'a IdentityObjectV1<IpPairing, ArCurve, W>,
    alt: ChoiceArParameters,
    calls: std::cell::Cell<u32>,
    alt_on_call: u32,
}
impl HasIdentityObjectFields<IpPairing, ArCurve, W> for CraftedIdObject<'_> {
    fn get_common_pio_fields(&self) -> CommonPioFields<'_, IpPairing, ArCurve> {
        let n = self.calls.get() + 1;
        self.calls.set(n);
        let mut f = self.inner.get_common_pio_fields();
        if n == self.alt_on_call { f.choice_ar_parameters = &self.alt; }
        f
    }
    fn get_attribute_list(&self) -> &AttributeList<Scalar, W> { self.inner.get_attribute_list() }
    fn get_signature(&self) -> &concordium_base::ps_sig::Signature<IpPairing> { self.inner.get_signature() }
}

/// Crafted prover: number of sharing-coefficient commitments = threshold - 1 / threshold / threshold + 1.
fn crafted_sharing(seed: u64, global: &GlobalContext<ArCurve>, idp: &Idp) {
    let mut r = Rng::new(seed ^ 0x6372);
    let mut csprng = StdRng::seed_from_u64(seed ^ 0x6372);
    let now = chrono::DateTime::parse_from_rfc3339("2024-02-29T12:00:00Z").unwrap().to_utc();
    for (ci, ss) in [vec![S1::Value(1, A::N(42))], vec![S1::Base(St::Range(1, A::N(40), A::N(50)))], vec![]].into_iter().enumerate() {
        let c = gen_cred(&mut r, &mut csprng, global, idp, true, true, Network::Testnet, Some((vec![(1u8, A::N(42)), (2u8, A::S("DK".into()))], ss)));
        let Cred::Identity { inputs: OwnedCredentialProofPrivateInputs::Identity(own), .. } = &c else { continue };
        let params = own.id_object.get_common_pio_fields().choice_ar_parameters.clone();
        let t: u8 = params.threshold.into();
        let context = ContextInformation { given: vec![LabeledContextProperty::ConnectionId("crafted".into()).to_context_property()], requested: vec![] };
        for delta in [-1i32, 0, 1] {
            let nt = t as i32 + delta;
            if nt < 1 { continue; }
            let Ok(alt_t) = concordium_base::id::secret_sharing::Threshold::try_from(nt as u8) else { continue };
            // which call picks the sharing threshold is an implementation detail: try the first few positions and keep
            // the presentation that is crafted as intended (coefficients = t + delta, claimed threshold = t)
            let mut reported = false;
            for call in 1u32..=6 {
                let crafted = CraftedIdObject { inner: &own.id_object, alt: ChoiceArParameters { ar_identities: params.ar_identities.clone(), threshold: alt_t }, calls: std::cell::Cell::new(0), alt_on_call: call };
                let inp = CredentialProofPrivateInputs::Identity(IdentityCredentialProofPrivateInputs { ip_context: IpContextOnly { ip_info: &own.ip_info, ars_infos: &own.ars_infos.anonymity_revokers }, id_object: &crafted, id_object_use_data: &own.id_object_use_data });
                let req = RequestV1 { context: context.clone(), subject_claims: vec![c.claims()] };
                let p = guarded(|| req.prove_with_rng(global, vec![inp].into_iter(), &mut StdRng::seed_from_u64(seed + 31 * call as u64), now));
                let Ok(Ok(p)) = p else { continue };
                let Some(CredentialV1::Identity(ic)) = p.verifiable_credentials.first() else { continue };
                let ncoeff = ic.proof.proof_value.identity_attributes_proofs.cmm_id_cred_sec_sharing_coeff.len();
                let claimed: Option<u8> = ic.subject.cred_id.try_to_data::<ArCurve>().ok().map(|d| d.threshold.into());
                if ncoeff as i32 == nt && claimed == Some(t) {
                    let res = vb(&p, global, &[c.material().clone()]);
                    println!("{}", json!({"k":"crafted","name":"sharing_coefficients","case":ci,"delta":delta,"threshold":t,"ncoeff":ncoeff,"claimed_threshold":claimed,"call":call,"verify":res}));
                    reported = true;
                    break;
                }
            }
            if !reported { println!("{}", json!({"k":"crafted","name":"sharing_coefficients","case":ci,"delta":delta,"threshold":t,"ncoeff":null,"verify":null})); }
        }
    }
}

/// Presentations with three credentials: every per-credential check of the request-anchor verification
/// (validity period, allowed issuer, allowed type, network, cryptographic verification, statements)
/// must fail with ONE bad credential at EACH position.
fn multi(seed: u64, n: u64, global: &GlobalContext<ArCurve>, idp: &Idp, idp_other: &Idp) {
    let mut r = Rng::new(seed ^ 0x6d75);
    let mut csprng = StdRng::seed_from_u64(seed ^ 0x6d75);
    let now = chrono::DateTime::parse_from_rfc3339("2024-02-29T12:00:00Z").unwrap().to_utc();
    let netn = |n: Network| if n == Network::Testnet { 0 } else { 1 };
    for i in 0..n {
        let network = if i % 2 == 0 { Network::Testnet } else { Network::Mainnet };
        let on = if network == Network::Testnet { Network::Mainnet } else { Network::Testnet };
        let al = || vec![(1u8, A::N(42 + i)), (2u8, A::S("DK".into())), (3u8, A::S("19970505".into()))];
        let sss: Vec<Vec<S1>> = vec![
            vec![S1::Value(1, A::N(42 + i))],
            vec![S1::Base(St::Range(3, A::S("19970505".into()), A::S("19970506".into()))), S1::Base(St::NotIn(2, vec![A::S("DE".into())]))],
            vec![S1::Base(St::In(2, vec![A::S("DK".into()), A::S("NO".into())])), S1::Value(1, A::N(42 + i))],
        ];
        let kinds: Vec<bool> = (0..3).map(|j| (i + j) % 2 == 0 || (i % 3 == 0 && j == 1)).collect(); // true = identity
        let mk_creds = |r: &mut Rng, csprng: &mut StdRng, nets: [Network; 3]| -> Vec<Cred> {
            (0..3).map(|j| gen_cred(r, csprng, global, idp, kinds[j], true, nets[j], Some((al(), sss[j].clone())))).collect()
        };
        let creds = mk_creds(&mut r, &mut csprng, [network; 3]);
        let bh = block_hash(&mut r);
        let nonce = { let b = r.bytes(32); let mut a = [0u8; 32]; a.copy_from_slice(&b); Nonce(a) };
        let unfilled = UnfilledContextInformation { given: vec![LabeledContextProperty::Nonce(nonce), LabeledContextProperty::ConnectionId("multi".into())], requested: vec![ContextLabel::BlockHash] };
        let context = ContextInformation { given: unfilled.given.iter().map(|p| p.to_context_property()).collect(), requested: vec![LabeledContextProperty::BlockHash(bh).to_context_property()] };
        let prove = |creds: &Vec<Cred>, sd: u64| -> Option<Pres> {
            let request = RequestV1 { context: context.clone(), subject_claims: creds.iter().map(|c| c.claims()).collect() };
            guarded(|| request.prove_with_rng(global, creds.iter().map(|c| c.inputs().borrow()).collect::<Vec<_>>().into_iter(), &mut StdRng::seed_from_u64(sd), now)).ok().and_then(|x| x.ok())
        };
        let pres = match prove(&creds, seed + i) { Some(p) => p, None => { println!("{}", json!({"k":"multi","name":"prove_failed","i":i,"pos":-1,"expect_ok":true,"result":"NoPresentation"})); continue; } };
        let ips: Vec<IpIdentity> = creds.iter().map(|c| match c { Cred::Account { issuer, .. } | Cred::Identity { issuer, .. } => *issuer }).collect();
        let kind_t = |c: &Cred| if matches!(c, Cred::Account { .. }) { IdentityCredentialType::AccountCredential } else { IdentityCredentialType::IdentityCredential };
        let other_t = |c: &Cred| if matches!(c, Cred::Account { .. }) { IdentityCredentialType::IdentityCredential } else { IdentityCredentialType::AccountCredential };
        let base_claims: Vec<RequestedIdentitySubjectClaims> = creds.iter().zip(ips.iter()).map(|(c, ip)| RequestedIdentitySubjectClaims {
            statements: c.ss().iter().map(requested).collect(),
            issuers: vec![IdentityProviderDid::new(ip.0 + 50, network), IdentityProviderDid::new(ip.0, network), IdentityProviderDid::new(ip.0, on)],
            source: vec![kind_t(c)] }).collect();
        let good = CredentialValidity { valid_to: YearMonth::new(2030, 5).unwrap(), created_at: YearMonth::new(2020, 5).unwrap() };
        let expired = CredentialValidity { valid_to: YearMonth::new(2024, 1).unwrap(), created_at: YearMonth::new(2020, 5).unwrap() };
        let not_yet = CredentialValidity { valid_to: YearMonth::new(2030, 5).unwrap(), created_at: YearMonth::new(2024, 3).unwrap() };
        let last_month = CredentialValidity { valid_to: YearMonth::new(2024, 2).unwrap(), created_at: YearMonth::new(2024, 2).unwrap() };
        let vctx = VerificationContext { network, validity_time: now };
        let run = |name: &str, pos: i64, expect_ok: bool, cls: &Vec<RequestedIdentitySubjectClaims>, p: &Pres, vals: &Vec<CredentialValidity>, mats: &Vec<Mat>| {
            let d = VerificationRequestDataBuilder::new(unfilled.clone()).subject_claims(cls.iter().cloned().map(RequestedSubjectClaims::Identity)).build();
            let vreq = VerificationRequest { context: unfilled.clone(), subject_claims: d.subject_claims.clone(), anchor_transaction_hash: hashes::TransactionHash::new([9u8; 32]) };
            let vra = VerificationRequestAnchorAndBlockHash { verification_request_anchor: d.to_anchor(None), block_hash: bh };
            let mat: Vec<VerificationMaterialWithValidity> = mats.iter().zip(vals.iter()).map(|(m, v)| VerificationMaterialWithValidity { verification_material: m.clone(), validity: CredentialValidityType::ValidityPeriod(v.clone()) }).collect();
            let res = guarded(|| verify_presentation_with_request_anchor(global, &vctx, &vreq, p, &vra, &mat));
            let rs = match res { Ok(PresentationVerificationResult::Verified) => "Verified".to_string(), Ok(PresentationVerificationResult::Failed(f)) => format!("Failed({:?})", f), Err(_) => "PANIC".into() };
            let ms = |v: &CredentialValidity| json!([v.created_at.lower().map(|t| t.timestamp_millis()), v.valid_to.upper().map(|t| t.timestamp_millis())]);
            println!("{}", json!({"k":"multi","name":name,"i":i,"pos":pos,"kinds":creds.iter().map(|c| c.kind()).collect::<Vec<_>>(),"expect_ok":expect_ok,"result":rs,
                "validities":vals.iter().map(ms).collect::<Vec<_>>(),"now":now.timestamp_millis(),"validity_case":name.starts_with("validity")}));
        };
        let mats: Vec<Mat> = creds.iter().map(|c| c.material().clone()).collect();
        let goods = vec![good.clone(); 3];
        run("validity_all_good", -1, true, &base_claims, &pres, &goods, &mats);
        run("validity_all_last_month", -1, true, &base_claims, &pres, &vec![last_month.clone(); 3], &mats);
        for pos in 0..3usize {
            for (nm, bad) in [("validity_expired", &expired), ("validity_not_yet_valid", &not_yet)] {
                let mut v = goods.clone(); v[pos] = bad.clone();
                run(nm, pos as i64, false, &base_claims, &pres, &v, &mats);
            }
            let mut v = vec![expired.clone(); 3]; v[pos] = good.clone();
            run("validity_only_this_one_good", pos as i64, false, &base_claims, &pres, &v, &mats);
            let mut cl = base_claims.clone(); cl[pos].issuers = vec![IdentityProviderDid::new(ips[pos].0 + 50, network), IdentityProviderDid::new(ips[pos].0, on)];
            run("issuer_not_allowed_at", pos as i64, false, &cl, &pres, &goods, &mats);
            let mut cl = base_claims.clone(); cl[pos].source = vec![other_t(&creds[pos])];
            run("type_not_allowed_at", pos as i64, false, &cl, &pres, &goods, &mats);
            let mut cl = base_claims.clone(); cl[pos].statements.pop();
            run("statements_differ_at", pos as i64, false, &cl, &pres, &goods, &mats);
            let mut m2 = mats.clone();
            m2[pos] = match &mats[pos] {
                CredentialVerificationMaterial::Account(am) => { let mut a = am.clone(); for (_, c) in a.attribute_commitments.iter_mut() { *c = Commitment(c.0.plus_point(&global.on_chain_commitment_key.h)); } CredentialVerificationMaterial::Account(a) }
                CredentialVerificationMaterial::Identity(_) => idp_other.material_identity(),
            };
            run("material_wrong_at", pos as i64, false, &base_claims, &pres, &goods, &m2);
            // network: credential `pos` is presented (from the start) for the other network
            let mut nets = [network; 3]; nets[pos] = on;
            let creds2 = mk_creds(&mut r, &mut csprng, nets);
            if let Some(p2) = prove(&creds2, seed + i + 500 + pos as u64) {
                let ips2: Vec<IpIdentity> = creds2.iter().map(|c| match c { Cred::Account { issuer, .. } | Cred::Identity { issuer, .. } => *issuer }).collect();
                let cl2: Vec<RequestedIdentitySubjectClaims> = creds2.iter().zip(ips2.iter()).map(|(c, ip)| RequestedIdentitySubjectClaims {
                    statements: c.ss().iter().map(requested).collect(), issuers: vec![IdentityProviderDid::new(ip.0, network), IdentityProviderDid::new(ip.0, on)], source: vec![kind_t(c)] }).collect();
                let mats2: Vec<Mat> = creds2.iter().map(|c| c.material().clone()).collect();
                run("network_other_at", pos as i64, false, &cl2, &p2, &goods, &mats2);
            }
        }
    }
}

impl Idp {
    fn material_identity(&self) -> Mat {
        CredentialVerificationMaterial::Identity(IdentityCredentialVerificationMaterial { ip_info: self.ip_info.clone(), ars_infos: self.ars.clone() })
    }
}
