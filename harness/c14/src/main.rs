//! C14 executor: reads host-call "scripts" (one JSON object per line) from stdin, assembles each
//! into a Wasm module with a tiny built-in assembler, instantiates it WITHOUT metering and runs it
//! through the real v0/v1 engine entry points once per requested energy budget.
//! Usage: `c14 run < scripts.jsonl > results.jsonl`
use concordium_contracts_common::{
    AccountAddress, Address, Amount, ChainMetadata, ContractAddress, OwnedEntrypointName, Parameter,
    ReceiveName, Timestamp,
};
use concordium_smart_contract_engine::{v0, v1, v1::trie, InterpreterEnergy};
use concordium_wasm::{
    artifact::{Artifact, CompiledFunction},
    utils::instantiate,
    validate::ValidationConfig,
};
use hlib::{guarded, hex, unhex};
use serde_json::{json, Value};
use std::{
    io::{BufRead, Write},
    sync::Arc,
};

const I32: u8 = 0x7f;
const I64: u8 = 0x7e;
type HF = (&'static str, &'static [u8], Option<u8>);

const V0F: &[HF] = &[
    ("accept", &[], Some(I32)),
    ("simple_transfer", &[I32, I64], Some(I32)),
    ("send", &[I64, I64, I32, I32, I64, I32, I32], Some(I32)),
    ("combine_and", &[I32, I32], Some(I32)),
    ("combine_or", &[I32, I32], Some(I32)),
    ("get_parameter_size", &[], Some(I32)),
    ("get_parameter_section", &[I32, I32, I32], Some(I32)),
    ("get_policy_section", &[I32, I32, I32], Some(I32)),
    ("log_event", &[I32, I32], Some(I32)),
    ("load_state", &[I32, I32, I32], Some(I32)),
    ("write_state", &[I32, I32, I32], Some(I32)),
    ("resize_state", &[I32], Some(I32)),
    ("state_size", &[], Some(I32)),
    ("get_init_origin", &[I32], None),
    ("get_receive_invoker", &[I32], None),
    ("get_receive_self_address", &[I32], None),
    ("get_receive_self_balance", &[], Some(I64)),
    ("get_receive_sender", &[I32], None),
    ("get_receive_owner", &[I32], None),
    ("get_slot_time", &[], Some(I64)),
];

const V1F: &[HF] = &[
    ("invoke", &[I32, I32, I32], Some(I64)),
    ("write_output", &[I32, I32, I32], Some(I32)),
    ("get_parameter_size", &[I32], Some(I32)),
    ("get_parameter_section", &[I32, I32, I32, I32], Some(I32)),
    ("get_policy_section", &[I32, I32, I32], Some(I32)),
    ("log_event", &[I32, I32], Some(I32)),
    ("get_init_origin", &[I32], None),
    ("get_receive_invoker", &[I32], None),
    ("get_receive_self_address", &[I32], None),
    ("get_receive_self_balance", &[], Some(I64)),
    ("get_receive_sender", &[I32], None),
    ("get_receive_owner", &[I32], None),
    ("get_receive_entrypoint_size", &[], Some(I32)),
    ("get_receive_entrypoint", &[I32], None),
    ("get_slot_time", &[], Some(I64)),
    ("state_lookup_entry", &[I32, I32], Some(I64)),
    ("state_create_entry", &[I32, I32], Some(I64)),
    ("state_delete_entry", &[I32, I32], Some(I32)),
    ("state_delete_prefix", &[I32, I32], Some(I32)),
    ("state_iterate_prefix", &[I32, I32], Some(I64)),
    ("state_iterator_next", &[I64], Some(I64)),
    ("state_iterator_delete", &[I64], Some(I32)),
    ("state_iterator_key_size", &[I64], Some(I32)),
    ("state_iterator_key_read", &[I64, I32, I32, I32], Some(I32)),
    ("state_entry_read", &[I64, I32, I32, I32], Some(I32)),
    ("state_entry_write", &[I64, I32, I32, I32], Some(I32)),
    ("state_entry_size", &[I64], Some(I32)),
    ("state_entry_resize", &[I64, I32], Some(I32)),
    ("verify_ed25519_signature", &[I32, I32, I32, I32], Some(I32)),
    ("verify_ecdsa_secp256k1_signature", &[I32, I32, I32], Some(I32)),
    ("hash_sha2_256", &[I32, I32, I32], None),
    ("hash_sha3_256", &[I32, I32, I32], None),
    ("hash_keccak_256", &[I32, I32, I32], None),
    ("upgrade", &[I32], Some(I64)), // pv >= 5 only; must stay last
];

// ---------------------------------------------------------------- mini assembler
fn uleb(o: &mut Vec<u8>, mut v: u64) {
    loop {
        let b = (v & 0x7f) as u8;
        v >>= 7;
        if v == 0 {
            o.push(b);
            break;
        }
        o.push(b | 0x80);
    }
}
fn sleb(o: &mut Vec<u8>, mut v: i64) {
    loop {
        let b = (v & 0x7f) as u8;
        v >>= 7;
        let done = (v == 0 && b & 0x40 == 0) || (v == -1 && b & 0x40 != 0);
        o.push(if done { b } else { b | 0x80 });
        if done {
            break;
        }
    }
}
fn name(o: &mut Vec<u8>, s: &str) {
    uleb(o, s.len() as u64);
    o.extend_from_slice(s.as_bytes());
}
fn section(m: &mut Vec<u8>, id: u8, body: &[u8]) {
    m.push(id);
    uleb(m, body.len() as u64);
    m.extend_from_slice(body);
}
fn functype(o: &mut Vec<u8>, ps: &[u8], r: Option<u8>) {
    o.push(0x60);
    uleb(o, ps.len() as u64);
    o.extend_from_slice(ps);
    match r {
        Some(t) => o.extend_from_slice(&[1, t]),
        None => o.push(0),
    }
}
fn i32c(o: &mut Vec<u8>, v: u32) {
    o.push(0x41);
    sleb(o, v as i32 as i64);
}
fn i64c(o: &mut Vec<u8>, v: u64) {
    o.push(0x42);
    sleb(o, v as i64);
}
fn memop(o: &mut Vec<u8>, op: u8, align: u64, off: u64) {
    o.push(op);
    uleb(o, align);
    uleb(o, off);
}
/// Wrap function bodies (each: locals vec + code, without size prefix) into a code section body.
fn code_section(bodies: &[Vec<u8>]) -> Vec<u8> {
    let mut c = Vec::new();
    uleb(&mut c, bodies.len() as u64);
    for b in bodies {
        uleb(&mut c, b.len() as u64);
        c.extend_from_slice(b);
    }
    c
}

struct Call {
    f: String,
    a: Vec<(bool, u64)>, // (is_slot, value)
}
struct Script {
    id: Value,
    ver: u64,
    kind: String,
    pv: u64,
    pages: u64,
    param: Vec<u8>,
    policy: Vec<u8>,
    sender_acc: bool,
    state0: Vec<u8>,
    state0_kv: Vec<(Vec<u8>, Vec<u8>)>,
    data: Vec<(u64, Vec<u8>)>,
    calls: Vec<Call>,
    ret: i32,
    resp: Vec<Value>,
    energies: Vec<u64>,
    n: u64,
}

fn num(v: &Value) -> Result<u64, String> {
    match v {
        Value::String(s) => {
            if let Some(r) = s.strip_prefix('-') {
                r.parse::<u64>().map(|x| (x as i64).wrapping_neg() as u64).map_err(|e| e.to_string())
            } else {
                s.parse::<u64>().map_err(|e| format!("bad number {}: {}", s, e))
            }
        }
        Value::Number(n) => n.as_u64().or_else(|| n.as_i64().map(|x| x as u64)).ok_or_else(|| "bad number".to_string()),
        Value::Null => Ok(0),
        _ => Err("bad number".into()),
    }
}
fn hx(v: &Value) -> Vec<u8> { v.as_str().map(unhex).unwrap_or_default() }

fn parse_script(v: &Value) -> Result<Script, String> {
    let mut calls = Vec::new();
    for c in v["calls"].as_array().map(|a| a.as_slice()).unwrap_or(&[]) {
        let mut a = Vec::new();
        for x in c["a"].as_array().map(|a| a.as_slice()).unwrap_or(&[]) {
            let slot = match x[0].as_str() {
                Some("c") => false,
                Some("s") => true,
                _ => return Err("bad argument kind".into()),
            };
            a.push((slot, num(&x[1])?));
        }
        calls.push(Call { f: c["f"].as_str().unwrap_or("").to_string(), a });
    }
    let mut data = Vec::new();
    for d in v["data"].as_array().map(|a| a.as_slice()).unwrap_or(&[]) {
        data.push((num(&d[0])?, hx(&d[1])));
    }
    let mut energies = Vec::new();
    for e in v["energies"].as_array().map(|a| a.as_slice()).unwrap_or(&[]) {
        energies.push(num(e)?);
    }
    let (mut state0, mut state0_kv) = (Vec::new(), Vec::new());
    match &v["state0"] {
        Value::String(s) => state0 = unhex(s),
        Value::Array(a) => {
            for kv in a {
                state0_kv.push((hx(&kv[0]), hx(&kv[1])));
            }
        }
        _ => {}
    }
    Ok(Script {
        id: v["id"].clone(),
        ver: num(&v["ver"])?,
        kind: v["kind"].as_str().unwrap_or("init").to_string(),
        pv: if v["pv"].is_null() { 7 } else { num(&v["pv"])? },
        pages: if v["pages"].is_null() { 1 } else { num(&v["pages"])? },
        param: hx(&v["param"]),
        policy: hx(&v["policy"]),
        sender_acc: v["sender"].as_str() != Some("con"),
        state0,
        state0_kv,
        data,
        calls,
        ret: num(&v["ret"])? as i64 as i32,
        resp: v["resp"].as_array().cloned().unwrap_or_default(),
        energies,
        n: num(&v["n"])?,
    })
}

fn host_table(sc: &Script) -> &'static [HF] {
    if sc.ver == 0 {
        V0F
    } else if sc.pv >= 5 {
        V1F
    } else {
        &V1F[..V1F.len() - 1]
    }
}

fn build_module(sc: &Script) -> Result<Vec<u8>, String> {
    let mut m = vec![0x00, 0x61, 0x73, 0x6d, 0x01, 0x00, 0x00, 0x00];
    let export = if sc.kind == "recv" { "c.recv" } else { "init_c" };
    if sc.kind == "depth" {
        let mut t = vec![2u8];
        functype(&mut t, &[I32], Some(I32));
        functype(&mut t, &[I64], Some(I32));
        section(&mut m, 1, &t);
        section(&mut m, 3, &[2, 0, 1]);
        section(&mut m, 5, &[1, 0x00, 1]);
        let mut e = vec![1u8];
        name(&mut e, export);
        e.extend_from_slice(&[0x00, 1]);
        section(&mut m, 7, &e);
        // $rec
        let mut rec = vec![0u8, 0x20, 0x00, 0x45, 0x04, 0x7f];
        i32c(&mut rec, 0);
        rec.extend_from_slice(&[0x05, 0x20, 0x00]);
        i32c(&mut rec, 1);
        rec.extend_from_slice(&[0x6b, 0x10, 0x00, 0x0b, 0x0b]);
        let mut main = vec![0u8];
        i32c(&mut main, sc.n as u32);
        main.extend_from_slice(&[0x10, 0x00, 0x0b]);
        section(&mut m, 10, &code_section(&[rec, main]));
        return Ok(m);
    }
    let tbl = host_table(sc);
    // types: one per import, then (i64)->i32
    let mut t = Vec::new();
    uleb(&mut t, tbl.len() as u64 + 1);
    for (_, ps, r) in tbl {
        functype(&mut t, ps, *r);
    }
    functype(&mut t, &[I64], Some(I32));
    section(&mut m, 1, &t);
    let mut im = Vec::new();
    uleb(&mut im, tbl.len() as u64);
    for (i, (n, _, _)) in tbl.iter().enumerate() {
        name(&mut im, "concordium");
        name(&mut im, n);
        im.push(0x00);
        uleb(&mut im, i as u64);
    }
    section(&mut m, 2, &im);
    let mut f = vec![1u8];
    uleb(&mut f, tbl.len() as u64);
    section(&mut m, 3, &f);
    let mut mem = vec![1u8, 0x00];
    uleb(&mut mem, sc.pages);
    section(&mut m, 5, &mem);
    let mut e = vec![1u8];
    name(&mut e, export);
    e.push(0x00);
    uleb(&mut e, tbl.len() as u64);
    section(&mut m, 7, &e);
    // body
    let mut b = vec![0u8];
    for (i, c) in sc.calls.iter().enumerate() {
        let (idx, (_, ps, r)) = tbl
            .iter()
            .enumerate()
            .find(|(_, h)| h.0 == c.f)
            .ok_or_else(|| format!("unknown host function {}", c.f))?;
        if ps.len() != c.a.len() {
            return Err(format!("arity mismatch for {}: {} != {}", c.f, c.a.len(), ps.len()));
        }
        if r.is_some() {
            i32c(&mut b, 8 * i as u32);
        }
        for (p, (slot, v)) in ps.iter().zip(c.a.iter()) {
            match (*p == I32, *slot) {
                (true, false) => i32c(&mut b, *v as u32),
                (false, false) => i64c(&mut b, *v),
                (true, true) => {
                    i32c(&mut b, 0);
                    memop(&mut b, 0x28, 2, 8 * *v);
                }
                (false, true) => {
                    i32c(&mut b, 0);
                    memop(&mut b, 0x29, 3, 8 * *v);
                }
            }
        }
        b.push(0x10);
        uleb(&mut b, idx as u64);
        match r {
            Some(I32) => memop(&mut b, 0x36, 2, 0),
            Some(_) => memop(&mut b, 0x37, 3, 0),
            None => {}
        }
    }
    i32c(&mut b, sc.ret as u32);
    b.push(0x0b);
    section(&mut m, 10, &code_section(&[b]));
    if !sc.data.is_empty() {
        let mut d = Vec::new();
        uleb(&mut d, sc.data.len() as u64);
        for (off, bytes) in &sc.data {
            d.push(0x00);
            i32c(&mut d, *off as u32);
            d.push(0x0b);
            uleb(&mut d, bytes.len() as u64);
            d.extend_from_slice(bytes);
        }
        section(&mut m, 11, &d);
    }
    Ok(m)
}

// ---------------------------------------------------------------- contexts
fn addr(base: u8) -> AccountAddress {
    let mut a = [0u8; 32];
    for (i, x) in a.iter_mut().enumerate() {
        *x = base + i as u8;
    }
    AccountAddress(a)
}
fn metadata() -> ChainMetadata {
    ChainMetadata { slot_time: Timestamp::from_timestamp_millis(0x0102030405060708) }
}
fn init_ctx(sc: &Script) -> v0::InitContext<Vec<u8>> {
    v0::InitContext { metadata: metadata(), init_origin: addr(0x10), sender_policies: sc.policy.clone() }
}
fn recv_ctx(sc: &Script) -> v0::ReceiveContext<Vec<u8>> {
    v0::ReceiveContext {
        metadata: metadata(),
        invoker: addr(0x30),
        self_address: ContractAddress { index: 0x0102030405060708, subindex: 0x1112131415161718 },
        self_balance: Amount::from_micro_ccd(0x2122232425262728),
        sender: if sc.sender_acc {
            Address::Account(addr(0x70))
        } else {
            Address::Contract(ContractAddress { index: 0x0807060504030201, subindex: 0x1817161514131211 })
        },
        owner: addr(0x50),
        sender_policies: sc.policy.clone(),
    }
}

// ---------------------------------------------------------------- results
struct Out {
    out: &'static str,
    code: Option<i32>,
    rem: Option<u64>,
    state: Value,
    logs: Vec<Vec<String>>,
    rv: Option<Vec<u8>>,
    actions: Value,
    ints: Vec<String>,
    changed: Vec<bool>,
    nested: Vec<Value>,
    msg: Option<String>,
}
impl Out {
    fn new() -> Self {
        Out { out: "PANIC", code: None, rem: None, state: Value::Null, logs: vec![], rv: None, actions: Value::Null, ints: vec![], changed: vec![], nested: vec![], msg: None }
    }
    fn fin(mut self, out: &'static str, rem: Option<u64>, msg: Option<String>) -> Self {
        self.out = out;
        self.rem = rem;
        self.msg = msg;
        self
    }
    fn print(&self, w: &mut impl Write, id: &Value, e: u64, logs_null: bool) {
        let msg = self.msg.as_ref().map(|m| m.chars().take(200).collect::<String>());
        let j = json!({"id": id, "e": e.to_string(), "out": self.out, "code": self.code,
            "rem": self.rem.map(|r| r.to_string()), "state": self.state,
            "logs": if logs_null { Value::Null } else { json!(self.logs) },
            "rv": self.rv.as_ref().map(|r| hex(r)), "actions": self.actions,
            "ints": self.ints, "changed": self.changed, "nested": self.nested, "msg": msg});
        writeln!(w, "{}", j).unwrap();
    }
}
fn logs_seg(l: &v0::Logs) -> Vec<String> { l.iterate().map(|x| hex(x)).collect() }
fn kv_json(kv: Vec<(Vec<u8>, Vec<u8>)>) -> Value {
    let mut kv = kv;
    kv.sort();
    Value::Array(kv.iter().map(|(k, v)| json!([hex(k), hex(v)])).collect())
}
fn new_loader() -> trie::Loader<Vec<u8>> { trie::Loader { inner: Vec::<u8>::new() } }
/// Freeze the mutable state and list its entries (under `guarded`).
fn dump_state(ms: &mut trie::MutableState) -> Result<Value, String> {
    guarded(|| {
        let mut loader = new_loader();
        let ps = ms.freeze(&mut loader, &mut trie::EmptyCollector);
        kv_json(ps.into_iterator(&mut loader).collect())
    })
}

type Art0 = Artifact<v0::ProcessedImports, CompiledFunction>;
type Art1 = Arc<Artifact<v1::ProcessedImports, CompiledFunction>>;
type Ctx1 = v1::ReceiveContext<Vec<u8>>;
type RR1 = v1::ReceiveResult<CompiledFunction, (), Ctx1>;

fn action_json(a: &v0::Action) -> Value {
    match a {
        v0::Action::Accept => json!(["accept"]),
        v0::Action::SimpleTransfer { data } => json!(["transfer", hex(&data.to_addr.0), data.amount.micro_ccd.to_string()]),
        v0::Action::Send { data } => json!(["send", data.to_addr.index.to_string(), data.to_addr.subindex.to_string(),
            data.name.as_receive_name().get_chain_name(), data.amount.micro_ccd.to_string(), hex(data.parameter.as_ref())]),
        v0::Action::And { l, r } => json!(["and", l, r]),
        v0::Action::Or { l, r } => json!(["or", l, r]),
    }
}

fn run_v0(art: &Art0, sc: &Script, energy: u64) -> Out {
    let o = Out::new();
    let limit = sc.pv == 4;
    let e = InterpreterEnergy::new(energy);
    if sc.kind == "recv" {
        let max_param = if sc.pv == 4 { 1024 } else { 65535 };
        let r = guarded(|| {
            v0::invoke_receive(
                art,
                recv_ctx(sc),
                v0::ReceiveInvocation { amount: 0, receive_name: "c.recv", parameter: Parameter::new_unchecked(&sc.param), energy: e },
                &sc.state0,
                max_param,
                limit,
            )
        });
        match r {
            Err(p) => o.fin("PANIC", None, Some(p)),
            Ok(Err(err)) => o.fin("trap", None, Some(format!("{:#}", err))),
            Ok(Ok(v0::ReceiveResult::OutOfEnergy)) => o.fin("ooe", None, None),
            Ok(Ok(v0::ReceiveResult::Reject { reason, remaining_energy })) => {
                let mut o = o.fin("reject", Some(remaining_energy.energy), None);
                o.code = Some(reason);
                o
            }
            Ok(Ok(v0::ReceiveResult::Success { state, logs, actions, remaining_energy })) => {
                let mut o = o.fin("success", Some(remaining_energy.energy), None);
                o.state = json!(hex(&state.state));
                o.logs.push(logs_seg(&logs));
                o.actions = Value::Array(actions.iter().map(action_json).collect());
                o
            }
        }
    } else {
        let r = guarded(|| {
            v0::invoke_init(
                art,
                init_ctx(sc),
                v0::InitInvocation { amount: 0, init_name: "init_c", parameter: Parameter::new_unchecked(&sc.param), energy: e },
                limit,
            )
        });
        match r {
            Err(p) => o.fin("PANIC", None, Some(p)),
            Ok(Err(err)) => o.fin("trap", None, Some(format!("{:#}", err))),
            Ok(Ok(v0::InitResult::OutOfEnergy)) => o.fin("ooe", None, None),
            Ok(Ok(v0::InitResult::Reject { reason, remaining_energy })) => {
                let mut o = o.fin("reject", Some(remaining_energy.energy), None);
                o.code = Some(reason);
                o
            }
            Ok(Ok(v0::InitResult::Success { state, logs, remaining_energy })) => {
                let mut o = o.fin("success", Some(remaining_energy.energy), None);
                o.state = json!(hex(&state.state));
                o.logs.push(logs_seg(&logs));
                o
            }
        }
    }
}

fn run_v1_init(art: &Art1, sc: &Script, energy: u64) -> Out {
    let o = Out::new();
    let r = guarded(|| {
        v1::invoke_init::<_, CompiledFunction, ()>(
            art.clone(),
            init_ctx(sc),
            v1::InitInvocation { amount: Amount::from_micro_ccd(0), init_name: "init_c", parameter: &sc.param, energy: InterpreterEnergy::new(energy) },
            sc.pv == 4,
            new_loader(),
        )
    });
    match r {
        Err(p) => o.fin("PANIC", None, Some(p)),
        Ok(Err(err)) => o.fin("invalid", None, Some(err.to_string())),
        Ok(Ok(v1::InitResult::OutOfEnergy { .. })) => o.fin("ooe", None, None),
        Ok(Ok(v1::InitResult::Trap { error, remaining_energy, .. })) => o.fin("trap", Some(remaining_energy.energy), Some(format!("{:#}", error))),
        Ok(Ok(v1::InitResult::Reject { reason, return_value, remaining_energy, .. })) => {
            let mut o = o.fin("reject", Some(remaining_energy.energy), None);
            o.code = Some(reason);
            o.rv = Some(return_value);
            o
        }
        Ok(Ok(v1::InitResult::Success { logs, return_value, remaining_energy, mut state, .. })) => {
            let mut o = o.fin("success", Some(remaining_energy.energy), None);
            o.logs.push(logs_seg(&logs));
            o.rv = Some(return_value);
            match dump_state(&mut state) {
                Ok(s) => o.state = s,
                Err(p) => return o.fin("PANIC", None, Some(format!("state dump: {}", p))),
            }
            o
        }
    }
}

fn parse_response(r: Option<&Value>) -> Result<(v1::InvokeResponse, bool), String> {
    let dflt = json!({"k":"ok","bal":"2387225703656530728","data":null,"upd":false});
    let r = r.unwrap_or(&dflt);
    let upd = r["upd"].as_bool().unwrap_or(false);
    use v1::InvokeFailure::*;
    let resp = match r["k"].as_str() {
        Some("ok") => v1::InvokeResponse::Success {
            new_balance: Amount::from_micro_ccd(num(&r["bal"])?),
            data: r["data"].as_str().map(unhex),
        },
        Some("rej") => v1::InvokeResponse::Failure {
            kind: ContractReject { code: num(&r["code"])? as i64 as i32, data: hx(&r["data"]) },
        },
        Some("fail") => v1::InvokeResponse::Failure {
            kind: match num(&r["n"])? {
                1 => InsufficientAmount,
                2 => NonExistentAccount,
                3 => NonExistentContract,
                4 => NonExistentEntrypoint,
                5 => SendingV0Failed,
                6 => RuntimeError,
                7 => UpgradeInvalidModuleRef,
                8 => UpgradeInvalidContractName,
                9 => UpgradeInvalidVersion,
                10 => SignatureDataMalformed,
                11 => SignatureCheckFailed,
                n => return Err(format!("bad failure kind {}", n)),
            },
        },
        _ => return Err("bad response kind".into()),
    };
    Ok((resp, upd))
}

/// Run the nested (re-entrant) script of a response on a fresh generation of the state.
/// Returns (class, remaining energy, the new mutable state if the run succeeded).
fn run_nested(outer: &Script, nv: &Value, ms: &mut trie::MutableState) -> Result<(u64, u64, Option<trie::MutableState>), String> {
    let mut v = nv.clone();
    v["ver"] = json!(1);
    v["kind"] = json!("recv");
    v["pv"] = json!(outer.pv);
    v["pages"] = json!(1);
    v["sender"] = json!(if outer.sender_acc { "acc" } else { "con" });
    v["policy"] = json!(hex(&outer.policy));
    v["energies"] = json!([]);
    let nsc = parse_script(&v)?;
    let bytes = build_module(&nsc)?;
    let imp = v1::ConcordiumAllowedImports { support_upgrade: nsc.pv >= 5, enable_debug: false };
    let art: Art1 = match guarded(|| instantiate::<v1::ProcessedImports, _>(ValidationConfig::V1, &imp, &bytes)) {
        Err(p) => return Err(format!("PANIC nested instantiate: {}", p)),
        Ok(Err(e)) => return Err(format!("nested builderr {:#}", e)),
        Ok(Ok(m)) => Arc::new(m.artifact),
    };
    let energy = num(&nv["energy"])?;
    let params = match nsc.pv {
        4 => v1::ReceiveParams::new_p4(),
        5 => v1::ReceiveParams::new_p5(),
        6 => v1::ReceiveParams::new_p6(),
        _ => v1::ReceiveParams::new_p7(),
    };
    let ctx: Ctx1 = v1::ReceiveContext { common: recv_ctx(&nsc), entrypoint: OwnedEntrypointName::new_unchecked("recv".into()) };
    let r = guarded(|| {
        let mut loader = new_loader();
        let mut inner_ms = ms.make_fresh_generation(&mut loader);
        let res = {
            let inner = inner_ms.get_inner(&mut loader);
            let st = v1::InstanceState::new(loader, inner);
            v1::invoke_receive::<_, CompiledFunction, CompiledFunction, Art1, Ctx1, Ctx1, ()>(
                art.clone(),
                ctx,
                v1::ReceiveInvocation {
                    amount: Amount::from_micro_ccd(0),
                    receive_name: ReceiveName::new_unchecked("c.recv"),
                    parameter: &nsc.param,
                    energy: InterpreterEnergy::new(energy),
                },
                st,
                params,
            )
        };
        (res.map_err(|e| e.to_string()), inner_ms)
    });
    match r {
        Err(p) => Err(format!("PANIC nested: {}", p)),
        Ok((Err(m), _)) => Err(format!("nested invalid return: {}", m)),
        Ok((Ok(rr), inner_ms)) => Ok(match rr {
            v1::ReceiveResult::Success { remaining_energy, .. } => (0, remaining_energy.energy, Some(inner_ms)),
            v1::ReceiveResult::Reject { remaining_energy, .. } => (1, remaining_energy.energy, None),
            v1::ReceiveResult::Trap { remaining_energy, .. } => (2, remaining_energy.energy, None),
            v1::ReceiveResult::OutOfEnergy { .. } => (3, 0, None),
            v1::ReceiveResult::Interrupt { remaining_energy, .. } => (2, remaining_energy.energy, None),
        }),
    }
}

enum StepErr {
    Invalid(String),
    TooMany,
}

fn run_v1_recv(art: &Art1, sc: &Script, energy: u64) -> Out {
    let mut o = Out::new();
    let ms = guarded(|| trie::PersistentState::from_iterator(sc.state0_kv.iter().map(|(k, v)| (k.as_slice(), v.clone()))).thaw());
    let mut ms = match ms {
        Ok(ms) => ms,
        Err(p) => return o.fin("PANIC", None, Some(format!("state0: {}", p))),
    };
    let params = match sc.pv {
        4 => v1::ReceiveParams::new_p4(),
        5 => v1::ReceiveParams::new_p5(),
        6 => v1::ReceiveParams::new_p6(),
        _ => v1::ReceiveParams::new_p7(),
    };
    let ctx: Ctx1 = v1::ReceiveContext { common: recv_ctx(sc), entrypoint: OwnedEntrypointName::new_unchecked("recv".into()) };
    let mut step: Result<Result<RR1, StepErr>, String> = guarded(|| {
        let mut loader = new_loader();
        let inner = ms.get_inner(&mut loader);
        let st = v1::InstanceState::new(loader, inner);
        v1::invoke_receive::<_, CompiledFunction, CompiledFunction, Art1, Ctx1, Ctx1, ()>(
            art.clone(),
            ctx,
            v1::ReceiveInvocation {
                amount: Amount::from_micro_ccd(0),
                receive_name: ReceiveName::new_unchecked("c.recv"),
                parameter: &sc.param,
                energy: InterpreterEnergy::new(energy),
            },
            st,
            params,
        )
        .map_err(|e| StepErr::Invalid(e.to_string()))
    });
    let mut next_resp = 0usize;
    loop {
        match step {
            Err(p) => return o.fin("PANIC", None, Some(p)),
            Ok(Err(StepErr::Invalid(m))) => return o.fin("invalid", None, Some(m)),
            Ok(Err(StepErr::TooMany)) => return o.fin("trap", Some(0), Some("ResumeError::TooManyInterrupts".into())),
            Ok(Ok(rr)) => match rr {
                v1::ReceiveResult::OutOfEnergy { .. } => return o.fin("ooe", None, None),
                v1::ReceiveResult::Trap { error, remaining_energy, .. } => {
                    return o.fin("trap", Some(remaining_energy.energy), Some(format!("{:#}", error)))
                }
                v1::ReceiveResult::Reject { reason, return_value, remaining_energy, .. } => {
                    o.code = Some(reason);
                    o.rv = Some(return_value);
                    return o.fin("reject", Some(remaining_energy.energy), None);
                }
                v1::ReceiveResult::Success { logs, state_changed, return_value, remaining_energy, .. } => {
                    o.logs.push(logs_seg(&logs));
                    o.changed.push(state_changed);
                    o.rv = Some(return_value);
                    match dump_state(&mut ms) {
                        Ok(s) => o.state = s,
                        Err(p) => return o.fin("PANIC", None, Some(format!("state dump: {}", p))),
                    }
                    return o.fin("success", Some(remaining_energy.energy), None);
                }
                v1::ReceiveResult::Interrupt { remaining_energy, state_changed, logs, mut config, interrupt, .. } => {
                    if o.ints.len() >= 40 {
                        return o.fin("toomany", Some(remaining_energy.energy), None);
                    }
                    let mut ib = Vec::new();
                    if let Err(e) = interrupt.to_bytes(&mut ib) {
                        return o.fin("PANIC", None, Some(format!("interrupt.to_bytes: {}", e)));
                    }
                    o.ints.push(hex(&ib));
                    o.logs.push(logs_seg(&logs));
                    o.changed.push(state_changed);
                    let (resp, mut upd) = match parse_response(sc.resp.get(next_resp)) {
                        Ok(x) => x,
                        Err(m) => return o.fin("builderr", None, Some(m)),
                    };
                    // environment actions while the contract is interrupted (verification hooks / re-entrancy)
                    if let Some(rj) = sc.resp.get(next_resp) {
                        if let Some(sl) = rj.get("setlock").and_then(|x| x.as_array()) {
                            let key = hx(&sl[0]);
                            let count = num(&sl[1]).unwrap_or(0) as u32;
                            let r = guarded(|| {
                                let mut l = new_loader();
                                let inner = ms.get_inner(&mut l);
                                inner.lock().verif_set_lock_count(&key, count)
                            });
                            if let Err(p) = r {
                                return o.fin("PANIC", None, Some(format!("setlock: {}", p)));
                            }
                        }
                        if let Some(nv) = rj.get("nested").filter(|x| x.is_object()) {
                            match run_nested(sc, nv, &mut ms) {
                                Err(m) if m.starts_with("PANIC") => return o.fin("PANIC", None, Some(m)),
                                Err(m) => return o.fin("builderr", None, Some(m)),
                                Ok((cls, rem, new_ms)) => {
                                    o.nested.push(json!([cls, rem.to_string()]));
                                    let commit = nv["commit"].as_bool().unwrap_or(false);
                                    upd = false;
                                    if let (true, Some(nms)) = (commit, new_ms) {
                                        ms = nms;
                                        upd = true;
                                    }
                                }
                            }
                        }
                        if let Some(pad) = rj.get("pad").and_then(|x| num(x).ok()) {
                            if pad > 0 {
                                if let Err(p) = guarded(|| config.verif_pad_parameters(pad as usize)) {
                                    return o.fin("PANIC", None, Some(format!("pad: {}", p)));
                                }
                            }
                        }
                    }
                    next_resp += 1;
                    step = guarded(|| {
                        v1::resume_receive::<_, ()>(config, resp, remaining_energy, &mut ms, upd, new_loader()).map_err(|e| match e {
                            v1::ResumeError::TooManyInterrupts => StepErr::TooMany,
                            v1::ResumeError::InvalidReturn { error } => StepErr::Invalid(error.to_string()),
                        })
                    });
                }
            },
        }
    }
}

fn fail(w: &mut impl Write, sc: &Script, out: &'static str, msg: String) {
    for e in &sc.energies {
        Out::new().fin(out, None, Some(msg.clone())).print(w, &sc.id, *e, true);
    }
}

fn run_script(w: &mut impl Write, sc: &Script) {
    let bytes = match build_module(sc) {
        Ok(b) => b,
        Err(m) => return fail(w, sc, "builderr", m),
    };
    if sc.ver == 0 {
        let art: Art0 = match guarded(|| instantiate::<v0::ProcessedImports, _>(ValidationConfig::V0, &v0::ConcordiumAllowedImports, &bytes)) {
            Err(p) => return fail(w, sc, "PANIC", format!("instantiate: {}", p)),
            Ok(Err(e)) => return fail(w, sc, "builderr", format!("{:#}", e)),
            Ok(Ok(m)) => m.artifact,
        };
        for e in &sc.energies {
            run_v0(&art, sc, *e).print(w, &sc.id, *e, false);
        }
    } else {
        let imp = v1::ConcordiumAllowedImports { support_upgrade: sc.pv >= 5, enable_debug: false };
        let art: Art1 = match guarded(|| instantiate::<v1::ProcessedImports, _>(ValidationConfig::V1, &imp, &bytes)) {
            Err(p) => return fail(w, sc, "PANIC", format!("instantiate: {}", p)),
            Ok(Err(e)) => return fail(w, sc, "builderr", format!("{:#}", e)),
            Ok(Ok(m)) => Arc::new(m.artifact),
        };
        for e in &sc.energies {
            let o = if sc.kind == "recv" { run_v1_recv(&art, sc, *e) } else { run_v1_init(&art, sc, *e) };
            o.print(w, &sc.id, *e, false);
        }
    }
}

fn main() {
    hlib::quiet_panics();
    let args: Vec<String> = std::env::args().collect();
    if args.get(1).map(|s| s.as_str()) == Some("wasm") {
        // debugging aid: print the hex of the assembled module of each script
        for line in std::io::stdin().lock().lines() {
            let v: Value = serde_json::from_str(&line.unwrap()).unwrap();
            println!("{}", parse_script(&v).and_then(|s| build_module(&s)).map(|b| hex(&b)).unwrap_or_else(|e| e));
        }
        return;
    }
    if args.get(1).map(|s| s.as_str()) != Some("run") {
        eprintln!("usage: c14 run < scripts.jsonl > results.jsonl");
        std::process::exit(2);
    }
    let stdout = std::io::stdout();
    let mut w = std::io::BufWriter::new(stdout.lock());
    let t0 = std::time::Instant::now();
    let (mut ns, mut nr) = (0u64, 0u64);
    for line in std::io::stdin().lock().lines() {
        let line = line.unwrap();
        if line.trim().is_empty() {
            continue;
        }
        let parsed = serde_json::from_str::<Value>(&line).map_err(|e| e.to_string()).and_then(|v| parse_script(&v));
        match parsed {
            Ok(sc) => {
                ns += 1;
                nr += sc.energies.len() as u64;
                run_script(&mut w, &sc);
            }
            Err(m) => {
                let id = serde_json::from_str::<Value>(&line).map(|v| v["id"].clone()).unwrap_or(Value::Null);
                writeln!(w, "{}", json!({"id": id, "e": null, "out": "builderr", "code": null, "rem": null, "state": null, "logs": null,
                    "rv": null, "actions": null, "ints": [], "changed": [], "msg": format!("script: {}", m)})).unwrap();
            }
        }
    }
    w.flush().unwrap();
    eprintln!("c14: {} scripts, {} runs, {:.3}s", ns, nr, t0.elapsed().as_secs_f64());
}
