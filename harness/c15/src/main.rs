//! C15 harness: modes `slab` (slab-level PrefixesMap histories), `limits` (handle encodings / counters),
//! `energy` (charges of the InstanceState operations).  One module per mode; every line printed is one case.
mod slab;
mod limits;
mod energy;

fn main() {
    let a: Vec<String> = std::env::args().collect();
    let mode = a.get(1).map(|s| s.as_str()).unwrap_or("");
    let seed: u64 = a.get(2).and_then(|s| s.parse().ok()).unwrap_or(1);
    let n: usize = a.get(3).and_then(|s| s.parse().ok()).unwrap_or(100);
    match mode {
        "slab" => slab::run(seed, n),
        "limits" => limits::run(seed, n),
        "energy" => energy::run(seed, n),
        _ => {
            eprintln!("usage: c15 slab|limits|energy <seed> <n>");
            std::process::exit(2)
        }
    }
}
